"""AARE (AppArmor globbing) matcher over a variable table, used as an oracle by the searches."""
import re


class AareError(Exception):
    pass


def expand_text(p, vars_, depth=0):
    """textual expansion of @{variables} into AARE alternations (as the parser does before globbing)"""
    if depth > 25:
        raise AareError('variable nesting too deep')
    out, i = [], 0
    while i < len(p):
        if p.startswith('@{', i):
            j = p.find('}', i)
            name = p[i + 2:j]
            if j < 0 or name not in vars_:
                raise AareError('undefined variable ' + name)
            vals = [expand_text(v, vars_, depth + 1) for v in vars_[name]]
            out.append(vals[0] if len(vals) == 1 else '{' + ','.join(vals) + '}')
            i = j + 1
        else:
            out.append(p[i])
            i += 1
    return ''.join(out)


def to_regex(p, vars_, depth=0):
    """translate an AARE into a python regex (string)"""
    if depth == 0:
        p = expand_text(p, vars_)
    if depth > 60:
        raise AareError('nesting too deep')
    out = []
    i = 0
    n = len(p)
    while i < n:
        c = p[i]
        if c == '\\' and i + 1 < n:
            out.append(re.escape(p[i + 1]))
            i += 2
        elif c == '*':
            # as the reference parser translates it (apparmor_parser -D rule-exprs): a glob that is alone in its path component -
            # right behind a slash and followed by a slash or the end of the pattern - matches at least one character, and
            # that character is not a slash: `/a/**/b` does not match `/a/b`, `/a/*` does not match `/a/`
            two = i + 1 < n and p[i + 1] == '*'
            nxt = i + (2 if two else 1)
            alone = i >= 1 and p[i - 1] == '/' and ((nxt == n and depth == 0) or (nxt < n and p[nxt] == '/'))
            if two:
                out.append('[^/][\\s\\S]*' if alone else '[\\s\\S]*')
            else:
                out.append('[^/]+' if alone else '[^/]*')
            i = nxt
        elif c == '?':
            out.append('[^/]')
            i += 1
        elif c == '[':
            j = p.find(']', i + 1)
            if j < 0:
                raise AareError('unbalanced [')
            body = p[i + 1:j]
            if body.startswith('^') or body.startswith('!'):
                body = '^' + body[1:]
            out.append('[' + body.replace('\\', '\\\\').replace('[', '\\[') + ']')
            i = j + 1
        elif c == '{':
            # find the matching brace
            d, j = 0, i
            while j < n:
                if p[j] == '\\':
                    j += 2
                    continue
                if p[j] == '{':
                    d += 1
                elif p[j] == '}':
                    d -= 1
                    if d == 0:
                        break
                j += 1
            if j >= n:
                raise AareError('unbalanced {')
            body = p[i + 1:j]
            alts, d, cur = [], 0, ''
            k = 0
            while k < len(body):
                ch = body[k]
                if ch == '\\' and k + 1 < len(body):
                    cur += body[k:k + 2]
                    k += 2
                    continue
                if ch == '{':
                    d += 1
                elif ch == '}':
                    d -= 1
                if ch == ',' and d == 0:
                    alts.append(cur)
                    cur = ''
                else:
                    cur += ch
                k += 1
            alts.append(cur)
            out.append('(?:' + '|'.join(to_regex(a, vars_, depth + 1) for a in alts) + ')')
            i = j + 1
        elif c == '@' and i + 1 < n and p[i + 1] == '{':
            j = p.find('}', i)
            name = p[i + 2:j]
            if name not in vars_:
                raise AareError('undefined variable ' + name)
            out.append('(?:' + '|'.join(to_regex(v, vars_, depth + 1) for v in vars_[name]) + ')')
            i = j + 1
        elif c == '/':
            # duplicate slashes of a pattern (variable values end and start with one) count once
            out.append('(?:(?<!/)/|(?<=/))')
            i += 1
        else:
            out.append(re.escape(c))
            i += 1
    return ''.join(out)


_cache = {}


def matches(pattern, name, vars_):
    pattern = pattern.strip('"')
    key = pattern
    if key not in _cache:
        try:
            rx = to_regex(pattern, vars_)
            rx = re.sub(r'/+', '/', rx) if False else rx
            _cache[key] = re.compile('^' + rx + '$', re.S)
        except (AareError, re.error):
            _cache[key] = None
    r = _cache[key]
    if r is None:
        return None
    # the parser collapses duplicate slashes of the pattern
    return r.match(name) is not None or r.match(re.sub(r'/+', '/', name)) is not None


def parse_variables_dump(text):
    """output of `apparmor_parser -D variables`"""
    res = {}
    for l in text.split('\n'):
        m = re.match(r'^@(\S+) = (.*)$', l)
        if m:
            res[m.group(1)] = re.findall(r'"([^"]*)"', m.group(2))
    return res
