"""C01 — every built policy file loads in the AppArmor parser, in every configuration."""
import os
import re
import shutil
import subprocess
from concurrent.futures import ThreadPoolExecutor

import lib

THEOREMS = ['C01.C01_line_structure_kept', 'C01.C01_chain_is_line_structured', 'C01.C01_abi3_sets_aside', 'C01.C01_abi3_sets_aside_in_chain']
V4_RULE = re.compile(r'^(\s*)((?:audit\s+|deny\s+|allow\s+)*(?:userns|mqueue|io_uring|all)\b.*)$')


def make_overlay(ctx, tree, cfg, dst):
    """reference policy directory + the build on top of it"""
    shutil.copytree('/etc/apparmor.d', dst, symlinks=True)
    build = os.path.join(tree, '.build', 'apparmor.d')
    subprocess.run(['cp', '-a', build + '/.', dst + '/'], check=True)
    if cfg.abi == 4:
        # rule kinds that only exist in AppArmor 4 are set aside; the 4.0 feature file is taken to be the 3.0 one
        abi4 = os.path.join(dst, 'abi', '4.0')
        if not os.path.exists(abi4):
            shutil.copy(os.path.join(dst, 'abi', '3.0'), abi4)
        for d, _, files in os.walk(dst):
            for f in files:
                p = os.path.join(d, f)
                if os.path.islink(p):
                    continue
                try:
                    t = open(p, encoding='utf-8').read()
                except (UnicodeDecodeError, OSError):
                    continue
                if re.search(r'\b(userns|mqueue|io_uring|all)\b', t):
                    out = []
                    skipping = False
                    for l in t.split('\n'):
                        if skipping:
                            out.append('#' + l)
                            if l.rstrip().endswith(','):
                                skipping = False
                            continue
                        m = V4_RULE.match(l)
                        if m and not l.strip().startswith('#') and not l.strip().startswith('all' + 'ow'):
                            out.append(m.group(1) + '# ' + m.group(2))
                            if not l.rstrip().endswith(',') and not re.search(r',\s*#', l):
                                skipping = True
                        else:
                            out.append(l)
                    open(p, 'w', encoding='utf-8').write('\n'.join(out))
    if cfg.version == '4.1':
        # AppArmor 4.1 ships the abi/4.0 feature file, and the four files taken from the source tree below declare it
        # (whatever ABI the build itself targets); whether a BUILT file of an ABI 3 build still declares abi/4.0 is
        # checked on the build output itself, not through this file
        abi4 = os.path.join(dst, 'abi', '4.0')
        if not os.path.exists(abi4):
            shutil.copy(os.path.join(dst, 'abi', '3.0'), abi4)
        # files the configure task drops because AppArmor 4.1 ships them; the installed reference policy is 3.0.8
        for rel in ('abstractions/devices-usb-read', 'abstractions/devices-usb', 'abstractions/nameservice-strict', 'tunables/multiarch.d/base'):
            src = os.path.join(lib.REPO, 'apparmor.d', rel)
            if os.path.exists(src) and not os.path.exists(os.path.join(dst, rel)):
                os.makedirs(os.path.dirname(os.path.join(dst, rel)), exist_ok=True)
                shutil.copy(src, os.path.join(dst, rel))
    return dst


def parse_all(overlay, names, compile_=False):
    """-d: parse, resolve includes and variables, dump; without it the policy is also compiled (rules merged, x-modifier
    conflicts found), which takes about a minute per configuration on 16 cores"""
    def one(n):
        p = os.path.join(overlay, n)
        q = subprocess.run(['apparmor_parser', '-Q', '-K'] + ([] if compile_ else ['-d']) + ['-b', overlay, '-I', overlay, p], stdout=subprocess.DEVNULL, stderr=subprocess.PIPE, timeout=900)
        return n, q.returncode, q.stderr.decode('utf-8', 'replace')[-400:]
    with ThreadPoolExecutor(max_workers=16) as ex:
        return list(ex.map(one, names))


def run(ctx):
    ctx.build_go(prebuild=True)
    ctx.tables()
    broken = ctx.audit(THEOREMS)
    if shutil.which('apparmor_parser') is None:
        ctx.violation('apparmor_parser is not installed: acceptance cannot be decided', {}, concrete=False)
        return
    if ctx.tier == 'quick':
        cfgs = [lib.Cfg('arch', 4, '4.1', 'none', False), lib.Cfg('debian', 3, '3.0', 'enforce', False), lib.Cfg('ubuntu', 4, '4.0', 'complain', True),
                lib.Cfg('opensuse', 3, '3.0', 'none', True), lib.Cfg('whonix', 3, '3.0', 'complain', False), lib.Cfg('ubuntu', 3, '3.0', 'none', False),
                lib.Cfg('debian', 3, '4.0', 'none', False), lib.Cfg('arch', 4, '3.0', 'none', False)]       # ABI and version that disagree
        extra = lib.all_cfgs()
        cfgs += [extra[(ctx.seed * 7 + 3) % len(extra)]]
    else:
        cfgs = lib.all_cfgs()
    # full compile (rules merge without conflict): one --full configuration in the quick tier, six configurations in the thorough tier
    fulls = [c for c in cfgs if c.full]
    if ctx.tier == 'quick':
        compiled = {fulls[ctx.seed % len(fulls)].name()} if fulls else set()
    else:
        pick = [lib.Cfg('arch', 4, '4.1', 'none', True), lib.Cfg('debian', 3, '3.0', 'enforce', True), lib.Cfg('ubuntu', 4, '4.0', 'complain', False),
                lib.Cfg('opensuse', 3, '3.0', 'none', False), lib.Cfg('whonix', 4, '4.0', 'none', True), lib.Cfg('ubuntu', 3, '4.1', 'none', True)]
        compiled = {c.name() for c in pick}
    ncompiled = 0
    total = nrej = 0
    for cfg in cfgs:
        tree, out, rc = lib.real_build(ctx, cfg)
        if rc != 0:
            ctx.violation('prebuild failed for %s' % cfg, {'config': cfg.name(), 'output': out[-1500:]})
            shutil.rmtree(tree, ignore_errors=True)
            continue
        overlay = os.path.join(ctx.scratch, 'overlay-' + cfg.name())
        make_overlay(ctx, tree, cfg, overlay)
        build = os.path.join(tree, '.build', 'apparmor.d')
        names = sorted(n for n in os.listdir(build) if os.path.isfile(os.path.join(build, n)) and not os.path.islink(os.path.join(build, n)))
        if cfg.abi == 3:
            for n in names:
                t = open(os.path.join(build, n), encoding='utf-8', errors='replace').read()
                if re.search(r'(?m)^  (userns,|mqueue)', t) or 'abi/4.0' in t:
                    ctx.violation('%s: %s still holds an AppArmor-4 rule or declaration in an ABI 3 build' % (cfg.name(), n), {'config': cfg.name(), 'file': n})
        res = parse_all(overlay, names)
        if cfg.name() in compiled:
            cnames = names
            if ctx.tier == 'quick':
                # the profiles where text from several sources meets (full-system-policy profiles, hosts of stacked profiles),
                # plus a sample of the others drawn from the seed; the thorough tier compiles every file
                fulld = os.path.join(lib.REPO, 'apparmor.d', 'groups', '_full')
                sure = {n for n in names if os.path.exists(os.path.join(fulld, n)) or
                        '# Stacked profile' in open(os.path.join(build, n), encoding='utf-8', errors='replace').read()}
                rest = [n for n in names if n not in sure]
                cnames = sorted(sure | set(ctx.rng.sample(rest, min(len(rest), 160))))
            cres = parse_all(overlay, cnames, compile_=True)
            ncompiled += len(cres)
            ok_d = {n for n, rcp, _ in res if rcp == 0}
            res += [(n, rcp, err) for n, rcp, err in cres if rcp != 0 and n in ok_d]
        total += len(res)
        for n, rcp, err in res:
            if rcp != 0:
                nrej += 1
                if nrej <= 12:
                    ctx.violation('%s: apparmor_parser rejects %s: %s' % (cfg.name(), n, err.strip().split('\n')[-1][:200]),
                                  {'config': cfg.name(), 'file': n, 'parser': err, 'content': open(os.path.join(build, n), errors='replace').read()[:3000]})
        shutil.rmtree(tree, ignore_errors=True)
        shutil.rmtree(overlay, ignore_errors=True)
    ctx.count_distinct([c.name() for c in cfgs])
    ctx.cov['evaluations'] += total
    ctx.cov['search']['reference_parser'] = {'configs': len(cfgs), 'files_parsed': total, 'rejected': nrej,
                                             'configs_fully_compiled': sorted(compiled), 'files_fully_compiled': ncompiled}
    ctx.sample({'configs': [c.name() for c in cfgs]})
    ctx.cov['rule'] = ('for each configuration of the tier: real prebuild, output overlaid on a copy of the installed reference policy, every '
                       'top-level file of the output policy directory loaded with apparmor_parser -Q -K -d (abstractions, tunables and mappings '
                       'through the profiles that include them); non-trivial = configuration')
    if broken and not any(c for _, c, _ in ctx.violations):
        ctx.violation('obligation broken: ' + '; '.join(broken)[:600], {'broken': broken}, concrete=False)
    ctx.cov['broken'] += broken
    ctx.assumptions += ['apparmor_parser 3.0.8 stands for the reference parser; for ABI 4 the AppArmor-4-only rule kinds are commented out in the '
                        'overlay copy and abi/4.0 is a copy of abi/3.0, as the property sets them aside',
                        'for version 4.1 the four files dropped as "upstreamed in 4.1" are taken from the source tree (the installed policy is 3.0.8)',
                        '-d stops after parsing, include and variable resolution; the compile that merges rules and finds x-modifier conflicts (-Q -K without -d) '
                        'is run on one --full configuration in the quick tier and on six configurations in the thorough tier']


def replay(ctx, data):
    print(data)
    return 0
