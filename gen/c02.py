"""C02 — prebuild output is reproducible: same tree and configuration, same bytes."""
import os
import shutil
from concurrent.futures import ThreadPoolExecutor

import lib
from lib import esc, esc_list

THEOREMS = ['C02.C02_sync_erases_history', 'C02.C02_remove_all_clean', 'C02.C02_sorted_output_order_independent',
            'C02.C02_sort_is_sorted_perm']

LIB = {
    'stk1': 'abi <abi/4.0>,\n\ninclude <tunables/global>\n\n@{exec_path} = @{bin}/stk1\nprofile stk1 @{exec_path} {\n  include <abstractions/base>\n\n  @{exec_path} mr,\n  @{bin}/a rPx,\n  @{bin}/c rCx,\n  @{bin}/d rcx,\n  @{lib}/e Cix,\n  @{bin}/f rPUx,\n  @{bin}/g rpix,\n  /opt/{linux,bsd}/ r,\n  /etc/stk1 r,\n\n  include if exists <local/stk1>\n}\n',
    'stk2': 'abi <abi/4.0>,\n\ninclude <tunables/global>\n\n@{exec_path} = @{lib}/stk2\nprofile stk2 @{exec_path} {\n  include <abstractions/base>\n\n  @{exec_path} mr,\n  @{bin}/b rix,\n  /etc/stk2 w,\n  #aa:dbus own bus=system name=org.stk2\n\n  include if exists <local/stk2>\n}\n',
    'tgt1': 'abi <abi/4.0>,\n\ninclude <tunables/global>\n\n@{exec_path} = @{bin}/tgt1 @{lib}/tgt1\nprofile tgt1 @{exec_path} {\n  include <abstractions/base>\n\n  include if exists <local/tgt1>\n}\n',
    'tgt3': 'abi <abi/4.0>,\n\ninclude <tunables/global>\n\n@{exec_path}  = @{bin}/tgt3\n@{exec_path} += @{lib}/tgt3\n@{exec_path} += /opt/tgt3/bin/tgt3\nprofile tgt3 @{exec_path} {\n  include <abstractions/base>\n\n  include if exists <local/tgt3>\n}\n',
    'stk3': 'abi <abi/4.0>,\n\ninclude <tunables/global>\n\n@{exec_path} = @{bin}/stk3\nprofile stk3 @{exec_path} {\n  include <abstractions/base>\n\n  @{exec_path} rix,\n  @{sh_path} r,\n  /etc/stk3 r,\n\n  include if exists <local/stk3>\n}\n',
    'tgt2': 'abi <abi/4.0>,\n\ninclude <tunables/global>\n\n@{exec_path} = @{bin}/Tgt2 @{bin}/tgt2\nprofile tgt2 @{exec_path} {\n  include <abstractions/base>\n\n  include if exists <local/tgt2>\n}\n',
}


def gen_profile(rng, name):
    pre = ''
    if rng.random() < 0.3:
        pre += '@{%s} += /opt/%s/%s\n' % (rng.choice(['lib', 'bin', 'sbin', 'etc_ro']), name, rng.choice(['lib', 'bin']))
    var = rng.choice(['bin', 'lib', 'sbin', 'etc_ro'])
    pre += '@{exec_path} = @{%s}/%s\n' % (var, name)
    if rng.random() < 0.3:
        pre += '@{exec_path} += @{%s}/%s-helper\n' % (rng.choice(['bin', 'lib']), name)
    body = ['  include <abstractions/base>', '', '  @{exec_path} mr,', '  /etc/%s r,' % name]
    r = rng.random()
    if r < 0.3:
        args = rng.sample(['stk1', 'stk2', 'stk3'], rng.randint(1, 2))
        if rng.random() < 0.4:
            args = ['X'] + args
        body.append('  #aa:stack ' + ' '.join(args))
    elif r < 0.6:
        args = rng.sample(['tgt1', 'tgt2', 'tgt3'], rng.randint(1, 2))
        if rng.random() < 0.5:
            args = [rng.choice(['P', 'U', 'p', 'PU'])] + args
        body.append('  #aa:exec ' + ' '.join(args))
    elif r < 0.8:
        body.append('  #aa:dbus talk bus=session name=org.%s label=foo' % name)
    body += ['', '  include if exists <local/%s>' % name, '}']
    return 'abi <abi/4.0>,\n\ninclude <tunables/global>\n\n%sprofile %s @{exec_path} {\n%s\n' % (pre, name, '\n'.join(body))


def run(ctx):
    ctx.build_go(prebuild=True)
    ctx.tables()
    broken = ctx.audit(THEOREMS)
    rng = ctx.rng

    # ---- histories in one process: a profile alone vs after other profiles ------------------------------
    n = 300 if ctx.tier == 'quick' else 6000
    lib_field = esc_list(['%s=%s' % (k, v) for k, v in LIB.items()])
    ops, metas = [], []
    for i in range(n):
        names = ['p%d' % j for j in range(rng.randint(2, 5))]
        profs = [(nm, gen_profile(rng, nm)) for nm in names]
        builders = ['userspace', 'hotfix'] + (['fsp'] if rng.random() < 0.3 else [])
        seq = esc_list(builders) + '\t' + lib_field + '\t' + '\t'.join(esc('%s=%s' % p) for p in profs)
        alone = esc_list(builders) + '\t' + lib_field + '\t' + esc('%s=%s' % profs[-1])
        rev = esc_list(builders) + '\t' + lib_field + '\t' + '\t'.join(esc('%s=%s' % p) for p in reversed(profs))
        ops += [seq, alone, rev]
        metas.append(profs)
    out = ctx.run_go('hist', ops)
    ctx.cov['evaluations'] += len(ops)
    again = ctx.run_go('hist', ops[:60])
    nh = 0
    for i, profs in enumerate(metas):
        a, b, c = out[3 * i], out[3 * i + 1], out[3 * i + 2]
        if not (a.startswith('ok') and b.startswith('ok') and c.startswith('ok')):
            ctx.violation('history run crashed', {'ops': ops[3 * i:3 * i + 3], 'out': [a, b, c]})
            continue
        last_in_seq = a.split('\t')[-1]
        alone = b.split('\t')[-1]
        first_in_rev = c.split('\t')[1]
        if not (last_in_seq == alone == first_in_rev):
            nh += 1
            if nh <= 3:
                ctx.violation('the text built for profile %s depends on the profiles processed before it' % profs[-1][0],
                              {'profiles': profs, 'after_others': last_in_seq, 'alone': alone, 'first_of_reversed_order': first_in_rev})
    # a profile built alone in a process of its own: state that is set once per process (a cache filled by the first
    # directive that runs) is invisible as long as every history shares one process
    kf = 40 if ctx.tier == 'quick' else 400
    nf = 0
    for i in range(min(kf, len(metas))):
        fresh = ctx.run_go('hist', [ops[3 * i + 1]])[0]
        ctx.cov['evaluations'] += 1
        if fresh != out[3 * i + 1]:
            nf += 1
            if nf <= 3:
                ctx.violation('the text built for profile %s alone in a fresh process differs from the text built for it, alone as well, in a '
                              'process that built other profiles before' % metas[i][-1][0],
                              {'profile': metas[i][-1], 'fresh_process': fresh, 'shared_process': out[3 * i + 1]})
    ctx.cov['search']['fresh_process_runs'] = {'runs': min(kf, len(metas)), 'differing': nf}
    for i in range(len(again)):
        if again[i] != out[i]:
            ctx.violation('same history, different output in a second process (map iteration order?)', {'op': ops[i], 'run1': out[i], 'run2': again[i]})
            break
    ctx.count_distinct(ops)
    ctx.cov['search']['histories'] = {'histories': len(metas), 'history_dependent': nh}
    ctx.sample({'profile': metas[0][-1][1], 'built': out[1][:600]})

    # ---- real builds: twice from scratch, and once over what another configuration left behind --------------
    if ctx.tier == 'quick':
        cfgs = [lib.Cfg('arch', 4, '4.1', 'none', True), lib.Cfg('debian', 3, '3.0', 'enforce', False), lib.Cfg('ubuntu', 4, '4.0', 'complain', True)]
    else:
        cfgs = [c for c in lib.all_cfgs() if (c.mode, c.full) in (('none', True), ('complain', False), ('enforce', True))]

    def one(cfg):
        res = []
        tree, out1, rc1 = lib.real_build(ctx, cfg)
        res.append(lib.list_build(os.path.join(tree, '.build')) if rc1 == 0 else None)
        shutil.rmtree(os.path.join(tree, '.build'), ignore_errors=True)
        _, out2, rc2 = lib.real_build(ctx, cfg, tree=tree)
        res.append(lib.list_build(os.path.join(tree, '.build')) if rc2 == 0 else None)
        # dirty: another configuration (other --full setting, other distribution) ran before, plus planted junk
        shutil.rmtree(os.path.join(tree, '.build'), ignore_errors=True)
        other = lib.Cfg('opensuse' if cfg.dist != 'opensuse' else 'arch', 4 if cfg.abi == 3 else 3, '4.0' if cfg.abi == 3 else '3.0',
                        'complain' if cfg.mode != 'complain' else 'none', not cfg.full)
        lib.real_build(ctx, other, tree=tree)
        for junk in ('apparmor.d/zz-junk', 'apparmor.d/abstractions/zz-junk', 'systemd/zz.service.d/junk.conf', 'share/zz-junk'):
            p = os.path.join(tree, '.build', junk)
            os.makedirs(os.path.dirname(p), exist_ok=True)
            open(p, 'w').write('junk\n')
        _, out3, rc3 = lib.real_build(ctx, cfg, tree=tree)
        res.append(lib.list_build(os.path.join(tree, '.build')) if rc3 == 0 else None)
        shutil.rmtree(tree, ignore_errors=True)
        return cfg, res

    with ThreadPoolExecutor(max_workers=6) as ex:
        results = list(ex.map(one, cfgs))
    nfiles = 0
    for cfg, res in results:
        if any(r is None for r in res):
            ctx.violation('prebuild failed for %s' % cfg, {'config': cfg.name()})
            continue
        nfiles += len(res[0])
        for label, other in (('a second run from scratch', res[1]), ('a run over the build directory left by another configuration', res[2])):
            if other != res[0]:
                diff = sorted(k for k in set(res[0]) | set(other) if res[0].get(k) != other.get(k))
                ctx.violation('%s: %s differs in %d entries, e.g. %s' % (cfg.name(), label, len(diff), diff[:3]),
                              {'config': cfg.name(), 'against': label, 'differing': diff[:40]})
    ctx.cov['search']['real_builds'] = {'configs': len(results), 'runs_per_config': 3, 'entries_compared': nfiles}
    ctx.cov['evaluations'] += nfiles * 2
    ctx.cov['rule'] = ('histories: 2-5 generated profiles (+= on built-in tunables, stack/exec/dbus directives, X and non-X stacks) processed '
                       'in one process in two orders vs the last one alone; real builds: each configuration twice from scratch and once '
                       'over the build directory of a different configuration with planted junk, every file and symlink under .build hashed')
    if broken and not any(c for _, c, _ in ctx.violations):
        ctx.violation('obligation or correspondence broken: ' + '; '.join(broken)[:600], {'broken': broken}, concrete=False)
    ctx.cov['broken'] += broken
    ctx.assumptions += ['file system semantics (RemoveAll, CopyFS, rename) are modelled abstractly: no permissions, errors or concurrency',
                        'the whole .build directory is the output (apparmor.d, systemd, share)']


def replay(ctx, data):
    print(data)
    return 0
