"""C03 — only/exclude directives keep exactly the rules meant for the build target."""
import glob
import os
import re

import lib
import tolean
from lib import esc, unesc

THEOREMS = ['C03.C03_kept_iff', 'C03.C03_marker_gone', 'C03.C03_unguarded_unchanged', 'C03.C03_spec_append',
            'C03.C03_inline_present', 'C03.C03_para_present', 'C03.C03_target_table', 'C03.C03_refines_inline_partial',
            'C03.C03_model_line_by_line', 'C03.C03_refines_partial', 'C03.C03_marker_gone_text']
TARGETS = [(d, a, v) for d in lib.DISTS for (a, v) in lib.ABIVERS]
WORDS = ['arch', 'debian', 'ubuntu', 'opensuse', 'whonix', 'apt', 'pacman', 'zypper', 'abi3', 'abi4', 'apparmor3.0',
         'apparmor4.0', 'apparmor4.1', 'apparmor4', 'fedora', 'abi', 'apparmor4x1']
RULES = ['/a r,', '@{bin}/foo rPx,', 'capability kill,', 'include <abstractions/base>', 'owner @{HOME}/.x rw,',
         'dbus send bus=session,', 'network inet stream,', '/etc/a.b r, # comment', 'profile sub {', '}', '# just a comment']


def gen_items(rng):
    items = []
    for _ in range(rng.randint(1, 6)):
        r = rng.random()
        ind = '  ' * rng.randint(0, 2) if rng.random() < 0.85 else rng.choice(['\t', '\t\t', ' \t', '\t  '])   # tab indentation is valid policy
        name = rng.choice(['only', 'exclude'])
        args = rng.sample(WORDS, rng.randint(1, 3))
        if r < 0.4:
            for _ in range(rng.randint(1, 3)):
                items.append(('plain', ind + rng.choice(RULES)))
            if rng.random() < 0.3:
                items.append(('plain', ''))
        elif r < 0.7:
            sp = ' ' * rng.randint(1, 3)
            items.append(('inline', ind + rng.choice(RULES) + sp + '#aa:' + name + ' ' + ' '.join(args)))
        else:
            body = [ind + rng.choice(RULES) for _ in range(rng.randint(1, 3))]
            items.append(('para', [ind + '#aa:' + name + ' ' + ' '.join(args)] + body + ['']))
    return items


def render(items):
    ls = []
    for k, v in items:
        if k == 'para':
            ls += v
        else:
            ls.append(v)
    return '\n'.join(ls) + '\n'


def mutate(rng, t):
    """ill-formed layouts: unterminated paragraph, marker inside a paragraph, regex metacharacter in a marker,
    name glued to punctuation, two markers on a line, raw text contained in a longer line, empty-body paragraph"""
    k = rng.randint(0, 6)
    if k == 0:
        return t.rstrip('\n')
    if k == 1:
        return t.replace('#aa:only', '#aa:only,x #aa:exclude', 1)
    if k == 2:
        return t.replace('#aa:', '#aa:only (a|b) #aa:', 1)
    if k == 3:
        ls = t.split('\n')
        for l in ls:
            if l.strip().startswith('#aa:'):
                return t + '  ' + l + '\n  /z r,\n\n'
        return t
    if k == 4:
        return t.replace('\n\n', '\n', 1)
    if k == 5:
        return re.sub(r'(#aa:\w+ \S+)\n', r'\1\n\n', t, count=1)
    return t.replace('#aa:only ', '#aa:only', 1)


def shipped():
    res = []
    for p in sorted(glob.glob(os.path.join(lib.REPO, 'apparmor.d', '**', '*'), recursive=True)):
        if os.path.isfile(p):
            t = open(p, encoding='utf-8', errors='surrogateescape').read()
            if '#aa:only' in t or '#aa:exclude' in t:
                # neutralise the generating directives: they are other properties' business
                t = re.sub(r'#aa:(dbus|exec|stack)', r'#zz:\1', t)
                res.append((os.path.relpath(p, lib.REPO), t))
    return res


def run(ctx):
    ctx.build_go()
    T = ctx.tables()
    ctx.driver_path = ctx.driver()
    broken = ctx.audit(THEOREMS)
    rng = ctx.rng
    rd = T['Regex']['directive']['regDirective'][0][0]
    if rd != '(?m).*#aa:([a-z]*)( .*)?':
        broken.append('regDirective is %r; the model transcribes (?m).*#aa:([a-z]*)( .*)?' % rd)

    n = 3000 if ctx.tier == 'quick' else 60000
    ops, meta = [], []
    for i in range(n):
        t = render(gen_items(rng))
        if i % 4 == 3:
            t = mutate(rng, t)
        d, a, v = rng.choice(TARGETS)
        ops.append('%s\t%d\t%s\t%s' % (d, a, v, esc(t)))
        meta.append(('gen', t, (d, a, v)))
    # fixed defect, replayed on every run: the paragraph pattern was built from the unquoted marker text (a dot matched any
    # character, a parenthesis made the regexp panic)
    for wt, tgt in [("profile p {\n  #aa:exclude apparmor4.1\n  /a r,\n\n  #aa:exclude apparmor4x1\n  /b r,\n\n  /c r,\n}\n", ('arch', 4, '4.1')),
                    ("profile p {\n  #aa:only debian (legacy.) [x]\n  /a r,\n\n  /c r,\n}\n", ('arch', 4, '4.1')),
                    ("profile p {\n  #aa:only apparmor4.1\n  /a r,\n\n  #aa:only apparmor4x1\n  /b r,\n\n  /c r,\n}\n", ('debian', 3, '3.0'))]:
        ops.append('%s\t%d\t%s\t%s' % (tgt[0], tgt[1], tgt[2], esc(wt)))
        meta.append(('gen', wt, tgt))
    ship = shipped()
    tg = TARGETS if ctx.tier == 'thorough' else [TARGETS[(ctx.seed + i) % len(TARGETS)] for i in range(6)] + [('arch', 4, '4.1'), ('debian', 3, '3.0'), ('opensuse', 4, '4.0'), ('ubuntu', 4, '4.0'), ('whonix', 3, '3.0')]     # every distribution at least once
    for name, t in ship:
        for d, a, v in sorted(set(tg)):
            ops.append('%s\t%d\t%s\t%s' % (d, a, v, esc(t)))
            meta.append((name, t, (d, a, v)))
    go, le, bad = ctx.diff('filter', ops, label='directive.Run (only/exclude) vs Filter.model')
    # "unmodelled": unknown directive name (the real code returns an error) or a paragraph marker holding regex
    # metacharacters (the real code compiles it as a regex); both are outside WF
    unm = [i for i in bad if le[i] == 'unmodelled']
    bad = [i for i in bad if le[i] != 'unmodelled' ]
    ctx.cov['correspondence']['directive.Run (only/exclude) vs Filter.model']['unmodelled_skipped'] = len(unm)
    ctx.cov['correspondence']['directive.Run (only/exclude) vs Filter.model']['disagreements'] = len(bad)
    for i in bad[:4]:
        ctx.sample({'op': ops[i][:500], 'go': go[i][:500], 'model': le[i][:500]})
    if bad:
        broken.append('correspondence: directive.Run differs from the model on %d of %d texts' % (len(bad), len(ops)))

    # ---- judge the real code by the specification on well-formed texts ------------------------
    sp = ctx.run_lean('filterspec', ops)
    nwf = nfail = nknown = nproved = 0
    proved_files = set()
    for i, s in enumerate(sp):
        wf, spec, inl, wft = s.split('\t')
        name, t, tgt = meta[i]
        if wft == '1' and '#aa:' in t:
            # the text lies in the class for which model = specification is a theorem (C03_refines_partial)
            nproved += 1
            if name != 'gen':
                proved_files.add(name)
        if wf != '1':
            if name != 'gen' and go[i] != 'ok\t' + spec:
                # a SHIPPED file whose directive layout is outside the well-formed class and on which the real code leaves the
                # line-level specification: the property quantifies over the shipped files, so this is a violation unless listed
                if name.endswith('/packagekitd') and ctx.known_finding('K_rawSubstring'):
                    # K_rawSubstring: `  #aa:only opensuse` is contained in `    #aa:only opensuse`
                    nknown += 1
                else:
                    nfail += 1
                    if nfail <= 3:
                        ctx.violation('shipped file %s (directive layout not well formed: a marker text occurs inside another line, or a paragraph is not closed by a blank line): '
                                      'real directive.Run leaves the line-level specification on target %s' % (name, tgt,),
                                      {'op': ops[i], 'file': name, 'target': list(tgt), 'real_output': go[i], 'spec_output': spec})
            continue
        nwf += 1
        if go[i] != 'ok\t' + spec:
            nfail += 1
            if nfail <= 3:
                ctx.violation('real directive.Run disagrees with the specification on a well-formed text (%s, target %s)' % (name, tgt,),
                              {'op': ops[i], 'file': name, 'target': list(tgt), 'input': t, 'real_output': go[i], 'spec_output': spec})
    ctx.count_distinct([ops[i] for i, s in enumerate(sp) if s.startswith('1')])
    ctx.cov['search']['spec_judged'] = {'texts': len(ops), 'well_formed': nwf, 'failing': nfail, 'known_class_hits': nknown,
                                        'shipped_files': len(ship), 'texts_in_the_proved_refinement_class': nproved,
                                        'shipped_files_in_the_proved_refinement_class': len(proved_files)}
    ctx.sample({'input': meta[0][1], 'target': list(meta[0][2]), 'real_output': go[0], 'spec': sp[0]})
    ctx.cov['rule'] = ('texts rendered from generated item lists (plain lines, inline guarded rules, guarded paragraphs; 1/4 made '
                       'ill-formed) x random target, plus every shipped file with only/exclude x targets; non-trivial = wf text '
                       '(Filter.wf evaluated by the driver); real output compared with Filter.specText')
    if broken and not any(c for _, c, _ in ctx.violations):
        ctx.violation('obligation or correspondence broken: ' + '; '.join(broken)[:600], {'broken': broken}, concrete=False)
    ctx.cov['broken'] += broken
    ctx.assumptions += ['dbus/exec/stack directives in shipped files are neutralised for this check (C07 covers them)',
                        'refinement model = spec is a theorem on the layouts of Filter.wfText (C03_refines_partial); outside it (a marker text inside another line, a paragraph not closed by a blank line) it is validated by evaluation']


def replay(ctx, data):
    ctx.build_go()
    print(ctx.run_go('filter', [data['op']])[0])
    return 0
