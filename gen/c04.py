"""C04 — the prepare stage conserves the policy set: nothing lost, nothing leaked."""
import hashlib
import os
import shutil
from concurrent.futures import ThreadPoolExecutor

import lib
from lib import esc, esc_list, unesc_list

THEOREMS = ['C04.C04_ignore_exact', 'C04.C04_flat_lossless', 'C04.C04_collision_loses', 'C04.C04_overwrite_links',
            'C04.C04_spec_example', 'C04.C04_spec_is_core', 'C04.C04_no_leak', 'C04.C04_no_loss', 'C04.C04_rest_kept']


def sha(p):
    return hashlib.sha1(open(p, 'rb').read()).hexdigest()


def listing(root, sub):
    res = []
    base = os.path.join(root, sub)
    for d, dirs, files in os.walk(base):
        for f in files:
            p = os.path.join(d, f)
            rel = os.path.relpath(p, root)
            if os.path.islink(p):
                res.append((rel, 'L:' + os.readlink(p)))
            else:
                res.append((rel, sha(p)))
        for x in dirs:
            p = os.path.join(d, x)
            if os.path.islink(p):
                res.append((os.path.relpath(p, root), 'L:' + os.readlink(p)))
    return res


def read_list(p):
    """util.Filter: comments and blank lines removed"""
    out = []
    if os.path.exists(p):
        for l in open(p):
            l = l.split('#')[0].strip()
            if l:
                out.append(l)
    return out


def make_input(tree, cfg):
    src = listing(tree, 'apparmor.d') + listing(tree, 'share')
    ign = read_list(os.path.join(tree, 'dists', 'ignore', 'main.ignore')) + read_list(os.path.join(tree, 'dists', 'ignore', cfg.dist + '.ignore'))
    ub = [('apparmor.d/' + os.path.relpath(os.path.join(tree, 'dists', 'ubuntu', p), os.path.join(tree, 'dists', 'ubuntu')), v)
          for p, v in [(os.path.relpath(os.path.join(tree, q), os.path.join(tree, 'dists', 'ubuntu')), v2) for q, v2 in listing(tree, 'dists/ubuntu')]]
    ver = float(cfg.version)
    copy_ub = (cfg.dist in ('debian', 'whonix') and ver < 4.1) or (cfg.dist == 'ubuntu' and ver < 3.0)
    r41 = ['abstractions/devices-usb-read', 'abstractions/devices-usb', 'abstractions/nameservice-strict', 'tunables/multiarch.d/base', 'wg'] if cfg.version == '4.1' else []
    ow = read_list(os.path.join(tree, 'dists', 'overwrite')) if cfg.abi == 4 else []
    full = []
    edited = []
    if cfg.full:
        fd = os.path.join(tree, 'apparmor.d', 'groups', '_full')
        for d, _, files in os.walk(fd):
            for f in files:
                p = os.path.join(d, f)
                full.append(('apparmor.d/' + os.path.relpath(p, fd), sha(p)))
        edited = ['apparmor.d/tunables/multiarch.d/profiles', 'apparmor.d/abstractions/gstreamer']
    flagged = []
    for nm in ('main', cfg.dist):
        for l in read_list(os.path.join(tree, 'dists', 'flags', nm + '.flags')):
            parts = l.split(' ')
            if len(parts) > 1 and parts[1] != '':
                flagged.append(parts[0])
    enc = lambda ls: esc_list(['%s=%s' % kv for kv in ls])
    # systemd drop-ins: systemd/default always, then systemd/full with --full and systemd/early without (cmd/prebuild/main.go, cli.go)
    sd = []
    for part in ('default', 'full' if cfg.full else 'early'):
        base = os.path.join(tree, 'systemd', part)
        for q, v in sorted(listing(tree, 'systemd/' + part)):
            sd.append(('systemd/' + os.path.relpath(os.path.join(tree, q), base), v))
    op = '\t'.join([enc(src), esc_list(ign), enc(ub), '1' if copy_ub else '0', esc_list(r41), esc_list(ow), enc(full), esc_list(flagged),
                    esc_list(edited), enc(sd)])
    return op


def run(ctx):
    ctx.build_go(prebuild=True)
    ctx.driver_path = ctx.driver()
    broken = ctx.audit(THEOREMS)
    if ctx.tier == 'quick':
        cfgs = [lib.Cfg('arch', 4, '4.1'), lib.Cfg('debian', 3, '3.0'), lib.Cfg('ubuntu', 4, '4.0', full=True), lib.Cfg('whonix', 3, '3.0'),
                lib.Cfg('opensuse', 4, '4.0', full=True), lib.Cfg('debian', 4, '4.1', full=True), lib.Cfg('whonix', 4, '4.1'),
                # ABI and version are independent options: the mixed pairs are configurations too
                lib.Cfg('arch', 3, '4.1'), lib.Cfg('ubuntu', 4, '3.0', full=True), lib.Cfg('opensuse', 3, '4.0'),
                lib.Cfg('debian', 4, '4.0'), lib.Cfg('whonix', 3, '4.1')]
    else:
        cfgs = [lib.Cfg(d, a, v, 'none', f) for d in lib.DISTS for (a, v) in lib.ABIVERS for f in (False, True)]

    def one(cfg):
        tree = os.path.join(ctx.scratch, 'tree-' + cfg.name())
        lib.copy_tree(tree)
        op = make_input(tree, cfg)
        # stale content of the build directory must not matter
        os.makedirs(os.path.join(tree, '.build', 'apparmor.d', 'groups', 'zz'), exist_ok=True)
        open(os.path.join(tree, '.build', 'apparmor.d', 'groups', 'zz', 'stale'), 'w').write('stale\n')
        open(os.path.join(tree, '.build', 'apparmor.d', 'stale-profile'), 'w').write('stale\n')
        os.makedirs(os.path.join(tree, '.build', 'systemd', 'system', 'stale.service.d'), exist_ok=True)
        open(os.path.join(tree, '.build', 'systemd', 'system', 'stale.service.d', 'apparmor.conf'), 'w').write('[Service]\nAppArmorProfile=stale\n')
        os.makedirs(os.path.join(tree, '.build', 'share'), exist_ok=True)
        open(os.path.join(tree, '.build', 'share', 'stale'), 'w').write('stale\n')
        # the task list is read from the real binary; the prepare stage alone is then run in-process (cli.Prepare)
        tree2 = tree + '-b'
        lib.copy_tree(tree2)
        _, out, rc = lib.real_build(ctx, cfg, tree=tree2)
        tasks = lib.task_order(ctx, out)
        shutil.rmtree(tree2, ignore_errors=True)
        got = None
        if rc == 0 and tasks:
            r = ctx.run_go('cliprepare', ['%s\t%s\t%d\t%s\t%s' % (esc(tree), cfg.dist, cfg.abi, cfg.version, esc_list(tasks))])[0]
            if r == 'ok':
                got = dict(listing(os.path.join(tree, '.build'), 'apparmor.d') + listing(os.path.join(tree, '.build'), 'share')
                           + listing(os.path.join(tree, '.build'), 'systemd'))
            else:
                out = r
        shutil.rmtree(tree, ignore_errors=True)
        return cfg, op, got, (out, tasks)

    with ThreadPoolExecutor(max_workers=6) as ex:
        results = list(ex.map(one, cfgs))
    ops = [r[1] for r in results]
    spec = ctx.run_lean('prepare', ops)
    nent = 0
    for (cfg, op, got, out), sp in zip(results, spec):
        if got is None:
            ctx.violation('prepare failed for %s' % cfg, {'config': cfg.name(), 'output': str(out)[-1500:]})
            continue
        parts = sp.split('\t')
        want = dict(kv.split('=', 1) for kv in unesc_list(parts[1]))
        if parts[2] != '1':
            ctx.violation('%s: two source profiles share a base name (the flat directory keeps only one)' % cfg.name(), {'config': cfg.name()})
        nent += len(want)
        lost = sorted(k for k in want if k not in got)
        leaked = sorted(k for k in got if k not in want)
        changed = []
        for k in want:
            if k in got and want[k] not in ('FLAGGED', 'EDITED') and got[k] != want[k]:
                if want[k].startswith('L:') and got[k].startswith('L:') and os.path.basename(got[k][2:]) == want[k][2:]:
                    continue        # disable/<name> points at the upstream name
                changed.append(k)
        if lost or leaked or changed:
            ctx.violation('%s: prepare does not conserve the policy set: lost %s, leaked %s, content changed %s' % (cfg.name(), lost[:4], leaked[:4], changed[:4]),
                          {'config': cfg.name(), 'lost': lost[:40], 'leaked': leaked[:40], 'changed': changed[:40]})
    # ---- history: the prepare stage of several targets in ONE process (as a test driver or a packaging script that loops over
    # distributions does): each target's result must be what the same target gives in a process of its own
    ok_res = [r for r in results if r[2] is not None]
    nhist = nhdiff = 0
    if len(ok_res) >= 2:
        first = ok_res[0]
        other = next((r for r in ok_res[1:] if r[0].dist != first[0].dist), ok_res[1])
        seq = [first, other, first]
        trees, hops = [], []
        for k, (cfg, op, got, (out, tasks)) in enumerate(seq):
            tree = os.path.join(ctx.scratch, 'hist-%d-%s' % (k, cfg.name()))
            lib.copy_tree(tree)
            trees.append(tree)
            hops.append('%s\t%s\t%d\t%s\t%s' % (esc(tree), cfg.dist, cfg.abi, cfg.version, esc_list(tasks)))
        hres = ctx.run_go('cliprepare', hops)
        for k, ((cfg, op, got, _), tree, r) in enumerate(zip(seq, trees, hres)):
            nhist += 1
            if r != 'ok':
                ctx.violation('prepare of %s fails when it runs after another target in the same process' % cfg.name(), {'sequence': [x[0].name() for x in seq], 'position': k, 'reply': r})
                continue
            now = dict(listing(os.path.join(tree, '.build'), 'apparmor.d') + listing(os.path.join(tree, '.build'), 'share')
                       + listing(os.path.join(tree, '.build'), 'systemd'))
            diff = sorted(kk for kk in set(now) | set(got) if now.get(kk) != got.get(kk))
            if diff:
                nhdiff += 1
                ctx.violation('%s: the prepared policy set depends on which targets were prepared before it in the same process (position %d of %s): %s differ'
                              % (cfg.name(), k + 1, [x[0].name() for x in seq], diff[:5]),
                              {'sequence': [x[0].name() for x in seq], 'position': k, 'differing_entries': diff[:40]})
        for t in trees:
            shutil.rmtree(t, ignore_errors=True)
    ctx.cov['search']['prepare_history'] = {'targets_in_one_process': nhist, 'differing_from_own_process': nhdiff}
    # ---- single-file mode (`prebuild --file F`, the development loop): the policy directory then holds that file and nothing
    # else, and the unit drop-ins are those of this run, whatever an earlier whole-tree build and planted junk left in the build
    # directory (share/ is never refreshed in this mode, also on the unchanged tree: left out)
    singles = ['apparmor.d/profiles-a-f/acpid', 'apparmor.d/groups/pacman/pacman']
    if ctx.tier == 'thorough':
        singles += ['apparmor.d/groups/apt/apt', 'apparmor.d/profiles-s-z/sudo', 'apparmor.d/groups/browsers/firefox', 'apparmor.d/profiles-g-l/htop', 'apparmor.d/groups/gnome/gnome-shell']
    singles = [f for f in singles if os.path.exists(os.path.join(lib.REPO, f))]
    nsing = nsbad = 0

    def single(fpath):
        cfg = lib.Cfg('arch', 4, '4.1')
        tree = os.path.join(ctx.scratch, 'single-' + os.path.basename(fpath))
        lib.copy_tree(tree)
        env = dict(os.environ, DISTRIBUTION=cfg.dist)
        rc0, _ = lib.sh([ctx.path('prebuild')] + cfg.args() + ['--file', fpath], cwd=tree, env=env, timeout=300)
        clean = dict(listing(os.path.join(tree, '.build'), 'apparmor.d') + listing(os.path.join(tree, '.build'), 'systemd')) if rc0 == 0 else None
        shutil.rmtree(os.path.join(tree, '.build'), ignore_errors=True)
        lib.real_build(ctx, lib.Cfg('arch', 4, '4.1', full=True), tree=tree)
        for junk in ('apparmor.d/zz-junk', 'apparmor.d/abstractions/zz-junk', 'apparmor.d/tunables/zz.d/junk'):
            pj = os.path.join(tree, '.build', junk)
            os.makedirs(os.path.dirname(pj), exist_ok=True)
            open(pj, 'w').write('junk\n')
        rc1, _ = lib.sh([ctx.path('prebuild')] + cfg.args() + ['--file', fpath], cwd=tree, env=env, timeout=300)
        dirty = dict(listing(os.path.join(tree, '.build'), 'apparmor.d') + listing(os.path.join(tree, '.build'), 'systemd')) if rc1 == 0 else None
        shutil.rmtree(tree, ignore_errors=True)
        return fpath, clean, dirty

    with ThreadPoolExecutor(max_workers=6) as ex:
        sres = list(ex.map(single, singles))
    nalone = 0
    for fpath, clean, dirty in sres:
        nsing += 1
        if clean is None:
            # the file cannot be built alone even on an empty build directory (an #aa:exec / #aa:stack directive names a profile
            # that single-file mode does not copy): nothing to compare, and not what this property is about
            nalone += 1
            continue
        if dirty is None:
            nsbad += 1
            ctx.violation('prebuild --file %s succeeds on an empty build directory and fails over an earlier build' % fpath, {'file': fpath})
            continue
        base = os.path.basename(fpath)
        extra = sorted(k for k in dirty if k not in clean)
        if not {k for k in clean if k.startswith('apparmor.d/')} <= {'apparmor.d/' + base} or extra or any(dirty.get(k) != v for k, v in clean.items()):
            nsbad += 1
            ctx.violation('prebuild --file %s: the policy directory holds %s on an empty build directory and %d more entries (%s) over an earlier build' % (
                fpath, sorted(clean)[:3], len(extra), extra[:4]), {'file': fpath, 'clean': sorted(clean)[:10], 'leaked_over_earlier_build': extra[:40]})
    ctx.cov['search']['single_file_mode'] = {'files': nsing, 'failing': nsbad, 'not_buildable_alone': nalone}
    ctx.cov['evaluations'] += nent
    ctx.count_distinct([c.name() for c in cfgs])
    ctx.cov['search']['real_prepare'] = {'configs': len(cfgs), 'entries_compared': nent}
    ctx.sample({'config': cfgs[0].name(), 'expected_entries': len(unesc_list(spec[0].split('\t')[1]))})
    ctx.cov['rule'] = ('for each configuration: the real prebuild run over a build directory holding stale files; .build/apparmor.d and '
                       '.build/share and .build/systemd listed (sha1 of every file, target of every symlink) and compared with Prep.spec evaluated by the '
                       'driver on the listing of the working tree, the ignore lists, the overwrite list and the flags manifests')
    if broken and not any(c for _, c, _ in ctx.violations):
        ctx.violation('obligation broken: ' + '; '.join(broken)[:600], {'broken': broken}, concrete=False)
    ctx.cov['broken'] += broken
    ctx.assumptions += ['"exactly" is read up to the documented configure step (dists/ubuntu abstractions below 4.1, five names removed for 4.1) '
                        'and the full-system-policy installs, which are written into the specification by hand',
                        'flag-rewritten files and the two files edited by the fsp task are compared by presence only here (their content is C05/C18)']


def replay(ctx, data):
    print(data)
    return 0
