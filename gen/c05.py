"""C05 — build mode and flags manifests, and nothing else, determine profile flags."""
import glob
import os
import re
import shutil
from concurrent.futures import ThreadPoolExecutor

import lib
from lib import esc, unesc, esc_list, unesc_list

THEOREMS = ['C05.C05_rule_lines_untouched_complain', 'C05.C05_rule_lines_untouched_enforce',
            'C05.C05_complain_sets', 'C05.C05_enforce_unsets', 'C05.C05_complain_keeps_other_flags',
            'C05.C05_enforce_keeps_other_flags', 'C05.C05_enforce_listed_twice', 'C05.C05_complain_every_block',
            'C05.C05_enforce_every_block', 'C05.C05_setflags_header']
FLAGS = re.compile(r'flags=\(([^)]*)\)')
HDR = re.compile(r'^\s*(profile\s|hat\s|\^)')


def blocks(text):
    """independent block-header scanner: (tokens of the header without flags, flags list, raw)"""
    res = []
    for l in text.split('\n'):
        s = l.strip()
        if HDR.match(l) and s.endswith('{') and not s.startswith('#'):
            m = FLAGS.search(s)
            fl = [x for x in m.group(1).split(',')] if m else []
            rest = FLAGS.sub('', s)[:-1].split()
            res.append((rest, fl, l))
    return res


def judge(mode, none_text, mode_text):
    """spec of C05 on one file; returns list of failure descriptions"""
    bn, bm = blocks(none_text), blocks(mode_text)
    if len(bn) != len(bm):
        return [('block count %d -> %d' % (len(bn), len(bm)), '')]
    out = []
    for (rn, fn, ln), (rm, fm, lm) in zip(bn, bm):
        if mode == 'complain' and 'complain' not in fm:
            out.append(('block not in complain mode: %r' % lm, lm))
        if mode == 'enforce' and 'complain' in fm:
            out.append(('block still in complain mode: %r' % lm, lm))
        if [f for f in fn if f != 'complain'] != [f for f in fm if f != 'complain']:
            out.append(('other flags changed: %r -> %r' % (ln, lm), lm))
        if rn != rm:
            out.append(('header changed: %r -> %r' % (ln, lm), lm))
    return out


WORDS = ['attach_disconnected', 'mediate_deleted', 'complain', 'audit', 'kill', 'enforce', 'unconfined', 'complain ']
NAMES = ['foo', 'bar-baz', 'a.b', 'x//y', 'flagsman', 'gs=(x)']


def gen_header(rng, wf=True):
    kind = rng.random()
    ind = '  ' * rng.randint(0, 2)
    name = rng.choice(NAMES)
    if kind < 0.15:
        h = ind + 'hat ' + name
    elif kind < 0.25:
        h = ind + '^' + name
    else:
        h = ind + 'profile ' + name
        if rng.random() < 0.6:
            h += ' ' + rng.choice(['@{exec_path}', '/usr/bin/x', '/{usr/,}bin/{a,b}', '"/a b"'])
        if rng.random() < 0.2:
            h += ' xattrs=(user.tag=x)'
    r = rng.random()
    if r < 0.6:
        n = rng.randint(1, 3)
        fl = rng.sample(WORDS[:7], n)
        h += ' flags=(' + ','.join(fl) + ')'
    if not wf:
        # ill-formed layouts: brace glued, two clauses, empty clause, duplicate complain, clause split
        h += rng.choice(['{', ' flags=(complain) {', ' flags=() {', ' flags=(complain,complain) {', ' flags=(a {',
                         ' flaflags=(x)gs=(y) {', '  {', ' { # c', ' flags=(complain){'])
        return h
    return h + ' {'


def gen_text(rng, wf=True):
    ls = []
    for _ in range(rng.randint(1, 4)):
        if rng.random() < 0.3:
            ls.append('  ' + rng.choice(['/a r,', 'include <abstractions/base>', '# profile x flags=(complain) {', 'capability kill,',
                                         '@{bin}/x rPx,', '', '}', 'deny /x w,']))
        ls.append(gen_header(rng, wf or rng.random() < 0.5))
        ls.append('  ' + rng.choice(['/a r,', 'include <abstractions/base>', '', '}', 'signal send,']))
    t = '\n'.join(ls)
    if rng.random() < 0.8:
        t += '\n'
    return t


def wf_text(t):
    """WF5: every line ending in ' {' (followed by a newline) is a block header with at most one, well-formed
    flags clause, and no other line mentions flags=( or ends with '{'."""
    ls = t.split('\n')
    for i, l in enumerate(ls):
        s = l.strip()
        is_hdr = bool(HDR.match(l)) and not s.startswith('#')
        if l.endswith(' {') and i < len(ls) - 1:
            if not is_hdr:
                return False
            ms = FLAGS.findall(l)
            if l.count('flags=(') != len(ms) or len(ms) > 1:
                return False
            if ms and (ms[0] == '' or '' in ms[0].split(',')):      # (a flag listed twice is inside the class since the fix commit)
                return False
            if 'flags=(' in FLAGS.sub('', l):
                return False
        else:
            if s.endswith('{') and is_hdr:
                return False
            if 'flags=(' in l and is_hdr:
                return False
    return True


def shipped_files():
    res = []
    for p in sorted(glob.glob(os.path.join(lib.REPO, 'apparmor.d', '**', '*'), recursive=True)):
        if os.path.isfile(p) and not os.path.islink(p):
            res.append(p)
    return res


def run(ctx):
    ctx.build_go(prebuild=True)
    ctx.tables()
    ctx.driver_path = ctx.driver()
    broken = ctx.audit(THEOREMS)
    rng = ctx.rng

    # ---- T1: the regexes the model transcribes -------------------------------------------
    rb = ctx.tables()['Regex']['builder']
    rp = ctx.tables()['Regex']['prepare']
    expect = {'regFlags': r'flags=\(([^)]+)\)', 'regProfileHeader': ' {\\n', 'regHeaderLine': '(?m)^.* {\\n'}
    for k, v in expect.items():
        if rb.get(k, [[None]])[0][0] != v:
            broken.append('builder.%s is %r, the model transcribes %r' % (k, rb.get(k), v))
    for k in ('regFlags', 'regProfileHeader'):
        if rp.get(k, [[None]])[0][0] != expect[k]:
            broken.append('prepare.%s is %r, the model transcribes %r' % (k, rp.get(k), expect[k]))

    # ---- T2: real builders vs model on generated headers and on every shipped file ----------
    n = 4000 if ctx.tier == 'quick' else 80000
    texts = [gen_text(rng, wf=(i % 3 != 0)) for i in range(n)]
    files = shipped_files()
    if ctx.tier == 'quick':
        files = [f for i, f in enumerate(files) if i % 4 == ctx.seed % 4 or 'flags' in open(f, errors='replace').read()]
    ftexts = [open(f, encoding='utf-8', errors='surrogateescape').read() for f in files]
    ops = []
    for i, t in enumerate(texts + ftexts):
        ops.append('%s\tx\t%s' % (['complain', 'enforce'][i % 2], esc(t)))
        if i >= len(texts):
            ops.append('%s\tx\t%s' % (['enforce', 'complain'][i % 2], esc(t)))
    go, le, bad = ctx.diff('builder', ops, label='complain/enforce builders')
    for i in bad[:4]:
        ctx.sample({'op': ops[i][:400], 'go': go[i][:400], 'model': le[i][:400]})
    if bad:
        broken.append('correspondence: complain/enforce differ from the model on %d of %d texts' % (len(bad), len(ops)))
    # setflags
    sops = []
    for i, t in enumerate(texts[:n // 2] + ftexts[::3]):
        k = rng.randint(0, 3)
        line = rng.choice(['p', 'q']) if rng.random() < 0.1 else 'p'
        if k:
            line += ' ' + ','.join(rng.sample(WORDS[:7], k))
        sops.append('%s\t%s' % (esc(line), esc(t)))
    go2, le2, bad2 = ctx.diff('setflags', sops, label='setflags task')
    for i in bad2[:4]:
        ctx.sample({'op': sops[i][:400], 'go': go2[i][:400], 'model': le2[i][:400]})
    if bad2:
        broken.append('correspondence: setflags differs from the model on %d of %d texts' % (len(bad2), len(sops)))

    # ---- search: the real setflags task over a directory of profiles with BOTH manifests (common and per-distribution): a profile
    # listed in both gets the distribution's flags, one listed in one gets those, the others keep their source flags.  Manifest
    # entries carry trailing blanks, trailing comments, blank and comment lines; enough entries that an unstable order would show.
    nm = 60 if ctx.tier == 'quick' else 1500
    mops, mexp = [], []
    for i in range(nm):
        npf = rng.randint(3, 40)
        names = ['p%02d' % j for j in range(npf)]
        for j in rng.sample(range(npf), min(3, npf)):
            names[j] = rng.choice(['netplan.script%d', 'landscape-sysinfo.wrapper%d', 'a-b_c%d', 'x11.%d.d']) % j
        src = {n: (rng.sample(WORDS[:7], rng.randint(1, 2)) if rng.random() < 0.5 else []) for n in names}
        heads = ['profile %s @{exec_path}%s {' % (n, ' flags=(%s)' % ','.join(src[n]) if src[n] else '') for n in names]

        def manifest(entries):
            out = []
            for n, fl in entries:
                if rng.random() < 0.15:
                    out.append(rng.choice(['', '# a comment', '  # indented comment', '   ']))
                line = n + (' ' + ','.join(fl) if fl else '')
                line += rng.choice(['', '', ' ', '  ', '  # note', ' # complain'] if fl else ['', '  # note', ' # complain'])
                out.append(line)
            return '\n'.join(out) + '\n'
        k1 = rng.randint(0, npf)
        main_e = [(n, rng.sample(WORDS[:7], rng.randint(0, 3))) for n in rng.sample(names, k1)] + ([('ghost%d' % i, ['complain'])] if rng.random() < 0.3 else [])
        rng.shuffle(main_e)
        both = [n for n, _ in main_e if n in src]
        k2 = rng.randint(0, min(8, npf))
        dist_names = set(rng.sample(both, min(len(both), rng.randint(0, 4))) + rng.sample(names, k2))
        dist_e = [(n, rng.sample(WORDS[:7], rng.randint(0, 3))) for n in sorted(dist_names)]
        rng.shuffle(dist_e)
        want = []
        dm, dd = dict(main_e), dict(dist_e)
        for n in names:
            fl = src[n]
            if dm.get(n):
                fl = dm[n]
            if dd.get(n):
                fl = dd[n]
            want.append(fl)
        mops.append('%s\t%s\t%s\t%s' % (esc(manifest(main_e)), esc(manifest(dist_e)), esc_list(names), esc_list(heads)))
        mexp.append((names, want))
    mout = ctx.run_go('setflags2', mops)
    nmf = 0
    for op, o, (names, want) in zip(mops, mout, mexp):
        if not o.startswith('ok\t'):
            nmf += 1
            if nmf <= 3:
                ctx.violation('setflags with two manifests failed: %s' % o[:100], {'op': op, 'suite': 'setflags2', 'go': o})
            continue
        got = unesc_list(o[3:])
        for n, w, h in zip(names, want, got):
            m = re.search(r'flags=\(([^)]*)\)', h)
            g = m.group(1).split(',') if m else []
            if g != w or not h.startswith('profile %s @{exec_path} ' % n) or not h.endswith(' {'):
                nmf += 1
                if nmf <= 3:
                    ctx.violation('setflags: profile %s gets the header %r, the manifests (distribution over common over source) give the flags %r' % (n, h, w),
                                  {'op': op, 'suite': 'setflags2', 'profile': n, 'header': h, 'expected_flags': w})
                break
    ctx.cov['search']['two_manifests'] = {'directories': nm, 'failing': nmf}
    ctx.cov['evaluations'] += nm

    # ---- search: real builders judged by the block spec, on WF texts ------------------------
    nwf = 0
    nfail = 0
    for i, t in enumerate(texts):
        if not wf_text(t):
            continue
        nwf += 1
        mode = ['complain', 'enforce'][i % 2]
        o = go[i]
        if not o.startswith('ok\t'):
            continue
        res = unesc(o[3:])
        fails = [m for m, _ in judge(mode, t, res)]
        # every line that is not a header is carried through unchanged
        a, b = t.split('\n'), res.split('\n')
        if len(a) != len(b):
            fails.append('line count changed')
        else:
            for x, y in zip(a, b):
                if x != y and not x.endswith(' {'):
                    fails.append('non-header line changed: %r -> %r' % (x, y))
        if fails:
            nfail += 1
            if nfail <= 3:
                ctx.violation('real %s builder: %s' % (mode, fails[0]), {'op': ops[i], 'mode': mode, 'input': t, 'output': res, 'failures': fails})
    ctx.count_distinct([t for t in texts if wf_text(t)])
    ctx.cov['search']['generated_headers'] = {'texts': len(texts), 'wf': nwf, 'failing': nfail}
    ctx.sample({'input': texts[1], 'real_output': unesc(go[1][3:]) if go[1].startswith('ok\t') else go[1]})

    # ---- search: real builds in the three modes ---------------------------------------------
    if ctx.tier == 'quick':
        base = [('arch', 4, '4.1', False), ('debian', 3, '3.0', False), ('ubuntu', 4, '4.0', True)]
    else:
        base = [(d, a, v, f) for d in lib.DISTS for (a, v) in lib.ABIVERS for f in (False, True)]

    def one(b):
        d, a, v, f = b
        outs = {}
        for mode in lib.MODES:
            cfg = lib.Cfg(d, a, v, mode, f)
            tree, out, rc = lib.real_build(ctx, cfg)
            if rc != 0:
                outs[mode] = None
            else:
                root = os.path.join(tree, '.build', 'apparmor.d')
                m = {}
                for dd, _, fs in os.walk(root):
                    for fn in fs:
                        p = os.path.join(dd, fn)
                        if not os.path.islink(p):
                            m[os.path.relpath(p, root)] = open(p, encoding='utf-8', errors='surrogateescape').read()
                outs[mode] = m
            shutil.rmtree(tree, ignore_errors=True)
        return b, outs

    with ThreadPoolExecutor(max_workers=6) as ex:
        results = list(ex.map(one, base))
    nblocks = 0
    for b, outs in results:
        name = '%s-abi%d-v%s-%s' % (b[0], b[1], b[2], 'full' if b[3] else 'normal')
        if any(v is None for v in outs.values()):
            ctx.violation('prebuild failed for ' + name, {'config': name})
            continue
        for mode in ('complain', 'enforce'):
            if set(outs['none']) != set(outs[mode]):
                ctx.violation('%s: file set differs between none and %s' % (name, mode), {'config': name})
                continue
            for f in sorted(outs['none']):
                if f.startswith(('abstractions/', 'tunables/', 'mappings/', 'local/')) and 'profile' not in outs['none'][f]:
                    continue
                tn, tm = outs['none'][f], outs[mode][f]
                nblocks += len(blocks(tn))
                for fail, lm in judge(mode, tn, tm):
                    kid = None
                    if lm and '# Stacked profile' in tm and (lm + '\n') in tm.split('# Stacked profile', 1)[1] \
                            and (lm + '\n') not in tm.split('# Stacked profile', 1)[0]:
                        kid = 'K_stackedBypass'
                    if kid and ctx.known_finding(kid):
                        continue
                    ctx.violation('%s %s %s: %s' % (name, mode, f, fail), {'config': name, 'mode': mode, 'file': f, 'failure': fail})
    ctx.cov['search']['real_builds'] = {'base_configs': len(results), 'modes': 3, 'blocks_compared': nblocks}
    ctx.cov['evaluations'] += nblocks
    ctx.cov['rule'] = ('generated multi-block texts (headers with/without flags, sub-profiles, hats, xattrs, ill-formed layouts) and every '
                       'shipped file through the real complain/enforce/setflags code and the model; WF texts judged by an independent '
                       'block-header scanner; real builds in none/complain/enforce compared block by block; non-trivial = WF text')
    if broken and not any(c for _, c, _ in ctx.violations):
        ctx.violation('obligation or correspondence broken: ' + '; '.join(broken)[:600], {'broken': broken}, concrete=False)
    ctx.cov['broken'] += broken
    ctx.assumptions += ['the neither-build (after setflags) is the reference for "the flags a block has"',
                        'blocks are matched by position between the two builds of the same file']


def replay(ctx, data):
    ctx.build_go()
    if 'op' in data:
        print(ctx.run_go(data.get('suite', 'builder'), [data['op']])[0])
    else:
        print(data)
    return 0
