"""C06 — resolved attachments and exec rules match the same executables as @{exec_path}."""
import os
import re
import shutil
import subprocess
from concurrent.futures import ThreadPoolExecutor

import lib
import rules as R
import c13
from lib import esc, esc_list, unesc, unesc_list

THEOREMS = ['C06.C06_single_attachment', 'C06.C06_nest_shape', 'C06.C06_expand_nest', 'C06.C06_nest_language']


def brace_expand(p, cap=50000):
    """full expansion of {a,b} alternations (nested) into brace-free patterns"""
    res = ['']
    i, n = 0, len(p)
    while i < n:
        c = p[i]
        if c == '\\' and i + 1 < n:
            res = [r + p[i:i + 2] for r in res]
            i += 2
        elif c == '{':
            d, j = 0, i
            while j < n:
                if p[j] == '\\':
                    j += 2
                    continue
                if p[j] == '{':
                    d += 1
                elif p[j] == '}':
                    d -= 1
                    if d == 0:
                        break
                j += 1
            if j >= n:
                raise ValueError('unbalanced')
            body = p[i + 1:j]
            alts, d, cur, k = [], 0, '', 0
            while k < len(body):
                ch = body[k]
                if ch == '\\' and k + 1 < len(body):
                    cur += body[k:k + 2]
                    k += 2
                    continue
                if ch == '{':
                    d += 1
                elif ch == '}':
                    d -= 1
                if ch == ',' and d == 0:
                    alts.append(cur)
                    cur = ''
                else:
                    cur += ch
                k += 1
            alts.append(cur)
            sub = []
            for a in alts:
                sub += brace_expand(a, cap)
            res = [r + s for r in res for s in sub]
            if len(res) > cap:
                raise OverflowError
            i = j + 1
        else:
            res = [r + c for r in res]
            i += 1
    return res


def lang(patterns):
    out = set()
    for p in patterns:
        for x in brace_expand(p.strip('"')):
            out.add(re.sub(r'/+', '/', x))
    return out


def header_attachment(text):
    for l in text.split('\n'):
        if l.startswith('profile '):
            toks = l.split()
            if len(toks) > 2 and toks[2] not in ('{',) and not toks[2].startswith(('flags=', 'xattrs=')):
                return toks[2]
            return None
    return None


def parser_exec_path(overlay, name):
    q = subprocess.run(['apparmor_parser', '-Q', '-K', '-D', 'expanded-variables', '-b', overlay, '-I', overlay, os.path.join(overlay, name)],
                       stdout=subprocess.PIPE, stderr=subprocess.PIPE, timeout=60)
    for l in q.stdout.decode('utf-8', 'replace').split('\n'):
        if l.startswith('@exec_path = '):
            return re.findall(r'"([^"]*)"', l)
    if q.returncode != 0:
        return ['!rejected', q.stderr.decode('utf-8', 'replace')[-300:]]
    return None


def dfa_same(overlay, text, att, tmpdir, tag):
    """Compile two stub profiles with the reference parser over the same tunables: one attached to @{exec_path} with
    the profile's own preamble, one attached to the literal.  True when the compiled policies are byte-identical
    (same minimised attachment automaton), False when they differ, None when the parser rejects a stub."""
    pre = []
    for l in text.split('\n'):
        if l.startswith('profile '):
            break
        pre.append(l)
    outs = []
    for i, a in enumerate(('@{exec_path}', att)):
        f = os.path.join(tmpdir, 'stub-%s-%d' % (tag, i))
        with open(f, 'w') as fh:
            fh.write('\n'.join(pre) + '\nprofile stub %s {\n}\n' % a)
        q = subprocess.run(['apparmor_parser', '-Q', '-K', '-S', '-b', overlay, '-I', overlay, f], stdout=subprocess.PIPE, stderr=subprocess.PIPE, timeout=120)
        os.unlink(f)
        if q.returncode != 0:
            return None
        outs.append(q.stdout)
    return outs[0] == outs[1]


def run(ctx):
    ctx.build_go(prebuild=True)
    ctx.tables()
    ctx.driver_path = ctx.driver()
    broken = ctx.audit(THEOREMS)
    rng = ctx.rng

    # ---- T2: Resolve + GetAttachments on generated preambles (shared with C13) -----------------------------
    n = 800 if ctx.tier == 'quick' else 20000
    cases = [c13.gen_preamble(rng) for _ in range(n)]
    ops = ['%s\t%s' % (esc_list(att), '\t'.join(R.enc(e) for e in entries)) for entries, att, meta in cases]
    go, le, bad = ctx.diff('resolve', ops, label='Resolve + GetAttachments vs model')
    if bad:
        broken.append('correspondence: Resolve/GetAttachments differ from the model on %d of %d preambles' % (len(bad), len(ops)))
        for i in bad[:3]:
            ctx.sample({'op': ops[i], 'go': go[i][:500], 'model': le[i][:500]})
    # the nested attachment written in the header denotes the union of the resolved values
    nn = 0
    for (entries, att, meta), o in zip(cases, go):
        if not o.startswith('ok\t'):
            continue
        p = o.split('\t')
        vals, nest = unesc_list(p[1]), unesc(p[2])
        if not vals or not all(v.startswith('/') for v in vals) or any(',' in v and '{' not in v for v in vals):
            continue
        try:
            if lang([nest]) != lang(vals):
                nn += 1
                if nn <= 3:
                    ctx.violation('GetAttachments: the nested attachment %r does not denote the union of %r' % (nest, vals), {'values': vals, 'nested': nest})
        except (ValueError, OverflowError):
            pass
    ctx.cov['search']['nesting'] = {'preambles': len(cases), 'language_differs': nn}

    # ---- history: the userspace builder on a sequence of profiles in ONE process (a build is exactly that).  Some profiles
    # append to a built-in tunable or define their own variable; the header a profile gets must not depend on which profiles
    # were built before it: the same sequence is run in two orders and every differing answer is settled in a fresh process.
    nh = 120 if ctx.tier == 'quick' else 3000
    hist = []
    for i in range(nh):
        var = rng.choice(['lib', 'bin', 'sbin', 'run', 'etc_ro', 'multiarch', 'user_share_dirs', 'MOUNTS', 'HOME'])
        pre = ['abi <abi/4.0>,', 'include <tunables/global>', '']
        k = rng.random()
        if k < 0.3:
            pre.append('@{%s} += %s' % (var, rng.choice(['/opt/vendor/%s' % var, '/srv/x{a,b}', '/nix/store/*/lib'])))
        elif k < 0.4:
            pre.append('@{own} = /opt/own%d' % i)
            var = rng.choice([var, 'own'])
        tail = rng.choice(['/app%d' % i, '/{a,b}/x', '/foo-*', ''])
        pre.append('@{exec_path} = @{%s}%s' % (var, tail) + (rng.choice(['', ' @{bin}/alt%d' % i])))
        name = 'hist-prof-%d' % i
        text = '\n'.join(pre) + '\nprofile %s @{exec_path} {\n  include <abstractions/base>\n\n  @{exec_path} mr,\n\n  include if exists <local/%s>\n}\n' % (name, name)
        hist.append('%s\t%s\t%s' % (esc_list(['userspace']), esc('profiles-g-l/' + name), esc(text)))
    fwd = ctx.run_go('builder', hist)
    order = list(range(nh))
    rng.shuffle(order)
    shuf = ctx.run_go('builder', [hist[i] for i in order])
    back = dict(zip(order, shuf))
    nhist = 0
    for i in range(nh):
        if fwd[i] == back[i]:
            continue
        alone = ctx.run_go('builder', [hist[i]])[0]
        for label, got, prior in (('in generation order', fwd[i], hist[:i]), ('in shuffled order', back[i], [hist[j] for j in order[:order.index(i)]])):
            if got != alone:
                nhist += 1
                if nhist <= 3:
                    hdr = lambda o: next((l for l in unesc(o[3:]).split('\n') if l.startswith('profile ')), o[:200]) if o.startswith('ok\t') else o[:200]
                    ctx.violation('userspace builder: the header of a profile depends on the profiles built before it in the same process (%s): %r, alone %r' % (
                        label, hdr(got), hdr(alone)), {'history': prior[-40:] + [hist[i]], 'suite': 'builder', 'got': got[:1500], 'alone': alone[:1500]})
    ctx.cov['search']['userspace_history'] = {'profiles': nh, 'orders': 2, 'order_dependent': nhist}
    ctx.cov['evaluations'] += 2 * nh

    # ---- search: every built profile, the reference parser's expansion of @{exec_path} as the oracle -----------
    cfgs = [lib.Cfg('arch', 3, '3.0'), lib.Cfg('debian', 3, '3.0', full=True), lib.Cfg('opensuse', 3, '3.0')]      # opensuse: its own multiarch value
    if ctx.tier == 'thorough':
        cfgs = [lib.Cfg(d, 3, '3.0', 'none', f) for d in lib.DISTS for f in (False, True)]
    tot = nbad = nexec = ndfa = nsuse = 0
    for cfg in cfgs:
        tree, out, rc = lib.real_build(ctx, cfg)
        if rc != 0:
            ctx.violation('prebuild failed for %s' % cfg, {'config': cfg.name()})
            continue
        overlay = ctx.path('ov-' + cfg.name())
        shutil.copytree('/etc/apparmor.d', overlay, symlinks=True)
        build = os.path.join(tree, '.build', 'apparmor.d')
        subprocess.run(['cp', '-a', build + '/.', overlay + '/'], check=True)
        names = sorted(x for x in os.listdir(build) if os.path.isfile(os.path.join(build, x)) and not os.path.islink(os.path.join(build, x)))
        texts = {x: open(os.path.join(build, x), encoding='utf-8', errors='replace').read() for x in names}
        with ThreadPoolExecutor(max_workers=16) as ex:
            eps = dict(zip(names, ex.map(lambda x: parser_exec_path(overlay, x) if '@{exec_path}' in texts[x] else None, names)))
        big = []
        for x in names:
            ep = eps[x]
            if ep is None:
                continue
            att = header_attachment(texts[x])
            if att is None:
                continue
            if ep and ep[0] == '!rejected':
                nbad += 1
                ctx.violation('%s: the reference parser rejects the built profile %s, so its attachment %r cannot be shown to match @{exec_path}: %s' % (
                    cfg.name(), x, att[:120], ep[1].strip().split('\n')[-1][:160]), {'config': cfg.name(), 'file': x, 'attachment': att, 'parser': ep[1]})
                continue
            tot += 1
            try:
                a, b = lang([att]), lang(ep)
            except (ValueError, OverflowError):
                # too many alternatives to enumerate: compare the compiled attachment automata instead
                big.append(x)
                continue
            if a != b:
                nbad += 1
                kid = 'K_builtinTunables:%s' % x.replace('.apparmor.d', '')
                if ctx.known_finding(kid):
                    nbad -= 1
                    continue
                if cfg.dist == 'opensuse' and not (a - b) and all('-suse-linux' in p for p in (b - a)):
                    # the shipped multiarch tunable appends *-suse-linux* on opensuse only; the resolver's built-in table has *-linux-gnu* alone
                    if ctx.known_finding('K_builtinMultiarchSuse'):
                        nsuse += 1
                        nbad -= 1
                        continue
                if nbad <= 40:
                    ctx.violation('%s: the attachment of %s does not match the same paths as @{exec_path}: lost %s, added %s' % (
                        cfg.name(), x, sorted(b - a)[:3], sorted(a - b)[:3]), {'config': cfg.name(), 'file': x, 'attachment': att, 'exec_path_expanded_by_parser': ep})
        with ThreadPoolExecutor(max_workers=16) as ex:
            same = list(ex.map(lambda x: dfa_same(overlay, texts[x], header_attachment(texts[x]), ctx.scratch, cfg.name() + x), big))
        ndfa += len(big)
        for x, ok in zip(big, same):
            if ok:
                continue
            nbad += 1
            kid = 'K_builtinTunables:%s' % x.replace('.apparmor.d', '')
            if ctx.known_finding(kid):
                nbad -= 1
                continue
            ctx.violation('%s: the attachment of %s does not compile to the same automaton as @{exec_path} under the shipped tunables (%s)' % (
                cfg.name(), x, 'stub rejected' if ok is None else 'compiled policies differ'),
                {'config': cfg.name(), 'file': x, 'attachment': header_attachment(texts[x]), 'exec_path_expanded_by_parser': eps[x][:6]})
        # exec directives: generated rules vs the targets' @{exec_path}
        src = {}
        for d, _, files in os.walk(os.path.join(lib.REPO, 'apparmor.d')):
            for f in files:
                p = os.path.join(d, f)
                try:
                    t = open(p, encoding='utf-8').read()
                except (UnicodeDecodeError, OSError):
                    continue
                for m in re.finditer(r'(?m)^\s*#aa:exec\s+(.*)$', t):
                    src.setdefault(f, []).append(m.group(1).split())
        for host, dirs in src.items():
            hb = host if host in texts else host + '.apparmor.d'
            if hb not in texts:
                continue
            host_src = set(open([os.path.join(d, host) for d, _, fs in os.walk(os.path.join(lib.REPO, 'apparmor.d')) if host in fs][0], encoding='utf-8').read().split('\n'))
            new_rules = [(mm.group(1), mm.group(2)) for mm in re.finditer(r'(?m)^\s+(\S+)\s+(\w+),$', texts[hb]) if mm.group(0) not in host_src]
            for args in dirs:
                t = 'Px'
                if args and args[0] in ('P', 'U', 'p', 'u', 'PU', 'pu'):
                    t = args[0] + 'x'
                    args = args[1:]
                t = t.replace('P', 'p').replace('U', 'u')      # hotfix ran on the host before? no: directives run after builders, rules keep the requested case
                for tgt in args:
                    tb = tgt if tgt in texts else tgt + '.apparmor.d'
                    if tb not in texts or eps.get(tb) is None or eps[tb][0] == '!rejected':
                        continue
                    nexec += 1
                    want = lang(eps[tb])
                    got = set()
                    for pth, mode in new_rules:
                        if mode.lower() == t.lower():
                            try:
                                e = lang([pth])
                            except (ValueError, OverflowError):
                                continue
                            if e <= want:
                                got |= e
                    if got != want and cfg.dist == 'opensuse' and got <= want and all('-suse-linux' in p for p in (want - got)):
                        if ctx.known_finding('K_builtinMultiarchSuse'):
                            nsuse += 1
                            continue
                    if got != want:
                        nbad += 1
                        if nbad <= 5:
                            ctx.violation('%s: exec directive in %s for %s: generated rules cover %d of the %d path patterns of its @{exec_path}' % (cfg.name(), host, tgt, len(got), len(want)),
                                          {'config': cfg.name(), 'host': host, 'target': tgt, 'missing': sorted(want - got)[:10]})
        shutil.rmtree(tree, ignore_errors=True)
        shutil.rmtree(overlay, ignore_errors=True)
    ctx.count_distinct(ops)
    ctx.cov['evaluations'] += tot + nexec
    ctx.cov['search']['built_attachments'] = {'configs': len(cfgs), 'attachments_compared': tot, 'exec_directive_targets': nexec, 'differing': nbad, 'compared_as_compiled_automata': ndfa,
                                             'known_opensuse_multiarch_cases': nsuse}
    ctx.sample({'op': ops[0], 'real_output': go[0][:400]})
    ctx.cov['rule'] = ('every built profile with an @{exec_path} attachment: the literal header attachment vs the expansion of @{exec_path} '
                       'printed by apparmor_parser -D expanded-variables on the same built file (shipped tunables), compared as sets of '
                       'brace-free patterns, or, when there are too many alternatives to enumerate, as compiled automata of two stub profiles (apparmor_parser -Q -K -S, byte-identical); the same for the rules generated by every exec directive; generated preambles for the nesting')
    if broken and not any(c for _, c, _ in ctx.violations):
        ctx.violation('obligation or correspondence broken: ' + '; '.join(broken)[:600], {'broken': broken}, concrete=False)
    ctx.cov['broken'] += broken
    ctx.assumptions += ['language equality is decided on the full brace expansion (equal sets of brace-free patterns): sufficient, not necessary',
                        'apparmor_parser 3.0.8 with the built tunables overlaid on the installed policy is the reference expansion']


def replay(ctx, data):
    if 'history' in data:
        ctx.build_go(prebuild=True)
        out = ctx.run_go(data.get('suite', 'builder'), data['history'])
        print('after the history :', out[-1][:600])
        print('alone             :', ctx.run_go(data.get('suite', 'builder'), data['history'][-1:])[0][:600])
        return 0
    print(data)
    return 0
