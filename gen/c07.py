"""C07 — generating directives are fully consumed and expand to what they document."""
import os
import re
import shutil
from concurrent.futures import ThreadPoolExecutor

import lib
import rules as R
import c02
from lib import esc, esc_list, unesc, unesc_list

THEOREMS = ['C07.C07_dbus_named_bus_only', 'C07.C07_own_binds', 'C07.C07_talk_common_peer_labelled',
            'C07.C07_exec_one_rule_per_executable', 'C07.C07_stack_lines']


def read_dbus(text):
    """independent reader of the dbus rules (and includes) of a generated text"""
    rules = []
    logical, cur = [], ''
    for raw in text.split('\n'):
        t = raw.strip()
        if cur:
            cur += ' ' + t
        elif t.startswith('dbus '):
            cur = t
        else:
            logical.append(t)
            continue
        if cur.endswith(','):
            logical.append(cur)
            cur = ''
    for l in logical:
        l = l.strip()
        m = re.match(r'^include <(.*)>$', l)
        if m:
            rules.append({'kind': 'include', 'path': m.group(1)})
            continue
        if not l.startswith('dbus '):
            continue
        body = l[5:].rstrip(',')
        acc = re.match(r'^\(([^)]*)\)\s*|^(\w+)\s*', body)
        access = (acc.group(1) or acc.group(2)).split()
        rest = body[acc.end():]
        peer = re.search(r'peer=\(([^)]*)\)', rest)
        d = {'kind': 'dbus', 'access': access, 'bus': '', 'name': '', 'path': '', 'interface': '', 'member': '', 'peer_name': '', 'peer_label': ''}
        if peer:
            for kv in peer.group(1).split(', '):
                k, _, v = kv.partition('=')
                d['peer_' + k.strip()] = v
            rest = rest[:peer.start()]
        for tok in rest.split():
            k, _, v = tok.partition('=')
            if k in d:
                d[k] = v
        rules.append(d)
    return rules


def spec_to_dicts(wire):
    out = []
    for w in wire:
        r = R.dec(w)
        if r['kind'] == 'include':
            out.append({'kind': 'include', 'path': r['f'][1]})
        else:
            f = r['f']
            out.append({'kind': 'dbus', 'access': f[0], 'bus': f[1], 'name': f[2], 'path': f[3], 'interface': f[4], 'member': f[5],
                        'peer_name': f[6], 'peer_label': f[7]})
    return out


EXEC_RE = re.compile(r'(|P|p)(|U|u)(|i)x,')


def run(ctx):
    ctx.build_go(prebuild=True)
    ctx.driver_path = ctx.driver()
    broken = ctx.audit(THEOREMS)
    rng = ctx.rng
    n = 600 if ctx.tier == 'quick' else 15000

    # ---- dbus: text of the real directive read back vs the documented families (Lean) ------------------
    names = ['org.freedesktop.Foo', 'org.a', 'com.x.Y1', 'org.gnome.Shell.Ext']
    dops, sops = [], []
    for i in range(n):
        action = rng.choice(['own', 'talk', 'common'])
        bus = rng.choice(['system', 'session', 'accessibility'])
        name = rng.choice(names)
        path = rng.choice(['-', '-', '/org/x{,/**}', '/p'])
        iface = rng.choice(['-', '-', 'org.i.F', 'org.freedesktop.DBus.Peer'])
        ifp = rng.choice(['-', '-', '-', 'org.i.Plus'])
        label = rng.choice(['foo', 'unconfined', '"@{p_bar}"', 'a-b'])
        # several quoted values on one directive line (the shipped ones have at most one each)
        if path != '-' and rng.random() < 0.3:
            path = '"' + path + '"'
        if iface != '-' and rng.random() < 0.3:
            iface = '"' + iface + '"'
        if ifp != '-' and rng.random() < 0.4:
            ifp = rng.choice(['"org.i.Plus"', '"org.gtk.vfs.{Daemon,Mount}"'])
        args = ['bus=' + bus, 'name=' + name]
        if action != 'own' or rng.random() < 0.2:
            args.append('label=' + label)
        else:
            label = ''
        if path != '-':
            args.append('path=' + path)
        if iface != '-':
            args.append('interface=' + iface)
        if ifp != '-':
            args.append('interface+=' + ifp)
        rng.shuffle(args)
        ind = '  ' * rng.randint(1, 2)
        dops.append(esc(ind + '#aa:dbus ' + action + ' ' + ' '.join(args)))
        sops.append('\t'.join([action, esc(bus), esc(name), path if path == '-' else esc(path), iface if iface == '-' else esc(iface),
                               ifp if ifp == '-' else esc(ifp), esc(label)]))
    go = ctx.run_go('dbusdir', dops)
    sp = ctx.run_lean('dbusspec', sops)
    ctx.cov['evaluations'] += len(dops)
    ctx.cov['traces_validated_against_impl'] += len(dops)
    nd = 0
    for i in range(len(dops)):
        if not go[i].startswith('ok\t'):
            ctx.violation('dbus directive failed', {'op': dops[i], 'go': go[i]})
            continue
        text = unesc(go[i].split('\t')[1])
        got = read_dbus(text)
        want = spec_to_dicts([w for w in sp[i].split('\t')[1:] if w])
        if '#aa:' in text or got != want:
            nd += 1
            if nd <= 3:
                ctx.violation('the dbus directive does not expand to the documented rules', {'op': dops[i], 'text': text, 'read_back': got, 'documented': want})
    ctx.cov['correspondence']['dbus directive vs documented families'] = {'ops': len(dops), 'disagreements': nd}
    ctx.sample({'directive': unesc(dops[0]), 'generated': unesc(go[0].split('\t')[1]) if go[0].startswith('ok') else go[0]})

    # ---- exec and stack through the real directive.Run on generated hosts --------------------------------
    lib_field = esc_list(['%s=%s' % (k, v) for k, v in c02.LIB.items()])
    hops, metas = [], []
    for i in range(n):
        name = 'h%d' % i
        prof = c02.gen_profile(rng, name)
        # half of the hosts are processed after another host, in the same process, that uses the same stacked
        # profiles / exec targets the other way round (X vs non-X, another transition): what a directive yields
        # must not depend on what ran before
        warm = ''
        m = re.search(r'(?m)^  #aa:(stack|exec) (.*)$', prof)
        if m and rng.random() < 0.5:
            a = m.group(2).split()
            if m.group(1) == 'stack':
                a2 = a[1:] if a[0] == 'X' else ['X'] + a
            else:
                a2 = (a[1:] if a[0] in ('P', 'U', 'p', 'u', 'PU', 'pu') else a)
                a2 = [rng.choice(['U', 'p', 'PU'])] + a2
            wprof = c02.gen_profile(rng, 'w%d' % i)
            wprof = re.sub(r'(?m)^  #aa:.*\n', '', wprof)
            wprof = wprof.replace('  include if exists <local/', '  #aa:%s %s\n\n  include if exists <local/' % (m.group(1), ' '.join(a2)), 1)
            warm = esc('w%d=%s' % (i, wprof)) + '\t'
        hops.append(esc_list(['hotfix']) + '\t' + lib_field + '\t' + warm + esc('%s=%s' % (name, prof)))
        metas.append((name, prof))
    out = ctx.run_go('hist', hops)
    ctx.cov['evaluations'] += len(hops)
    # the model's line filter for stacked bodies
    bodies = {}
    for k, v in c02.LIB.items():
        m = re.search(r'(?m)^profile.*\{$((.|\n)*)\}', v)
        bodies[k] = m.group(1).split('\n') if m else []
    ne = ns = 0
    cleaned = {}
    cops = []
    for k in bodies:
        for x in ('0', '1'):
            cops.append('%s\t%s' % (x, esc_list(bodies[k])))
    cres = ctx.run_lean('stackclean', cops)
    j = 0
    for k in bodies:
        for x in ('0', '1'):
            cleaned[(k, x)] = unesc_list(cres[j][3:]) if len(cres[j]) > 3 else []
            j += 1
    for (name, prof), o in zip(metas, out):
        if not o.startswith('ok\t') or '!err' in o.split('\t')[1:]:
            ctx.violation('directive.Run failed on a generated host', {'profile': prof, 'go': o})
            continue
        text = unesc(o.split('\t')[-1])
        if '#aa:' in text:
            ctx.violation('a directive marker survives', {'profile': prof, 'built': text})
            continue
        m = re.search(r'#aa:exec (.*)', prof)
        if m:
            args = m.group(1).split()
            t = 'Px'
            if args[0] in ('P', 'U', 'p', 'u', 'PU', 'pu'):
                t = args[0] + 'x'
                args = args[1:]
            # hotfix ran before the directive, so the generated rule keeps the requested transition as written
            want = []
            for a in args:
                ep = re.findall(r'(?m)^@\{exec_path\}\s*\+?=\s*(.*)$', c02.LIB[a])
                for line in ep:
                    for v in line.split():
                        v = v.replace('@{bin}', '/{,usr/}{,s}bin').replace('@{lib}', '/{,usr/}lib{,exec,32,64}')
                        if v in ('=', '+='):
                            continue
                        want.append((v, t))
            src_lines = set(prof.split('\n'))
            got = [(mm.group(1), mm.group(2)) for mm in re.finditer(r'(?m)^  (\S+) +(\w+),$', text) if mm.group(0) not in src_lines]
            if sorted(got) != sorted(want):
                ne += 1
                if ne <= 3:
                    ctx.violation('exec directive: rules %r, expected one %s rule per executable %r' % (got, t, want), {'profile': prof, 'built': text})
        m = re.search(r'#aa:stack (.*)', prof)
        if m:
            args = m.group(1).split()
            x = '0'
            if args[0] == 'X':
                x = '1'
                args = args[1:]
            want_lines = []
            for a in args:
                want_lines.append('  # Stacked profile: ' + a)
                for l in cleaned[(a, x)]:
                    # the stacked profile's own directives are expanded first
                    if '#aa:' in l:
                        continue
                    want_lines.append(l)
            tl = text.split('\n')
            if '  # Stacked profile: ' + args[0] not in tl:
                ns += 1
                if ns <= 3:
                    ctx.violation('stack directive: no stacked section for %s' % args[0], {'profile': prof, 'built': text})
                continue
            start = tl.index('  # Stacked profile: ' + args[0])
            end = max(i for i, l in enumerate(tl) if l.strip().startswith('include if exists <local/'))
            sec = [l for l in tl[start:end] if l.strip() != '']
            sec_nodbus = []
            skip = False
            for l in sec:
                # rules generated from the stacked profile's own dbus directive are accounted for by the dbus check
                if l.strip().startswith(('dbus ', 'include <abstractions/bus/')) or (skip and l.startswith('       ')):
                    skip = True
                    continue
                skip = False
                sec_nodbus.append(l)
            if sec_nodbus != [l for l in want_lines if l.strip() != '']:
                ns += 1
                if ns <= 3:
                    ctx.violation('stack directive: stacked section differs from the documented selection', {'profile': prof, 'section': sec_nodbus, 'expected': want_lines})
            host_before = prof.split('\n')
            host_lines = [l for l in host_before if '#aa:stack' not in l]
            kept = [l for l in tl[:start] + tl[end:] if True]
            if [l for l in host_lines if l.strip()] != [l for l in kept if l.strip()]:
                ns += 1
                if ns <= 3:
                    ctx.violation('stack directive: the host rules changed', {'profile': prof, 'built': text})
    ctx.cov['search']['exec_stack_hosts'] = {'hosts': len(metas), 'exec_failures': ne, 'stack_failures': ns}
    ctx.count_distinct(dops + hops)

    # ---- real builds: no directive marker left anywhere --------------------------------------------------
    cfgs = [lib.Cfg('arch', 4, '4.1', 'none', True), lib.Cfg('debian', 3, '3.0', 'none', False), lib.Cfg('ubuntu', 4, '4.0', 'complain', True),
            lib.Cfg('opensuse', 4, '4.1', 'enforce', False), lib.Cfg('whonix', 4, '4.0', 'none', False)]       # every distribution once
    if ctx.tier == 'thorough':
        cfgs = [c for c in lib.all_cfgs() if c.mode == 'none']

    def one(cfg):
        tree, o, rc = lib.real_build(ctx, cfg)
        hits = []
        nfiles = 0
        if rc == 0:
            root = os.path.join(tree, '.build', 'apparmor.d')
            for d, _, files in os.walk(root):
                for f in files:
                    p = os.path.join(d, f)
                    if os.path.islink(p):
                        continue
                    nfiles += 1
                    for l in open(p, encoding='utf-8', errors='surrogateescape'):
                        if '#aa:' in l:
                            hits.append((os.path.relpath(p, root), l.rstrip('\n')))
        shutil.rmtree(tree, ignore_errors=True)
        return cfg, rc, hits, nfiles
    with ThreadPoolExecutor(max_workers=6) as ex:
        results = list(ex.map(one, cfgs))
    tot = 0
    for cfg, rc, hits, nf in results:
        tot += nf
        if rc != 0:
            ctx.violation('prebuild failed for %s' % cfg, {'config': cfg.name()})
        for f, l in hits[:5]:
            ctx.violation('%s: directive left in %s: %s' % (cfg.name(), f, l.strip()), {'config': cfg.name(), 'file': f, 'line': l})
    ctx.cov['search']['real_builds'] = {'configs': len(results), 'files_scanned': tot}
    ctx.cov['evaluations'] += tot
    ctx.cov['rule'] = ('dbus directives with every action, three buses, optional path/interface/interface+/label in any order; hosts with '
                       'exec (all transitions, 1-2 targets) and stack (X and non-X, 1-2 stacked profiles, one of which carries its own '
                       'dbus directive), half of them processed after a host that uses the same profiles with the opposite X / another transition; every file of the real builds scanned for #aa:')
    if broken and not any(c for _, c, _ in ctx.violations):
        ctx.violation('obligation broken: ' + '; '.join(broken)[:600], {'broken': broken}, concrete=False)
    ctx.cov['broken'] += broken
    ctx.assumptions += ['the generated dbus text is read back by an independent reader (the library parser does not read multi-line dbus rules; '
                        'the reference parser reads them in C12)']


def replay(ctx, data):
    print(data)
    return 0
