"""C08 — everything a built policy refers to exists in that same build."""
import glob
import os
import re
import shutil
from concurrent.futures import ThreadPoolExecutor

import lib
from lib import esc, esc_list, unesc_list

THEOREMS = ['C08.C08_missing_iff', 'C08.C08_closed_preserved', 'C08.C08_ignore_can_break', 'C08.C08_stack_union']
HDR = re.compile(r'^(\s*)(profile|hat)\s+(\S+)|^(\s*)\^(\S+)')
ARROW = re.compile(r'->\s*(\S+?),\s*(#.*)?$')
VAR = re.compile(r'^@\{([^}]+)\}$')


def scan(root):
    """definitions and references of a built policy directory"""
    defs, refs = set(), []
    tun = {}
    for p in glob.glob(os.path.join(root, 'tunables', '**', '*'), recursive=True):
        if os.path.isfile(p):
            for l in open(p, encoding='utf-8', errors='replace'):
                m = re.match(r'^@\{(\w+)\}\s*\+?=\s*(.*)$', l.strip())
                if m:
                    tun.setdefault(m.group(1), []).extend(m.group(2).split())
    for d, dirs, files in os.walk(root):
        rel = os.path.relpath(d, root)
        if rel.split(os.sep)[0] in ('tunables', 'abstractions', 'mappings', 'local', 'disable'):
            continue
        for f in files:
            p = os.path.join(d, f)
            if os.path.islink(p):
                continue
            stack = []
            fn = os.path.relpath(p, root)
            for l in open(p, encoding='utf-8', errors='replace'):
                s = l.rstrip('\n')
                t = s.strip()
                if t.startswith('#'):
                    continue
                m = HDR.match(s)
                if m and t.endswith('{'):
                    name = m.group(3) or m.group(5)
                    full = name if not stack else stack[0] + '//' + name
                    stack.append(full if not stack else stack[0])
                    if len(stack) == 1:
                        stack[0] = name
                    defs.add(full)
                    continue
                if t == '}':
                    if stack:
                        stack.pop()
                    continue
                if ('x' in t or 'X' in t or t.startswith('change_profile')) and '->' in t:
                    m2 = ARROW.search(t)
                    if not m2:
                        continue
                    is_exec = re.search(r'\s\w*[xX]\w*\s*->', t) is not None and not t.startswith(('mount', 'link', 'pivot_root', 'dbus', 'deny link', 'owner link', 'audit link', 'remount', 'umount'))
                    if not (is_exec or t.startswith('change_profile')):
                        continue
                    tgt = m2.group(1).strip('"')
                    refs.append((fn, stack[0] if stack else '', tgt))
    return defs, refs, tun


def resolve(tgt, cur, defs, tun):
    """does the target name resolve in this build?"""
    names = [tgt]
    if tgt.startswith('&'):
        names = [tgt[1:]]
    out = []
    for n in names:
        for part in re.split(r'//&', n):
            mv = VAR.match(part)
            cands = tun.get(mv.group(1), []) if mv else [part]
            if mv and mv.group(1) in tun:
                out.append(all(c in defs or c in ('unconfined',) or (cur + '//' + c) in defs for c in cands))
            else:
                c = part
                out.append(c in defs or (cur + '//' + c) in defs or c == 'unconfined' or any(x in c for x in '*?[{'))
    return all(out)


def run(ctx):
    ctx.build_go(prebuild=True)
    ctx.driver_path = ctx.driver()
    broken = ctx.audit(THEOREMS)
    cfgs = [lib.Cfg(d, 4, '4.1', 'none', f) for d in lib.DISTS for f in (False, True)]
    if ctx.tier == 'thorough':
        cfgs += [lib.Cfg(d, 3, '3.0', 'none', f) for d in lib.DISTS for f in (False, True)]

    def one(cfg):
        tree, o, rc = lib.real_build(ctx, cfg)
        res = None
        if rc == 0:
            root = os.path.join(tree, '.build', 'apparmor.d')
            defs, refs, tun = scan(root)
            drop = []
            for p in [q for q in glob.glob(os.path.join(tree, '.build', 'systemd', '**', '*'), recursive=True) if os.path.isfile(q)]:
                for l in open(p, encoding='utf-8', errors='replace'):
                    m = re.match(r'^\s*AppArmorProfile=(\S+)', l)
                    if m:
                        drop.append((os.path.relpath(p, os.path.join(tree, '.build')), m.group(1)))
            res = (defs, refs, tun, drop)
        shutil.rmtree(tree, ignore_errors=True)
        return cfg, res
    with ThreadPoolExecutor(max_workers=6) as ex:
        results = list(ex.map(one, cfgs))
    nrefs = 0
    ops, keys = [], []
    for cfg, res in results:
        if res is None:
            ctx.violation('prebuild failed for %s' % cfg, {'config': cfg.name()})
            continue
        defs, refs, tun, drop = res
        # references that resolve through a variable or the enclosing profile are settled here; the closure itself is decided in Lean
        flat_refs, meta = [], []
        for fn, cur, tgt in refs:
            nrefs += 1
            if resolve(tgt, cur, defs, tun):
                continue
            flat_refs.append(tgt)
            meta.append((fn, tgt))
        for fn, name in drop:
            nrefs += 1
            flat_refs.append(name)
            meta.append((fn, name))
        ops.append('%s\t%s' % (esc_list(sorted(defs)), esc_list(flat_refs)))
        keys.append((cfg, meta))
    out = ctx.run_lean('closed', ops)
    ctx.cov['evaluations'] += nrefs
    dangling = {}
    for (cfg, meta), o in zip(keys, out):
        miss = set(unesc_list(o[3:])) if len(o) > 3 else set()
        for fn, tgt in meta:
            if tgt in miss:
                dangling.setdefault((fn.replace('.apparmor.d', ''), tgt), []).append(cfg.name())
    for (fn, tgt), cs in sorted(dangling.items()):
        kid = 'K_dangling:%s->%s' % (fn, tgt)
        if ctx.known_finding(kid, 'built %s refers to %s, which is in no build of: %s' % (fn, tgt, ', '.join(sorted({c.split('-')[0] for c in cs})))):
            continue
        ctx.violation('%s refers to %s, which does not exist in the build (%s)' % (fn, tgt, ', '.join(cs[:4])), {'file': fn, 'target': tgt, 'configs': cs})

    # ---- names used by directives, flags manifests and the overwrite list exist in the source tree -------------
    src = set()
    for p in glob.glob(os.path.join(lib.REPO, 'apparmor.d', 'groups', '*', '*')) + glob.glob(os.path.join(lib.REPO, 'apparmor.d', 'profiles-*-*', '*')):
        src.add(os.path.basename(p).replace('.apparmor.d', ''))
    named = []
    for p in glob.glob(os.path.join(lib.REPO, 'apparmor.d', '**', '*'), recursive=True):
        if os.path.isfile(p):
            for l in open(p, encoding='utf-8', errors='replace'):
                m = re.search(r'#aa:(exec|stack)\s+(.*)$', l)
                if m:
                    for a in m.group(2).split():
                        if a not in ('X', 'P', 'U', 'p', 'u', 'PU', 'pu'):
                            named.append((os.path.relpath(p, lib.REPO), a))
    for p in glob.glob(os.path.join(lib.REPO, 'dists', 'flags', '*.flags')) + [os.path.join(lib.REPO, 'dists', 'overwrite')]:
        if os.path.exists(p):
            for l in open(p):
                l = l.split('#')[0].strip()
                if l:
                    named.append((os.path.relpath(p, lib.REPO), l.split(' ')[0]))
    o = ctx.run_lean('closed', ['%s\t%s' % (esc_list(sorted(src)), esc_list([n for _, n in named]))])[0]
    miss = set(unesc_list(o[3:])) if len(o) > 3 else set()
    for fn, n in named:
        if n in miss:
            kid = 'K_manifest:%s->%s' % (fn, n)
            if ctx.known_finding(kid, '%s names %s, which is not a profile of the source tree' % (fn, n)):
                continue
            ctx.violation('%s names %s, which is not a profile of the source tree' % (fn, n), {'file': fn, 'name': n})
    # the names the code itself reads from each flags manifest (prebuild.Flags.Read) are the names an independent reading finds:
    # a name the reader cuts or joins would make the build flag another profile, or none, without any error
    fdir = os.path.join(lib.REPO, 'dists', 'flags')
    mans = sorted(os.path.basename(p)[:-6] for p in glob.glob(os.path.join(fdir, '*.flags')))
    rd = ctx.run_go('flagsread', ['%s\t%s' % (esc(fdir), esc(m)) for m in mans])
    nread = 0
    for m, o in zip(mans, rd):
        own = {}
        for l in open(os.path.join(fdir, m + '.flags')):
            l = l.split('#')[0].strip()
            if l:
                parts = l.split()
                own[parts[0]] = parts[1] if len(parts) > 1 else ''
        code = dict(kv.split('=', 1) for kv in unesc_list(o[3:])) if o.startswith('ok\t') and len(o) > 3 else {}
        nread += len(code)
        if not o.startswith('ok') or code != own:
            diff = sorted(k for k in set(code) | set(own) if code.get(k) != own.get(k))
            ctx.violation('dists/flags/%s.flags: the build reads %s where the file says %s' % (
                m, [(k, code.get(k)) for k in diff[:3]], [(k, own.get(k)) for k in diff[:3]]),
                {'manifest': m, 'suite': 'flagsread', 'op': '%s\t%s' % (esc(fdir), esc(m)), 'differing': diff[:20]})
    ctx.cov['search']['manifest_reader'] = {'manifests': len(mans), 'entries_read': nread}
    ctx.count_distinct(['%s:%s' % k for k in dangling] + [c.name() for c in cfgs])
    ctx.cov['search']['closure'] = {'configs': len(cfgs), 'references_checked': nrefs, 'dangling_pairs': len(dangling), 'manifest_names': len(named)}
    ctx.cov['evaluations'] += len(named)
    ctx.sample({'config': cfgs[0].name(), 'dangling': sorted('%s -> %s' % k for k in dangling)[:10]})
    ctx.cov['rule'] = ('every named exec-transition target, change_profile target and stacked name of every built file, every AppArmorProfile= '
                       'of the built drop-ins, in every distribution x {normal, full}; names of exec/stack directives, flags manifests and '
                       'the overwrite list against the source profiles; closure decided by C08.missing (Lean)')
    if broken and not any(c for _, c, _ in ctx.violations):
        ctx.violation('obligation broken: ' + '; '.join(broken)[:600], {'broken': broken}, concrete=False)
    ctx.cov['broken'] += broken
    ctx.assumptions += ['targets that are variables are resolved through the built tunables; a target may name a sub-profile of the enclosing profile',
                        'definitions and references are read by a line scanner (headers, `-> name,` on exec and change_profile rules)']


def replay(ctx, data):
    print(data)
    return 0
