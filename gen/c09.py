"""C09 — rule text round-trips through the printer and the parser."""
import glob
import os

import lib
import tolean
import rules as R
import rules9 as R9
from lib import esc, esc_list, unesc, unesc_list

THEOREMS = ['C09.C09_tokenize_words', 'C09.C09_padding_is_layout', 'C09.C09_token_atomic_example', 'C09.C09_line_to_tokens',
            'C09.C09_paragraphs_split', 'C09.C09_capability_roundtrip', 'C09.C09_network_roundtrip', 'C09.C09_ptrace_roundtrip',
            'C09.C09_signal_roundtrip', 'C09.C09_file_transition_roundtrip',
            'C09.C09_comment_bare_keyword_dropped', 'C09.C09_no_new_privs_lost', 'C09.C09_allow_not_printed',
            'C09.C09_mqueue_without_name', 'C09.C09_marker_empty_comment', 'C09.C09_paragraph_ends_brace',
            'C09.C09_file_all_paths', 'C09.C09_file_roundtrip', 'C09.tables_are_words', 'C09.C09_capability_all_lists',
            'C09.C09_network_all', 'C09.C09_network_unknown_type_dropped', 'C09.ptrace_table_words', 'C09.C09_ptrace_all',
            'C09.signal_table_words', 'C09.C09_signal_all', 'C09.C09_rlimit_all', 'C09.cp_mode_words', 'C09.C09_change_profile_all', 'C09.C09_link_all']

LINE_KINDS = ('include', 'comment', 'variable')


def witness(kind, f, comment='', at='', audit=False, **kw):
    x = {'kind': kind, 'audit': audit, 'at': at, 'comment': comment, 'nnp': False, 'fi': False, 'opt': False, 'f': f}
    x.update(kw)
    return x


WITNESSES = {
    'K_commentBareKeyword': witness('capability', [[]], ' c'),
    'K_noNewPrivs': witness('ptrace', [['read'], 'foo'], ' c', nnp=True),
    'K_allow': witness('ptrace', [['read'], 'foo'], at='allow'),
    'K_mqueueNoName': witness('mqueue', [['create', 'delete'], '', 'x', '']),
    'K_unixAttrOpt': witness('unix', [['send'], 'stream', '', '', '', 'a', 'o', '', '']),
    'K_markerEmptyComment': witness('ptrace', [['read'], 'foo'], fi=True),
    'K_paragraphEndsBrace': witness('ptrace', [['read'], 'foo'], ' see {x}'),
    'K_includeSpaceMagic': witness('include', [False, '/etc/x d/y', True]),
    'K_equalsInValue': witness('file', [False, '/etc/k=v', ['r'], ''], at='deny'),
}


def expected_paragraphs(padded_fields):
    """what ParseRules gives back for a printed block: per paragraph (blank line = nil entry), the line rules
    (include, comment) first, then the comma rules, each class in its printed order"""
    paras, cur = [], []
    oldkind = ''
    for j in range(0, len(padded_fields), 2):
        w = padded_fields[j]
        if w == '':
            continue
        if w == 'nil':
            paras.append(cur)
            cur = []
            continue
        kind = w.split('|')[0]
        if kind != 'comment':
            if kind != oldkind and oldkind != '':
                paras.append(cur)       # the template leaves an empty line where the kind changes
                cur = []
            oldkind = kind
        cur.append(w)
    paras.append(cur)
    out = []
    for p in paras:
        if not p:
            continue
        out.append([w for w in p if w.split('|')[0] in LINE_KINDS] + [w for w in p if w.split('|')[0] not in LINE_KINDS])
    return out


def got_paragraphs(reply):
    if not reply.startswith('ok'):
        return None
    paras, cur = [], []
    for w in reply.split('\t')[1:]:
        if w == '--':
            paras.append(cur)
            cur = []
        else:
            cur.append(w)
    paras.append(cur)
    return [p for p in paras if p]


def run(ctx):
    ctx.build_go()
    T = ctx.tables()
    ctx.driver_path = ctx.driver()
    broken = ctx.audit(THEOREMS, {'AaVerif.Props.Full.C09Full': ['C09Full.C09_capability_roundtrip_full', 'C09Full.C09_network_roundtrip_full', 'C09Full.C09_signal_roundtrip_full']})
    rng = ctx.rng
    g = R9.Gen9(rng, T)
    n = 6000 if ctx.tier == 'quick' else 150000

    def note(label, ops, go, le, bad):
        for i in bad[:3]:
            ctx.sample({'suite': label, 'op': ops[i][:500], 'go': go[i][:500], 'model': le[i][:500]})
        if bad:
            broken.append('correspondence: %s differs from the model on %d of %d ops' % (label, len(bad), len(ops)))

    # ---- single rules: String() vs renderRule, with arbitrary space paddings --------------------------------------------
    rules = [g.rule() for _ in range(n)]
    pads = [[' ' * rng.randint(0, 3) for _ in range(rng.randint(0, 7))] if rng.random() < 0.5 else [] for _ in rules]
    ops = [R.enc(x) + '\t' + esc_list(p) for x, p in zip(rules, pads)]
    go, le, bad = ctx.diff('render1', ops, label='Rule.String vs renderRule')
    note('Rule.String', ops, go, le, bad)
    texts = [unesc(o[3:]) if o.startswith('ok\t') else None for o in go]
    plain = ctx.run_go('render1', [R.enc(x) + '\t' for x in rules])
    ctx.cov['evaluations'] += len(plain)

    # ---- the parser on the printed text (a paragraph is the text up to and including a blank line) ----------------------------
    pops = [esc((t or '') + '\n\n') for t in texts]
    go2, le2, bad2 = ctx.diff('parserules', pops, label='ParseRules vs parseRules (printed rules)')
    note('ParseRules on printed rules', pops, go2, le2, bad2)
    # token level, on the same texts without the final comma and comment
    tops = []
    for t in texts[:n // 2]:
        body = (t or '').split(', #')[0].rstrip(',')
        tops.append('%d\t%s' % (0, esc(body)))
    go3, le3, bad3 = ctx.diff('tokenize', tops, label='tokenizeRule vs tokenize')
    note('tokenizeRule', tops, go3, le3, bad3)
    go4, le4, bad4 = ctx.diff('parserule', tops, label='parseRule vs parseRule')
    note('parseRule', tops, go4, le4, bad4)

    # ---- the parser on every shipped file, and on damaged copies of lines (malformed stream: error class only) ----------------
    files = sorted(f for f in glob.glob(os.path.join(lib.REPO, 'apparmor.d', '**', '*'), recursive=True) if os.path.isfile(f))
    if ctx.tier == 'quick':
        files = files[::4]
    fops = []
    lines_pool = []
    for f in files:
        t = open(f, 'rb').read().decode('utf-8', 'surrogateescape')
        fops.append(esc(t))
        lines_pool += [l for l in t.split('\n') if l.strip() and not l.strip().startswith('#')][:40]
    go5, le5, bad5 = ctx.diff('parserules', fops, label='ParseRules vs parseRules (shipped files)')
    note('ParseRules on shipped files', fops, go5, le5, bad5)
    mops = []
    for _ in range(n // 3):
        l = rng.choice(lines_pool)
        k = rng.random()
        if k < 0.25 and len(l) > 3:
            i = rng.randrange(len(l))
            l = l[:i] + l[i + 1:]
        elif k < 0.5:
            i = rng.randrange(len(l) + 1)
            l = l[:i] + rng.choice(['"', '(', ')', '{', '}', ',', ' ', '=', '#', '->', ', ']) + l[i:]
        elif k < 0.6:
            l = l.rstrip(',')
        mops.append(esc(l + '\n\n'))
    go6, le6, bad6 = ctx.diff('parserules', mops, label='ParseRules vs parseRules (damaged lines)')
    note('ParseRules on damaged lines', mops, go6, le6, bad6)
    lops = ['%d\t%s' % (rng.random() < 0.2, esc(l.strip().rstrip(','))) for l in rng.sample(lines_pool, min(len(lines_pool), n))]
    go7, le7, bad7 = ctx.diff('parserule', lops, label='parseRule vs parseRule (shipped lines)')
    note('parseRule on shipped lines', lops, go7, le7, bad7)

    # ---- search 1: valid rule -> text -> rule, and text -> rule -> text ------------------------------------------------------
    nj = nfail = 0
    classes = {}
    reprint_ops, reprint_idx = [], []
    for i, (x, t, o) in enumerate(zip(rules, texts, go2)):
        kc = R9.known_class(x)
        if kc:
            classes[kc] = classes.get(kc, 0) + 1
            continue
        nj += 1
        got = got_paragraphs(o)
        want = R.enc(x)
        if t is None or got != [[want]]:
            nfail += 1
            if nfail <= 3:
                ctx.violation('a valid %s rule does not come back from its own text: %r' % (x['kind'], t),
                              {'rule': want, 'text': t, 'parsed': o[:2000], 'paddings': pads[i]})
            continue
        # padding is layout only: the unpadded text parses to the same rule (it did: same `want`), and printing
        # the parsed rule gives the unpadded text again
        reprint_ops.append(got[0][0] + '\t')
        reprint_idx.append(i)
    re_out = ctx.run_go('render1', reprint_ops)
    ctx.cov['evaluations'] += len(re_out)
    nre = 0
    for i, o in zip(reprint_idx, re_out):
        if o != plain[i]:
            nre += 1
            if nre <= 3:
                ctx.violation('printing the parsed rule does not reproduce the text', {'rule': R.enc(rules[i]), 'first': plain[i], 'second': o})
    ctx.count_distinct([ops[i] for i in reprint_idx])
    ctx.cov['search']['single_rules'] = {'rules': len(rules), 'judged': nj, 'not_round_tripping': nfail, 'text_not_reproduced': nre,
                                         'skipped_known_classes': classes}

    # ---- search 2: blocks after Merge + Sort + Format ----------------------------------------------------------------------------
    nb = n // 4
    kinds = ['capability', 'network', 'mount', 'signal', 'ptrace', 'unix', 'dbus', 'file', 'file', 'link', 'include', 'change_profile',
             'pivot_root', 'rlimit', 'mqueue', 'io_uring', 'umount', 'remount', 'userns', 'all', 'comment']
    blocks = []
    for i in range(nb):
        ks = rng.sample(kinds, rng.randint(1, 4))
        l = []
        for _ in range(rng.randint(2, 9)):
            if l and rng.random() < 0.3:
                # near duplicate: same rule, other access / comment (merge candidates)
                y = dict(rng.choice(l))
                z = g.rule(y['kind'])
                y = dict(y, f=list(y['f']), comment=z['comment'])
                for j, v in enumerate(y['f']):
                    if isinstance(v, list) and rng.random() < 0.7 and y['kind'] != 'dbus':     # (a bind rule has other fields)
                        y['f'][j] = z['f'][j]
                x = y
            else:
                x = g.rule(rng.choice(ks))
            if R9.known_class(x) or x['kind'] == 'comment' and rng.random() < 0.7:
                continue
            l.append(x)
        if l:
            blocks.append(l)
    bops = ['\t'.join(R.enc(x) for x in l) for l in blocks]
    msf = ctx.run_go('msf', bops)
    ctx.cov['evaluations'] += len(bops)
    rops = [o[3:] if o.startswith('ok\t') else '' for o in msf]
    go8, le8, bad8 = ctx.diff('render', rops, label='Rules.String vs renderRules (after Merge+Sort+Format)')
    note('Rules.String', rops, go8, le8, bad8)
    btexts = [unesc(o[3:]) if o.startswith('ok\t') else '' for o in go8]
    bpops = [esc(t + '\n') for t in btexts]
    go9, le9, bad9 = ctx.diff('parserules', bpops, label='ParseRules vs parseRules (formatted blocks)')
    note('ParseRules on formatted blocks', bpops, go9, le9, bad9)
    nbj = nbf = npad = 0
    for i, l in enumerate(blocks):
        if not msf[i].startswith('ok'):
            ctx.violation('Merge/Sort/Format crashed', {'op': bops[i], 'go': msf[i]})
            continue
        f = rops[i].split('\t')
        for j in range(1, len(f), 2):
            if any(p.strip(' ') != '' for p in unesc_list(f[j])):
                npad += 1
                ctx.violation('Format stored a padding that is not a run of spaces', {'op': bops[i], 'formatted': rops[i]})
        want = expected_paragraphs(f)
        # merging may fuse two exec transitions into one access list (C10/C12 known class): such a rule cannot be re-read
        trans = set(T['Aa']['Requirements']['file']['transition'])
        fused = any(w.split('|')[0] == 'file' and sum(1 for a in unesc_list(w.split('|')[9]) if a in trans) > 1 for p in want for w in p)
        if fused:
            continue
        # a comment that ends in `}` on the last line of a paragraph
        if any(unesc(p[-1].split('|')[3]).endswith('}') for p in want if p) or any(unesc(w.split('|')[3]).endswith('}') for p in want for w in p):
            continue
        # merged comments may start with the no-new-privs marker text etc.: merged rules are judged only when valid
        if any(R9.known_class(R.dec(w)) for p in want for w in p):
            continue
        nbj += 1
        got = got_paragraphs(go9[i])
        if got != want:
            nbf += 1
            if nbf <= 3:
                ctx.violation('a formatted block does not come back from its own text', {'text': btexts[i], 'expected': want, 'parsed': got})
    ctx.count_distinct(bops)
    ctx.cov['search']['blocks'] = {'blocks': len(blocks), 'judged': nbj, 'not_round_tripping': nbf, 'bad_paddings': npad}

    # ---- search 3: a whole file (preamble + profile header) printed and parsed back --------------------------------------------------
    nf = n // 6
    fops, fexp = [], []
    for i in range(nf):
        pre = []
        if rng.random() < 0.8:
            pre.append(witness('abi', [rng.choice(['abi/4.0', 'abi/3.0']), rng.random() < 0.9]))
        for _ in range(rng.randint(0, 2)):
            pre.append(witness('alias', ['/usr/' + rng.choice('abc'), '/opt/' + rng.choice('xyz') + '/']))
        lines = []
        for _ in range(rng.randint(1, 6)):
            k = rng.random()
            if k < 0.3:
                lines.append(witness('include', [rng.random() < 0.3, rng.choice(['tunables/global', 'tunables/foo.d', 'local/x']), rng.random() < 0.8]))
            elif k < 0.5:
                lines.append(witness('comment', [], rng.choice([' apparmor.d - Full set', ' Copyright (C) 2021-2024 A, B', ' vim:syntax=apparmor', ' a = b'])))
            else:
                vals = [g.path(False, False).replace('k=v', 'kv').replace('g++', 'gpp').replace('libstdc++.so.6', 'libstdc.so.6') for _ in range(rng.randint(1, 3))]
                lines.append(witness('variable', [rng.choice(['exec_path', 'lib_dirs', 'name', 'domain']), vals, rng.random() < 0.7]))
        rng.shuffle(lines)
        # the template prints the preamble in list order: abi/alias first here, then the line rules
        pre += lines
        name = rng.choice(['foo', 'foo-bar', 'a.b', 'gnome-shell', 'foo//bar'])
        att = rng.choice([[], ['@{exec_path}'], ['/usr/bin/x'], ['@{exec_path}', '/opt/x/bin/y'], ['/usr/bin/{a,b}', '/usr/lib/z', '@{bin}/w']])
        flags = rng.sample(['complain', 'attach_disconnected', 'mediate_deleted'], rng.randint(0, 3))
        attrs = rng.choice([[], [], ['security.tagged=allowed'], ['security.tagged=allowed', 'user.trust=tier1'], ['security.apparmor=x', 'security.tagged=allowed', 'user.a=b']])
        fops.append('\t'.join([esc(name), esc_list(att), esc_list(flags), esc_list(attrs)] + [R.enc(x) for x in pre]))
        fexp.append((name, att, flags, attrs, pre))
    fout = ctx.run_go('fileroundtrip', fops)
    ctx.cov['evaluations'] += len(fops)
    nff = 0
    for (name, att, flags, attrs, pre), o, op in zip(fexp, fout, fops):
        p = o.split('\t')
        ok = p[0] == 'ok' and p[2] == '1'
        if ok:
            gname, gatt, gflags, gattrs = unesc(p[3]), unesc_list(p[4]), unesc_list(p[5]), unesc_list(p[6])
            back = p[p.index('--') + 1:] if '--' in p else []
            back = [w for w in back if w]
            wl = [R.enc(x) for x in pre if x['kind'] in LINE_KINDS]
            ws = sorted(R.enc(x) for x in pre if x['kind'] not in LINE_KINDS)
            gl = [w for w in back if w.split('|')[0] in LINE_KINDS]
            gs = sorted(w for w in back if w.split('|')[0] not in LINE_KINDS)
            ok = (gname, gatt, gflags, gattrs) == (name, att, flags, attrs) and gl == wl and gs == ws
        if not ok:
            nff += 1
            if nff <= 3:
                ctx.violation('a printed profile file does not come back: header or preamble differ', {'op': op, 'printed': unesc(p[1]) if len(p) > 1 else '', 'reply': o[:3000]})
    ctx.cov['search']['files'] = {'files': len(fops), 'not_round_tripping': nff}
    # parsing printed rules after a preamble-only file (tunables) was parsed in the same process: same result as alone
    tun = '# tunables\n\n@{bin}=/{,usr/}{,s}bin\n@{lib}=/{,usr/}lib{,exec,32,64}\n\ninclude <tunables/foo.d>\n'
    hidx = [i for i, t in enumerate(texts) if t and not R9.known_class(rules[i])][:n // 4]
    hout = ctx.run_go('parsehist', [esc(tun) + '\t' + pops[i] for i in hidx])
    ctx.cov['evaluations'] += len(hidx)
    nh = 0
    for i, o in zip(hidx, hout):
        if o != go2[i]:
            nh += 1
            if nh <= 3:
                ctx.violation('printed rules are read differently after a preamble-only file was parsed in the same process', {'text': texts[i], 'alone': go2[i], 'after_file': o})
    ctx.cov['search']['parse_history'] = {'runs': len(hidx), 'differing': nh}

    # the formatter pipeline (parse, merge, sort, format, print) run on paragraphs with near-duplicate rules between two
    # readings of the same printed rules, all in one process: both readings must give what a fresh process gives
    hk = ['file', 'file', 'file', 'signal', 'ptrace', 'dbus', 'unix', 'mqueue', 'mount', 'capability', 'network']
    hrules, hspan = [], []
    for _ in range(n // 6):
        start = len(hrules)
        for _ in range(rng.randint(1, 3)):
            x = g.rule(rng.choice(hk))
            if R9.known_class(x):
                continue
            hrules.append(x)
            for _ in range(rng.randint(1, 3)):
                z = g.rule(x['kind'])
                y = dict(x, f=list(x['f']), comment='')
                for j, v in enumerate(y['f']):
                    if isinstance(v, list) and x['kind'] != 'dbus':
                        y['f'][j] = z['f'][j]
                if not R9.known_class(y):
                    hrules.append(y)
        hspan.append((start, len(hrules)))
    hlines = ctx.run_go('render1', [R.enc(x) + '\t' for x in hrules])
    htexts = ['\n'.join(unesc(o[3:]) for o in hlines[a:b] if o.startswith('ok\t')) + '\n\n' for a, b in hspan if b > a]
    pidx = [i for i, t in enumerate(texts) if t and not R9.known_class(rules[i])][:n // 3]
    hops = ['parse\t' + pops[i] for i in pidx] + ['fmt\t' + esc(t) for t in htexts] + ['parse\t' + pops[i] for i in pidx]
    hres = ctx.run_go('aahist', hops)
    ctx.cov['evaluations'] += len(hops)
    nh2 = 0
    for k, i in enumerate(pidx):
        for which, o in (('before', hres[k]), ('after', hres[len(pidx) + len(htexts) + k])):
            if o != go2[i]:
                nh2 += 1
                if nh2 <= 3:
                    ctx.violation('a printed rule is read differently %s the formatter pipeline (parse, merge, sort, format) ran on other paragraphs '
                                  'in the same process: it no longer comes back from its own text' % which,
                                  {'text': texts[i], 'alone': go2[i], 'in_history': o, 'history': 'aahist: %d parse ops, %d fmt ops, the parse ops again' % (len(pidx), len(htexts)),
                                   'sample_fmt_paragraph': htexts[0] if htexts else ''})
    ctx.cov['search']['formatter_history'] = {'parse_ops': 2 * len(pidx), 'fmt_paragraphs': len(htexts), 'differing': nh2}

    # ---- known findings: witnesses on the real code ---------------------------------------------------------------------------------
    wk = list(WITNESSES)
    wout = ctx.run_go('render1', [R.enc(WITNESSES[k]) + '\t' for k in wk])
    wparse = ctx.run_go('parserules', [esc(unesc(o[3:]) + '\n\n') for o in wout])
    for k, o, p in zip(wk, wout, wparse):
        if got_paragraphs(p) != [[R.enc(WITNESSES[k])]]:
            if not ctx.known_finding(k):
                ctx.violation('witness of %s fails and the class is not listed' % k, {'rule': R.enc(WITNESSES[k]), 'text': o, 'parsed': p})
    ctx.sample({'rule': ops[0], 'text': texts[0], 'parsed': go2[0][:300]})
    ctx.sample({'block': btexts[0][:600], 'parsed': go9[0][:600]})
    ctx.cov['rule'] = ('valid rules of every kind generated as structures (table values from the regenerated requirement tables, AARE paths with '
                       'variables, alternations, classes and quoted spaces, names, qualifiers, trailing comments and markers), printed with random '
                       'space paddings and re-read; blocks of 2-9 rules with near duplicates after Merge+Sort+Format; every shipped file, '
                       'damaged lines; non-trivial = valid rule or block outside the known classes')
    if broken and not any(c for _, c, _ in ctx.violations):
        ctx.violation('obligation or correspondence broken: ' + '; '.join(broken)[:600], {'broken': broken}, concrete=False)
    ctx.cov['broken'] += broken
    ctx.assumptions += ['text is valid UTF-8 (the Go code iterates runes, the model bytes: the same on valid UTF-8 since every character it tests is ASCII)',
                        'the alignment paddings computed by Format are taken from the real code and checked to be runs of spaces; the layout theorem holds for every such padding',
                        'a paragraph is the printed text followed by a blank line, as the formatter cmd/aa writes it']


def replay(ctx, data):
    ctx.build_go()
    if 'rule' in data:
        o = ctx.run_go('render1', [data['rule'] + '\t'])[0]
        print(o)
        print(ctx.run_go('parserules', [esc(unesc(o[3:]) + '\n\n')])[0])
    else:
        print(data)
    return 0
