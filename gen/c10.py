"""C10 — merging rules never changes what the rules grant or deny."""
import lib
import tolean
import rules as R
from lib import esc_list

THEOREMS = ['C10.C10_merge_preserves_meaning', 'C10.C10_merge_values_union', 'C10.C10_absorb_shrinks', 'C10.C10_case_drop',
            'C10.C10_empty_access_narrowed', 'C10.C10_mount_options_fused', 'C10.C10_exec_modes_fused',
            'C10.C10_signal_not_idempotent', 'C10.C10_den_preserved_partial', 'C10.C10_dup_only_identical_partial',
            'C10.C10_merge_contract', 'C10.C10_dup_contract', 'C10.C10_idempotent_partial', 'C10.C10_merged_keys_distinct']
# kind -> indices of the list fields that Merge unites
MERGED = {'mqueue': [0], 'io_uring': [0], 'ptrace': [0], 'unix': [0], 'dbus': [0], 'file': [2], 'signal': [0, 1], 'variable': [1]}
MOUNTS = ('mount', 'umount', 'remount')
EMPTY_ALL = {'mqueue', 'io_uring', 'ptrace', 'unix', 'dbus', 'signal'}


def universe(req, kind, idx):
    tk = R.LISTREQ.get((kind, idx))
    return list(dict.fromkeys(req[tk[0]][tk[1]])) if tk else []


def den(req, x):
    """facts expressed by one rule: (kind, audit, access type, subject fields, permission)"""
    if x is None:
        return set()
    kind = x['kind']
    if kind in ('comment',):
        return set()
    q = (x['audit'], x['at'])
    idxs = MERGED.get(kind, [])
    subj = tuple(('*' if i in idxs else (tuple(v) if isinstance(v, list) else v)) for i, v in enumerate(x['f']))
    if kind in MOUNTS:
        subj = tuple((frozenset(v) if isinstance(v, list) else v) for v in x['f'])
    if kind == 'userns':
        subj = ()       # `userns,` and `userns create,` grant the same (only) permission
    if not idxs:
        return {(kind, q, subj, ())}
    lists = []
    for i in idxs:
        v = x['f'][i]
        if not v and kind in EMPTY_ALL:
            v = universe(req, kind, i)          # an empty list means every permission
        lists.append(v)
    facts = set()
    if len(lists) == 1:
        for p in lists[0]:
            facts.add((kind, q, subj, (p,)))
    else:
        for p in lists[0]:
            for s in lists[1]:
                facts.add((kind, q, subj, (p, s)))
    return facts


def Den(req, l):
    s = set()
    for x in l:
        s |= den(req, x)
    return s


def known_class(g, l):
    """name of the known class a list falls in, or None"""
    rules = [x for x in l if x is not None]
    if not all(g.canon(x) for x in rules):
        return 'K_case'
    for x in rules:
        for i in MERGED.get(x['kind'], []):
            if x['kind'] in EMPTY_ALL and not x['f'][i]:
                return 'K_emptyAccess'
    ms = {}
    for x in rules:
        if x['kind'] in MOUNTS:
            k = (x['kind'], x['audit'], x['at'], x['f'][0]) + tuple(x['f'][2:])
            ms.setdefault(k, set()).add(tuple(x['f'][1]))
    if any(len(v) > 1 for v in ms.values()):
        return 'K_mountOptions'
    return None


def run(ctx):
    ctx.build_go()
    T = ctx.tables()
    req = T['Aa']['Requirements']
    ctx.driver_path = ctx.driver()
    broken = ctx.audit(THEOREMS)
    rng = ctx.rng
    g = R.Gen(rng, T)
    g.real = True           # fields that carry a keyword (queue type, socket type, bus ...) take real values half of the time
    n = 5000 if ctx.tier == 'quick' else 120000

    def gen_lists(count, kinds=None, allow_odd=True):
        res = []
        for i in range(count):
            odd = allow_odd and i % 4 == 0
            k = rng.choice(kinds or list(R.SCHEMA)) if (kinds or rng.random() < 0.7) else None
            base = [g.rule(k, odd) for _ in range(rng.randint(1, 4))]
            l = list(base)
            for _ in range(rng.randint(1, 5)):
                l.append(g.perturb(rng.choice(l), odd))
            if rng.random() < 0.1:
                l.insert(rng.randrange(len(l) + 1), None)
                if rng.random() < 0.5:
                    l.insert(rng.randrange(len(l) + 1), None)
            rng.shuffle(l)
            res.append(l)
        return res
    lists = gen_lists(n)
    ops = ['\t'.join(R.enc(x) for x in l) for l in lists]
    go, le, bad = ctx.diff('merge', ops, label='Rules.Merge vs mergeRules')
    if bad:
        # focus the search on the kinds where the real code left the model
        kinds = sorted({x['kind'] for i in bad for x in lists[i] if x is not None})
        extra = gen_lists(4 * n, kinds=kinds, allow_odd=False)
        eops = ['\t'.join(R.enc(x) for x in l) for l in extra]
        ego = ctx.run_go('merge', eops)
        ctx.cov['evaluations'] += len(eops)
        lists += extra
        ops += eops
        go += ego
        ctx.cov['search']['focused_on_kinds'] = kinds
    for i in bad[:4]:
        ctx.sample({'op': ops[i], 'go': go[i], 'model': le[i]})
    if bad:
        broken.append('correspondence: Rules.Merge differs from the model on %d of %d lists' % (len(bad), len(ops)))
    # merge on value lists
    mops = []
    for i in range(n // 2):
        kind, idx = rng.choice(list(R.LISTREQ))
        tk = R.LISTREQ[(kind, idx)]
        vals = list(dict.fromkeys(req[tk[0]][tk[1]]))
        a = rng.sample(vals, min(len(vals), rng.randint(0, 3)))
        b = rng.sample(vals, min(len(vals), rng.randint(0, 3)))
        mops.append('%s\t%s\t%s\t%s' % (tk[0], tk[1], esc_list(a), esc_list(b)))
        if i % 5 == 0:
            acc = ['m', 'r', 'w', 'l', 'k']
            tr = req['file']['transition']
            a = rng.sample(acc, rng.randint(0, 3)) + ([rng.choice(tr)] if rng.random() < 0.4 else [])
            b = rng.sample(acc, rng.randint(0, 3))
            mops.append('file\taccess\t%s\t%s' % (esc_list(a), esc_list(b)))
    go2, le2, bad2 = ctx.diff('mergevalues', mops, label='merge(kind,key,a,b) vs mergeValues')
    for i in bad2[:4]:
        ctx.sample({'op': mops[i], 'go': go2[i], 'model': le2[i]})
    if bad2:
        broken.append('correspondence: merge() differs from the model on %d of %d value lists' % (len(bad2), len(mops)))

    # ---- search: meaning of the real output vs meaning of the input ------------------------------------
    second = ctx.run_go('merge', [o[3:] if o.startswith('ok\t') else '' for o in go])
    ctx.cov['evaluations'] += len(second)
    # the domain of the meaning theorem, evaluated by the Lean predicate itself (Aa.Dom10, decidable) on every rule
    dom = ctx.run_lean('dom10', ops)
    ctx.cov['evaluations'] += len(ops)
    nj = nfail = nidem = 0
    ndom = ndom_mismatch = 0
    classes = {}
    for i, l in enumerate(lists):
        if not go[i].startswith('ok'):
            ctx.violation('Rules.Merge panicked', {'op': ops[i], 'go': go[i]})
            continue
        kc = known_class(g, l)
        in_dom = dom[i].startswith('ok') and all(x in ('1', 'n') for x in dom[i][3:].split(';') if x)
        if in_dom:
            ndom += 1
            if kc:
                # the check's own filter sets aside a list the theorem covers: the filter is wrong, not the code
                ndom_mismatch += 1
                if ndom_mismatch <= 2:
                    broken.append('the known-class filter of the search (%s) sets aside a list that lies in the domain of C10_den_preserved_partial: %s' % (kc, ops[i][:200]))
                kc = None
        if kc:
            classes[kc] = classes.get(kc, 0) + 1
            continue
        nj += 1
        out = [R.dec(w) for w in go[i].split('\t')[1:] if w != '']
        d_in, d_out = Den(req, l), Den(req, out)
        if d_in != d_out:
            nfail += 1
            if nfail <= 3:
                ctx.violation('merge changed the meaning of the list: lost %s, added %s' % (sorted(map(str, d_in - d_out))[:2], sorted(map(str, d_out - d_in))[:2]),
                              {'op': ops[i], 'input': l, 'output': out})
        nsig = sum(1 for x in l if x is not None and x['kind'] == 'signal')
        if second[i] != go[i] and nsig < 2:
            nidem += 1
            if nidem <= 3:
                ctx.violation('merging an already merged list changes it', {'op': ops[i], 'once': go[i], 'twice': second[i]})
    ctx.count_distinct([ops[i] for i, l in enumerate(lists) if not known_class(g, l)])
    ctx.cov['search']['meaning'] = {'lists': len(lists), 'judged': nj, 'meaning_changed': nfail, 'not_idempotent': nidem,
                                    'skipped_known_classes': classes, 'lists_in_the_domain_of_the_theorem': ndom,
                                    'judged_outside_the_domain_of_the_theorem': nj - ndom, 'filter_vs_domain_mismatches': ndom_mismatch}
    ctx.sample({'input': ops[1], 'real_output': go[1]})

    # ---- known findings: witnesses on the real code -----------------------------------------------------
    def mk(kind, f, at=''):
        return {'kind': kind, 'audit': False, 'at': at, 'comment': '', 'nnp': False, 'fi': False, 'opt': False, 'f': f}

    def merge(l):
        o = ctx.run_go('merge', ['\t'.join(R.enc(x) for x in l)])[0]
        return [R.dec(w) for w in o.split('\t')[1:] if w != '']
    w = [mk('file', [False, '/Foo', ['r'], '']), mk('file', [False, '/foo', ['r'], ''])]
    if len(merge(w)) == 1:
        ctx.known_finding('K_case')
    w = [mk('signal', [[], [], 'foo']), mk('signal', [['send'], [], 'foo'])]
    if Den(req, merge(w)) != Den(req, w):
        ctx.known_finding('K_emptyAccess')
    w = [mk('mount', ['', ['ro'], '/a', '/b']), mk('mount', ['', ['bind'], '/a', '/b'])]
    if Den(req, merge(w)) != Den(req, w):
        ctx.known_finding('K_mountOptions')
    w = [mk('signal', [['send'], ['term'], '']), mk('signal', [['send', 'receive'], ['kill', 'term'], '']), mk('signal', [['receive'], ['term'], ''])]
    m1 = merge(w)
    if [R.key(x) for x in merge(m1)] != [R.key(x) for x in m1]:
        ctx.known_finding('K_signalIdempotence')

    ctx.cov['rule'] = ('lists of 2-9 rules built as near-duplicates (one field / case / qualifier / list emptied), nil entries, shuffled; '
                       'non-trivial = list outside the known classes; meaning = set of (kind, qualifier, subject, permission) facts with '
                       'empty access lists expanded to every permission of the kind and mount options kept as one set')
    if broken and not any(c for _, c, _ in ctx.violations):
        ctx.violation('obligation or correspondence broken: ' + '; '.join(broken)[:600], {'broken': broken}, concrete=False)
    ctx.cov['broken'] += broken
    ctx.assumptions += ['comments carry no meaning; Base flags (no new privs, file inherit, optional) are bookkeeping',
                        'C10_den_preserved_partial is proved on Dom10 (19 kinds, strings over the sort alphabet, named permissions); outside '
                        'it (mount kinds, empty permission lists, upper case / foreign bytes, comment/hat/profile) the search on the real code is what speaks',
                        'the Python meaning function of the search mirrors Aa.den (same facts); it is not generated from it']


def replay(ctx, data):
    ctx.build_go()
    if 'op' in data:
        print(ctx.run_go('merge', [data['op']])[0])
    else:
        print(data)
    return 0
