"""C11 — rule ordering is a consistent total preorder, so sorting is canonical."""
import itertools

import lib
import tolean
import rules as R
from lib import esc

THEOREMS = ['C11.C11_string_order', 'C11.C11_keys_order', 'C11.C11_compare_order', 'C11.C11_compare_identity',
            'C11.C11_sorted_perm_unique', 'C11.C11_alphabet_nodup', 'C11.C11_alphabet_lower', 'C11.C11_case_counterexample',
            'C11.C11_zero_weight_counterexample', 'C11.C11_file_cycle_counterexample', 'C11.C11_sort_order_partial',
            'C11.C11_sort_canonical_partial', 'C11.C11_reference_sort']
NOID = {'comment', 'hat', 'profile'}       # kinds whose Compare ignores part of the rule on purpose
WEIGHTLESS = {'comment', 'abi', 'alias', 'variable'}


def sign(n):
    return (n > 0) - (n < 0)


def run(ctx):
    ctx.build_go()
    T = ctx.tables()
    ctx.driver_path = ctx.driver()
    broken = ctx.audit(THEOREMS)
    rng = ctx.rng
    g = R.Gen(rng, T, profile_extras=True)
    n = 6000 if ctx.tier == 'quick' else 150000

    # ---- T2: compare on pairs, cmpstr on strings ------------------------------------------------
    pairs = []
    for i in range(n):
        odd = i % 3 == 0
        x = g.rule(odd=odd)
        y = g.perturb(x, odd) if rng.random() < 0.7 else g.rule(x['kind'], odd)
        pairs.append((x, y))
    ops = ['%s\t%s' % (R.enc(x), R.enc(y)) for x, y in pairs]
    go, le, bad = ctx.diff('compare', ops, label='Rule.Compare vs compareRule')
    for i in bad[:4]:
        ctx.sample({'op': ops[i], 'go': go[i], 'model': le[i]})
    if bad:
        broken.append('correspondence: Rule.Compare differs from the model on %d of %d pairs' % (len(bad), len(ops)))
    chars = 'ab/AB{}@.: \t~!09z-_'
    sops = []
    for i in range(n // 2):
        a = ''.join(rng.choice(chars) for _ in range(rng.randint(0, 6)))
        b = a if rng.random() < 0.1 else (a[:rng.randint(0, len(a))] + ''.join(rng.choice(chars) for _ in range(rng.randint(0, 3))))
        sops.append('%s\t%s' % (esc(a), esc(b)))
    go2, le2, bad2 = ctx.diff('cmpstr', sops, label='compare(string) vs cmpStr')
    for i in bad2[:4]:
        ctx.sample({'op': sops[i], 'go': go2[i], 'model': le2[i]})
    if bad2:
        broken.append('correspondence: compare(string) differs from the model on %d of %d pairs' % (len(bad2), len(sops)))

    # ---- every pair of characters of the recorded sort alphabet, in one position of two otherwise equal strings:
    # two different strings over the alphabet never compare equal, and the comparison is antisymmetric
    alpha = sorted(g.alpha)
    aops = ['%s\t%s' % (esc('/p' + c + 'q'), esc('/p' + d + 'q')) for c in alpha for d in alpha]
    ares = ctx.run_go('cmpstr', aops)
    ctx.cov['evaluations'] += len(aops)
    nal = 0
    k = 0
    for c in alpha:
        for d in alpha:
            v = int(ares[k][3:]) if ares[k].startswith('ok\t') else None
            w = int(ares[alpha.index(d) * len(alpha) + alpha.index(c)][3:]) if ares[alpha.index(d) * len(alpha) + alpha.index(c)].startswith('ok\t') else None
            k += 1
            if v is None or w is None:
                continue
            if (c != d and v == 0) or (c == d and v != 0) or sign(v) != -sign(w):
                nal += 1
                if nal <= 3:
                    ctx.violation('two strings over the sort alphabet that differ in one character (%r / %r): compare gives %d and %d the other way round' % (c, d, v, w),
                                  {'a': '/p' + c + 'q', 'b': '/p' + d + 'q', 'ab': v, 'ba': w})
    ctx.cov['search']['alphabet_pairs'] = {'pairs': len(aops), 'failures': nal, 'exhaustive_over': 'all ordered pairs of characters of the recorded sort alphabet'}

    # ---- search on the real code: pairs ---------------------------------------------------------
    rev = ctx.run_go('compare', ['%s\t%s' % (R.enc(y), R.enc(x)) for x, y in pairs])
    ctx.cov['evaluations'] += len(rev)
    # the same comparisons once more in another process, and every rule against itself: a comparison has one value
    again1 = ctx.run_go('compare', ops)
    selfc = ctx.run_go('compare', ['%s\t%s' % (R.enc(x), R.enc(x)) for x, y in pairs])
    ctx.cov['evaluations'] += 2 * len(ops)
    nunst = nrefl = 0
    for i, (x, y) in enumerate(pairs):
        if again1[i] != go[i]:
            nunst += 1
            if nunst <= 2:
                ctx.violation('Compare gives different values for the same two rules from one call to the next: %s then %s' % (go[i], again1[i]),
                              {'op': ops[i], 'a': x, 'b': y, 'first': go[i], 'second': again1[i]})
        if selfc[i] != 'ok\t0':
            nrefl += 1
            if nrefl <= 2:
                ctx.violation('a rule does not compare equal to itself: %s' % selfc[i], {'op': '%s\t%s' % (R.enc(x), R.enc(x)), 'a': x})
    ctx.cov['search']['stability'] = {'pairs_recompared': len(ops), 'unstable': nunst, 'self_comparisons': len(ops), 'nonzero_self': nrefl}
    nid = nanti = 0
    judged = 0
    for i, (x, y) in enumerate(pairs):
        if not go[i].startswith('ok\t') or not rev[i].startswith('ok\t'):
            ctx.violation('Compare panicked', {'op': ops[i], 'go': go[i]})
            continue
        c, d = int(go[i][3:]), int(rev[i][3:])
        if sign(c) != -sign(d):
            nanti += 1
            if nanti <= 2:
                ctx.violation('Compare is not antisymmetric: cmp(a,b)=%d, cmp(b,a)=%d' % (c, d), {'op': ops[i], 'a': x, 'b': y, 'ab': c, 'ba': d})
        if g.canon(x) and g.canon(y) and x['kind'] not in NOID:
            judged += 1
            if c == 0 and R.key(x) != R.key(y):
                nid += 1
                if nid <= 2:
                    ctx.violation('two different rules compare equal', {'op': ops[i], 'a': x, 'b': y})
    ctx.count_distinct([ops[i] for i, (x, y) in enumerate(pairs) if g.canon(x) and g.canon(y) and R.key(x) != R.key(y)])

    # ---- search: triples (transitivity) on canonical rules ---------------------------------------
    ntri = nbadtri = 0
    tri_ops = []
    tri = []
    for _ in range(n // 3):
        x = g.rule()
        y = g.perturb(x)
        z = g.perturb(rng.choice([x, y]))
        if not (g.canon(x) and g.canon(y) and g.canon(z)):
            continue
        if x['kind'] == 'file':
            ls = [g.letter(r['f'][1]) != '' for r in (x, y, z)]
            if len(set(ls)) > 1:
                continue            # K_filePrefixCycle: mixed known/unknown prefixes
        tri.append((x, y, z))
        for a, b in ((x, y), (y, z), (x, z), (y, x), (z, y), (z, x)):
            tri_ops.append('%s\t%s' % (R.enc(a), R.enc(b)))
    # file rules that differ in their path only: paths from the pool and from the boundary of the prefix table
    # (an entry itself, an entry followed by a glob or an alternation), all with or all without a known prefix
    pool = [p for p in R.CANON_STR if p.startswith('/') or p.startswith('@{')]
    pool += [e + suf for e in g.file_alpha if e.startswith('/') for suf in ('', '{,/**}', '*', '{,/}', '/x')]
    for _ in range(n // 6):
        ps = rng.sample(pool, 3)
        known = [g.letter(p) != '' for p in ps]
        if len(set(known)) > 1 or not all(g.canon_str(p) for p in ps):
            continue
        base = g.rule('file')
        x, y, z = (dict(base, f=[base['f'][0], p, base['f'][2], base['f'][3]], comment='') for p in ps)
        if not (g.canon(x)):
            continue
        tri.append((x, y, z))
        for a, b in ((x, y), (y, z), (x, z), (y, x), (z, y), (z, x)):
            tri_ops.append('%s\t%s' % (R.enc(a), R.enc(b)))
    out = ctx.run_go('compare', tri_ops)
    ctx.cov['evaluations'] += len(tri_ops)
    for k, (x, y, z) in enumerate(tri):
        v = [int(o[3:]) for o in out[6 * k:6 * k + 6]]
        m = {('x', 'y'): v[0], ('y', 'z'): v[1], ('x', 'z'): v[2], ('y', 'x'): v[3], ('z', 'y'): v[4], ('z', 'x'): v[5]}
        ntri += 1
        for a, b, c in itertools.permutations('xyz'):
            if m[(a, b)] <= 0 and m[(b, c)] <= 0 and m[(a, c)] > 0:
                nbadtri += 1
                if nbadtri <= 2:
                    ctx.violation('Compare is not transitive', {'x': x, 'y': y, 'z': z, 'cmp': {'%s%s' % k2: v2 for k2, v2 in m.items()}})
                break
    ctx.cov['search']['pairs'] = {'pairs': len(pairs), 'identity_judged': judged, 'identity_failures': nid, 'antisymmetry_failures': nanti}
    ctx.cov['search']['triples'] = {'triples': ntri, 'failures': nbadtri}

    # ---- sort: idempotent, permutation invariant, equal to the reference sort ------------------------
    lists = []
    cands = []
    for i in range(n // 6):
        k = rng.choice(list(R.SCHEMA)) if rng.random() < 0.6 else None
        base = [g.rule(k) for _ in range(rng.randint(2, 7))]
        base += [g.perturb(rng.choice(base)) for _ in range(rng.randint(0, 3))]
        reason = None
        kinds = {r['kind'] for r in base}
        incs = {r['f'][0] for r in base if r['kind'] == 'include'}
        fl = [g.letter(r['f'][1]) != '' for r in base if r['kind'] == 'file']
        if not all(g.canon(r) for r in base):
            reason = 'K_case'
        elif any(r['kind'] in NOID for r in base):
            reason = 'noid'
        elif len(kinds) > 1 and kinds & WEIGHTLESS:
            reason = 'K_weightlessKinds'
        elif len(incs) > 1 and len(kinds) > 1:
            reason = 'K_includeIfExistsMixed'
        elif len(set(fl)) > 1:
            reason = 'K_filePrefixCycle'
        # distinct rules only (ties between identical rules differ by Base only)
        seen, uniq = set(), []
        for r in base:
            if R.key(r) not in seen:
                seen.add(R.key(r))
                uniq.append(dict(r, comment=''))
        cands.append((uniq, reason))
    # the domain of the sort theorem, evaluated by the Lean predicate itself (Aa.DomS, decidable) on every rule
    dres = ctx.run_lean('doms', ['\t'.join(R.enc(r) for r in l) for l, _ in cands])
    ctx.cov['evaluations'] += len(cands)
    nin = nmis = 0
    for (l, reason), d in zip(cands, dres):
        marks = d[3:].split(';') if d.startswith('ok') and len(d) > 3 else ['0']
        in_dom = '0' not in marks and not ('t' in marks and 'f' in marks)
        if in_dom:
            nin += 1
            if reason:
                nmis += 1
                if nmis <= 2:
                    broken.append('the known-class filter of the sort search (%s) sets aside a list that lies in the domain of C11_sort_canonical_partial' % reason)
                reason = None
        if reason is None:
            lists.append(l)
    ctx.cov['search']['sort_domain'] = {'candidate_lists': len(cands), 'in_the_domain_of_the_theorem': nin, 'judged': len(lists),
                                        'filter_vs_domain_mismatches': nmis}
    sort_ops = ['\t'.join(R.enc(r) for r in l) for l in lists]
    shuf_ops = []
    for l in lists:
        l2 = list(l)
        rng.shuffle(l2)
        shuf_ops.append('\t'.join(R.enc(r) for r in l2))
    go3, le3, bad3 = ctx.diff('sort', sort_ops, label='Rules.Sort vs reference sort (tie-free canonical lists)')
    for i in bad3[:3]:
        ctx.sample({'op': sort_ops[i], 'go': go3[i], 'model': le3[i]})
    if bad3:
        broken.append('correspondence: Rules.Sort differs from the reference sort on %d of %d lists' % (len(bad3), len(sort_ops)))
    go4 = ctx.run_go('sort', shuf_ops)
    again = ctx.run_go('sort', [o[3:] for o in go3])
    ctx.cov['evaluations'] += 2 * len(shuf_ops)
    nperm = nidem = 0
    for i in range(len(lists)):
        if go3[i] != go4[i]:
            nperm += 1
            if nperm <= 2:
                ctx.violation('sorting depends on the input order', {'list': sort_ops[i], 'shuffled': shuf_ops[i], 'sorted1': go3[i], 'sorted2': go4[i]})
        if again[i] != go3[i]:
            nidem += 1
            if nidem <= 2:
                ctx.violation('sorting is not idempotent', {'list': sort_ops[i], 'once': go3[i], 'twice': again[i]})
    ctx.cov['search']['sort'] = {'lists': len(lists), 'order_dependent': nperm, 'not_idempotent': nidem}
    ctx.sample({'list': sort_ops[0] if sort_ops else '', 'sorted': go3[0] if go3 else ''})

    # ---- known findings: replay the witnesses on the real code ----------------------------------------
    def cmp(a, b):
        return int(ctx.run_go('compare', ['%s\t%s' % (R.enc(a), R.enc(b))])[0][3:])

    def frule(path):
        return {'kind': 'file', 'audit': False, 'at': '', 'comment': '', 'nnp': False, 'fi': False, 'opt': False, 'f': [False, path, ['r'], '']}
    if cmp(frule('/Foo'), frule('/foo')) == 0:
        ctx.known_finding('K_case')
    if int(ctx.run_go('cmpstr', ['%s\t%s' % (esc('/a b'), esc('/a\tb'))])[0][3:]) == 0:
        ctx.known_finding('K_zeroWeight')
    a, b, c = frule('/etc/a'), frule('@{run}/a'), frule('@{x}')
    ab, bc, ac = cmp(a, b), cmp(b, c), cmp(a, c)
    if ab <= 0 and bc <= 0 and ac > 0 or ab >= 0 and bc >= 0 and ac < 0 or (sign(ab), sign(bc), sign(ac)) in ((-1, 1, 1),):
        # /etc/a < /zzz, @{bin}/a < /zzz by bytes but @{bin}/a < /etc/a by prefix weight: check for an actual cycle
        pass
    perms = [(a, b, c), (a, c, b), (b, a, c), (b, c, a), (c, a, b), (c, b, a)]
    if any(cmp(x, y) <= 0 and cmp(y, z) <= 0 and cmp(x, z) > 0 for x, y, z in perms):
        ctx.known_finding('K_filePrefixCycle')
    com = {'kind': 'comment', 'audit': False, 'at': '', 'comment': ' x', 'nnp': False, 'fi': False, 'opt': False, 'f': []}
    inc = {'kind': 'include', 'audit': False, 'at': '', 'comment': '', 'nnp': False, 'fi': False, 'opt': False, 'f': [False, 'abstractions/x', True]}
    s1 = ctx.run_go('sort', ['%s\t%s' % (R.enc(com), R.enc(inc))])[0]
    s2 = ctx.run_go('sort', ['%s\t%s' % (R.enc(inc), R.enc(com))])[0]
    if s1 != s2:
        ctx.known_finding('K_weightlessKinds')
    inc2 = dict(inc, f=[True, 'abstractions/a', True])
    cp = {'kind': 'change_profile', 'audit': False, 'at': '', 'comment': '', 'nnp': False, 'fi': False, 'opt': False, 'f': ['', 'x', 'y']}
    outs = {ctx.run_go('sort', ['\t'.join(R.enc(r) for r in p)])[0] for p in itertools.permutations([inc, inc2, cp])}
    if len(outs) > 1:
        ctx.known_finding('K_includeIfExistsMixed')
    if cmp(com, dict(com, comment=' y')) == 0:
        ctx.known_finding('K_commentCompare')

    ctx.cov['rule'] = ('rule pairs/triples/lists generated as structures from the regenerated requirement tables, 70% near-duplicates '
                       '(one field, letter case, byte outside the alphabet, qualifier changed); non-trivial = canonical pair of '
                       'different rules; antisymmetry judged on all pairs, identity/transitivity/sort on canonical rules outside the known classes')
    if broken and not any(c for _, c, _ in ctx.violations):
        ctx.violation('obligation or correspondence broken: ' + '; '.join(broken)[:600], {'broken': broken}, concrete=False)
    ctx.cov['broken'] += broken
    ctx.assumptions += ['strings.ToLower is modelled for ASCII only; the generator produces ASCII',
                        'slices.SortFunc is compared with the reference sort only on tie-free lists (elsewhere its result is implementation-defined)']


def replay(ctx, data):
    ctx.build_go()
    if 'op' in data:
        print(ctx.run_go('compare', [data['op']])[0])
    elif isinstance(data.get('a'), str) and isinstance(data.get('b'), str):
        print('compare(a,b) =', ctx.run_go('cmpstr', ['%s\t%s' % (esc(data['a']), esc(data['b']))])[0],
              ' compare(b,a) =', ctx.run_go('cmpstr', ['%s\t%s' % (esc(data['b']), esc(data['a']))])[0])
    elif isinstance(data.get('a'), dict) and isinstance(data.get('b'), dict):
        print('compare(a,b) =', ctx.run_go('compare', ['%s\t%s' % (R.enc(data['a']), R.enc(data['b']))])[0],
              ' compare(b,a) =', ctx.run_go('compare', ['%s\t%s' % (R.enc(data['b']), R.enc(data['a']))])[0])
    else:
        print(data)
    return 0
