"""C12 — what the library prints means the same to the real AppArmor parser."""
import hashlib
import os
import re
import subprocess
from concurrent.futures import ThreadPoolExecutor

import lib
import tolean
import rules as R
import rules9 as R9
import logsgen as G
import c10
from lib import esc, esc_list, unesc

THEOREMS = ['C12.C12_capability_read', 'C12.C12_network_read', 'C12.C12_signal_read', 'C12.C12_ptrace_read', 'C12.C12_file_read',
            'C12.C12_one_exec_mode', 'C12.C12_fused_exec_modes', 'C12.C12_space_unquoted', 'C12.C12_reader_rejects_example', 'C12.C12_capability_all_lists', 'C12.capability_names_simple', 'C12.C12_file_all_paths', 'C12.C12_network_all',
            'C12.ptrace_access_words', 'C12.C12_ptrace_all', 'C12.signal_words', 'C12.C12_signal_all', 'C12.rlimit_key_words', 'C12.C12_rlimit_all', 'C12.cp_modes', 'C12.C12_change_profile_all', 'C12.C12_link_all', 'C12.C12_readers_agree_link', 'C12.C12_readers_agree_change_profile', 'C12.C12_readers_agree_rlimit', 'C12.agree_table_facts', 'C12.C12_readers_agree_capability', 'C12.C12_readers_agree_ptrace', 'C12.C12_readers_agree_signal']
READ_KINDS = ('capability', 'network', 'signal', 'ptrace', 'file', 'link', 'change_profile', 'rlimit')
AA3 = ['capability', 'network', 'mount', 'umount', 'remount', 'pivot_root', 'change_profile', 'signal', 'ptrace', 'unix', 'dbus',
       'rlimit', 'file', 'file', 'file', 'link']
PRE = 'abi <abi/3.0>,\ninclude <tunables/global>\n'


def q(x):
    return ('audit ' if x['audit'] else '') + ('deny ' if x['at'] == 'deny' else '')


def lst(v, sep=', '):
    return '(' + sep.join(v) + ')'


def qs(v):
    """a value with a space is written in quotes"""
    return '"%s"' % v if (' ' in v and not (v.startswith('"') and v.endswith('"'))) else v


def ref_text(x):
    x = dict(x, f=[qs(v) if isinstance(v, str) else v for v in x['f']])
    return ref_text0(x)


def ref_text0(x):
    """the rule written from its fields in the syntax of apparmor.d(5), by a printer of its own (another spacing,
    comma separated lists, permissions before the path where the grammar allows both)"""
    k, f = x['kind'], x['f']
    if k == 'capability':
        return q(x) + 'capability' + ''.join(' ' + n for n in f[0]) + ','
    if k == 'network':
        return q(x) + 'network' + (' ' + f[3] if f[3] else '') + (' ' + f[4] if f[4] else (' ' + f[5] if f[5] else '')) + ','
    if k in ('mount', 'umount', 'remount'):
        t = q(x) + k
        if f[0]:
            t += ' fstype=(%s)' % f[0]
        if f[1]:
            t += ' options=' + lst(f[1])
        if k == 'mount':
            if f[2]:
                t += ' ' + f[2]
            if f[3]:
                t += ' -> ' + f[3]
        elif f[2]:
            t += ' ' + f[2]
        return t + ','
    if k == 'pivot_root':
        return q(x) + 'pivot_root' + (' oldroot=' + f[0] if f[0] else '') + (' ' + f[1] if f[1] else '') + (' -> ' + f[2] if f[2] else '') + ','
    if k == 'change_profile':
        return q(x) + 'change_profile' + (' ' + f[0] if f[0] else '') + (' ' + f[1] if f[1] else '') + (' -> ' + f[2] if f[2] else '') + ','
    if k == 'signal':
        return q(x) + 'signal' + (' ' + lst(f[0]) if f[0] else '') + (' set=' + lst(f[1]) if f[1] else '') + (' peer=' + f[2] if f[2] else '') + ','
    if k == 'ptrace':
        return q(x) + 'ptrace' + (' ' + lst(f[0]) if f[0] else '') + (' peer=' + f[1] if f[1] else '') + ','
    if k == 'unix':
        t = q(x) + 'unix' + (' ' + lst(f[0]) if f[0] else '')
        for key, v in (('type', f[1]), ('protocol', f[2]), ('addr', f[3]), ('label', f[4]), ('attr', f[5]), ('opt', f[6])):
            if v:
                t += ' %s=%s' % (key, v)
        peer = []
        if f[7]:
            peer.append('label=' + f[7])
        if f[8]:
            peer.append('addr=' + f[8])
        if peer:
            t += ' peer=(' + ', '.join(peer) + ')'
        return t + ','
    if k == 'dbus':
        t = q(x) + 'dbus' + (' ' + lst(f[0]) if f[0] else '')
        for key, v in (('bus', f[1]), ('name', f[2]), ('path', f[3]), ('interface', f[4]), ('member', f[5])):
            if v:
                t += ' %s=%s' % (key, v)
        peer = []
        if f[6]:
            peer.append('name=' + f[6])
        if f[7]:
            peer.append('label=' + f[7])
        if peer:
            t += ' peer=(' + ', '.join(peer) + ')'
        return t + ','
    if k == 'rlimit':
        return 'set rlimit %s %s %s,' % (f[0], f[1], f[2])
    if k == 'file':
        mode = ''.join(f[2])
        if f[3]:
            return q(x) + ('owner ' if f[0] else '') + f[1] + ' ' + mode + ' -> ' + f[3] + ','
        return q(x) + ('owner ' if f[0] else '') + mode + ' ' + f[1] + ','
    if k == 'link':
        return q(x) + ('owner ' if f[0] else '') + 'link ' + ('subset ' if f[1] else '') + f[2] + ' -> ' + f[3] + ','
    raise ValueError(k)


class Parser:
    def __init__(self, ctx):
        self.ctx = ctx
        self.dir = ctx.path('stubs')
        os.makedirs(self.dir, exist_ok=True)
        self.n = 0
        self.cache = {}
        # include directory: the installed reference policy with the tunables and abstractions of a real build (arch, ABI 3) laid over it
        self.ov = ctx.path('overlay')
        subprocess.run(['cp', '-a', '/etc/apparmor.d', self.ov], check=True)
        tree, out, rc = lib.real_build(ctx, lib.Cfg('arch', 3, '3.0'))
        if rc != 0:
            raise RuntimeError('prebuild failed: ' + out[-1500:])
        for sub in ('tunables', 'abstractions'):
            subprocess.run(['cp', '-a', os.path.join(tree, '.build', 'apparmor.d', sub) + '/.', os.path.join(self.ov, sub) + '/'], check=True)
        import shutil
        shutil.rmtree(tree, ignore_errors=True)

    def compile(self, body):
        """(accepted, sha1 of the compiled policy or the last line of the diagnostics)"""
        if body in self.cache:
            return self.cache[body]
        self.n += 1
        p = os.path.join(self.dir, 's%d' % (hash(body) & 0xffffffff))
        p += '-%d' % self.n
        with open(p, 'w', encoding='utf-8', errors='surrogateescape') as fh:
            fh.write(PRE + 'profile stub {\n' + body + '\n}\n')
        r = subprocess.run(['apparmor_parser', '-Q', '-K', '-S', '--kernel-features', '/etc/apparmor.d/abi/3.0', '-b', self.ov, '-I', self.ov, p], stdout=subprocess.PIPE, stderr=subprocess.PIPE, timeout=120)
        os.unlink(p)
        if r.returncode != 0:
            res = (False, r.stderr.decode('utf-8', 'replace').strip().split('\n')[-1][-300:])
        else:
            res = (True, hashlib.sha1(r.stdout).hexdigest())
        self.cache[body] = res
        return res

    def many(self, bodies):
        with ThreadPoolExecutor(max_workers=16) as ex:
            return list(ex.map(self.compile, bodies))


def known_class(x, text):
    """classes in which the unchanged code prints text the parser rejects or reads differently"""
    k, f = x['kind'], x['f']
    if x['at'] == 'allow':
        return None        # not printed at all: same meaning
    if k == 'unix' and f[2]:
        return 'K_unixProtocol'
    if k == 'link' and not f[3]:
        return 'K_linkNoTarget'
    trans = [a for a in f[2] if len(a) > 1 or a == 'x'] if k == 'file' else []
    if len(trans) > 1:
        return 'K_fusedExecModes'
    strs = [v for v in f if isinstance(v, str)]
    if any(' ' in v and not (v.startswith('"') and v.endswith('"')) for v in strs):
        return 'K_spaceUnquoted'
    return None


def run(ctx):
    ctx.build_go(prebuild=True)
    T = ctx.tables()
    ctx.driver_path = ctx.driver()
    broken = ctx.audit(THEOREMS, {'AaVerif.Props.Full.C12Full': ['C12Full.C12_capability_read_full', 'C12Full.C12_network_read_full', 'C12Full.C12_signal_read_full']})
    rng = ctx.rng
    g = R9.Gen9(rng, T)
    P = Parser(ctx)
    g10 = R.Gen(rng, T)
    n = 700 if ctx.tier == 'quick' else 20000
    nviol = {'rejected': 0, 'meaning': 0}
    invalid = {}

    def judge(label, x, printed, extra=None):
        """printed text of a rule whose reference text the parser accepts: accepted too, and compiled to the same policy"""
        ref = ref_text(x)
        okr, hr = P.compile(ref)
        if not okr:
            why = re.sub(r'/tmp/\S+', '', hr)[-80:]
            invalid[why] = invalid.get(why, 0) + 1
            return 'invalid'
        okp, hp = P.compile(printed)
        kc = known_class(x, printed)
        if not okp or hp != hr:
            if kc and ctx.known_finding(kc):
                return 'known'
            what = 'rejected' if not okp else 'meaning'
            nviol[what] += 1
            if nviol[what] <= 3:
                ctx.violation('%s: the text printed for a valid %s rule is %s: %r' % (label, x['kind'],
                              'rejected by the reference parser (%s)' % hp if not okp else 'read differently from the rule written from its fields (%r)' % ref, printed),
                              dict({'rule': R.enc(x), 'printed': printed, 'reference_text': ref, 'parser': hp}, **(extra or {})))
            return 'fail'
        return 'ok'

    # ---- single generated rules --------------------------------------------------------------------------------------------
    rules = []
    while len(rules) < n:
        x = g.rule(rng.choice(AA3))
        if x['kind'] == 'file' and x['at'] == 'deny':
            x['f'][2] = [a for a in x['f'][2] if len(a) == 1] + (['x'] if rng.random() < 0.3 else [])     # deny rules take a bare x only
            x['f'][3] = ''
            if not x['f'][2]:
                x['f'][2] = ['r']
        rules.append(x)
    pads = [[' ' * rng.randint(0, 3) for _ in range(rng.randint(0, 7))] if rng.random() < 0.4 else [] for _ in rules]
    ops = [R.enc(x) + '\t' + esc_list(p) for x, p in zip(rules, pads)]
    go, le, bad = ctx.diff('render1', ops, label='Rule.String vs renderRule')
    if bad:
        broken.append('correspondence: Rule.String differs from the model on %d of %d rules' % (len(bad), len(ops)))
        for i in bad[:3]:
            ctx.sample({'op': ops[i], 'go': go[i], 'model': le[i]})
    texts = [unesc(o[3:]) if o.startswith('ok\t') else '' for o in go]
    P.many([ref_text(x) for x in rules] + texts)
    stats = {}
    for x, t in zip(rules, texts):
        r = judge('printed rule', x, t)
        stats[r] = stats.get(r, 0) + 1
    ctx.cov['evaluations'] += 2 * len(rules)
    ctx.count_distinct([o for o, x in zip(ops, rules)])
    ctx.cov['search']['single_rules'] = dict(stats, rules=len(rules))

    # ---- the reference-syntax reader (Lean) against the reference parser: what the reader admits, the parser accepts, and the
    # reader finds the fields of the rule in the printed text ------------------------------------------------------------------
    rtexts, rrules = [], []
    for x, t in zip(rules, texts):
        if x['kind'] in READ_KINDS and t:
            rtexts.append(t)
            rrules.append(x)
            if rng.random() < 0.5:
                k = rng.random()
                d = t
                if k < 0.3 and len(d) > 3:
                    i = rng.randrange(len(d))
                    d = d[:i] + d[i + 1:]
                elif k < 0.6:
                    i = rng.randrange(len(d) + 1)
                    d = d[:i] + rng.choice(['"', '(', ')', ' ', ',', 'x', 'P', '->', ' -> ', 'z']) + d[i:]
                else:
                    d = d.replace(', #', ' #', 1) if ', #' in d else d.rstrip(',')
                rtexts.append(d)
                rrules.append(None)
    rr = ctx.run_lean('refread', [esc(t) for t in rtexts])
    pr = P.many(rtexts)
    ctx.cov['evaluations'] += len(rtexts)
    n_unsound = n_strict = n_fields = 0
    for t, x, o, (acc, why) in zip(rtexts, rrules, rr, pr):
        admitted = o.startswith('some')
        if admitted and not acc and not re.search(r'regex|never declared|Invalid mode|Exec condition|invalid value|can only|cannot be used|Conflict|Invalid network entry|out of range|policydb', why):
            n_unsound += 1
            if n_unsound <= 3:
                ctx.sample({'reader_admits_but_parser_rejects': t, 'parser': why})
        if not admitted and acc:
            n_strict += 1
        if x is not None and acc and admitted:
            want = dict(x, comment='', nnp=False, fi=False, opt=False, at=('deny' if x['at'] == 'deny' else ''))
            got = R.dec(o.split('\t')[1])
            canon = lambda r: (r['kind'], r['audit'], r['at'], tuple(tuple(sorted(v)) if isinstance(v, list) else v for v in r['f']))
            if canon(got) != canon(want) and not known_class(x, t):
                n_fields += 1
                if n_fields <= 3:
                    ctx.violation('the reference-syntax reader finds other fields in the printed text than the rule states', {'rule': R.enc(x), 'printed': t, 'read': o})
    if n_unsound:
        broken.append('correspondence: the reference-syntax reader admits %d texts that apparmor_parser rejects for a syntactic reason' % n_unsound)
    ctx.cov['correspondence']['Ref.read vs apparmor_parser'] = {'ops': len(rtexts), 'disagreements': n_unsound, 'reader_stricter_than_parser': n_strict,
                                                                'field_mismatches': n_fields}

    # ---- blocks after Merge + Sort + Format ---------------------------------------------------------------------------------
    nb = n // 5
    blocks = []
    for _ in range(nb):
        l = []
        for _ in range(rng.randint(2, 7)):
            x = rng.choice(rules)
            if l and rng.random() < 0.3:
                y = rng.choice(l)
                x = dict(y, comment='', f=list(y['f']))
                if x['kind'] == 'file':
                    x['f'][2] = [rng.choice(['r', 'w', 'k', 'm'])]
                    x['f'][3] = ''
            l.append(x)
        blocks.append(l)
    bops = ['\t'.join(R.enc(x) for x in l) for l in blocks]
    msf = ctx.run_go('msf', bops)
    rops = [o[3:] if o.startswith('ok\t') else '' for o in msf]
    go2, le2, bad2 = ctx.diff('render', rops, label='Rules.String vs renderRules (after Merge+Sort+Format)')
    if bad2:
        broken.append('correspondence: Rules.String differs from the model on %d of %d blocks' % (len(bad2), len(rops)))
    btexts = [unesc(o[3:]) if o.startswith('ok\t') else '' for o in go2]
    nbj = nbf = 0
    refs = ['\n'.join(ref_text(x) for x in l) for l in blocks]
    P.many(refs + btexts)
    for l, t, rf, ro in zip(blocks, btexts, refs, rops):
        okr, hr = P.compile(rf)
        if not okr:
            continue
        if c10.known_class(g10, l):
            continue        # the merge itself changes the meaning there (known findings of C10)
        merged = [R.dec(w) for j, w in enumerate(ro.split('\t')) if j % 2 == 0 and w not in ('', 'nil')]
        kcs = [known_class(x, t) for x in merged]
        okp, hp = P.compile(t)
        nbj += 1
        if okp and hp != hr:
            # the compiled form of some kinds (pivot_root, mount) keeps the order of the rules, and the block is sorted:
            # compare with the merged rules written out, from their fields, in the printed order
            rf2 = '\n'.join(ref_text(x) for x in merged)
            ok2, h2 = P.compile(rf2)
            if ok2 and h2 == hp:
                continue
        if not okp or hp != hr:
            kc = next((k for k in kcs if k), None)
            if kc and ctx.known_finding(kc):
                continue
            nbf += 1
            if nbf <= 3:
                ctx.violation('a merged and formatted block is %s by the reference parser' % ('rejected (%s)' % hp if not okp else 'read differently from its rules'),
                              {'printed': t, 'reference_text': rf, 'parser': hp})
    ctx.cov['evaluations'] += 2 * len(blocks)
    ctx.cov['search']['blocks'] = {'blocks': len(blocks), 'judged': nbj, 'failing': nbf}

    # ---- rules printed from logs ---------------------------------------------------------------------------------------------------
    nl = n // 6
    lops, metas = [], []
    for _ in range(nl):
        text, levs = G.gen_log(rng, rng.randint(1, 8))
        lops.append(esc(text))
    out = ctx.run_go('logrules', lops)
    lrules = []
    for o in out:
        if not o.startswith('ok'):
            continue
        p = o.split('\t')[1:]
        for j in range(0, len(p) - 4, 5):
            lrules += [R.dec(w) for w in unesc(p[j + 3]).split('\n') if w and w != 'nil']
    lrules = [x for x in lrules if x and x['kind'] in AA3]
    lkeys, uniq = set(), []
    for x in lrules:
        k = R.enc(dict(x, comment='', nnp=False, fi=False, opt=False))
        if k not in lkeys:
            lkeys.add(k)
            uniq.append(x)
    lo = ctx.run_go('render1', [R.enc(x) + '\t' for x in uniq])
    ltexts = [unesc(o[3:]) if o.startswith('ok\t') else '' for o in lo]
    P.many([ref_text(x) for x in uniq] + ltexts)
    lstats = {}
    for x, t in zip(uniq, ltexts):
        r = judge('rule built from a log record', x, t)
        lstats[r] = lstats.get(r, 0) + 1
    ctx.cov['evaluations'] += 2 * len(uniq)
    ctx.cov['search']['rules_from_logs'] = dict(lstats, logs=nl, distinct_rules=len(uniq))

    # ---- rules generated by the dbus directive -------------------------------------------------------------------------------------
    dops = []
    for _ in range(n // 6):
        action = rng.choice(['own', 'talk', 'common'])
        args = ['bus=' + rng.choice(['system', 'session']), 'name=' + rng.choice(['org.freedesktop.Foo', 'org.a', 'com.x.Y1'])]
        if action != 'own':
            args.append('label=' + rng.choice(['foo', 'unconfined', '"@{p_systemd}"']))
        if rng.random() < 0.3:
            args.append('path=' + rng.choice(['/org/x{,/**}', '/p']))
        if rng.random() < 0.4:
            args.append('interface=' + rng.choice(['org.i.F', '"org.x.{A,B}"', 'org.freedesktop.DBus.Peer']))
        if rng.random() < 0.3:
            args.append('interface+=' + rng.choice(['org.i.Plus', '"org.y.{C,D}"']))
        rng.shuffle(args)
        dops.append(esc('  #aa:dbus ' + action + ' ' + ' '.join(args)))
    dout = ctx.run_go('dbusdir', dops)
    dtexts = [unesc(o.split('\t')[1]) if o.startswith('ok\t') else None for o in dout]
    P.many([t for t in dtexts if t])
    nd = 0
    for op, t in zip(dops, dtexts):
        if t is None:
            continue
        okp, hp = P.compile(t)
        if not okp:
            nd += 1
            if nd <= 3:
                ctx.violation('the rules generated by a dbus directive are rejected by the reference parser (%s)' % hp, {'directive': unesc(op), 'generated': t, 'parser': hp})
    ctx.cov['evaluations'] += len(dops)
    ctx.cov['search']['dbus_directives'] = {'directives': len(dops), 'rejected': nd}

    # ---- known findings: witnesses -----------------------------------------------------------------------------------------------------
    def mk(kind, f, at=''):
        return {'kind': kind, 'audit': False, 'at': at, 'comment': '', 'nnp': False, 'fi': False, 'opt': False, 'f': f}
    wit = {'K_spaceUnquoted': mk('file', [False, '@{HOME}/a b.txt', ['r'], '']),
           'K_fusedExecModes': mk('file', [False, '/a', ['r', 'ix', 'Px'], '']),
           'K_unixProtocol': mk('unix', [['send'], 'stream', '0', '', '', '', '', '', '']),
           'K_linkNoTarget': mk('link', [False, False, '/a', ''])}
    wo = ctx.run_go('render1', [R.enc(x) + '\t' for x in wit.values()])
    for (k, x), o in zip(wit.items(), wo):
        okp, hp = P.compile(unesc(o[3:]))
        if not okp:
            ctx.known_finding(k)
    ctx.sample({'rule': ops[0], 'printed': texts[0], 'reference_text': ref_text(rules[0]), 'parser': P.compile(texts[0])})
    ctx.cov['parser_runs'] = P.n
    ctx.cov['search']['reference_text_rejected_because'] = invalid
    ctx.cov['rule'] = ('valid rules of the AppArmor 3 kinds generated as structures; a rule counts when the reference parser accepts the text written '
                       'from its fields by an independent printer; the text the library prints must be accepted and compile (apparmor_parser -Q -K -S) '
                       'to the byte-identical policy; the same for merged and formatted blocks, for the rules built from generated log records and '
                       'for the output of generated dbus directives')
    if broken and not any(c for _, c, _ in ctx.violations):
        ctx.violation('obligation or correspondence broken: ' + '; '.join(broken)[:600], {'broken': broken}, concrete=False)
    ctx.cov['broken'] += broken
    ctx.assumptions += ['apparmor_parser 3.0.8 is the reference parser: AppArmor 4 only kinds (userns, mqueue, io_uring, all) are outside this check',
                        'equal meaning is decided by byte-identical compiled policy of two one-rule (or one-block) stub profiles: sufficient, and '
                        'necessary as far as the parser canonicalises (minimised automata)',
                        'the reference text of a rule is written by an independent printer from the grammar of apparmor.d(5)']


def replay(ctx, data):
    ctx.build_go()
    P = Parser(ctx)
    if 'printed' in data:
        print(P.compile(data['printed']))
    if 'reference_text' in data:
        print(P.compile(data['reference_text']))
    return 0
