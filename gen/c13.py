"""C13 — variable resolution is plain substitution and keeps the rest of the preamble."""
import itertools
import os
import re
import subprocess
from concurrent.futures import ThreadPoolExecutor

import lib
import rules as R
from lib import esc_list, unesc_list

THEOREMS = ['C13.C13_preamble_kept', 'C13.C13_second_definition_is_error', 'C13.C13_plain_value', 'C13.C13_undefined_is_error',
            'C13.C13_self_reference_is_error', 'C13.C13_indirect_cycle_is_error', 'C13.C13_cycle_is_reported', 'C13.C13_cycle_test_sound', 'C13.C13_no_reference_left',
            'C13.C13_value_fully_expanded', 'C13.C13_answer_independent_of_fuel']
REF = re.compile(r'@\{([^{}]+)\}')


def mk(kind, f, comment=''):
    return {'kind': kind, 'audit': False, 'at': '', 'comment': comment, 'nnp': False, 'fi': False, 'opt': False, 'f': f}


def gen_preamble(rng):
    """a preamble whose full expansion stays small enough to be evaluated by the model in reasonable time (the number of
    combinations is the product of the value counts along the references: a handful of the generated preambles run
    into the tens of thousands, which says nothing about the property and takes minutes)"""
    while True:
        entries, att, meta = gen_preamble1(rng)
        count = {}
        vals = {}
        for e in entries:
            if e['kind'] == 'variable':
                vals.setdefault(e['f'][0], []).extend(e['f'][1])

        def cnt(name, depth=0):
            if depth > 12 or name not in vals:
                return 1
            if name in count:
                return count[name]
            t = 0
            for v in vals[name]:
                c = 1
                for r_ in REF.findall(v):
                    c *= cnt(r_, depth + 1)
                t += c
            count[name] = t
            return t
        total = sum(cnt(n) for n in vals)
        if total <= 1500:
            return entries, att, meta


def gen_preamble1(rng):
    """returns (entries, attachments, meta) — acyclic by construction unless meta says otherwise"""
    nvars = rng.randint(1, 5)
    names = rng.sample(['v0', 'v01', 'bin', 'bin_dirs', 'lib', 'libexec', 'foo', 'foo_x', 'a', 'ab'], nvars)
    entries = []
    meta = {'wf': True, 'twice': False, 'err': None}
    lit = ['/usr/bin', '/{,usr/}bin', 'x', 'y', '/opt/', 'lib{,32,64}', '*-linux-gnu*', '/', 'a/']
    defs = {}
    for i, n in enumerate(names):
        vals = []
        for _ in range(rng.randint(1, 3)):
            v = ''
            for _ in range(rng.randint(1, 3)):
                if i > 0 and rng.random() < 0.5:
                    v += '@{%s}' % rng.choice(names[:i])
                else:
                    v += rng.choice(lit)
                if rng.random() < 0.3:
                    v += '/'
            vals.append(v)
        defs[n] = vals
        entries.append(mk('variable', [n, vals, True]))
        for _ in range(rng.choice([0, 0, 1, 1, 2, 3])):
            extra = [rng.choice(lit) + ('@{%s}' % rng.choice(names[:i]) if i > 0 and rng.random() < 0.5 else '')]
            entries.append(mk('variable', [n, extra, False]))
    # definitions in any order in the file (a += stays after its own =): forward references are legal
    groups, cur = [], []
    for e in entries:
        if e['f'][2]:
            if cur:
                groups.append(cur)
            cur = [e]
        else:
            cur.append(e)
    if cur:
        groups.append(cur)
    if rng.random() < 0.5:
        rng.shuffle(groups)
    entries = [e for g_ in groups for e in g_]
    # other preamble rules, interleaved
    others = [mk('comment', [], ' c%d' % i) for i in range(rng.randint(0, 3))]
    others += [mk('abi', ['abi/4.0', True])] if rng.random() < 0.7 else []
    others += [mk('include', [False, 'tunables/global', True])] if rng.random() < 0.7 else []
    others += [mk('alias', ['/a', '/b'])] if rng.random() < 0.2 else []
    for o in others:
        entries.insert(rng.randrange(len(entries) + 1), o)
    att = ['@{%s}' % rng.choice(names) + rng.choice(['', '/foo', '//bar'])]
    # deviations
    r = rng.random()
    if r < 0.06:
        entries.append(mk('variable', [rng.choice(names), ['dup'], True]))
        meta['err'] = 'already-defined'
    elif r < 0.12:
        att = ['@{nope}/x']
        meta['err'] = 'not-defined'
    elif r < 0.16:
        n = rng.choice(names)
        entries.append(mk('variable', ['self', ['@{self}/x'], True]))
        att = ['@{self}']
        meta['err'] = 'recursive'
    elif r < 0.22:
        # an append placed before its definition: stays a separate entry in the tool, an error for the parser
        n = rng.choice(names)
        entries.insert(0, mk('variable', [n, ['early'], False]))
        meta['wf'] = False
    for e in entries:
        if e['kind'] == 'variable':
            for v in e['f'][1]:
                refs = REF.findall(v)
                if len(refs) != len(set(refs)):
                    meta['twice'] = True
    for v in att:
        refs = REF.findall(v)
        if len(refs) != len(set(refs)):
            meta['twice'] = True
    return entries, att, meta


def expand(vars_, v, depth=0):
    """independent expansion: every reference replaced by every value, all combinations"""
    if depth > 40:
        raise RecursionError
    m = REF.search(v)
    if not m:
        return [v]
    name = m.group(1)
    if name not in vars_:
        raise KeyError(name)
    out = []
    for val in vars_[name]:
        out += expand(vars_, v[:m.start()] + val + v[m.end():], depth + 1)
    return out


def coupled(vars_, v, depth=0):
    """K_sameVariableTwice, transitively: some multi-valued variable is reached through two different
    reference occurrences while `v` is expanded (the tool substitutes all occurrences with the same value)"""
    from collections import Counter

    def occ(val, d):
        c = Counter()
        if d > 30:
            return c
        for name in REF.findall(val):
            c[name] += 1
            best = Counter()
            for x in vars_.get(name, []):
                o = occ(x, d + 1)
                for k, n_ in o.items():
                    best[k] = max(best[k], n_)
            c.update(best)
        return c
    for name, n_ in occ(v, 0).items():
        if n_ >= 2:
            try:
                if len(set(expand(vars_, '@{%s}' % name))) >= 2:
                    return True
            except (KeyError, RecursionError):
                return True
    return False


def norm(v):
    while '//' in v:
        v = v.replace('//', '/')
    return v


def render(entries, att):
    ls = []
    for e in entries:
        k = e['kind']
        if k == 'comment':
            ls.append('#' + e['comment'])
        elif k == 'abi':
            ls.append('abi <abi/3.0>,')
        elif k == 'include':
            continue
        elif k == 'alias':
            ls.append('alias %s -> %s,' % tuple(e['f']))
        elif k == 'variable':
            ls.append('@{%s} %s %s' % (e['f'][0], '=' if e['f'][2] else '+=', ' '.join(e['f'][1])))
    ls.append('@{att_} = %s' % ' '.join(att))
    ls.append('profile t {\n}')
    return '\n'.join(ls) + '\n'


def parser_expand(ctx, i, text):
    p = ctx.path('pre%d.aa' % i)
    open(p, 'w').write(text)
    q = subprocess.run(['apparmor_parser', '-Q', '-K', '-D', 'expanded-variables', p], stdout=subprocess.PIPE, stderr=subprocess.PIPE, timeout=30)
    os.remove(p)
    if q.returncode != 0:
        return None
    res = {}
    for l in q.stdout.decode().split('\n'):
        m = re.match(r'^@(\S+) = (.*)$', l)
        if m:
            res[m.group(1)] = re.findall(r'"([^"]*)"', m.group(2))
    return res


def run(ctx):
    ctx.build_go()
    ctx.driver_path = ctx.driver()
    broken = ctx.audit(THEOREMS)
    rng = ctx.rng
    n = 1500 if ctx.tier == 'quick' else 40000
    cases = [gen_preamble(rng) for _ in range(n)]
    ops = ['%s\t%s' % (esc_list(att), '\t'.join(R.enc(e) for e in entries)) for entries, att, meta in cases]
    go, le, bad = ctx.diff('resolve', ops, label='Resolve vs Aa.resolve')
    for i in bad[:3]:
        ctx.sample({'op': ops[i], 'go': go[i][:600], 'model': le[i][:600]})
    if bad:
        broken.append('correspondence: Resolve differs from the model on %d of %d preambles' % (len(bad), len(ops)))

    have_parser = shutil_which('apparmor_parser')
    nparse = 250 if ctx.tier == 'quick' else 5000
    nj = nfail = nperr = 0
    pjobs = []
    for i, (entries, att, meta) in enumerate(cases):
        o = go[i]
        if o in ('crash', 'timeout', 'panic'):
            ctx.violation('Resolve crashed', {'op': ops[i], 'go': o})
            continue
        if meta['err']:
            nj += 1
            if o != 'err':
                nfail += 1
                if nfail <= 3:
                    ctx.violation('%s is not reported as an error' % meta['err'], {'op': ops[i], 'go': o[:800]})
            continue
        if not meta['wf'] or meta['twice']:
            continue
        nj += 1
        # specification: fold appends into the definition, expand every reference by all combinations
        vars_ = {}
        for e in entries:
            if e['kind'] == 'variable':
                vars_.setdefault(e['f'][0], [])
                vars_[e['f'][0]] += e['f'][1]
        fails = []
        if any(coupled(vars_, v) for vals in vars_.values() for v in vals) or any(coupled(vars_, v) for v in att):
            nj -= 1
            continue
        if not o.startswith('ok\t'):
            fails.append('unexpected error')
        else:
            parts = o.split('\t')
            got_att = [norm(x) for x in unesc_list(parts[1])]
            got_rules = [R.dec(w) for w in parts[3:] if w]
            want_att = sorted(norm(x) for v in att for x in expand(vars_, v))
            if sorted(got_att) != want_att:
                fails.append('attachments %r, expected %r' % (sorted(got_att)[:4], want_att[:4]))
            gv = {}
            for r_ in got_rules:
                if r_['kind'] == 'variable':
                    if r_['f'][0] in gv:
                        fails.append('variable %s left twice in the preamble' % r_['f'][0])
                    gv[r_['f'][0]] = [norm(x) for x in r_['f'][1]]
            for name, vals in vars_.items():
                want = sorted(norm(x) for v in vals for x in expand(vars_, v))
                if sorted(gv.get(name, [])) != want:
                    fails.append('variable %s = %r, expected %r' % (name, sorted(gv.get(name, []))[:4], want[:4]))
                    break
            others_in = [R.key(e) + (e['comment'],) for e in entries if e['kind'] != 'variable']
            others_out = [R.key(e) + (e['comment'],) for e in got_rules if e['kind'] != 'variable']
            if others_in != others_out:
                fails.append('other preamble rules changed: %r -> %r' % (others_in, others_out))
            if len(pjobs) < nparse and have_parser:
                pjobs.append((i, render(entries, att), vars_, got_att, gv))
        if fails:
            nfail += 1
            if nfail <= 3:
                ctx.violation('Resolve: ' + fails[0], {'op': ops[i], 'failures': fails, 'go': o[:1200]})
    # agreement with the reference parser's own expansion
    if pjobs:
        with ThreadPoolExecutor(max_workers=12) as ex:
            res = list(ex.map(lambda j: parser_expand(ctx, j[0], j[1]), pjobs))
        for (i, text, vars_, got_att, gv), pr in zip(pjobs, res):
            if pr is None:
                nperr += 1
                continue
            ok = sorted(norm(x) for x in pr.get('att_', [])) == sorted(got_att)
            for name in vars_:
                ok = ok and sorted(norm(x) for x in pr.get(name, [])) == sorted(gv.get(name, []))
            if not ok:
                nfail += 1
                if nfail <= 3:
                    ctx.violation('Resolve disagrees with the expansion of apparmor_parser', {'op': ops[i], 'preamble': text, 'parser': pr, 'tool_attachments': got_att, 'tool_vars': gv})
    ctx.count_distinct(ops)
    # ---- history: files that start from the built-in tunables (aa.DefaultTunables, as the userspace builder does), resolved one
    # after the other in ONE process; some append to a built-in tunable.  What a file resolves to must not depend on the files
    # resolved before it: the same sequence in two orders, differing answers settled in a fresh process.
    nh = 150 if ctx.tier == 'quick' else 4000
    hops = []
    for i in range(nh):
        var = rng.choice(['bin', 'lib', 'sbin', 'run', 'multiarch', 'HOME', 'MOUNTS', 'user_share_dirs', 'etc_ro'])
        ent = []
        if rng.random() < 0.3:
            ent.append(mk('variable', [var, [rng.choice(['/opt/v%d' % i, '*-suse-linux*', '/srv/{a,b}'])], False]))
        ent.append(mk('variable', ['exec_path', ['@{%s}/app%d' % (var, i)] + (['@{bin}/alt'] if rng.random() < 0.3 else []), True]))
        hops.append('%s\t%s' % (esc_list(['@{exec_path}']), '\t'.join(R.enc(e) for e in ent)))
    fwd = ctx.run_go('resolvedef', hops)
    order = list(range(nh))
    rng.shuffle(order)
    back = dict(zip(order, ctx.run_go('resolvedef', [hops[i] for i in order])))
    nhd = 0
    for i in range(nh):
        if fwd[i] == back[i]:
            continue
        alone = ctx.run_go('resolvedef', [hops[i]])[0]
        for label, got, prior in (('generation order', fwd[i], hops[:i]), ('shuffled order', back[i], [hops[j] for j in order[:order.index(i)]])):
            if got != alone:
                nhd += 1
                if nhd <= 3:
                    ctx.violation('Resolve: what a file resolves to depends on the files resolved before it in the same process (%s): %s, alone %s' % (
                        label, got[:200], alone[:200]), {'history': prior[-40:] + [hops[i]], 'suite': 'resolvedef', 'got': got[:1000], 'alone': alone[:1000]})
    ctx.cov['search']['default_tunables_history'] = {'files': nh, 'orders': 2, 'order_dependent': nhd}
    ctx.cov['evaluations'] += 2 * nh
    ctx.cov['search']['spec'] = {'preambles': len(cases), 'judged': nj, 'failing': nfail, 'compared_with_apparmor_parser': len(pjobs), 'parser_rejected': nperr}
    ctx.sample({'op': ops[0], 'real_output': go[0][:600]})

    # ---- known findings ---------------------------------------------------------------------------------------
    cyc = '%s\t%s' % (esc_list(['@{a}']), '\t'.join(R.enc(e) for e in [mk('variable', ['a', ['@{b}/x'], True]), mk('variable', ['b', ['@{a}/y'], True])]))
    try:
        # (no address-space limit: the Go runtime does not start under one; an unbounded recursion ends at the 1 GB stack limit)
        q = subprocess.run([ctx.path('vharness'), 'run', 'resolve'], input=(cyc + '\n').encode(),
                           stdout=subprocess.PIPE, stderr=subprocess.PIPE, timeout=60)
        crashed = q.returncode != 0 or not q.stdout.strip()
    except subprocess.TimeoutExpired:
        crashed = True
    if crashed or not q.stdout.decode().startswith('err'):
        # repaired by a fix: commit (a cycle between variables is reported); replayed on every run
        ctx.violation('an indirect cycle of variables (@{a} = @{b}/x, @{b} = @{a}/y) is not reported as an error: %s' % (
            'the process crashed or ran out of memory' if crashed else q.stdout.decode()[:200]), {'op': cyc, 'suite': 'resolve'})
    tw = '%s\t%s' % (esc_list(['@{a}@{a}']), R.enc(mk('variable', ['a', ['x', 'y'], True])))
    o = ctx.run_go('resolve', [tw])[0]
    if o.startswith('ok') and sorted(unesc_list(o.split('\t')[1])) != ['xx', 'xy', 'yx', 'yy']:
        ctx.known_finding('K_sameVariableTwice')
    ctx.cov['rule'] = ('preambles of 1-5 variables (1-3 values, nested references to earlier variables, // and alternations), += appends, '
                       'comments/abi/include/alias interleaved at random positions; deviations: second definition, undefined reference, '
                       'self reference, append before definition; non-trivial = every generated preamble; expected values computed by an '
                       'independent expander and, for a subset, by apparmor_parser -D expanded-variables')
    if broken and not any(c for _, c, _ in ctx.violations):
        ctx.violation('obligation or correspondence broken: ' + '; '.join(broken)[:600], {'broken': broken}, concrete=False)
    ctx.cov['broken'] += broken
    ctx.assumptions += ['values are compared as multisets after collapsing // (the parser collapses later)', 'apparmor_parser 3.0.8 stands for the reference parser']


def shutil_which(x):
    import shutil
    return shutil.which(x) is not None


def replay(ctx, data):
    ctx.build_go()
    if 'history' in data:
        print('after the history :', ctx.run_go(data.get('suite', 'resolvedef'), data['history'])[-1][:600])
        print('alone             :', ctx.run_go(data.get('suite', 'resolvedef'), data['history'][-1:])[0][:600])
        return 0
    print(ctx.run_go('resolve', [data['op']])[0])
    return 0
