"""C14 — aa-log shows every matching AppArmor event exactly once, and only those."""
import os
import re
import subprocess

import lib
import tolean
import logsgen as G
from lib import esc, unesc_list

THEOREMS = ['C14.C14_nothing_invented', 'C14.C14_complete', 'C14.C14_no_duplicates', 'C14.C14_input_order', 'C14.C14_dedup_exact']
OLD = [
            ]


def expected_line(e):
    parts = []
    for j, (k, v, enc) in enumerate(e.fields):
        if k in ('pid', 'peer_pid'):
            continue        # (a pid that ends the record may stay or go: see TRAILING_PID)
        ev = G.enc_val(k, v, enc)
        if not ev.startswith('"') and enc != 'bare':
            ev = '"' + v + '"'            # hex-encoded values are decoded and quoted
        parts.append('%s=%s' % (k, ev))
    return ' '.join(parts)


# a pid that is the last field of a record has no blank after it, so the clean-up pattern of the unchanged code leaves
# it in place; whether it is shown or not is not what the property is about: both forms are accepted
TRAILING_PID = re.compile(r' (peer_)?pid=[0-9]+$')


def is_noise(e):
    n = e.get('name')
    return n in G.NOISE


def matches(e, flt):
    if not flt:
        return True
    for k in ('profile', 'label'):
        v = e.get(k)
        if v is not None and v.startswith(flt):
            return True
    return False


def hex_profile(e):
    for k, v, enc in e.fields:
        if k == 'profile' and not G.enc_val(k, v, enc).startswith('"'):
            return True
    return False


def spec(evs, flt):
    out, seen = [], set()
    for e, _ in evs:
        if is_noise(e) or not matches(e, flt):
            continue
        l = expected_line(e)
        if l not in seen:
            seen.add(l)
            out.append(l)
    return out


def run(ctx):
    ctx.build_go(aalog=True)
    T = ctx.tables()
    ctx.driver_path = ctx.driver()
    broken = ctx.audit(THEOREMS)
    rng = ctx.rng
    n = 700 if ctx.tier == 'quick' else 15000

    cases = []
    for i in range(n):
        long_line = None
        if i % 40 == 7:
            long_line = rng.choice([65535, 65536, 65537, 200000])
        text, evs = G.gen_log(rng, rng.randint(1, 14), long_line=long_line)
        if i % 40 == 17:
            # a matching record that is itself longer than 64 KiB (a very deep path): reported whole, like any other
            e = G.Ev([('apparmor', 'DENIED', None), ('operation', 'open', None), ('class', 'file', None), ('profile', rng.choice(G.PROFILES[:4]), None),
                      ('name', '/deep' + '/abcdefgh' * rng.choice([7300, 10000, 23000]), None), ('pid', '77', 'bare'), ('comm', 'deep', None),
                      ('requested_mask', 'r', None), ('denied_mask', 'r', None), ('fsuid', '1000', 'bare'), ('ouid', '0', 'bare')])
            text = e.render(rng, 'audit') + '\n' + text
            evs = [(e, 0)] + [(x, j + 1) for x, j in evs]
        flt = ''
        if i % 3 == 0:
            flt = rng.choice(['foo', 'fo', 'bar', 'firefox', 'zzz', 'foo//b', 'f.o', 'a'])
        cases.append((text, evs, flt))
    # the bundled logs
    for name in ('audit.log',):
        p = os.path.join(lib.REPO, 'tests', 'testdata', 'logs', name)
        if os.path.exists(p):
            cases.append((open(p, encoding='utf-8', errors='surrogateescape').read(), None, ''))
            cases.append((open(p, encoding='utf-8', errors='surrogateescape').read(), None, 'k'))
    ops = ['%s\t%s' % (esc(flt), esc(text)) for text, evs, flt in cases]
    go, le, bad = ctx.diff('getlogs', ops, label='GetApparmorLogs vs Logs.getLogs')
    unm = [i for i in bad if le[i] == 'unmodelled']
    bad = [i for i in bad if le[i] != 'unmodelled']
    ctx.cov['correspondence']['GetApparmorLogs vs Logs.getLogs'].update(disagreements=len(bad), unmodelled_skipped=len(unm))
    for i in bad[:3]:
        ctx.sample({'op': ops[i][:600], 'go': go[i][:600], 'model': le[i][:600]})
    if bad:
        broken.append('correspondence: GetApparmorLogs differs from the model on %d of %d logs' % (len(bad), len(ops)))
    # the regex engine against Go's regexp on the regenerated clean list
    rops = []
    for text, evs, flt in cases[:n // 2]:
        for l in text.split('\n')[:6]:
            rops.append('cleanlogs\t' + esc(l))
            rops.append('decodehex\t' + esc(l))
    go2, le2, bad2 = ctx.diff('rx', rops, label='regCleanLogs / DecodeHexInString vs Rx engine')
    for i in bad2[:3]:
        ctx.sample({'op': rops[i][:400], 'go': go2[i][:400], 'model': le2[i][:400]})
    if bad2:
        broken.append('correspondence: clean/decode differ from the model on %d of %d lines' % (len(bad2), len(rops)))

    # ---- search: the real output against the event-level specification ---------------------------------
    nj = nfail = 0
    khex = 0
    for i, (text, evs, flt) in enumerate(cases):
        if evs is None:
            continue
        if not go[i].startswith('ok'):
            ctx.violation('GetApparmorLogs crashed or stopped', {'op': ops[i][:2000], 'go': go[i]})
            continue
        got = unesc_list(go[i][3:]) if len(go[i]) > 3 else []
        if flt and any(hex_profile(e) and matches(e, flt) and not is_noise(e) for e, _ in evs):
            khex += 1
        if '.' in flt:
            # the filter is used as a regular expression: `f.o` also selects `foo`
            want_re = spec(evs, '') if False else None
            import re as _re
            sel = [e for e, _ in evs if not is_noise(e) and any(e.get(k) is not None and _re.match(flt, e.get(k)) for k in ('profile', 'label'))]
            lit = [e for e, _ in evs if not is_noise(e) and matches(e, flt)]
            if len(sel) != len(lit):
                if ctx.known_finding('K_filterIsRegex'):
                    continue
        want = spec(evs, flt)
        nj += 1
        raw_got = got
        got = []
        seen_norm = {}
        for x in raw_got:
            y = TRAILING_PID.sub('', ' '.join(x.split(' ')).replace('  ', ' ')).rstrip(' ')      # the pid token leaves a doubled space
            if y in seen_norm and seen_norm[y] != x:
                continue        # two records that differ only in a trailing pid/peer_pid (not stripped by the code, see assumptions): one event
            seen_norm.setdefault(y, x)
            got.append(y)
        if got != want:
            nfail += 1
            if nfail <= 3:
                missing = [l for l in want if l not in got]
                extra = [l for l in got if l not in want]
                ctx.violation('aa-log output differs from the events of the log: missing %r, unexpected %r' % (missing[:1], extra[:1]),
                              {'op': ops[i][:4000], 'filter': flt, 'expected': want, 'got': got})
    ctx.count_distinct([ops[i] for i, c in enumerate(cases) if c[1]])
    ctx.cov['search']['event_spec'] = {'logs': len(cases), 'judged': nj, 'failing': nfail, 'hex_profile_filter_cases': khex}
    ctx.sample({'log': cases[0][0][:800], 'filter': cases[0][2], 'real_output': go[0][:800]})

    # ---- the real binary: same output on every run, raw mode equals the library ----------------------------
    nbin = 25 if ctx.tier == 'quick' else 300
    ndiff = 0
    for i in range(min(nbin, len(cases))):
        text, evs, flt = cases[i]
        p = ctx.path('log%d.log' % i)
        with open(p, 'w', encoding='utf-8', errors='surrogateescape') as f:
            f.write(text)
        outs = set()
        for mode in (['-R'], [], ['-r']):
            res = []
            for _ in range(3):
                q = subprocess.run([ctx.path('aa-log'), '-f', p] + mode + ([flt] if flt else []), stdout=subprocess.PIPE,
                                   stderr=subprocess.STDOUT, timeout=60)
                res.append((q.returncode, q.stdout))
            if len(set(res)) > 1:
                ndiff += 1
                if ndiff <= 2:
                    ctx.violation('aa-log %s prints a different output on every run' % ' '.join(mode), {'log': text[:3000], 'filter': flt, 'mode': mode,
                                  'outputs': [r[1].decode('utf-8', 'replace')[:1500] for r in res]})
            if mode == [] and evs is not None and res[0][0] == 0 and '.' not in flt:
                # display mode: one non-empty line per reported record, also when a record cut inside a quoted value
                # (an odd number of quotes) comes first
                cut = 'type=AVC msg=audit(1.1:1): apparmor="DENIED" operation="open" profile="foo" name="/cut'
                with open(p + '.cut', 'w', encoding='utf-8', errors='surrogateescape') as f:
                    f.write(cut + '\n' + text)
                q = subprocess.run([ctx.path('aa-log'), '-f', p + '.cut'] + ([flt] if flt else []), stdout=subprocess.PIPE, stderr=subprocess.STDOUT, timeout=60)
                os.remove(p + '.cut')
                shown = [l for l in lib.ANSI.sub('', q.stdout.decode('utf-8', 'replace')).split('\n') if l.strip() != '']
                plain = [l for l in lib.ANSI.sub('', res[0][1].decode('utf-8', 'replace')).split('\n') if l.strip() != '']
                want_n = len(spec(evs, flt))
                if len(plain) != want_n or len(shown) != want_n:
                    ctx.violation('aa-log shows %d records (%d when a cut record comes first) for %d distinct matching events' % (len(plain), len(shown), want_n),
                                  {'log': text[:3000], 'filter': flt, 'shown': plain[:20], 'shown_after_cut_record': shown[:20]})
            if mode == ['-R'] and evs is not None and res[0][0] == 0:
                raw = res[0][1].decode('utf-8', 'surrogateescape').split('\n')
                raw = [l for l in raw if l != '']
                lib_out = unesc_list(go[i][3:]) if len(go[i]) > 3 else []
                if raw != [l for l in lib_out if l != '']:
                    ctx.violation('aa-log -R differs from GetApparmorLogs', {'log': text[:3000], 'binary': raw[:20], 'library': lib_out[:20]})
        os.remove(p)
    ctx.cov['search']['binary'] = {'logs': min(nbin, len(cases)), 'runs_per_mode': 3, 'nondeterministic': ndiff}

    # ---- journald input (journalctl -o json export): one JSON object per line, the record in MESSAGE; lines of other
    # units, entries whose MESSAGE is a byte array (journald's form for non-text payloads) and plain text lines come in between
    import json as _json
    njd = 40 if ctx.tier == 'quick' else 1200
    njf = 0
    foreign = ['-- No entries --', '{"MESSAGE":[27,91,49,109,111,107],"_PID":"1"}', '{"MESSAGE":"Started Session 3 of User alice.","_COMM":"systemd"}',
               '', '{"__CURSOR":"s=1;i=2","MESSAGE":"usb 1-1: new high-speed USB device"}', '{"MESSAGE":null}']
    for i in range(njd):
        text, evs = G.gen_log(rng, rng.randint(1, 10), fmt='bare')
        lines = []
        k = 0
        raw_lines = text.replace('\r\n', '\n').split('\n')
        for l in raw_lines:
            if l.strip() == '' or 'apparmor' not in l:
                continue                # (foreign lines of the generated log: replaced by journald-shaped ones below)
            if rng.random() < 0.35:
                lines.append(rng.choice(foreign))
            lines.append(_json.dumps({'MESSAGE': 'audit: type=1400 audit(1700000000.%03d:%d): %s' % (k, k, l), '_TRANSPORT': 'kernel'}, ensure_ascii=False))
            k += 1
        if rng.random() < 0.5:
            lines.append(rng.choice(foreign))
        p = ctx.path('jd%d.log' % i)
        with open(p, 'w', encoding='utf-8', errors='surrogateescape') as f:
            f.write('\n'.join(lines) + '\n')
        q = subprocess.run([ctx.path('aa-log'), '-s', '-f', p, '-R'], stdout=subprocess.PIPE, stderr=subprocess.STDOUT, timeout=60)
        os.remove(p)
        got = [l for l in q.stdout.decode('utf-8', 'surrogateescape').split('\n') if l != '']
        kept = [(e, j) for e, j in evs if 'apparmor' in raw_lines[j]] if evs else []
        want = spec(kept, '')
        gotn = []
        for x in got:
            x = re.sub(r'^audit: type=1400 audit\([0-9.:]*\): ', '', x)
            gotn.append(TRAILING_PID.sub('', ' '.join(x.split(' ')).replace('  ', ' ')).rstrip(' '))
        if q.returncode != 0 or gotn != want:
            njf += 1
            if njf <= 3:
                ctx.violation('aa-log on a journald export (exit %d) does not show the events of the file: missing %r, unexpected %r' % (
                    q.returncode, [l for l in want if l not in gotn][:1], [l for l in gotn if l not in want][:1]),
                    {'journald_file': '\n'.join(lines)[:4000], 'expected': want, 'got': gotn, 'exit': q.returncode, 'output': q.stdout.decode('utf-8', 'replace')[:1500]})
    ctx.cov['search']['journald'] = {'files': njd, 'failing': njf}
    ctx.cov['evaluations'] += njd
    ctx.cov['evaluations'] += 9 * min(nbin, len(cases))
    ctx.cov['rule'] = ('log files generated from structured events (file, cap, net, signal, ptrace, dbus, mount) with repeats differing '
                       'in timestamp/pid, base-abstraction noise, foreign and garbled lines, CRLF, lines of 65535..200000 bytes, three '
                       'prefix formats, with and without a filter; non-trivial = generated log; expected output computed from the events')
    if broken and not any(c for _, c, _ in ctx.violations):
        ctx.violation('obligation or correspondence broken: ' + '; '.join(broken)[:600], {'broken': broken}, concrete=False)
    ctx.cov['broken'] += broken
    ctx.assumptions += ['a pid or peer_pid that is the last field of a record (dbus-daemon messages without peer_label) is not stripped by the clean-up pattern; such records are judged with that field kept and are not repeated with another pid',
                        'journald JSON input: GetJournalctlLogs is not modelled; the real aa-log -s -f is run on generated journalctl exports and judged by the event-level oracle',
                        'lines above 64 MiB are outside the scanner limit set by the fix commit']


def replay(ctx, data):
    ctx.build_go()
    print(ctx.run_go('getlogs', [data['op']])[0])
    return 0
