"""C15 — aa-log reports each record's own field values, faithfully decoded."""
import lib
import tolean
import logsgen as G
from lib import esc, unesc

THEOREMS = ['C15.C15_quoted_value_whole', 'C15.C15_value_unquoted', 'C15.C15_hex_roundtrip', 'C15.C15_plain_run',
            'C15.C15_quote_in_value_breaks', 'C15.C15_fields', 'C15.C15_quoted_verbatim', 'C15.C15_bare_verbatim']
CLEANED = ('profile', 'name', 'target')


def parse_reply(o):
    """ok\t<k=v;...>|<...>\t<quoted>  ->  list of dicts"""
    parts = o.split('\t')
    if parts[0] != 'ok':
        return None, None
    recs = []
    if len(parts) > 1 and parts[1] != '':
        for r in parts[1].split('|'):
            d = {}
            if r:
                for kv in r.split(';'):
                    k, _, v = kv.partition('=')
                    d[unesc(k)] = unesc(v)
            recs.append(d)
    return recs, (parts[2] if len(parts) > 2 else '')


def run(ctx):
    ctx.build_go()
    T = ctx.tables()
    ctx.driver_path = ctx.driver()
    broken = ctx.audit(THEOREMS)
    rng = ctx.rng
    n = 1200 if ctx.tier == 'quick' else 30000

    cases = []
    for i in range(n):
        text, evs = G.gen_log(rng, rng.randint(1, 8))
        if i % 6 == 5:
            # a malformed record (stray quote) followed by good ones: fields must not bleed
            bad = 'type=AVC msg=audit(1.1:1): apparmor="DENIED" operation="open" profile="foo" name="/a"b c" pid=1 comm="x" extra="q'
            if i % 12 == 11:
                # a record cut in the middle of a value: an odd number of quotes
                bad = 'type=AVC msg=audit(1.1:1): apparmor="DENIED" operation="open" profile="foo" name="/a"b c" pid=1 comm="x" extra="q" more=cut'
            text = bad + '\n' + text
        cases.append((text, evs))
    ops = [esc(t) for t, _ in cases]
    go, le, bad = ctx.diff('lognew', ops, label='logs.New vs Logs.parseRecord')
    for i in bad[:3]:
        ctx.sample({'op': ops[i][:600], 'go': go[i][:600], 'model': le[i][:600]})
    if bad:
        broken.append('correspondence: logs.New differs from the model on %d of %d logs' % (len(bad), len(ops)))
    # hex decoding on random byte strings
    hops = []
    for i in range(n):
        k = rng.choice(['name', 'comm', 'profile', 'filename', 'peer_profile', 'names'])
        bs = bytes(rng.randrange(256) for _ in range(rng.randint(0, 6)))
        hx = bs.hex().upper()
        if rng.random() < 0.1:
            hx = hx[:-1]
        hops.append('decodehex\t' + esc(('x=1 %s=%s y="z"' % (k, hx)).encode()))
    go2, le2, bad2 = ctx.diff('rx', hops, label='DecodeHexInString vs Logs.decodeHex')
    for i in bad2[:3]:
        ctx.sample({'op': hops[i], 'go': go2[i], 'model': le2[i]})
    if bad2:
        broken.append('correspondence: DecodeHexInString differs from the model on %d of %d strings' % (len(bad2), len(hops)))

    # ---- search: every reported record carries exactly the values of its event ---------------------------
    # expected generalisation of profile/name/target: the documented rewrite list applied to the bare value
    vals = sorted({v for t, evs in cases for e, _ in evs for k, v, _ in e.fields if k in CLEANED})
    res = ctx.run_go('rx', ['resolvelogs\t' + esc(v) for v in vals])
    gen = {v: unesc(r[3:]) for v, r in zip(vals, res)}
    nj = nfail = nk = 0
    for i, (text, evs) in enumerate(cases):
        recs, q = parse_reply(go[i])
        if recs is None:
            ctx.violation('logs.New crashed', {'op': ops[i][:3000], 'go': go[i]})
            continue
        # expected records: first occurrences of non-noise events (C14), as maps
        seen, want = set(), []
        for e, _ in evs:
            if e.get('name') in G.NOISE:
                continue
            ident = e.ident()
            if ident in seen:
                continue
            seen.add(ident)
            want.append({k: (gen[v] if k in CLEANED else v) for k, v, _ in e.fields if k not in ('pid', 'peer_pid')})
        if text.startswith('type=AVC msg=audit(1.1:1): apparmor="DENIED" operation="open" profile="foo" name="/a"b c"'):
            recs = recs[1:]     # the malformed probe record itself
        recs = [{k: v for k, v in r.items() if k not in ('type', 'msg')} for r in recs]
        nj += 1
        if len(recs) != len(want):
            nfail += 1
            if nfail <= 3:
                ctx.violation('number of reported records differs from the events: %d vs %d' % (len(recs), len(want)),
                              {'op': ops[i][:3000], 'got': recs, 'expected': want})
            continue
        for r, w in zip(recs, want):
            r = {k: v for k, v in r.items() if k in w or k not in ('audit:', 'kernel:', 'host', 'Mar')}
            r = {k: v for k, v in r.items() if k in w}
            if r != w:
                diff = {k: (r.get(k), w.get(k)) for k in set(r) | set(w) if r.get(k) != w.get(k)}
                # K_busnameQuote: `:1.[0-9]*` runs on the value with its closing quote
                if all(k in CLEANED and str(w[k]).rstrip().endswith(('@{busname}',)) or (k in CLEANED and ':1' in str(e2)) for k, (e1, e2) in diff.items()):
                    nk += 1
                    if ctx.known_finding('K_busnameQuote'):
                        continue
                nfail += 1
                if nfail <= 3:
                    ctx.violation('a reported field differs from the record: %r' % (diff,), {'op': ops[i][:3000], 'got': r, 'expected': w})
                break
    ctx.count_distinct(ops)
    ctx.cov['search']['field_spec'] = {'logs': len(cases), 'judged': nj, 'failing': nfail, 'known_class_hits': nk}
    ctx.sample({'log': cases[0][0][:600], 'real_output': go[0][:600]})
    ctx.cov['rule'] = ('records generated from structured events with names/comm/profile holding spaces, =, #, commas, UTF-8 (hex-encoded '
                       'as the kernel does, or quoted), any class; a malformed record (stray quote; every other time cut inside a value, i.e. an odd number of quotes) placed before well-formed ones in 1/6 of the logs; '
                       'expected maps computed from the events, with the documented generalisation (the real rewrite list applied to the '
                       'bare value) for profile/name/target')
    if broken and not any(c for _, c, _ in ctx.violations):
        ctx.violation('obligation or correspondence broken: ' + '; '.join(broken)[:600], {'broken': broken}, concrete=False)
    ctx.cov['broken'] += broken
    ctx.assumptions += ['the outer split at spaces is covered by the model run and the kernel-evaluated example, the theorem covers the key/value split']


def replay(ctx, data):
    ctx.build_go()
    print(ctx.run_go('lognew', [data['op']])[0])
    return 0
