"""C16 — rules generated from logs cover the logged access."""
import os
import shutil
import subprocess

import re

import lib
import tolean
import aare
import logsgen as G
import rules as R
from lib import esc, esc_list, unesc

THEOREMS = ['C16.C16_mask_covered', 'C16.C16_mask_table', 'C16.C16_owner_only_if_same_uid', 'C16.C16_file_rule_fields',
            'C16.C16_qualifier', 'C16.C16_signal_fields', 'C16.C16_capability_fields', 'C16.C16_network_fields',
            'C16.C16_ptrace_unix_fields', 'C16.C16_dbus_fields', 'C16.C16_mount_fields', 'C16.C16_merge_keeps_coverage']
GRANT = {'r': 'r', 'w': 'w', 'a': 'w', 'c': 'w', 'd': 'w', 'm': 'm', 'k': 'k', 'l': 'l', 'x': 'ix'}


def shipped_variables(ctx):
    """variables the reference parser reads from the built tunables (arch, default configuration)"""
    cfg = lib.Cfg('arch', 4, '4.1')
    tree, out, rc = lib.real_build(ctx, cfg)
    ov = ctx.path('ov-vars')
    shutil.copytree('/etc/apparmor.d', ov, symlinks=True)
    subprocess.run(['cp', '-a', os.path.join(tree, '.build', 'apparmor.d', 'tunables') + '/.', os.path.join(ov, 'tunables') + '/'], check=True)
    for rel in ('tunables/multiarch.d/base',):
        src = os.path.join(lib.REPO, 'apparmor.d', rel)
        if os.path.exists(src) and not os.path.exists(os.path.join(ov, rel)):
            shutil.copy(src, os.path.join(ov, rel))
    open(os.path.join(ov, 'stub'), 'w').write('include <tunables/global>\nprofile t {\n}\n')
    q = subprocess.run(['apparmor_parser', '-Q', '-K', '-D', 'variables', '-b', ov, '-I', ov, os.path.join(ov, 'stub')], stdout=subprocess.PIPE, stderr=subprocess.PIPE)
    shutil.rmtree(tree, ignore_errors=True)
    shutil.rmtree(ov, ignore_errors=True)
    v = aare.parse_variables_dump(q.stdout.decode('utf-8', 'replace'))
    return v, q.stderr.decode('utf-8', 'replace')[-300:]


def ev_map(e):
    return {k: v for k, v, _ in e.fields}


def covers(rule, ev, vars_):
    """does one emitted rule cover the event? returns (bool, reason)"""
    m = ev_map(ev)
    if rule['audit'] != (m['apparmor'] == 'AUDIT') or rule['at'] not in ('', 'allow'):
        return False
    k, f = rule['kind'], rule['f']
    cls, op = m.get('class', ''), m.get('operation', '')
    if not cls and op in ('signal', 'ptrace', 'mount'):
        cls = op            # kernels that write no class= field: the operation names the kind
    if cls == 'cap' or op == 'capable':
        return k == 'capability' and m['capname'] in f[0]
    if cls == 'net':
        if m.get('family') == 'unix':
            return k == 'unix' and f[1] == m.get('sock_type', '') and all(a in f[0] for a in m.get('requested_mask', '').split())
        return k == 'network' and f[3] == m['family'] and f[4] == m['sock_type']
    if cls == 'signal':
        return k == 'signal' and m['signal'] in f[1] and m['requested_mask'] in f[0] and f[2] == m['peer']
    if cls == 'ptrace':
        return k == 'ptrace' and m['requested_mask'] in f[0] and f[1] == m['peer']
    if 'dbus' in op:
        if k != 'dbus':
            return False
        ok = f[1] == m['bus'] and f[3] == m['path'] and f[4] == m['interface'] and f[5] == m['member'] and m['mask'] in f[0]
        named = aare.matches(f[2] or f[6], m['name'], vars_)
        return ok and bool(named) and f[7] == m.get('peer_label', '')
    if cls == 'mount':
        if k not in ('mount', 'remount'):
            return False
        mp = f[3] if k == 'mount' else f[2]
        return f[0] == m['fstype'] and bool(aare.matches(mp, m['name'], vars_)) and (k != 'mount' or f[2] == m['srcname'] or bool(aare.matches(f[2], m['srcname'], vars_)))
    # file classes
    mask = m.get('requested_mask', '')
    if mask == 'l':
        return k == 'link' and bool(aare.matches(f[2], m['name'], vars_)) and (not f[0] or m.get('fsuid') == m.get('ouid')) and \
            ('target' not in m or bool(aare.matches(f[3], m['target'], vars_)))
    if k != 'file':
        return False
    if not aare.matches(f[1], m['name'], vars_):
        return False
    if f[0] and m.get('fsuid') != m.get('ouid'):
        return False
    need = {GRANT[c] for c in mask if c in GRANT}
    have = set(f[2])
    for a in need:
        if a == 'ix':
            if not any(x.endswith('x') for x in have):
                return False
        elif a not in have:
            return False
    return True


def run(ctx):
    ctx.build_go(prebuild=True)
    T = ctx.tables()
    ctx.driver_path = ctx.driver()
    broken = ctx.audit(THEOREMS)
    rng = ctx.rng
    vars_, perr = shipped_variables(ctx)
    if len(vars_) < 50:
        ctx.violation('could not read the shipped variables through apparmor_parser: ' + perr, {'stderr': perr}, concrete=False)
        return
    n = 1500 if ctx.tier == 'quick' else 40000

    # ---- T2: AddRule / FromLog constructors and the generalisation list ----------------------------------------
    evs = [G.gen_event(rng) for _ in range(n)]
    fops = [esc_list(['%s=%s' % (k, v) for k, v, _ in e.fields]) for e in evs]
    go, le, bad = ctx.diff('fromlog', fops, label='Profile.AddRule vs Aa.addRule')
    for i in bad[:3]:
        ctx.sample({'op': fops[i], 'go': go[i], 'model': le[i]})
    if bad:
        broken.append('correspondence: AddRule differs from the model on %d of %d records' % (len(bad), len(fops)))
    names = sorted({e.get('name') for e in evs if e.get('name')} | set(G.NAMES))
    extra = []
    for _ in range(n):
        parts = rng.choice(['/home/u%d' % rng.randint(0, 9), '/usr/lib', '/usr/lib64', '/usr/bin', '/run/user/%d' % rng.choice([0, 1000, 1001, 42]), '/proc/%d' % rng.choice([1, 12, 4321]),
                            '/sys/devices/pci0000:00/0000:00:1f.2', '/var/run', '/tmp/user/1000', '/usr/lib/x86_64-linux-gnu', '/att/foo', '/usr/share', '/etc'])
        tail = rng.choice(['', '/.cache/x', '/.config/a b', '/task/77/comm', '/modules/6.1.0-1/kernel', '/a:1.55', '/a:1', '/x-0123456789abcdef0123456789abcdef', '/12345678',
                           '/3f2a1b4c-1111-2222-3333-444455556666', '/bin/bash', '/bin/dash', '/:not.active.yet', '/1000/bus'])
        extra.append(parts + tail)
    extra += ['/srv/user/08/x', '/srv/v:1.01']         # witnesses of K_digitRunShape, replayed on every run
    # names built from the rewrite list itself: for every pattern of the list, strings it matches, placed in a path
    import rx as RX
    nsampled = 0
    markers = {r for _p, r in T['Regex']['logs']['regResolveLogs']}
    for pat, _repl in T['Regex']['logs']['regResolveLogs']:
        if pat in markers:
            continue            # the pattern undoes a marker an earlier pair of the list wrote (@{PROC}/one/): not a name the kernel logs
        try:
            ast = RX.parse(pat)[0]
        except RX.Unsupported:
            continue
        for k_ in range(5 if ctx.tier == 'quick' else 40):
            w = RX.sample(ast, rng, minimal=(k_ == 0))      # the first sample takes every repetition at its lower bound
            # a pattern written against already generalised text (@{run}/media/...): back to a concrete path
            for var, val in (('@{run}', '/run'), ('@{HOME}', '/home/alice'), ('@{PROC}', '/proc'), ('@{sys}', '/sys'), ('@{bin}', '/usr/bin'),
                             ('@{lib}', '/usr/lib'), ('@{user_config_dirs}', '/home/alice/.config'), ('@{user_cache_dirs}', '/home/alice/.cache'),
                             ('@{user_share_dirs}', '/home/alice/.local/share'), ('@{tmp}', '/tmp'), ('@{etc_ro}', '/etc'), ('@{etc_rw}', '/etc'),
                             ('@{MOUNTS}', '/media/alice/disk'), ('@{pid}', '4321'), ('@{uid}', '1000'), ('@{user}', 'alice'),
                             ('@{pci_bus}', 'pci0000:00'), ('@{arch}', 'x86_64'), ('@{tid}', '77'), ('@{att}', '')):
                w = w.replace(var, val)
            if re.search(r'/(proc|task)/0[0-9]*(/|$)', w):
                continue        # no process or thread has id 0 or an id written with a leading zero
            if not w or '@{' in w or '//' in w or any(ch in w for ch in '\\*?[]{}'):
                continue        # the kernel logs normalised paths: no empty component
            if w.startswith('/'):
                cands = [w + 'x', w.rstrip('/') + '/sub/file']
            elif w.startswith('pci'):
                cands = ['/sys/devices/' + w + ('' if w.endswith('/') else '/') + t_ for t_ in ('power/control', 'uevent', 'config')]
            elif w.endswith('/'):
                cands = ['/opt/app/' + w + 'lib.so', '/srv/' + w + 'x']
            else:
                cands = ['/opt/app/' + w + '/lib.so', '/usr/lib/jvm/java-17-openjdk-' + w, '/srv/' + w]
            extra.append(rng.choice(cands))
            nsampled += 1
    ctx.cov['search']['names_sampled_from_the_rewrite_patterns'] = nsampled
    rops = ['resolvelogs\t' + esc(x) for x in names + extra]
    go2, le2, bad2 = ctx.diff('rx', rops, label='regResolveLogs vs Rx engine on the regenerated list')
    for i in bad2[:3]:
        ctx.sample({'op': rops[i], 'go': go2[i], 'model': le2[i]})
    if bad2:
        broken.append('correspondence: regResolveLogs differs from the model on %d of %d names' % (len(bad2), len(rops)))
    # the generalisation keeps matching the logged name (every rewritten name, as a file path pattern)
    ng = 0
    for x, o in zip(names + extra, go2):
        pat = unesc(o[3:])
        r = aare.matches(pat, x, vars_)
        if r is False:
            if x.startswith('/att/') and ctx.known_finding('K_attPrefix'):
                continue
            if any(ch in x for ch in '\\*?[]{}') and ctx.known_finding('K_globMetaInName'):
                continue
            import re as _re
            if _re.search(r'(?<![0-9])0[0-9]', x) and _re.search(r'@\{(uid|pid|tid|busname)\}', pat) and ctx.known_finding('K_digitRunShape'):
                continue
            ng += 1
            if ng <= 3:
                ctx.violation('the generalised pattern %r no longer matches the logged name %r under the shipped tunables' % (pat, x), {'name': x, 'pattern': pat})
    ctx.cov['search']['generalisation'] = {'names': len(names) + len(extra), 'not_matching': ng, 'variables': len(vars_)}

    # ---- search: the real aa-log --rules pipeline on generated logs -------------------------------------------------
    nlogs = n // 6
    nj = nfail = 0
    lops, metas = [], []
    for i in range(nlogs):
        text, levs = G.gen_log(rng, rng.randint(1, 10))
        lops.append(esc(text))
        metas.append(levs)
    out = ctx.run_go('logrules', lops)
    ctx.cov['evaluations'] += len(lops)
    for levs, o, op in zip(metas, out, lops):
        if not o.startswith('ok'):
            ctx.violation('aa-log --rules crashed', {'op': op[:3000], 'go': o})
            continue
        p = o.split('\t')[1:]
        profs = {}
        for j in range(0, len(p) - 4, 5):
            name = unesc(p[j])
            merged = [R.dec(w) for w in unesc(p[j + 3]).split('\n') if w]
            profs[name] = merged
        for e, _ in levs:
            if e.get('name') in G.NOISE:
                continue
            m = ev_map(e)
            pname = m.get('label') if 'dbus' in m.get('operation', '') else m.get('profile')
            res = ctx.run_go('rx', ['resolvelogs\t' + esc(pname)])[0] if False else None
            cands = []
            for k2, v2 in profs.items():
                cands += v2 if aare.matches(k2, pname, vars_) or k2 == pname else []
            nj += 1
            if not any(r is not None and covers(r, e, vars_) for r in cands):
                if m.get('name', '').startswith('/att/') and ctx.known_finding('K_attPrefix'):
                    continue
                if any(ch in m.get('name', '') + m.get('target', '') + m.get('srcname', '') for ch in '\\*?[]{}') and ctx.known_finding('K_globMetaInName'):
                    continue
                nfail += 1
                if nfail <= 3:
                    ctx.violation('no emitted rule covers the logged access %r' % (m,), {'op': op[:3000], 'event': m, 'rules': [R.enc(r) for r in cands if r][:30]})
    ctx.count_distinct(fops)
    ctx.cov['search']['pipeline'] = {'logs': nlogs, 'events_judged': nj, 'uncovered': nfail}
    ctx.sample({'record': fops[0], 'rule': go[0]})
    ctx.cov['rule'] = ('records of every class generated as structured events (names from home, system, /proc, /sys, /run, pci, uuid/hex/number '
                       'bearing paths, names with spaces); non-trivial = record; the emitted rules after Merge+Sort+Format are searched for one '
                       'that covers the event; path patterns are matched with an AARE matcher over the variables apparmor_parser reads from '
                       'the built tunables')
    if broken and not any(c for _, c, _ in ctx.violations):
        ctx.violation('obligation or correspondence broken: ' + '; '.join(broken)[:600], {'broken': broken}, concrete=False)
    ctx.cov['broken'] += broken
    ctx.assumptions += ['the AARE matcher is a python translation of AppArmor globbing to regular expressions (not cross-checked against the parser DFA)',
                        'variables are those of the arch / ABI 4 / 4.1 build, read through apparmor_parser -D variables']


def replay(ctx, data):
    ctx.build_go()
    if 'op' in data:
        print(ctx.run_go('logrules', [data['op']])[0][:3000])
    else:
        print(data)
    return 0
