"""C17 — full-system-policy builds leave no unconfined fallback on rewritten exec rules."""
import glob
import os
import re
import shutil
from concurrent.futures import ThreadPoolExecutor

import lib
import tolean
from rx import Unsupported
from lib import esc, unesc, esc_list

THEOREMS = ['C17.C17_no_fallback', 'C17.C17_fsp_needed', 'C17.C17_rule_lines']
BAD = re.compile(r'r([Pp][Uu]|[Uu])x,')     # any letter case: rPux, is read as a fallback transition too
LIT = ('hotfix', 'fsp', 'abi3')


def shipped_rule_lines():
    res = []
    for p in glob.glob(os.path.join(lib.REPO, 'apparmor.d', '**', '*'), recursive=True):
        if os.path.isfile(p):
            try:
                for l in open(p, encoding='utf-8', errors='surrogateescape'):
                    if re.search(r'[A-Za-z]x,', l) or 'abi/' in l or 'mqueue' in l or 'userns' in l:
                        res.append(l)
            except OSError:
                pass
    return res


def gen_lines(rng, n):
    toks = ['r', 'P', 'U', 'x', ',', 'p', 'u', 'C', 'c', 'i', 'm', ' ', '/', '@{bin}/', 'a', 'rPUx,', 'rUx,', 'rPx,',
            'rpux,', 'rux,', 'PUx', 'Px', 'Ux', 'Cx', '  userns,', '  mqueue', 'abi/4.0', 'abi/4x0', ' -> ', '\n',
            '  ', '#', '{', '}', 'flags=(complain)', ' {', 'profile ', 'abi <abi/4.0>,']
    out = []
    for _ in range(n):
        k = rng.randint(1, 14)
        out.append(''.join(rng.choice(toks) for _ in range(k)))
    return out


def non_header_bad(text):
    """lines of `text` that are not block headers and still hold a fallback mode"""
    res = []
    ls = text.split('\n')
    for i, l in enumerate(ls):
        if BAD.search(l) and not (l.endswith(' {') and i < len(ls) - 1):
            res.append(l)
    return res


def run(ctx):
    ctx.build_go(prebuild=True)
    T = ctx.tables()
    broken = []
    try:
        ctx.regen({'Chains.lean': tolean.chains(T)})
    except Unsupported as e:
        broken.append('translation of the builder regex lists: %s' % e)
        ctx.cov['broken'].append('tie:T1 ' + broken[-1])
    ctx.driver_path = ctx.driver()
    broken += ctx.audit(THEOREMS)

    # ---- T1: chain order of --full builds, read from the real binary -------------------
    cfgs = [c for c in lib.all_cfgs() if c.full]
    if ctx.tier == 'quick':
        pick = [('arch', 4, '4.1', 'none'), ('debian', 3, '3.0', 'enforce'), ('ubuntu', 4, '4.0', 'complain'),
                ('opensuse', 3, '3.0', 'none')]
        cfgs = [c for c in cfgs if (c.dist, c.abi, c.version, c.mode) in pick]
    orders = {}
    build_hits = []

    def one(cfg):
        tree, out, rc = lib.real_build(ctx, cfg)
        order = lib.builder_order(ctx, out)
        hits = []
        if rc == 0:
            root = os.path.join(tree, '.build', 'apparmor.d')
            for d, _, files in os.walk(root):
                for f in files:
                    p = os.path.join(d, f)
                    if os.path.islink(p):
                        continue
                    txt = open(p, encoding='utf-8', errors='surrogateescape').read()
                    if BAD.search(txt):
                        stacked = False
                        for l in txt.split('\n'):
                            if l.startswith('  # Stacked profile:'):
                                stacked = True
                            if BAD.search(l) and not l.endswith(' {'):
                                hits.append((os.path.relpath(p, root), l, stacked))
        shutil.rmtree(tree, ignore_errors=True)
        return cfg, rc, order, hits, out

    with ThreadPoolExecutor(max_workers=8) as ex:
        results = list(ex.map(one, cfgs))
    nfiles = 0
    for cfg, rc, order, hits, out in results:
        if rc != 0:
            ctx.violation('prebuild failed for %s' % cfg, {'config': cfg.name(), 'output': out[-2000:]}, concrete=True)
            continue
        orders[cfg.name()] = order
        lit = [n for n in order if n in LIT]
        expect = ['hotfix', 'fsp'] + (['abi3'] if cfg.abi == 3 else [])
        others = [n for n in order if n not in LIT]
        if lit != expect or any(n not in ('userspace', 'complain', 'enforce') for n in others) \
                or (others and order.index('userspace') > order.index('hotfix')) \
                or any(order.index(m) < order.index('fsp') for m in ('complain', 'enforce') if m in order):
            broken.append('chain shape of %s not covered by C17_rule_lines: %s' % (cfg.name(), order))
            ctx.cov['broken'].append('tie:T1 chain ' + cfg.name())
        for f, l, stacked in hits:
            if stacked and ctx.known_finding('K_stackedBypass'):
                continue
            ctx.violation('built rule keeps an unconfined fallback: %s in %s (%s)' % (l.strip(), f, cfg.name()),
                          {'config': cfg.name(), 'file': f, 'line': l})
    ctx.cov['search']['real_full_builds'] = {'configs': len(results), 'orders': sorted(set(map(tuple, orders.values())))}

    # ---- T2: real builders vs the model ------------------------------------------------
    shipped = shipped_rule_lines()
    n = 3000 if ctx.tier == 'quick' else 60000
    texts = []
    rng = ctx.rng
    for i in range(0, len(shipped), 7):
        texts.append(''.join(shipped[i:i + 7]))
    texts += gen_lines(rng, n)
    chains = [['hotfix'], ['fsp'], ['abi3'], ['hotfix', 'fsp'], ['hotfix', 'fsp', 'abi3'], ['fsp', 'hotfix']]
    ops = []
    for i, t in enumerate(texts):
        ops.append('%s\tx\t%s' % (esc_list(chains[i % len(chains)]), esc(t)))
    go, le, bad = ctx.diff('builder', ops, label='builder chains (hotfix, fsp, abi3)')
    ctx.count_distinct([o for o in ops if BAD.search(unesc(o.split('\t')[2])) or 'Ux' in o])
    for i in bad[:5]:
        ctx.sample({'op': ops[i], 'go': go[i], 'model': le[i]})
    if bad:
        broken.append('correspondence: real builders differ from the model on %d of %d texts' % (len(bad), len(ops)))
        ctx.cov['broken'].append('tie:T2 builder')
    ctx.sample({'op': ops[0][:300], 'go': go[0][:300]})

    # ---- search on the real builders with the spec as oracle -------------------------------
    full_chains = [['hotfix', 'fsp'], ['hotfix', 'fsp', 'abi3'], ['hotfix', 'fsp', 'complain'],
                   ['hotfix', 'fsp', 'enforce', 'abi3'], ['hotfix', 'fsp', 'complain', 'abi3'], ['hotfix', 'fsp', 'enforce']]
    sops = []
    for i, t in enumerate(texts):
        sops.append('%s\tx\t%s' % (esc_list(full_chains[i % len(full_chains)]), esc(t)))
    out = ctx.run_go('builder', sops)
    # the same chains through builder.Run with the builders registered, one build after another in ONE process, on the same
    # file name (a regular build followed by a full one): each must give what the chain gives on its own
    out_run = ctx.run_go('buildrun', sops)
    ctx.cov['evaluations'] += len(sops)
    nrun = 0
    for i, (a, b) in enumerate(zip(out, out_run)):
        if a != b:
            nrun += 1
            if nrun <= 3:
                ctx.violation('builder.Run with the tasks %s gives another text than those tasks applied one after the other, when earlier builds '
                              'ran in the same process (the text of a build depends on the builds before it)' % sops[i].split('\t')[0],
                              {'op': sops[i][:3000], 'tasks_applied_directly': a[:1500], 'builder_Run_after_other_builds': b[:1500]})
    ctx.cov['search']['builder_run_history'] = {'builds_in_one_process': len(sops), 'differing': nrun}
    ctx.cov['evaluations'] += len(sops)
    nbad = 0
    for i, o in enumerate(out):
        if not o.startswith('ok\t'):
            continue
        res = unesc(o[3:])
        hits = non_header_bad(res)
        if hits:
            nbad += 1
            if nbad <= 3:
                ctx.violation('real builder chain %s leaves %r' % (sops[i].split('\t')[0], hits[0]),
                              {'op': sops[i], 'output': o, 'chain': sops[i].split('\t')[0]})
    # the same witnesses through the real chain in processes of their own (a replace list whose order is fixed once
    # per process, e.g. built by ranging over a map, only fails in some processes)
    wit = ['  @{bin}/a rPUx,\n  @{bin}/b rUx,\n  @{bin}/c rPUx, # x\n', '  @{shells_path} rUx,\n']
    nfresh = 16 if ctx.tier == 'quick' else 64
    nfb = 0
    for i in range(nfresh):
        op = '%s\tx\t%s' % (esc_list(full_chains[i % 2]), esc(wit[i % len(wit)]))
        o = ctx.run_go('builder', [op])[0]
        ctx.cov['evaluations'] += 1
        if o.startswith('ok\t') and non_header_bad(unesc(o[3:])):
            nfb += 1
            if nfb <= 2:
                ctx.violation('real builder chain %s leaves %r in a fresh process' % (op.split('\t')[0], non_header_bad(unesc(o[3:]))[0]),
                              {'op': op, 'output': o, 'note': 'depends on the process: replay several times'})
    ctx.cov['search']['real_builder_chains'] = {'texts': len(sops), 'failing': nbad, 'fresh_process_runs': nfresh, 'fresh_failing': nfb}
    ctx.cov['rule'] = ('texts = every shipped line holding an exec mode / abi / mqueue / userns token (grouped by 7) + '
                       'random token strings; non-trivial = contains a fallback mode or Ux; real --full builds scanned for '
                       'surviving fallback modes')
    if broken and not any(c for _, c, _ in ctx.violations):
        ctx.violation('obligation or correspondence broken: ' + '; '.join(broken)[:500],
                      {'broken': broken}, concrete=False)
    ctx.assumptions += ['the builder chain is read from the output of the real prebuild binary',
                        'header lines (ending in " {") are outside the property: exec rules never end in " {"']


def replay(ctx, data):
    ctx.build_go()
    if 'op' in data:
        print(ctx.run_go('builder', [data['op']])[0])
    else:
        print(data)
    return 0
