"""C18 — build options are orthogonal: each changes only what it governs."""
import difflib
import glob
import os
import re
import shutil
from concurrent.futures import ThreadPoolExecutor

import lib
import c04

THEOREMS = ['C18.C18_abi_governed_lines', 'C18.C18_full_governed_lines', 'C18.C18_mode_governed_lines', 'C18.C18_hotfix_line_local', 'C18.C18_dist_governed_items', 'C18.C18_abi_governed_items']
HDR = re.compile(r'^\s*(profile\s|hat\s|\^)')
EXECMODE = re.compile(r'\b(r?)(pux|ux|px|PUx|Ux|Px)\b,')
DIST_WORDS = set(lib.DISTS) | {'apt', 'pacman', 'zypper'}


def norm(l):
    return re.sub(r'\b(r?)(pux|ux|px)\b,', 'X,', re.sub(r'\s+', ' ', l.strip().lower()))


def guarded_lines():
    """lines of the source tree guarded by only/exclude, by kind of filter: 'target' (distribution / family) or 'abi' (abi / version)"""
    res = {'target': set(), 'abi': set()}
    for p in glob.glob(os.path.join(lib.REPO, 'apparmor.d', '**', '*'), recursive=True):
        if not os.path.isfile(p):
            continue
        ls = open(p, encoding='utf-8', errors='replace').read().split('\n')
        for i, l in enumerate(ls):
            m = re.search(r'#aa:(only|exclude)\s+(.*)$', l)
            if not m:
                continue
            words = m.group(2).split()
            kinds = set()
            for w in words:
                if w in DIST_WORDS:
                    kinds.add('target')
                if w.startswith('abi') or w.startswith('apparmor'):
                    kinds.add('abi')
            before = l[:l.index('#aa:')]
            lines = []
            if before.strip():
                lines = [before]
            else:
                j = i + 1
                while j < len(ls) and ls[j].strip() != '':
                    lines.append(ls[j])
                    j += 1
            for k in kinds:
                for x in lines:
                    res[k].add(norm(re.sub(r'#aa:.*$', '', x)))
                res[k].add('')
    return res


def classify(axis, a, b, guarded):
    """is a differing line pair (a removed / b added; either may be None) governed by the axis?"""
    lines = [x for x in (a, b) if x is not None]
    if axis == 'mode':
        return all(HDR.match(x) and x.rstrip().endswith('{') for x in lines)
    if axis == 'full':
        if a is not None and b is not None and EXECMODE.sub('X,', a) == EXECMODE.sub('X,', b):
            return True
        return False
    if axis == 'abi':
        if a is not None and b is not None:
            if a.replace('abi/4.0', 'abi/3.0') == b.replace('abi/4.0', 'abi/3.0'):
                return True
            if a.replace('  # userns,', '  userns,').replace('  # mqueue', '  mqueue') == b.replace('  # userns,', '  userns,').replace('  # mqueue', '  mqueue'):
                return True
        return all(norm(x) in guarded['abi'] or norm(re.sub(r'^(\s*)# ', r'\1', x)) in guarded['abi'] for x in lines)
    if axis == 'dist':
        if all(HDR.match(x) and x.rstrip().endswith('{') for x in lines):
            return True      # re-flagged by that distribution's flags manifest
        return all(norm(x) in guarded['target'] for x in lines)
    return False


def file_governed(axis, f, ca, cb, info):
    """may file f exist in only one of the two builds?"""
    base = os.path.basename(f).replace('.apparmor.d', '')
    if axis == 'dist':
        return True if info['dist_files'](f) else False
    if axis == 'abi':
        return f.startswith('apparmor.d/disable/') or base in info['overwrite'] or info['configure'](f)
    if axis == 'full':
        return info['full'](f)
    return False


def run(ctx):
    ctx.build_go(prebuild=True)
    ctx.tables()
    broken = ctx.audit(THEOREMS)
    rng = ctx.rng
    guarded = guarded_lines()
    overwrite = set(c04.read_list(os.path.join(lib.REPO, 'dists', 'overwrite')))
    full_files = set()
    fd = os.path.join(lib.REPO, 'apparmor.d', 'groups', '_full')
    for d, _, files in os.walk(fd):
        for f in files:
            full_files.add('apparmor.d/' + os.path.relpath(os.path.join(d, f), fd))
    ub = {'apparmor.d/' + os.path.relpath(p, os.path.join(lib.REPO, 'dists', 'ubuntu')) for p in glob.glob(os.path.join(lib.REPO, 'dists', 'ubuntu', '**', '*'), recursive=True) if os.path.isfile(p)}
    r41 = {'apparmor.d/abstractions/devices-usb-read', 'apparmor.d/abstractions/devices-usb', 'apparmor.d/abstractions/nameservice-strict',
           'apparmor.d/tunables/multiarch.d/base', 'apparmor.d/wg'}
    ignore_names = {}
    for d in lib.DISTS:
        ignore_names[d] = c04.read_list(os.path.join(lib.REPO, 'dists', 'ignore', d + '.ignore'))
    src_of = {}
    for p in glob.glob(os.path.join(lib.REPO, 'apparmor.d', 'groups', '*', '*')) + glob.glob(os.path.join(lib.REPO, 'apparmor.d', 'profiles-*-*', '*')):
        src_of.setdefault(os.path.basename(p), []).append(os.path.relpath(p, lib.REPO))

    def dist_files(f, da, db):
        base = os.path.basename(f)
        b0 = base.replace('.apparmor.d', '')
        for d in (da, db):
            for e in ignore_names[d]:
                if e.rstrip('/').split('/')[-1] in (base, b0):
                    return True
                for cand in (base, b0):
                    for s in src_of.get(cand, []):
                        if s.startswith(e.rstrip('/') + '/'):
                            return True
                if f.startswith(e.rstrip('/') + '/') or f == e.rstrip('/'):
                    return True
        if f in ub or f.startswith('apparmor.d/disable/'):
            return True
        return False

    # ---- the builds and the distance-one pairs of the tier ---------------------------------------------------
    base = [('arch', (4, '4.1'), 'none', False), ('debian', (3, '3.0'), 'none', False), ('ubuntu', (4, '4.0'), 'complain', True),
            ('arch', (4, '4.1'), 'enforce', False)]       # the other axes with a mode builder in the chain
    if ctx.tier == 'thorough':
        base = [(d, av, m, f) for d in lib.DISTS for av in lib.ABIVERS for m in ('none', 'enforce') for f in (False, True)][::3]
    pairs = []
    for d, av, m, f in base:
        for m2 in lib.MODES:
            if m2 != m:
                pairs.append(('mode', (d, av, m, f), (d, av, m2, f)))
        pairs.append(('full', (d, av, m, f), (d, av, m, not f)))
        for av2 in lib.ABIVERS:
            if av2 != av:
                pairs.append(('abi', (d, av, m, f), (d, av2, m, f)))
        d2 = rng.choice([x for x in lib.DISTS if x != d])
        pairs.append(('dist', (d, av, m, f), (d2, av, m, f)))
        if d == 'arch':
            # always: a distribution with another package family and guarded paragraphs, and one whose configure step
            # differs with the version
            for d3 in ('opensuse', 'debian'):
                if d3 != d2:
                    pairs.append(('dist', (d, av, m, f), (d3, av, m, f)))
    cfgs = sorted({p[1] for p in pairs} | {p[2] for p in pairs})

    def build(c):
        cfg = lib.Cfg(c[0], c[1][0], c[1][1], c[2], c[3])
        tree, out, rc = lib.real_build(ctx, cfg)
        res = None
        if rc == 0:
            res = {}
            root = os.path.join(tree, '.build')
            for dd, dirs, files in os.walk(root):
                for fn in files + [x for x in dirs if os.path.islink(os.path.join(dd, x))]:
                    p = os.path.join(dd, fn)
                    rel = os.path.relpath(p, root)
                    if os.path.islink(p):
                        res[rel] = 'L:' + os.readlink(p)
                    else:
                        res[rel] = open(p, encoding='utf-8', errors='surrogateescape').read()
        shutil.rmtree(tree, ignore_errors=True)
        return c, res
    with ThreadPoolExecutor(max_workers=8) as ex:
        builds = dict(ex.map(build, cfgs))
    # a pair whose first build reuses the build directory of a run with the opposite --full setting
    d0, av0, m0, f0 = base[0]
    tree0 = os.path.join(ctx.scratch, 'tree-reuse')
    lib.copy_tree(tree0)
    lib.real_build(ctx, lib.Cfg(d0, av0[0], av0[1], 'complain', not f0), tree=tree0)
    _, _, rc0 = lib.real_build(ctx, lib.Cfg(d0, av0[0], av0[1], 'complain', f0), tree=tree0)
    if rc0 == 0:
        res = {}
        root = os.path.join(tree0, '.build')
        for dd, dirs, files in os.walk(root):
            for fn in files + [x for x in dirs if os.path.islink(os.path.join(dd, x))]:
                p_ = os.path.join(dd, fn)
                rel = os.path.relpath(p_, root)
                res[rel] = ('L:' + os.readlink(p_)) if os.path.islink(p_) else open(p_, encoding='utf-8', errors='surrogateescape').read()
        key = (d0, av0, 'complain-after-other-full', f0)
        builds[key] = res
        pairs.append(('mode', key, (d0, av0, 'enforce', f0)))
    shutil.rmtree(tree0, ignore_errors=True)
    nlines = nfiles = 0
    for axis, ca, cb in pairs:
        A, B = builds[ca], builds[cb]
        name = '%s: %s vs %s' % (axis, '%s-abi%d-v%s-%s-%s' % (ca[0], ca[1][0], ca[1][1], ca[2], 'full' if ca[3] else 'normal'), '%s-abi%d-v%s-%s-%s' % (cb[0], cb[1][0], cb[1][1], cb[2], 'full' if cb[3] else 'normal'))
        if A is None or B is None:
            ctx.violation('prebuild failed (%s)' % name, {'pair': name})
            continue
        info = {'overwrite': overwrite,
                'configure': lambda f: f in ub or f in r41,
                'full': lambda f: f in full_files or f.startswith('systemd/'),
                'dist_files': lambda f: dist_files(f, ca[0], cb[0])}
        if axis == 'abi':
            # under ABI 4 the profiles of the overwrite list carry the package suffix: compare them with their ABI 3 name
            def unsuffix(D):
                res = {}
                for k, v in D.items():
                    b = os.path.basename(k)
                    if b.endswith('.apparmor.d') and b[:-len('.apparmor.d')] in overwrite and os.path.dirname(k) == 'apparmor.d':
                        k = k[:-len('.apparmor.d')]
                    res[k] = v
                return res
            A, B = unsuffix(A), unsuffix(B)
        for f in sorted(set(A) | set(B)):
            if f in A and f in B:
                if A[f] == B[f]:
                    continue
                nfiles += 1
                if axis == 'full' and f in ('apparmor.d/tunables/multiarch.d/profiles', 'apparmor.d/abstractions/gstreamer'):
                    continue
                if axis == 'full' and (f in full_files or f.startswith('systemd/')):
                    continue
                if axis == 'abi' and (os.path.basename(f).replace('.apparmor.d', '') in overwrite or f in ub):
                    pass
                from collections import Counter
                ca_, cb_ = Counter(A[f].split('\n')), Counter(B[f].split('\n'))
                removed = list((ca_ - cb_).elements())
                added = list((cb_ - ca_).elements())
                pairs_l = []
                for x in list(removed):
                    for y in added:
                        if classify(axis, x, y, guarded) and not (classify(axis, x, None, guarded) and classify(axis, None, y, guarded)):
                            pairs_l.append((x, y))
                            removed.remove(x)
                            added.remove(y)
                            break
                pairs_l += [(x, None) for x in removed] + [(None, y) for y in added]
                if True:
                    for x, y in pairs_l:
                        nlines += 1
                        if not classify(axis, x, y, guarded):
                            line = x if x is not None else y
                            if f.endswith('packagekitd') and axis == 'dist' and ctx.known_finding('K_rawSubstring'):
                                continue
                            if axis == 'mode' and line.strip().startswith('# profile pivoted') and ctx.known_finding('K_commentedHeader'):
                                continue
                            if '# Stacked profile' in A[f] and ctx.known_finding('K_stackedBypass') and (line in A[f].split('# Stacked profile', 1)[1] or line in B[f].split('# Stacked profile', 1)[-1]):
                                continue
                            ctx.violation('%s: %s differs in a line the option does not govern: %r -> %r' % (name, f, x, y),
                                          {'pair': name, 'axis': axis, 'file': f, 'a': x, 'b': y})
            else:
                nfiles += 1
                if not file_governed(axis, f, ca, cb, info):
                    ctx.violation('%s: %s exists in only one of the two builds' % (name, f), {'pair': name, 'axis': axis, 'file': f})
    ctx.count_distinct(['%s|%s|%s' % p for p in pairs])
    ctx.cov['evaluations'] += nlines + nfiles
    ctx.cov['search']['pairs'] = {'builds': len(cfgs), 'distance_one_pairs': len(pairs), 'differing_files': nfiles, 'differing_lines_classified': nlines}
    ctx.sample({'pair': '%s|%s|%s' % pairs[0]})
    ctx.cov['rule'] = ('real builds of the tier; every pair at Hamming distance one in (distribution, ABI/version, mode, full) compared file by file '
                       'and, for files that differ, line by line (difflib opcodes); each differing line / file classified by the rule of its axis; '
                       'guarded lines are read from the only/exclude directives of the source tree')
    if broken and not any(c for _, c, _ in ctx.violations):
        ctx.violation('obligation broken: ' + '; '.join(broken)[:600], {'broken': broken}, concrete=False)
    ctx.cov['broken'] += broken
    ctx.assumptions += ['ABI and AppArmor version form one axis (3/3.0, 4/4.0, 4/4.1), as in the build matrix',
                        'a header line may change with the distribution (flags manifests) and with the mode']


def replay(ctx, data):
    print(data)
    return 0
