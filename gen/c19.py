"""C19 — every shipped profile honours the layout contract the build and users rely on."""
import glob
import os

import lib
from lib import esc, esc_list, unesc_list

THEOREMS = ['C19.C19_flat_lossless', 'C19.C19_collision_loses', 'C19.C19_header_found', 'C19.C19_abi_and_local', 'C19.C19_attachment']
ABS_DIRS = ['', 'app/', 'attached/', 'bus/', 'common/']


def profile_files():
    res = []
    for d in sorted(glob.glob(os.path.join(lib.REPO, 'apparmor.d', 'groups', '*')) + glob.glob(os.path.join(lib.REPO, 'apparmor.d', 'profiles-*-*'))):
        for f in sorted(glob.glob(os.path.join(d, '*'))):
            if os.path.isfile(f) and not f.endswith('README.md'):
                res.append(f)
    return res


def run(ctx):
    ctx.build_go(prebuild=True)
    ctx.driver_path = ctx.driver()
    broken = ctx.audit(THEOREMS)
    files = profile_files()
    ops, meta = [], []
    for f in files:
        t = open(f, encoding='utf-8', errors='surrogateescape').read()
        ops.append('profile\t%s\t%s' % (esc(os.path.basename(f)), esc(t)))
        meta.append(os.path.relpath(f, lib.REPO))
    for d in ABS_DIRS:
        base = os.path.join(lib.REPO, 'apparmor.d', 'abstractions', d)
        for f in sorted(glob.glob(os.path.join(base, '*'))):
            if os.path.isfile(f):
                t = open(f, encoding='utf-8', errors='surrogateescape').read()
                ops.append('abstraction\t%s\t%s' % (esc(d + os.path.basename(f)), esc(t)))
                meta.append(os.path.relpath(f, lib.REPO))
    out = ctx.run_lean('layout', ops)
    ctx.cov['evaluations'] += len(ops)
    nbad = 0
    for i, o in enumerate(out):
        p = o.split('\t')
        if p[0] != 'ok' or p[2] != '1' or p[3] != '1':
            nbad += 1
            if nbad <= 10:
                ctx.violation('%s breaks the layout contract: %s%s' % (meta[i], p[1] if len(p) > 1 else o, '' if len(p) < 4 or p[3] == '1' else ' (header does not end in " {")'),
                              {'file': meta[i], 'missing': p[1] if len(p) > 1 else o})
    ctx.count_distinct(ops)
    # unique base names
    names = [os.path.basename(f) for f in files]
    u = ctx.run_lean('uniq', [esc_list(names)])[0].split('\t')
    if u[2] != '1':
        for n in unesc_list(u[1]):
            ctx.violation('base name %s is used by several source profiles: the flat output keeps only one' % n,
                          {'name': n, 'files': [os.path.relpath(f, lib.REPO) for f in files if os.path.basename(f) == n]})
    # cross-check: the real prepare stage keeps one output file per source profile (minus ignore lists)
    cfg = lib.Cfg('arch', 4, '4.0', 'none', False)
    tree, o, rc = lib.real_build(ctx, cfg)
    if rc == 0:
        built = set(os.listdir(os.path.join(tree, '.build', 'apparmor.d')))
        ign = set()
        for nm in ('main', 'arch'):
            p = os.path.join(lib.REPO, 'dists', 'ignore', nm + '.ignore')
            if os.path.exists(p):
                for l in open(p):
                    l = l.split('#')[0].strip()
                    if l:
                        ign.add(os.path.basename(l.rstrip('/')))
        igndirs = set()
        for nm in ('main', 'arch'):
            p = os.path.join(lib.REPO, 'dists', 'ignore', nm + '.ignore')
            if os.path.exists(p):
                for l in open(p):
                    l = l.split('#')[0].strip()
                    if l:
                        igndirs.add(l.rstrip('/'))
        ow = set()
        p = os.path.join(lib.REPO, 'dists', 'overwrite')
        if os.path.exists(p):
            ow = {l.split('#')[0].strip() for l in open(p) if l.split('#')[0].strip()}
        missing = []
        for f in files:
            rel = os.path.relpath(f, lib.REPO)
            n = os.path.basename(f)
            if n in ign or any(rel.startswith(d + '/') or rel == d for d in igndirs) or '/groups/_full/' in f:
                continue
            if n not in built and (n + '.apparmor.d') not in built and not (n in ow):
                missing.append(rel)
        if missing:
            ctx.violation('source profiles missing from the flat build directory: %s' % missing[:5], {'missing': missing[:50]})
        ctx.cov['search']['flat_build'] = {'source_profiles': len(files), 'built_entries': len(built), 'missing': len(missing)}
    ctx.cov['search']['instances'] = {'profile_files': len(files), 'abstractions': len(ops) - len(files), 'failing': nbad,
                                      'base_names_unique': u[2] == '1'}
    ctx.cov['exhaustive'] = True
    ctx.sample({'file': meta[0], 'result': out[0]})
    ctx.sample({'file': meta[-1], 'result': out[-1]})
    ctx.cov['rule'] = ('every profile file under apparmor.d/groups/*/ and apparmor.d/profiles-*-*/ and every abstraction of the five '
                       'abstraction directories, evaluated by Layout.ok / Layout.absOk (compiled Lean); exhaustive over the working tree')
    if broken and not any(c for _, c, _ in ctx.violations):
        ctx.violation('obligation broken: ' + '; '.join(broken)[:600], {'broken': broken}, concrete=False)
    ctx.cov['broken'] += broken
    ctx.assumptions += ['instances are evaluated by the compiled Lean predicate (not re-checked by the kernel per file)']


def replay(ctx, data):
    print(data)
    return 0
