#!/bin/bash
# usage: confirm_mut.sh <agent out dir> <n> <result json>
# Confirms a seeded change in a fresh scratch worktree of /repo HEAD: the demonstration passes without the patch,
# the patched tree builds, the demonstration fails with it, the project's own suite has the same failing set.
out=$1; n=$2; res=$3
export GOFLAGS=-mod=mod GOPROXY=off GOSUMDB=off GOTOOLCHAIN=local
wt=$(mktemp -d /tmp/cf-XXXXXX); rmdir $wt
git -C /repo worktree add --detach $wt HEAD >/dev/null 2>&1 || { echo "worktree failed"; exit 2; }
trap 'git -C /repo worktree remove --force $wt >/dev/null 2>&1; rm -rf $wt' EXIT
cd $wt
pkgfile=$(grep -oE "(pkg|cmd)/[A-Za-z0-9_/-]+/zz_demo${n}_test\.go" $out/notes$n.md | head -1)
if [ -z "$pkgfile" ] || [ ! -f $out/demo${n}_test.go ]; then echo "{\"error\": \"no go demonstration found\"}" > $res; exit 3; fi
pkgdir=$(dirname $pkgfile)
cp $out/demo${n}_test.go $pkgfile
go test -vet=off -count=1 -run "TestDemo${n}\$" ./$pkgdir/ > /tmp/cf-demo-a.$$ 2>&1; a=$?
git apply $out/change$n.diff || { echo "{\"error\": \"patch does not apply\"}" > $res; exit 4; }
go build ./... > /tmp/cf-build.$$ 2>&1; b=$?
go test -vet=off -count=1 -run "TestDemo${n}\$" ./$pkgdir/ > /tmp/cf-demo-b.$$ 2>&1; c=$?
rm -f $pkgfile
# the project's suite with the patch (one package at a time: several packages share .build and /tmp/tests)
flock /tmp/cf-suite.lock go test -p 1 -vet=off -count=1 ./... > /tmp/cf-suite.$$ 2>&1
fails=$(grep -E "^--- FAIL" /tmp/cf-suite.$$ | sort | tr '\n' ';')
python3 - "$res" "$a" "$b" "$c" "$fails" "$pkgfile" <<'PY'
import json, sys
res, a, b, c, fails, pkgfile = sys.argv[1:]
json.dump({'demo_without_patch_exit': int(a), 'build_with_patch_exit': int(b), 'demo_with_patch_exit': int(c),
           'suite_failures_with_patch': [f for f in fails.split(';') if f], 'demo_file': pkgfile,
           'ok': int(a) == 0 and int(b) == 0 and int(c) != 0 and [f for f in fails.split(';') if f] == ['--- FAIL: TestSelectLogFile (0.00s)']},
          open(res, 'w'), indent=1)
PY
cat $res
rm -f /tmp/cf-demo-a.$$ /tmp/cf-build.$$ /tmp/cf-demo-b.$$ /tmp/cf-suite.$$
