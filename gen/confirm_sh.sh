#!/bin/bash
# usage: confirm_sh.sh <agent out dir> <n> <result json> : like confirm_mut.sh, for a demonstration that is a shell script
# (demo<n>.sh <worktree>: exit 0 when the property holds)
out=$1; n=$2; res=$3
export GOFLAGS=-mod=mod GOPROXY=off GOSUMDB=off GOTOOLCHAIN=local
wt=$(mktemp -d /tmp/cf-XXXXXX); rmdir $wt
git -C /repo worktree add --detach $wt HEAD >/dev/null 2>&1 || exit 2
trap 'git -C /repo worktree remove --force $wt >/dev/null 2>&1; rm -rf $wt' EXIT
cd $wt
bash $out/demo$n.sh $wt > /tmp/cfsh-a.$$ 2>&1; a=$?
git checkout -- . ; git clean -fdq
git apply $out/change$n.diff || exit 4
go build ./... > /dev/null 2>&1; b=$?
bash $out/demo$n.sh $wt > /tmp/cfsh-b.$$ 2>&1; c=$?
git stash -q 2>/dev/null; git stash pop -q 2>/dev/null
flock /tmp/cf-suite.lock go test -p 1 -vet=off -count=1 ./... > /tmp/cfsh-suite.$$ 2>&1
fails=$(grep -E "^--- FAIL" /tmp/cfsh-suite.$$ | sort | tr '\n' ';')
python3 - "$res" "$a" "$b" "$c" "$fails" <<'PY'
import json, sys
res, a, b, c, fails = sys.argv[1:]
fl=[f for f in fails.split(';') if f]
json.dump({'demo_without_patch_exit': int(a), 'build_with_patch_exit': int(b), 'demo_with_patch_exit': int(c), 'suite_failures_with_patch': fl,
  'demo_file': 'demo.sh', 'ok': int(a)==0 and int(b)==0 and int(c)!=0 and fl==['--- FAIL: TestSelectLogFile (0.00s)']}, open(res,'w'), indent=1)
PY
cat $res; tail -3 /tmp/cfsh-b.$$
