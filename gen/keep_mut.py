#!/usr/bin/env python3
"""keep_mut.py <agent out dir> <n> <seeded dir name> <property> <confirm json> <needs> <detected_by> [note]
Stores a confirmed seeded change under /verif/seeded/<name>/ (patch.diff, demonstration, meta.json)."""
import json, os, shutil, sys
out, n, name, prop, cf, needs, det = sys.argv[1:8]
note = sys.argv[8] if len(sys.argv) > 8 else ''
c = json.load(open(cf))
assert c.get('ok'), 'not confirmed: %r' % c
d = os.path.join('/verif/seeded', name)
os.makedirs(d, exist_ok=True)
shutil.copy(os.path.join(out, 'change%s.diff' % n), os.path.join(d, 'patch.diff'))
demo = 'demo%s_test.go' % n
shutil.copy(os.path.join(out, demo), os.path.join(d, demo))
pkgfile = c['demo_file']
meta = {
    'property': prop,
    'source': 'independent sub-agent given only the property text and its own scratch worktree',
    'needs_to_manifest': needs,
    'demonstration': {'files': [demo],
                      'command': 'cp %s %s && go test -vet=off -count=1 -run \'TestDemo%s$\' ./%s/' % (demo, pkgfile, n, os.path.dirname(pkgfile)),
                      'confirmed': 'in a fresh scratch worktree of /repo HEAD (gen/confirm_mut.sh): demonstration passes without the patch, fails with it'},
    'confirmed': {'go build ./...': 'ok with the patch',
                  'go test -p 1 -vet=off -count=1 ./...': 'same failing set as the unchanged tree (only TestSelectLogFile, which fails without the patch too)',
                  'suite_failures_with_patch': c['suite_failures_with_patch']},
    'detected_by': det, 'note': note,
}
json.dump(meta, open(os.path.join(d, 'meta.json'), 'w'), indent=1)
print('kept', d)
