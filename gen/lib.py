"""Shared machinery of the /verif checks: scratch handling, building the real code and the
Lean development, the line protocol, differential runs, known findings, evidence."""
import atexit
import fcntl
import hashlib
import json
import os
import random
import re
import shutil
import subprocess
import sys
import tempfile
import time

VERIF = os.path.dirname(os.path.dirname(os.path.abspath(__file__)))
REPO = os.environ.get('VERIF_REPO', '/repo')
LEAN = os.path.join(VERIF, 'lean')
GOENV = dict(os.environ, GOFLAGS='-mod=mod', GOPROXY='off', GOSUMDB='off', GOTOOLCHAIN='local',
             CGO_ENABLED='0')
ALLOWED_AXIOMS = {'propext', 'Classical.choice', 'Quot.sound'}
TRUSTED_BASE = [
    'Lean 4.33.0 kernel (lake build; leanchecker in the thorough tier)',
    'axioms: propext, Classical.choice, Quot.sound only (audited by #print axioms on every property theorem)',
    'translator gen/tolean.py + gen/rx.py (Go tables and regex sources -> Lean data), re-run on every check',
    'Go harness harness/cmd/vharness calling the real functions in-process with -tags verif',
    'Lean compiler/runtime for the executable model (driver) used in the correspondence runs',
]


def esc(s):
    if isinstance(s, str):
        s = s.encode('utf-8', 'surrogateescape')
    out = []
    for c in s:
        if c < 0x21 or c > 0x7e or c in (0x25, 0x3b, 0x7c):
            out.append('%%%02X' % c)
        else:
            out.append(chr(c))
    return ''.join(out)


def unesc_b(s):
    out = bytearray()
    i = 0
    n = len(s)
    while i < n:
        c = s[i]
        if c == '%' and i + 2 < n:
            try:
                out.append(int(s[i + 1:i + 3], 16))
                i += 3
                continue
            except ValueError:
                pass
        out += c.encode('utf-8', 'surrogateescape')
        i += 1
    return bytes(out)


def unesc(s):
    return unesc_b(s).decode('utf-8', 'surrogateescape')


def esc_list(l):
    if len(l) == 1 and l[0] == '':
        return '%'
    return ';'.join('%' if x == '' else esc(x) for x in l)


def unesc_list(s):
    if s == '':
        return []
    return ['' if p == '%' else unesc(p) for p in s.split(';')]


class Lock:
    def __init__(self, path):
        self.path = path

    def __enter__(self):
        self.f = open(self.path, 'w')
        fcntl.flock(self.f, fcntl.LOCK_EX)
        return self

    def __exit__(self, *a):
        fcntl.flock(self.f, fcntl.LOCK_UN)
        self.f.close()


def sh(cmd, cwd=None, env=None, timeout=None, input=None, check=False):
    p = subprocess.run(cmd, cwd=cwd, env=env, timeout=timeout, input=input,
                       stdout=subprocess.PIPE, stderr=subprocess.STDOUT,
                       shell=isinstance(cmd, str))
    out = p.stdout.decode('utf-8', 'replace')
    if check and p.returncode != 0:
        raise RuntimeError('command failed: %s\n%s' % (cmd, out[-4000:]))
    return p.returncode, out


class Ctx:
    def __init__(self, pid, tier, seed):
        self.pid = pid
        self.tier = tier
        self.seed = seed
        self.rng = random.Random(seed * 1000003 + int(pid[1:]))
        self.t0 = time.time()
        self.scratch = tempfile.mkdtemp(prefix='aaverif-%s-' % pid)
        atexit.register(self.cleanup)
        self.violations = []       # list of (replay dict, no_failing_input: bool)
        self.known_hits = []       # strings
        self.cov = {
            'obligations': 0, 'discharged': 0,
            'checker_cmd': 'cd /verif/lean && lake build AaVerif.Props.%s && lake env lean Audit/%s.lean' % (pid, pid),
            'trusted_base': list(TRUSTED_BASE),
            'evaluations': 0, 'distinct_nontrivial': 0, 'rule': '',
            'samples': [], 'traces_validated_against_impl': 0,
            'theorems': [], 'correspondence': {}, 'search': {}, 'known_findings': [],
            'broken': [],
        }
        self.assumptions = []
        self._tables = None
        self._seen = set()
        self.known = load_known(pid)

    # ---------------------------------------------------------------- scratch
    def cleanup(self):
        shutil.rmtree(self.scratch, ignore_errors=True)

    def path(self, *a):
        return os.path.join(self.scratch, *a)

    # ---------------------------------------------------------------- build real code
    def build_go(self, prebuild=False, aalog=False):
        """Build the harness (and optionally the real binaries) from /repo's working tree."""
        h = os.path.join(VERIF, 'harness')
        if os.path.realpath(REPO) != '/repo':
            # VERIF_REPO points at another tree (a snapshot for a background run): the harness module is copied and its
            # `replace` directive pointed there, so that what is built is that tree and not /repo
            h2 = self.path('harness-src')
            if not os.path.exists(h2):
                shutil.copytree(h, h2)
                gm = open(os.path.join(h2, 'go.mod')).read().replace('=> /repo', '=> ' + os.path.realpath(REPO))
                open(os.path.join(h2, 'go.mod'), 'w').write(gm)
            h = h2
        rc, out = sh(['go', 'build', '-tags', 'verif', '-o', self.path('vharness'), './cmd/vharness'],
                     cwd=h, env=GOENV)
        if rc != 0:
            raise RuntimeError('harness build failed:\n' + out[-3000:])
        if prebuild:
            rc, out = sh(['go', 'build', '-o', self.path('prebuild'), './cmd/prebuild'], cwd=REPO, env=GOENV)
            if rc != 0:
                raise RuntimeError('prebuild build failed:\n' + out[-3000:])
        if aalog:
            rc, out = sh(['go', 'build', '-o', self.path('aa-log'), './cmd/aa-log'], cwd=REPO, env=GOENV)
            if rc != 0:
                raise RuntimeError('aa-log build failed:\n' + out[-3000:])

    def tables(self):
        if self._tables is None:
            rc, out = sh([self.path('vharness'), 'tables'])
            if rc != 0:
                raise RuntimeError('vharness tables failed: ' + out[-2000:])
            self._tables = json.loads(out)
            # the data the theorems are regenerated from must not depend on the process (a list built by ranging over
            # a Go map differs from run to run): dump it again from fresh processes
            for _ in range(7):
                rc2, out2 = sh([self.path('vharness'), 'tables'])
                if out2 != out:
                    try:
                        t2 = json.loads(out2)
                    except ValueError:
                        t2 = {}
                    diff = diff_paths(self._tables, t2)
                    self.cov['broken'].append('tie:T1 tables differ between processes: ' + ', '.join(diff[:5]))
                    self.violation('tables and regex lists dumped from the running code differ from one process to the next (%s): '
                                   'what is built from them depends on the run' % ', '.join(diff[:5]),
                                   {'differing': diff[:20], 'one_process': pick(self._tables, diff[:3]), 'another_process': pick(t2, diff[:3])},
                                   concrete=False)
                    break
            self._regen_all()
        return self._tables

    def _regen_all(self):
        """Every generated Lean module is rewritten from the tables of the code as it is now, whatever the check:
        the driver imports all of them, and a module left over from a run against another tree would be a stale tie."""
        import tolean
        from rx import Unsupported
        self.regen_errors = {}
        for rel, fn in (('Chains.lean', tolean.chains), ('Dists.lean', tolean.dists), ('AaTables.lean', tolean.aa_tables),
                        ('LogRx.lean', tolean.log_rx)):
            try:
                self.regen({rel: fn(self._tables)})
            except (Unsupported, KeyError, ValueError, IndexError) as e:
                self.regen_errors[rel] = '%s: %s' % (type(e).__name__, e)

    def generated_needed(self):
        """Generated modules the property theorems of this check depend on (transitive imports of Props/<pid>.lean)."""
        seen, todo, need = set(), ['AaVerif.Props.%s' % self.pid], set()
        while todo:
            m = todo.pop()
            if m in seen:
                continue
            seen.add(m)
            f = os.path.join(LEAN, *m.split('.')) + '.lean'
            if not os.path.exists(f):
                continue
            for l in open(f):
                mm = re.match(r'import (AaVerif\.\S+)', l)
                if mm:
                    if mm.group(1).startswith('AaVerif.Generated.'):
                        need.add(mm.group(1).split('.')[-1] + '.lean')
                    todo.append(mm.group(1))
        return need

    # ---------------------------------------------------------------- Lean side
    def lake(self, targets, timeout=3000):
        """lake build of the given targets (under the project lock). Returns (ok, log)."""
        with Lock(os.path.join(LEAN, '.verif.lock')):
            rc, out = sh(['lake', 'build'] + list(targets), cwd=LEAN, timeout=timeout)
        return rc == 0, out

    def regen(self, files):
        """files: dict relative path under lean/AaVerif/Generated -> content. Rewritten only
        when changed (so that Lake rebuilds only what depends on a changed table)."""
        changed = []
        with Lock(os.path.join(LEAN, '.verif.lock')):
            for rel, content in files.items():
                p = os.path.join(LEAN, 'AaVerif', 'Generated', rel)
                old = None
                if os.path.exists(p):
                    old = open(p).read()
                if old != content:
                    os.makedirs(os.path.dirname(p), exist_ok=True)
                    with open(p + '.tmp', 'w') as f:
                        f.write(content)
                    os.replace(p + '.tmp', p)
                    changed.append(rel)
        return changed

    def driver(self):
        ok, out = self.lake(['driver'])
        if not ok:
            raise RuntimeError('driver build failed:\n' + out[-4000:])
        return os.path.join(LEAN, '.lake', 'build', 'bin', 'driver')

    def audit(self, expected, thorough_extra=None):
        """Build Props/<pid> and read `#print axioms` for every expected theorem.
        `thorough_extra`: {module: [theorem names]} built and audited in the thorough tier only (complete-table
        theorems that take minutes of kernel evaluation).
        Returns list of broken obligations (names)."""
        pid = self.pid
        broken = []
        for rel in sorted(self.generated_needed()):
            if rel in getattr(self, 'regen_errors', {}):
                broken.append('translation of the tables of the code into %s failed (%s): the theorems are not re-checked against this tree' % (rel, self.regen_errors[rel]))
        mods = ['AaVerif.Props.%s' % pid]
        expected = list(expected)
        if thorough_extra and self.tier == 'thorough':
            for m, names in thorough_extra.items():
                mods.append(m)
                expected += names
        ok, out = self.lake(mods)
        self.cov['obligations'] = len(expected)
        if not ok:
            # find which theorems failed: lean reports file:line errors; map to decl names
            names = failing_decls(os.path.join(LEAN, 'AaVerif', 'Props', pid + '.lean'), out)
            if not names:
                names = ['<build of AaVerif.Props.%s failed>' % pid]
            broken += names
            self.cov['build_log_tail'] = out[-3000:]
            self.cov['discharged'] = max(0, len(expected) - len(names))
            self.cov['broken'] += ['obligation:' + n for n in names]
            return broken
        auditf = os.path.join(LEAN, 'Audit', pid + '.lean')
        src = ''.join('import %s\n' % m for m in mods) + ''.join('#print axioms %s\n' % n for n in expected)
        with Lock(os.path.join(LEAN, '.verif.lock')):
            old = open(auditf).read() if os.path.exists(auditf) else None
            if old != src:
                os.makedirs(os.path.dirname(auditf), exist_ok=True)
                open(auditf, 'w').write(src)
            rc, out = sh(['lake', 'env', 'lean', auditf], cwd=LEAN)
        thms = parse_axioms(out)
        done = 0
        for n in expected:
            ax = thms.get(n)
            if ax is None:
                broken.append(n + ' (missing)')
                continue
            bad = [a for a in ax if a not in ALLOWED_AXIOMS]
            self.cov['theorems'].append({'name': n, 'axioms': ax})
            if bad:
                broken.append(n + ' (axioms: %s)' % ','.join(bad))
            else:
                done += 1
        self.cov['discharged'] = done
        # forbidden tokens in the sources the theorems depend on
        rc, g = sh("grep -rnE 'sorry|admit|^axiom |native_decide|bv_decide|implemented_by|unsafe |maxHeartbeats 0' "
                   "--include=*.lean AaVerif | grep -v -- '--' | grep -v Driver || true", cwd=LEAN)
        toks = [l for l in g.splitlines() if l.strip() and not re.search(r':\s*(--|/-)', l)]
        self.cov['forbidden_tokens'] = toks
        if toks:
            broken.append('forbidden tokens: ' + '; '.join(toks[:3]))
        if self.tier == 'thorough':
            # the toolchain's independent re-checker replays the compiled declarations of the property module (and of the
            # thorough-only modules) through the kernel, outside the elaborator that produced them
            chk = {}
            for m in mods:
                with Lock(os.path.join(LEAN, '.verif.lock')):
                    rc, out = sh(['lake', 'env', 'leanchecker', m], cwd=LEAN, timeout=1800)
                chk[m] = 'ok' if rc == 0 else 'failed: ' + out[-300:]
                if rc != 0:
                    broken.append('leanchecker rejects %s' % m)
            self.cov['leanchecker'] = chk
        if broken:
            self.cov['broken'] += ['obligation:' + n for n in broken]
        return broken

    # ---------------------------------------------------------------- line protocol
    def run_go(self, suite, lines, timeout=600, env=None):
        data = ('\n'.join(lines) + '\n').encode()
        e = dict(os.environ, GOMEMLIMIT='4GiB')
        if env:
            e.update(env)
        p = subprocess.run([self.path('vharness'), 'run', suite], input=data, stdout=subprocess.PIPE,
                           stderr=subprocess.PIPE, timeout=timeout, env=e)
        out = p.stdout.decode('utf-8', 'replace').split('\n')
        if out and out[-1] == '':
            out.pop()
        if p.returncode != 0 or len(out) != len(lines):
            # crashed (fatal error / OOM): re-run op by op to locate
            res = []
            for l in lines:
                try:
                    q = subprocess.run([self.path('vharness'), 'run', suite], input=(l + '\n').encode(),
                                       stdout=subprocess.PIPE, stderr=subprocess.PIPE, timeout=30, env=e)
                    o = q.stdout.decode('utf-8', 'replace').strip('\n')
                    res.append(o if q.returncode == 0 and o else 'crash')
                except subprocess.TimeoutExpired:
                    res.append('timeout')
            return res
        return out

    def run_lean(self, suite, lines, timeout=600):
        # the model is a pure function of each line: large inputs are split over several driver processes
        if len(lines) > 4000:
            from concurrent.futures import ThreadPoolExecutor
            k = min(12, (len(lines) + 3999) // 4000)
            size = (len(lines) + k - 1) // k
            chunks = [lines[i:i + size] for i in range(0, len(lines), size)]
            with ThreadPoolExecutor(max_workers=k) as ex:
                parts = list(ex.map(lambda c: self.run_lean(suite, c, timeout=timeout), chunks))
            return [x for p in parts for x in p]
        data = ('\n'.join(lines) + '\n').encode()
        p = subprocess.run([self.driver_path, suite], input=data, stdout=subprocess.PIPE,
                           stderr=subprocess.PIPE, timeout=timeout)
        out = p.stdout.decode('utf-8', 'replace').split('\n')
        if out and out[-1] == '':
            out.pop()
        if p.returncode != 0 or len(out) != len(lines):
            raise RuntimeError('driver failed on suite %s (rc=%s, %d/%d lines): %s' % (
                suite, p.returncode, len(out), len(lines), p.stderr.decode()[-2000:]))
        return out

    def diff(self, suite, lines, label=None, canon=None):
        """Run the same ops through the real code and the model. Returns (go_out, lean_out,
        list of disagreeing indices). Records counts in coverage."""
        label = label or suite
        go = self.run_go(suite, lines)
        le = self.run_lean(suite, lines)
        if canon:
            go = [canon(x) for x in go]
            le = [canon(x) for x in le]
        bad = [i for i in range(len(lines)) if go[i] != le[i]]
        c = self.cov['correspondence'].setdefault(label, {'ops': 0, 'disagreements': 0})
        c['ops'] += len(lines)
        c['disagreements'] += len(bad)
        self.cov['traces_validated_against_impl'] += len(lines)
        self.cov['evaluations'] += len(lines)
        return go, le, bad

    def count_distinct(self, items):
        for it in items:
            h = hashlib.sha1(it.encode('utf-8', 'surrogateescape')).digest()[:8]
            if h not in self._seen:
                self._seen.add(h)
                self.cov['distinct_nontrivial'] += 1

    def sample(self, obj, cap=12):
        if len(self.cov['samples']) < cap:
            self.cov['samples'].append(obj)

    # ---------------------------------------------------------------- verdicts
    def violation(self, what, replay, concrete=True):
        """Record a violation. `replay` is a JSON-able dict; it is written to a replay file."""
        d = os.path.join(VERIF, 'replay')
        os.makedirs(d, exist_ok=True)
        n = len(self.violations)
        p = os.path.join(d, '%s_%s_%d_%d.json' % (self.pid, self.tier, self.seed, n))
        replay = dict(replay, property=self.pid, what=what, seed=self.seed, tier=self.tier,
                      concrete_failing_input=concrete)
        with open(p, 'w') as f:
            json.dump(replay, f, indent=1, ensure_ascii=True, default=str)
        self.violations.append((p, concrete, what))

    def known_finding(self, kid, what=None):
        """Report a known finding that still reproduces. Returns False if `kid` is not listed."""
        k = self.known.get(kid)
        if k is None:
            return False
        line = 'KNOWN-FINDING: property=%s %s: %s' % (self.pid, kid, what or k['what'])
        if line not in self.known_hits:
            self.known_hits.append(line)
            self.cov['known_findings'].append({'id': kid, 'status': 'reproduced', 'what': what or k['what']})
        return True

    def finish(self, assumptions=None):
        wall = time.time() - self.t0
        for l in self.known_hits:
            print(l)
        seenp = set()
        for p, concrete, what in self.violations[:20]:
            tail = '' if concrete else ' no-failing-input-found'
            print('VIOLATION property=%s replay=%s%s' % (self.pid, p, tail))
            print('  # ' + what[:300])
        cov = self.cov
        if not cov['samples']:
            cov['samples'] = ['(no sample recorded)']
        if not cov['rule']:
            cov['rule'] = 'see correspondence/search sections'
        ev = {
            'property_id': self.pid, 'tier': self.tier, 'seed': self.seed, 'level': 'proof',
            'coverage': cov, 'assumptions': (assumptions or []) + self.assumptions,
            'wall_s': round(wall, 2), 'violations': len(self.violations),
        }
        os.makedirs(os.path.join(VERIF, 'evidence'), exist_ok=True)
        with open(os.path.join(VERIF, 'evidence', self.pid + '.json'), 'w') as f:
            json.dump(ev, f, indent=1, ensure_ascii=True, default=str)
        print('%s tier=%s seed=%d: obligations %d/%d, ops %d, violations %d, known findings %d, %.1fs' % (
            self.pid, self.tier, self.seed, cov['discharged'], cov['obligations'], cov['evaluations'],
            len(self.violations), len(self.known_hits), wall))
        return 1 if self.violations else 0


def diff_paths(a, b, prefix=''):
    if type(a) != type(b):
        return [prefix or '.']
    if isinstance(a, dict):
        res = []
        for k in sorted(set(a) | set(b)):
            if k not in a or k not in b:
                res.append(prefix + '/' + k)
            else:
                res += diff_paths(a[k], b[k], prefix + '/' + k)
        return res
    return [] if a == b else [prefix or '.']


def pick(t, paths):
    res = {}
    for p in paths:
        cur = t
        for k in [x for x in p.split('/') if x]:
            cur = cur.get(k, {}) if isinstance(cur, dict) else {}
        res[p] = cur
    return res


def load_known(pid):
    p = os.path.join(VERIF, 'known_findings.json')
    res = {}
    if os.path.exists(p):
        for e in json.load(open(p)).get('findings', []):
            if e['property'] == pid:
                res[e['id']] = e
    return res


def parse_axioms(out):
    """Parse the output of `#print axioms`."""
    res = {}
    cur = None
    for m in re.finditer(r"'([^']+)' (does not depend on any axioms|depends on axioms: \[([^\]]*)\])", out.replace('\n', ' ')):
        name = m.group(1)
        if m.group(3) is None:
            res[name] = []
        else:
            res[name] = [a.strip() for a in m.group(3).split(',') if a.strip()]
    return res


def failing_decls(path, log):
    """Map `file:line:col: error` of a Props file to the enclosing theorem names."""
    if not os.path.exists(path):
        return []
    lines = open(path).read().split('\n')
    base = os.path.basename(path)
    names = []
    for m in re.finditer(r'%s:(\d+):\d+: error' % re.escape(base), log):
        ln = int(m.group(1))
        for i in range(min(ln, len(lines)) - 1, -1, -1):
            mm = re.match(r'\s*(?:theorem|lemma|example|def|instance)\s+([^\s:({\[]+)?', lines[i])
            if mm:
                n = mm.group(1) or ('example@%d' % (i + 1))
                if n not in names:
                    names.append(n)
                break
    return names


def copy_tree(dst):
    """Scratch copy of /repo's working tree (without .git and build output)."""
    sh(['rsync', '-a', '--exclude', '.git', '--exclude', '.build', '--exclude', '.logs',
        REPO + '/', dst + '/'], check=True)
    return dst


# ------------------------------------------------------------------ real builds
DISTS = ['arch', 'debian', 'ubuntu', 'opensuse', 'whonix']
ABIVERS = [(a, v) for a in (3, 4) for v in ('3.0', '4.0', '4.1')]   # ABI and version are independent options
MODES = ['none', 'complain', 'enforce']


class Cfg:
    def __init__(self, dist, abi, version, mode='none', full=False):
        self.dist, self.abi, self.version, self.mode, self.full = dist, abi, version, mode, full

    def args(self):
        a = ['--abi', str(self.abi), '--version', str(self.version)]
        if self.mode == 'complain':
            a.append('--complain')
        elif self.mode == 'enforce':
            a.append('--enforce')
        if self.full:
            a.append('--full')
        return a

    def name(self):
        return '%s-abi%d-v%s-%s-%s' % (self.dist, self.abi, self.version, self.mode, 'full' if self.full else 'normal')

    def __repr__(self):
        return self.name()


def all_cfgs():
    return [Cfg(d, a, v, m, f) for d in DISTS for (a, v) in ABIVERS for m in MODES for f in (False, True)]


def real_build(ctx, cfg, tree=None, keep_build=None):
    """Run the real prebuild binary for `cfg` in a scratch copy of the tree.
    Returns (tree dir, stdout, rc). The caller removes the tree (ctx.cleanup does anyway)."""
    if tree is None:
        tree = tempfile.mkdtemp(prefix='tree-', dir=ctx.scratch)
        copy_tree(tree)
    env = dict(os.environ, DISTRIBUTION=cfg.dist)
    rc, out = sh([ctx.path('prebuild')] + cfg.args(), cwd=tree, env=env, timeout=300)
    return tree, out, rc


ANSI = re.compile(r'\x1b\[[0-9;]*m')


def builder_order(ctx, stdout):
    """Names of the registered build tasks, in order, read from the real binary's output
    (`Build tasks:` lists the task messages)."""
    msgs = {}
    for name, msg in ctx.tables().get('BuilderMsg', {}).items():
        msgs[msg] = name
    lines = [ANSI.sub('', l).strip() for l in stdout.split('\n')]
    res = []
    on = False
    for l in lines:
        if 'Build tasks:' in l:
            on = True
            continue
        if on:
            if 'Directives processed' in l:
                break
            m = re.sub(r'^[^A-Za-z]*', '', l)
            if m in msgs:
                res.append(msgs[m])
            elif m:
                res.append('?' + m)
    return res


def list_build(root):
    """relative path -> ('f', sha1) | ('l', target) for everything under root"""
    res = {}
    for d, dirs, files in os.walk(root):
        for n in files + [x for x in dirs if os.path.islink(os.path.join(d, x))]:
            p = os.path.join(d, n)
            rel = os.path.relpath(p, root)
            if os.path.islink(p):
                res[rel] = ('l', os.readlink(p))
            else:
                res[rel] = ('f', hashlib.sha1(open(p, 'rb').read()).hexdigest())
    return res


def task_order(ctx, stdout):
    """Names of the registered prepare tasks, in order, read from the real binary's output."""
    msgs = {m: n for n, m in ctx.tables().get('TaskMsg', {}).items()}
    res = []
    for l in stdout.split('\n'):
        l = ANSI.sub('', l).strip()
        if 'Build tasks:' in l:
            break
        m = re.sub(r'^[^A-Za-z]*', '', l)
        if m in msgs and msgs[m] not in res:
            res.append(msgs[m])
    return res
