"""Generator of kernel-shaped AppArmor log records (structured events -> lines)."""
import binascii

SAFE = set('abcdefghijklmnopqrstuvwxyzABCDEFGHIJKLMNOPQRSTUVWXYZ0123456789/._-@{}+:,*~')
NOISE = ['/etc/ld.so.cache', '/usr/lib/libc.so.6', '/usr/lib64/libm.so.6', '/usr/lib/locale/locale-archive',
         '/usr/share/locale/fr/LC_MESSAGES/x.mo', '/usr/share/zoneinfo/UTC', '/dev/null', '/dev/urandom', '/dev/random',
         '/dev/zero', '/dev/log', '/etc/foo.so.1']
NAMES = ['/etc/passwd', '/etc/hosts.d/a', '/home/alice/.config/app/settings.json', '/home/bob/.cache/x', '/usr/bin/cat',
         '/usr/lib/foo/bar', '/usr/lib64/a', '/proc/1234/status', '/proc/1/cmdline', '/proc/sys/kernel/osrelease',
         '/sys/devices/pci0000:00/0000:00:02.0/config', '/sys/class/net/', '/run/user/1000/bus', '/var/run/x.pid',
         '/tmp/user/1000/f', '/run/udev/data/c1:3', '/home/alice/My Documents/a b.txt', '/home/alice/a=b#c,d',
         '/opt/X/Y', '/usr/share/icons/', '/etc/resolv.conf', '/etc/console-setup/x', '/dev/tty1', '/dev/dri/card0',
         '/home/alice/.local/share/app/', '/home/alice/café', '/var/lib/dpkg/status', '/etc/machine-id',
         '/sys/dev/block/8:16/uevent', '/tmp/x:1', '/srv/app/state/worker.pid=4242', '/run/lock/old.peer_pid=16', '/srv/share/DOMAIN\\alice/my file', '/tmp/tab\there',
         '/opt/dl/report%20final.pdf', '/srv/quota/100%', '/tmp/%s%d%v/%!x']
PROFILES = ['foo', 'foo//bar', 'bar', 'foobar', 'firefox', 'firefox//null-/usr/bin/lsb_release', 'dbus-daemon', 'a b', 'xdg-open']
OPS_FILE = [('open', 'r'), ('open', 'w'), ('open', 'rw'), ('mknod', 'c'), ('unlink', 'd'), ('truncate', 'w'), ('exec', 'x'),
            ('file_mmap', 'rm'), ('file_lock', 'k'), ('link', 'l'), ('rename_src', 'rw'), ('mkdir', 'c'), ('chmod', 'w'),
            ('getattr', 'r'), ('file_inherit', 'rw'), ('open', 'wc'), ('open', 'ac'), ('unlink', 'wd'), ('open', 'wrc'),
            ('open', 'rwc'), ('file_mmap', 'rwm'),
            ('link', 'k')]       # a link whose subset test failed is logged with the mask it lacked, not with l


def enc_val(key, v, force=None):
    """the way the kernel writes a value: bare for numbers, hex when unsafe (name/comm/profile...), else quoted"""
    if force == 'bare':
        return v
    b = v.encode('utf-8')
    if force == 'hex' or (key in ('name', 'comm', 'profile', 'target', 'peer', 'info', 'srcname') and force != 'quoted'
                          and not all(chr(c) in SAFE for c in b)):
        if key in ('name', 'comm', 'profile', 'srcname'):
            return binascii.hexlify(b).decode().upper()
    return '"' + v + '"'


class Ev:
    """one event: ordered fields (key, value, encoding) + state + class"""

    def __init__(self, fields):
        self.fields = fields

    def get(self, k):
        for kk, v, _ in self.fields:
            if kk == k:
                return v
        return None

    def ident(self):
        return tuple((k, v) for k, v, _ in self.fields if k not in ('pid', 'peer_pid'))

    def render(self, rng, fmt='audit'):
        body = ' '.join('%s=%s' % (k, enc_val(k, v, e)) for k, v, e in self.fields)
        ts = '17%08d.%03d:%d' % (rng.randint(0, 99999999), rng.randint(0, 999), rng.randint(1, 9999))
        if fmt == 'audit':
            return 'type=AVC msg=audit(%s): %s' % (ts, body)
        if fmt == 'syslog':
            return 'Mar  %d 12:%02d:%02d host kernel: [%5d.%06d] audit: type=1400 audit(%s): %s' % (
                rng.randint(1, 9), rng.randint(0, 59), rng.randint(0, 59), rng.randint(0, 99999), rng.randint(0, 999999), ts, body)
        return body


def gen_event(rng, noise=False):
    st = rng.choice(['DENIED', 'ALLOWED', 'AUDIT'])
    prof = rng.choice(PROFILES)
    pid = str(rng.randint(2, 99999))
    comm = rng.choice(['cat', 'bash', 'my prog', 'a=b', 'x#y', '--pid=977'])
    k = rng.random()
    f = [('apparmor', st, None)]
    if noise:
        op, mask = rng.choice(OPS_FILE[:3])
        f += [('operation', op, None), ('class', 'file', None), ('profile', prof, None), ('name', rng.choice(NOISE), None),
              ('pid', pid, 'bare'), ('comm', comm, None), ('requested_mask', mask, None), ('denied_mask', mask, None),
              ('fsuid', '1000', 'bare'), ('ouid', '0', 'bare')]
    elif k < 0.45:
        op, mask = rng.choice(OPS_FILE)
        f += [('operation', op, None)]
        if rng.random() < 0.7:
            f += [('class', 'file', None)]
        f += [('profile', prof, None), ('name', rng.choice(NAMES), None), ('pid', pid, 'bare'), ('comm', comm, None),
              ('requested_mask', mask, None), ('denied_mask', mask, None), ('fsuid', rng.choice(['1000', '0']), 'bare'),
              ('ouid', rng.choice(['1000', '0']), 'bare')]
        if op in ('link', 'rename_src') or rng.random() < 0.1:
            f += [('target', rng.choice(NAMES), None)]
        if rng.random() < 0.1:
            f.insert(2, ('info', rng.choice(['Failed name lookup - disconnected path', 'optional: x', 'no new privs']), None))
            f.insert(3, ('error', rng.choice(['-13', '-2', '-1']), 'bare'))
    elif k < 0.55:
        f += [('operation', 'capable', None), ('class', 'cap', None), ('profile', prof, None), ('pid', pid, 'bare'), ('comm', comm, None),
              ('capability', str(rng.randint(0, 40)), 'bare'), ('capname', rng.choice(['net_admin', 'sys_admin', 'dac_override', 'kill']), None)]
    elif k < 0.65:
        f += [('operation', rng.choice(['create', 'connect', 'sendmsg', 'bind']), None), ('class', 'net', None), ('profile', prof, None),
              ('pid', pid, 'bare'), ('comm', comm, None), ('family', rng.choice(['inet', 'inet6', 'netlink', 'unix']), None),
              ('sock_type', rng.choice(['stream', 'dgram', 'raw']), None), ('protocol', str(rng.choice([0, 6, 17])), 'bare'),
              ('requested_mask', rng.choice(['create', 'send receive', 'bind']), None), ('denied_mask', 'create', None)]
    elif k < 0.75:
        f += [('operation', 'signal', None)] + ([('class', 'signal', None)] if rng.random() < 0.75 else []) + [('profile', prof, None), ('pid', pid, 'bare'), ('comm', comm, None),
              ('requested_mask', rng.choice(['send', 'receive']), None), ('denied_mask', 'send', None),
              ('signal', rng.choice(['term', 'kill', 'hup', 'int']), 'bare'), ('peer', rng.choice(PROFILES), None)]
    elif k < 0.82:
        f += [('operation', 'ptrace', None)] + ([('class', 'ptrace', None)] if rng.random() < 0.75 else []) + [('profile', prof, None), ('pid', pid, 'bare'), ('comm', comm, None),
              ('requested_mask', rng.choice(['read', 'trace', 'readby', 'tracedby']), None), ('denied_mask', 'read', None),
              ('peer', rng.choice(PROFILES), None)]
    elif k < 0.92:
        f += [('operation', rng.choice(['dbus_method_call', 'dbus_signal', 'dbus_bind']), None), ('bus', rng.choice(['system', 'session']), None),
              ('path', rng.choice(['/org/freedesktop/DBus', '/org/a/b']), None), ('interface', 'org.freedesktop.DBus', None),
              ('member', rng.choice(['Hello', 'GetAll']), None), ('mask', rng.choice(['send', 'receive']), None),
              ('name', rng.choice(['org.freedesktop.DBus', ':1.42', 'org.a.b']), None), ('pid', pid, 'bare'),
              ('label', prof, None), ('peer_pid', str(rng.randint(2, 9999)), 'bare'), ('peer_label', rng.choice(PROFILES), None)]
        if rng.random() < 0.3:
            f.pop()        # dbus-daemon writes no peer_label for some messages: the record then ends with peer_pid=N
    else:
        # (kernels before 6.x write no class= field: the operation alone names the kind)
        f += [('operation', 'mount', None)] + ([('class', 'mount', None)] if rng.random() < 0.75 else []) + [('info', 'failed mntpnt match', None), ('error', '-13', 'bare'),
              ('profile', prof, None), ('name', rng.choice(['/mnt/', '/run/x/']), None), ('pid', pid, 'bare'), ('comm', comm, None),
              ('fstype', rng.choice(['tmpfs', 'ext4']), None), ('srcname', rng.choice(['tmpfs', '/dev/sda1', '/mnt/data/My Videos/', '/mnt/data/Vidéos/']), None),
              ('flags', rng.choice(['rw, nosuid', 'ro, remount']), None)]
    return Ev(f)


FOREIGN = ['type=SYSCALL msg=audit(1700000000.1:2): arch=c000003e syscall=257 success=no',
           'type=AVC msg=audit(1700000000.1:3): apparmor="STATUS" operation="profile_load" profile="unconfined" name="foo" pid=1 comm="apparmor_parser"',
           'Mar  1 00:00:00 host systemd[1]: Started x.', '', '   ', 'apparmor=', 'apparmor="DENIED', '\x00\x01garbage"=" "', 'type=BPF msg=audit(1.1:1): prog-id=60 op=LOAD',
           'apparmor="denied" operation="open"', '"apparmor=\\"DENIED\\""']


def gen_log(rng, n_events, fmt=None, long_line=None):
    """returns (text, list of (event, line index))"""
    fmt = fmt or rng.choice(['audit', 'syslog', 'bare'])
    lines = []
    evs = []
    pool = []
    for _ in range(n_events):
        r = rng.random()
        if r < 0.15 and pool:
            e = rng.choice(pool)          # repeat: identical up to timestamp / pid
            # (a pid that ends the record is not stripped by the clean-up pattern, which wants a blank after it: kept as it is)
            last = len(e.fields) - 1
            e = Ev([(k, (str(rng.randint(2, 99999)) if k in ('pid', 'peer_pid') and j != last and rng.random() < 0.7 else v), enc)
                    for j, (k, v, enc) in enumerate(e.fields)])
        elif r < 0.22 and pool:
            # near duplicate: the same access with one field changed (other target, peer, signal, name, mask)
            base = rng.choice(pool)
            fs = list(base.fields)
            idx = [i for i, (k, v, enc) in enumerate(fs) if k in ('target', 'peer', 'signal', 'name', 'requested_mask', 'capname', 'member', 'sock_type', 'srcname')]
            if idx:
                i = rng.choice(idx)
                k, v, enc = fs[i]
                alt = {'target': NAMES, 'peer': PROFILES, 'signal': ['term', 'kill', 'hup', 'int'], 'name': NAMES if base.get('class') != 'mount' and 'dbus' not in (base.get('operation') or '') else [v],
                       'requested_mask': [v], 'capname': ['net_admin', 'sys_admin', 'dac_override', 'kill'], 'member': ['Hello', 'GetAll', 'Set'],
                       'sock_type': ['stream', 'dgram', 'raw'], 'srcname': ['tmpfs', '/dev/sda1', '/mnt/data/My Videos/']}[k]
                fs[i] = (k, rng.choice(alt), enc)
            e = Ev(fs)
            pool.append(e)
        elif r < 0.30:
            e = gen_event(rng, noise=True)
        elif r < 0.4:
            lines.append(rng.choice(FOREIGN))
            continue
        else:
            e = gen_event(rng)
            pool.append(e)
        evs.append((e, len(lines)))
        lines.append(e.render(rng, fmt))
    if rng.random() < 0.15:
        # two hard links to one name from different targets, same profile: distinct accesses
        prof = rng.choice(PROFILES)
        name = rng.choice(NAMES[:8])
        for tgt in rng.sample(NAMES[8:20], 2):
            e = Ev([('apparmor', 'ALLOWED', None), ('operation', 'link', None), ('class', 'file', None), ('profile', prof, None), ('name', name, None),
                    ('pid', str(rng.randint(2, 99999)), 'bare'), ('comm', 'ln', None), ('requested_mask', 'l', None), ('denied_mask', 'l', None),
                    ('fsuid', '1000', 'bare'), ('ouid', '1000', 'bare'), ('target', tgt, None)])
            evs.append((e, len(lines)))
            lines.append(e.render(rng, fmt))
    if rng.random() < 0.2:
        # the same several-letter mask on two paths of one profile, then another mask on one of them (the rules built
        # from the first two records are merged with the third: what one rule gains must not show up in the other)
        prof = rng.choice(PROFILES)
        a, b = rng.sample(NAMES[:8] + ['/var/lib/demo/state.db', '/var/lib/demo/journal'], 2)
        m1 = rng.choice(['wc', 'ac', 'wd', 'wrc', 'rwc', 'rwk'])
        m2 = rng.choice(['r', 'k', 'm', 'w'])
        st = rng.choice(['DENIED', 'ALLOWED'])
        for nm, mk in ((a, m1), (b, m1), (a, m2)):
            e = Ev([('apparmor', st, None), ('operation', 'open', None), ('class', 'file', None), ('profile', prof, None), ('name', nm, None),
                    ('pid', str(rng.randint(2, 99999)), 'bare'), ('comm', 'demo', None), ('requested_mask', mk, None), ('denied_mask', mk, None),
                    ('fsuid', '1000', 'bare'), ('ouid', '1000', 'bare')])
            evs.append((e, len(lines)))
            lines.append(e.render(rng, fmt))
    if long_line is not None:
        pos = rng.randrange(len(lines) + 1)
        lines.insert(pos, 'x' * long_line)
        evs = [(e, i + 1 if i >= pos else i) for e, i in evs]
    sep = '\r\n' if rng.random() < 0.1 else '\n'
    text = sep.join(lines)
    if rng.random() < 0.8:
        text += sep
    return text, evs
