#!/usr/bin/env python3
"""Writes /verif/MANIFEST.json from the table below (kept in one place so that the claimed
checks and the not_applicable list are always consistent)."""
import json
import os
import subprocess
import sys

if '--force' not in sys.argv:
    # MANIFEST.json has been edited directly since this table was written (level texts, techniques); it is the source of truth.
    # Running this script would put the older texts back.
    print('gen/manifest.py: MANIFEST.json is maintained directly now; pass --force to regenerate it from the (older) table below')
    sys.exit(0)

HERE = os.path.dirname(os.path.dirname(os.path.abspath(__file__)))

CLAIMED = {
    'C17': dict(
        text='Machine-checked Lean 4 theorems over the regenerated replace lists of hotfix/fsp/abi3: for every text, '
             'no rPUx,/rUx,/rpux,/rux, survives hotfix;fsp[;abi3] (C17_no_fallback), lifted through any header-only '
             'rewrite (complain/enforce) to every rule line (C17_rule_lines). The lists and the task order are '
             'regenerated from the running Go code on every run; the model is run against the real builders; every '
             '--full build of the tier is scanned.',
        note='Trusted: Lean kernel; translator gen/tolean.py+rx.py for literal/dot alternatives; the header-rewrite shape '
             'of complain/enforce is validated by evaluation (HeaderRewrite on every text of the run), not proved; text '
             'inserted by the stack directive after the builders ran is outside the chain theorem and is scanned in real builds.',
        technique='Lean 4 proof (leftmost-replacement lemmas L1/L2, decidable chain certificate) + regenerated tables + differential run',
        ref='8/C17'),
    'C05': dict(
        text='Lean 4 theorems about the model of the complain/enforce builders on one block header line, for every '
             'well-formed header (decidable WF): flags after complain = old flags (+complain), after enforce = old flags minus '
             'complain (C05_complain_flags, C05_enforce_flags and corollaries), non-header lines untouched; the Nodup hypothesis is '
             'shown necessary by a proved witness. Model = real builders and real setflags task on generated multi-block texts '
             'and every shipped file (differential); real builds in the three modes compared block by block with an independent '
             'header scanner.',
        note='Trusted: Lean kernel; hand-written model Flags.lean tied by the differential run (sampling); the regex sources it '
             'transcribes are compared with the running code on every run; "rest of the header untouched" is checked by the '
             'search on real code, not yet a theorem; stacked text is a known finding.',
        technique='Lean 4 proof on an executable model + correspondence check against the Go builders + real-build block comparison',
        ref='8/C05'),
    'C03': dict(
        text='Lean 4 theorems on the line-level specification of only/exclude (kept iff the target is named / not named, the '
             'marker never survives, unguarded lines unchanged, target table: each distribution in exactly one family, by decide '
             'on the regenerated table). The step-by-step model of directive.Run is run against the real code on generated and '
             'shipped texts x targets; the real code is judged against the specification on every well-formed text (Filter.wf).',
        note='Trusted: Lean kernel; the refinement model = spec on well-formed texts is validated by evaluation on every run, '
             'not proved; paragraph markers holding regex metacharacters other than "." are outside the model (counted as '
             'unmodelled); other directive kinds are neutralised in shipped files for this check.',
        technique='Lean 4 proof on the specification + executable model and spec tied to directive.Run by differential runs',
        ref='8/C03'),
    'C11': dict(
        text='Lean 4 theorems: on strings over the regenerated sort alphabet compare() is antisymmetric, transitive and equal '
             'only on identical strings; the lexicographic comparison of the fields each Compare reads is a total preorder with '
             'identity on canonical key lists (all kinds except file/include special cases); sorted permutations are unique, so '
             'sorting is idempotent and input-order independent there. Instance obligations (alphabets duplicate-free and lower '
             'case, which kinds read every field) by decide on regenerated tables. Every Rule.Compare, compare(string) and '
             'Rules.Sort is run against the model; antisymmetry, identity, transitivity, sort idempotence and permutation '
             'invariance are searched on the real code outside the known classes, each of which has a proved witness.',
        note='Trusted: Lean kernel; hand-written schema of per-kind compare orders tied by the differential run (sampling); '
             'strings.ToLower modelled for ASCII; slices.SortFunc compared only on tie-free lists; file and include special '
             'cases are covered by the search, not by the order theorem.',
        technique='Lean 4 proof (order theory of compare, lexicographic lifting, sorted-permutation uniqueness) + regenerated tables + differential run',
        ref='8/C11'),
    'C10': dict(
        text='Lean 4 theorems on the model of Rules.Merge (nested loop with in-place deletion and mutation, nil entries, comment '
             'special case): for any notion of meaning and any domain on which the two per-rule contracts hold, merging preserves '
             'the meaning of every list (C10_merge_preserves_meaning, by induction over the inner loop and the fuel); merge() on '
             'permission lists is exactly a union for every kind and weight table. Known classes where the unchanged code breaks '
             'the property each have a kernel-evaluated witness on the model that is replayed on the real code. Rules.Merge, every '
             'Rule.Merge and merge() are run against the model on near-duplicate lists; the real output is judged by an independent '
             'fact semantics (empty access = all, mount options conjunctive), plus idempotence.',
        note='Trusted: Lean kernel; the per-kind discharge of the merge/duplicate contracts is validated by the search on real '
             'code, not yet proved per kind (DESIGN.md); hand-written merge schema tied by the differential run; requirement tables, '
             'alphabets and the set of kinds that actually have sort weights are regenerated from the running code.',
        technique='Lean 4 proof (generic meaning preservation over the merge loop, union lemma) + kernel-evaluated counter-witnesses + differential run',
        ref='8/C10'),
    'C14': dict(
        text='Lean 4 theorems on the model of GetApparmorLogs, for every record test and every cleaning function (hence every regex '
             'list): nothing reported that is not a cleaned matching input record, every matching non-noise record reported, no '
             'duplicates, input order, and the exact online rule (one more line adds its cleaned form iff it matches, is not noise and '
             'is new) which also states that nothing stops early. The model, instantiated with the regenerated regex lists run by '
             'a regex engine, is run against GetApparmorLogs; the real output is compared with the expected report computed from '
             'generated structured events; the real aa-log binary is run three times per mode for output determinism.',
        note='Trusted: Lean kernel; the Rx engine (no theorem depends on it) is tied to Go regexp by the differential run on the '
             'regenerated lists; scanner limit (64 MiB after the fix) and journald JSON unwrapping are not modelled; the filter '
             'is modelled for plain names only (regex metacharacters are a known finding).',
        technique='Lean 4 proof (generic pipeline refinement: filter, map, first-occurrence dedup) + regenerated regex lists + differential run + event-level oracle',
        ref='8/C14'),
    'C15': dict(
        text='Lean 4 theorems on the model of logs.New and DecodeHexInString: key="value" is split into exactly key and quoted '
             'value for every value without a double quote (spaces, =, #, commas, any byte) and the shared quote toggle returns to '
             'its initial state; trimming returns the text between the quotes; hex(bytes) decodes to the same bytes for every byte '
             'string (256-case kernel evaluation lifted by induction); a value holding a quote breaks the split (proved witness, '
             'showing the hypothesis is needed). The model is run against logs.New and DecodeHexInString; every reported record is '
             'compared field by field with the generated event it came from, with a malformed record placed before good ones.',
        note='Trusted: Lean kernel; the outer split at spaces is covered by the model run and a kernel-evaluated example, not by a '
             'general theorem; the documented generalisation of profile/name/target is taken from the running rewrite list; '
             'generators produce kernel-shaped records (quoted or hex values).',
        technique='Lean 4 proof (toggle-splitting lemmas, hex round trip) + differential run + event-level oracle',
        ref='8/C15'),
    'C02': dict(
        text='Lean 4 theorems for the two unbounded quantifiers: for ALL prior contents of the build directory, what lies under a '
             'synchronised directory after RemoveAll+copy is the same (abstract file system); for ALL iteration orders of a Go map, '
             'sorting the collected rules with a total preorder with identity gives the same list (the reference sort is proved '
             'sorted and a permutation). Package-level state: histories of 2-5 generated profiles (appends to built-in tunables, '
             'stack/exec/dbus directives) are processed in one process in two orders and compared with the profile alone; every '
             'configuration of the tier is built twice from scratch and once over the leftovers of a different configuration plus '
             'planted junk, all files and symlinks hashed.',
        note='Trusted: Lean kernel; abstract FS (no permissions/errors); that no builder or directive writes package-level state is '
             'established by the history runs on the real code (after the fix commit), not by a theorem about Go memory; file rules '
             'with mixed known/unknown prefixes are outside the total-preorder hypothesis (C11 known class).',
        technique='Lean 4 proof (abstract FS independence, sort permutation invariance) + history runs in-process + repeated real builds hashed',
        ref='8/C02'),
    'C19': dict(
        text='The layout contract is a decidable Lean predicate (Layout.ok / Layout.absOk) evaluated, exhaustively, on every profile '
             'file and abstraction of the working tree on every run, together with uniqueness of base names; Lean theorems state what '
             'the contract gives the build tasks for every conforming file (own header found, ABI line and local include present, '
             'attachment through @{exec_path} defined in the preamble) and that unique base names make the flat directory lossless '
             '(with the collision counterexample). The real prepare stage is cross-checked: no source profile is missing from the '
             'flat build directory.',
        note='Trusted: Lean kernel for the theorems; the per-file instances are evaluated by the compiled predicate (Lean compiler '
             'trusted), not kernel-checked per file; the predicate is my reading of the property and of tests/check.sh.',
        technique='Lean 4 decidable predicate evaluated exhaustively on the tree + Lean theorems on what the contract implies',
        ref='8/C19'),
    'C13': dict(
        text='Lean 4 theorems on the model of Resolve: for every preamble the rules that are not variables leave the += folding loop '
             'unchanged and in order (C13_preamble_kept, by induction over the loop); a second definition, an undefined reference and '
             'a direct self reference are errors; a value without reference is returned as is; the indirect cycle exhausts any fuel '
             '(kernel-evaluated witness of the known crash). The model is run against Resolve on generated preambles; the real result '
             'is compared with an independent all-combinations expander and, for a subset, with apparmor_parser -D expanded-variables.',
        note='Trusted: Lean kernel; the substitution semantics (all combinations) is decided by the search against the independent '
             'expander and the reference parser 3.0.8, not by a theorem; preambles are built as structures (parsing is C09); '
             'values compared as multisets after collapsing //.',
        technique='Lean 4 proof (loop invariant of the += folding, error cases) + differential run + reference-parser oracle',
        ref='8/C13'),
    'C04': dict(
        text='Prep.spec (Lean) is the specification of what .build holds after the prepare stage on an abstract file system: '
             'sequential ignore (by path, else by name), flattening of groups/*/* and profiles-*-*/* in sorted order, the documented '
             'configure step, flags marking, overwrite renames and disable/ links, full-system-policy installs. Lean theorems: ignore '
             'is exact, flattening is lossless under unique base names, and the proved collision witness shows the hypothesis is '
             'needed; kernel-evaluated examples run a small tree through the whole specification. For every configuration of the tier '
             'the real prepare stage (cli.Prepare with the task list read from the real binary) is run over a build directory holding '
             'stale files and its listing (sha1 of every file, target of every link) is compared with Prep.spec evaluated on the working tree.',
        note='Trusted: Lean kernel for the theorems; Prep.spec is evaluated by the compiled driver; "exactly" is read up to the '
             'documented configure and full-policy steps, which are written into the specification by hand (a change there is judged, '
             'not absorbed); flag-rewritten and fsp-edited files are compared by presence here (content: C05/C18).',
        technique='Lean 4 specification + theorems on the abstract FS, evaluated against the real prepare stage on every configuration',
        ref='8/C04'),
    'C07': dict(
        text='The documented rule families of the dbus directive (own / talk / common) are Lean definitions; Lean theorems: every '
             'dbus rule of every family is on the named bus, own binds the name, talk/common rules all carry the peer label; exec '
             'yields exactly one rule per executable (a permutation of the executables, for any comparator); the stacked lines are '
             'exactly the body lines that are not the base include, the entry point, (unless X) an exec transition, or blank, in '
             'order. On every run the text of the real dbus directive is read back by an independent reader and compared with the '
             'Lean families for generated arguments; exec and stack are run through the real directive.Run on generated hosts '
             '(all transitions, X / non-X, several profiles, a stacked profile with its own directive) and judged against the '
             'documented selection computed by the Lean line filter; every file of the real builds is scanned for #aa:.',
        note='Trusted: Lean kernel; the dbus families transcribe dbus.go and are tied by comparison of the generated text (sampling); '
             'the consumption invariant over a whole build is established by scanning real builds, not by a theorem; the independent '
             'dbus reader is a regex reader (the reference parser reads the same text in C12).',
        technique='Lean 4 definitions of the documented expansions + theorems, compared with the real directives on generated arguments; real builds scanned',
        ref='8/C07'),
    'C08': dict(
        text='Closure of references is a decidable Lean predicate (C08.Closed / C08.missing) evaluated on the definitions and '
             'references scanned from every real build of the tier (every distribution x normal/full; thorough: x ABI): exec '
             'transition targets, change_profile targets, stacked names, AppArmorProfile= of the built drop-ins, and the names used by '
             'exec/stack directives, flags manifests and the overwrite list against the source profiles. Lean theorems: missing = [] '
             'iff closed; closure is preserved by every step that keeps definitions and adds no reference; removing the defining file '
             'of a referenced name breaks it (why per-distribution ignore lists matter); stacking preserves it. Each dangling pair '
             'of the unchanged tree is a known finding keyed by (file, target), so a new one is a violation.',
        note='Trusted: Lean kernel; the scanners of definitions and references are python line scanners (not cross-checked against '
             'apparmor_parser -d in this round); variable targets are resolved through the built tunables; pattern targets are accepted.',
        technique='Lean 4 decidable closure predicate + theorems, evaluated on scanned real builds of every distribution',
        ref='8/C08'),
    'C18': dict(
        text='Lean 4 theorems, for every text: the abi3 and fsp tasks act on each line separately and leave unchanged every line that '
             'holds none of their patterns (line locality + no-match identity, on the regenerated pattern lists); complain/enforce '
             'carry every non-header line through unchanged; hotfix (common to all configurations) is line-local. The file-level and '
             'directive part is decided on real builds: every pair of configurations of the tier at Hamming distance one in '
             '(distribution, ABI/version, mode, full) is compared file by file and line by line (multiset difference), and each '
             'differing line or file is classified by the rule of its axis (header lines; abi line / commented AppArmor-4 rules / '
             'ABI-guarded lines / overwrite renames / configure files; distribution-guarded lines and ignore-list files; exec-mode '
             'tokens and full-policy installs).',
        note='Trusted: Lean kernel; the classification of differing lines is a python classifier whose guarded-line sets are read '
             'from the only/exclude directives of the source tree; a stale build directory shared by two builds is C02, not C18; '
             'known findings: the commented-out header of virtiofsd, the packagekitd re-indentation.',
        technique='Lean 4 proof (line locality and no-match identity of the rewriting tasks) + distance-one diffs of real builds with per-axis classification',
        ref='8/C18'),
    'C01': dict(
        text='Partial by design: the Lean theorems are structural and hold for every text — the literal build tasks (hotfix, fsp, abi3; '
             'regenerated lists) keep the line structure (same lines, each rewritten alone), and after abi3 no `  userns,` / `  mqueue` '
             'rule start is left, alone or in the chain. Acceptance itself (parses, includes and variables resolve, rules merge) is '
             'decided by the reference parser: every configuration of the tier is built with the real prebuild, overlaid on the '
             'installed reference policy, and every top-level file is loaded with apparmor_parser -Q -K -d.',
        note='Trusted: Lean kernel for the structural theorems; apparmor_parser 3.0.8 as the reference parser (AppArmor-4-only rule kinds '
             'commented out in the overlay for ABI 4, abi/4.0 = copy of abi/3.0, files upstreamed in 4.1 taken from the source tree); '
             'acceptance is validated per configuration, not proved; quick tier covers 7 of the 180 configurations, thorough all.',
        technique='Lean 4 proof of structural preservation + reference parser run on every file of real builds of the configuration matrix',
        ref='8/C01'),
    'C16': dict(
        text='Lean 4 theorems on the model of Profile.AddRule and every new<Kind>FromLog: every letter of the requested mask is granted '
             'by a letter of the generated rule (for any tables; instance on the regenerated maskToAccess: a,c,d -> w, x -> ix); owner '
             'only if fsuid = ouid; audit exactly for AUDIT records and never deny; per class the recorded capability, network '
             'family/type/protocol/addresses, signal and peer, ptrace peer, unix address and peer, bus/path/interface/member/name, '
             'mount file system type are fields of the rule. The model is run against AddRule, and the Rx engine against '
             'regResolveLogs; on the real pipeline (logs.New, ParseToProfiles, Merge, Sort, Format) every generated event must be '
             'covered by an emitted rule, path patterns being matched by an AARE matcher over the variables apparmor_parser reads '
             'from the built tunables; every generalised name must still match its original.',
        note='Trusted: Lean kernel; partial: that each rewrite of the generalisation list only widens the pattern is decided by the '
             'search with the AARE oracle (a python translation of AppArmor globbing), not by a theorem per regex; "not discarded as '
             'duplicates" rests on C10/C11 plus the pipeline search; known findings: /att/ names, names holding AARE metacharacters.',
        technique='Lean 4 proof (mask coverage, per-class field coverage) + differential run + AARE-oracle search on the real pipeline',
        ref='8/C16'),
    'C06': dict(
        text='Lean 4 theorems: the nested attachment /{r1,...,rn} written into the header expands (alternation semantics) to exactly '
             'the union of the expansions of the attachments /r1 ... /rn, and its text is what GetAttachments produces; a single '
             'attachment is written as is. Resolve and GetAttachments are run against the model (shared with C13). On every built '
             'profile with an @{exec_path} attachment the literal header attachment is compared with the expansion of @{exec_path} '
             'that apparmor_parser -D expanded-variables prints for the same built file under the shipped tunables (sets of '
             'brace-free patterns); the rules generated by every exec directive are compared with the target profile likewise.',
        note='Trusted: Lean kernel; partial: agreement of the resolver built-in variable table with the shipped tunables is decided per '
             'built profile by the reference parser, not proved; language equality is decided on the full brace expansion (sufficient, '
             'not necessary); 9 profiles using @{user_share_dirs} are known findings.',
        technique='Lean 4 proof (alternation semantics of the nesting) + differential run + reference-parser expansion on every built profile',
        ref='8/C06'),
    'C09': dict(
        text='Lean 4 theorems about the model of the printer (one function per template) and of the parser (tokenizer, parseRule, '
             'comma splitter, every new<Kind>): for ALL token lists made of atomic tokens and ALL paddings, the tokenizer returns '
             'exactly the tokens (C09_tokenize_words, by induction), so alignment padding is layout only (C09_padding_is_layout); a '
             'printed line of plain tokens followed by its comma comes back as one pre-parsed rule holding those tokens '
             '(C09_line_to_tokens); whole-text round trips are decided by kernel evaluation over the COMPLETE regenerated value '
             'tables (every capability name x qualifier x comment, every network domain x type, every ptrace/signal access x '
             'signal, every exec transition on quoted and nested-alternation paths); each class where the unchanged code does not '
             'round-trip is proved on its witness. Printer and parser models are run against Rule.String / Rules.String / ParseRules / '
             'tokenizeRule / parseRule on generated valid rules with random paddings, formatted blocks, every shipped file and '
             'damaged lines; the real code is searched for a valid rule, block or file (preamble + header) that does not come back, '
             'and for a parse that depends on what was parsed before in the process.',
        note='Trusted: Lean kernel; hand-written Render/Parse models tied by the differential run (sampling; 0 disagreements over every '
             'shipped file); string-valued fields are covered by the token-level theorems plus sampling, table-valued fields '
             'exhaustively; the paddings Format computes are taken from the real code and checked to be runs of spaces; the file-level '
             'round trip (AppArmorProfileFile.String/Parse) and Format itself are searched on the real code, not modelled; nine '
             'known classes (comment on bare keyword, no-new-privs marker, allow, mqueue without name, unix attr/opt, marker with '
             'empty comment, paragraph ending in a brace, include <path with space>, `=` inside a value).',
        technique='Lean 4 proof (tokenizer induction, padding invariance, comma splitter; kernel evaluation over complete value tables) + '
                  'executable printer/parser models run against the Go code + round-trip search on the real code',
        ref='8/C09'),
    'C12': dict(
        text='Ref.read (Lean) is a reader of the AppArmor 3 rule syntax written from apparmor.d(5), independent of the library parser. Lean '
             'theorems: the text the printer model produces is accepted by that reader and the reader finds in it exactly the fields the '
             'rule states, decided by kernel evaluation over the COMPLETE regenerated value tables (every capability name x qualifier x '
             'comment, every network domain x type, every signal access x signal, every ptrace access, every exec transition on quoted '
             'and nested-alternation paths, with owner and target); for EVERY permission string the access list the library builds holds '
             'at most one exec transition (C12_one_exec_mode, via sort-is-a-permutation and compact-is-a-sublist); the known classes '
             '(fused exec modes after a merge, unquoted blank) are proved on their witnesses. On every run: the printer model against '
             'Rule.String/Rules.String; Ref.read against apparmor_parser (what the reader accepts, the parser accepts; fields read back); '
             'and the search on the real code with the real parser as oracle: each printed rule, merged+formatted block, rule built from a '
             'generated log record and output of a generated dbus directive must be accepted and compile (apparmor_parser -Q -K -S with '
             'kernel features) to the byte-identical policy as the rule written from its fields by an independent printer.',
        note='Partial: AppArmor 3 only (apparmor_parser 3.0.8; userns, mqueue, io_uring, all are outside); Ref.read covers capability, network, '
             'signal, ptrace, file, link, change_profile, rlimit - mount, pivot_root, unix and dbus are judged by the real parser only; '
             'Ref.read is tied to the parser by sampling (semantic rejections such as invalid family/type pairs, regex errors, undefined '
             'variables are not modelled); equal meaning = byte-identical compiled policy of one-rule stub profiles; known findings: '
             'unquoted blank in a path, fused exec modes, unix protocol=, link without target.',
        technique='Lean 4 proof (reference-syntax reader; kernel evaluation over complete value tables; one-exec-mode theorem for all inputs) + '
                  'reader tied to apparmor_parser + compiled-policy comparison of the real output with the reference parser',
        ref='8/C12'),
}

REASON_TODO = 'check not built yet in this round; no claim is made (see DESIGN.md section 13)'


def main():
    props = [json.loads(l) for l in open(os.path.join(HERE, 'properties.jsonl'))]
    hook = subprocess.run(['git', '-C', '/repo', 'log', '--format=%H', '--grep=^verif:'], stdout=subprocess.PIPE).stdout.decode().split()
    checks = []
    na = []
    for p in props:
        pid = p['id']
        c = CLAIMED.get(pid)
        if not c:
            na.append({'property_id': pid, 'reason': REASON_TODO})
            continue
        checks.append({
            'property_id': pid,
            'quick_cmd': './check %s --tier quick' % pid,
            'thorough_cmd': './check %s --tier thorough' % pid,
            'evidence_file': '/verif/evidence/%s.json' % pid,
            'replay_cmd_template': './check %s --replay {path}' % pid,
            'engine': 'lean4-proof',
            'level_claimed': {'category': 'proof', 'text': c['text'], 'design_ref': c['ref']},
            'level_note': c['note'],
            'technique': c['technique'],
        })
    m = {
        'version': 1,
        'setup_cmd': './setup.sh',
        'hooks': {
            'guard': 'verif',
            'enable': 'go build -tags verif (the harness in /verif/harness is built with it; hook files are pkg/**/verif_hooks.go)',
            'baseline_off_cmd': 'cd /repo && GOFLAGS=-mod=mod GOPROXY=off go test -p 1 -json -vet=off -count=1 -timeout 25m ./...',
            'source_commits': hook,
            'add_only': True,
        },
        'engines': [{
            'name': 'lean4-proof', 'path': '/verif/lean',
            'serves_properties': sorted(CLAIMED),
            'kind_free_text': 'Lean 4.33 core-only models + theorems (AaVerif/Props/Cnn.lean), tied to /repo by regenerated tables '
                              '(gen/tolean.py) and by a differential run of the compiled model (driver) against the real Go code (harness/).',
        }],
        'checks': checks,
        'notes': 'Every check: regenerates the Lean tables from the running Go code, rebuilds and audits the property theorems '
                 '(#print axioms), runs the model against the real code, replays known findings, searches the real code for a '
                 'failing input with the spec as oracle. See DESIGN.md.',
        'not_applicable': na,
    }
    with open(os.path.join(HERE, 'MANIFEST.json'), 'w') as f:
        json.dump(m, f, indent=1)
    print('claimed', len(checks), 'not claimed', len(na))


if __name__ == '__main__':
    main()
