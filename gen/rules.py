"""Generator of aa rules as structures (wire form shared with the harness and the driver)."""
import base64
import glob
import os
import re
from lib import esc, esc_list, REPO


def harvest():
    """strings the code or the policy treats specially: path-like string literals of pkg/aa (non-test sources) and the
    include targets of the shipped profiles. A constant that gets special treatment in Compare/Merge/Parse is in here."""
    res = []
    for f in sorted(glob.glob(os.path.join(REPO, 'pkg', 'aa', '*.go'))):
        if f.endswith('_test.go') or 'verif' in os.path.basename(f):
            continue
        for m in re.finditer(r'"([^"\\\n]{2,60})"', open(f, encoding='utf-8', errors='replace').read()):
            v = m.group(1)
            if '/' in v and ' ' not in v and '%' not in v and '{{' not in v:
                res.append(v)
    incs = {}
    for f in sorted(glob.glob(os.path.join(REPO, 'apparmor.d', 'groups', '*', '*')))[::7]:
        try:
            for m in re.finditer(r'include (?:if exists )?<([^>\n]+)>', open(f, encoding='utf-8', errors='replace').read()):
                incs[m.group(1)] = 1
        except OSError:
            pass
    return list(dict.fromkeys(res)), sorted(incs)[:60]

# field types per kind in declaration order: s string, l list, b bool
SCHEMA = {
    'capability': 'l', 'network': 'ssssss', 'mount': 'slss', 'umount': 'sls', 'remount': 'sls',
    'pivot_root': 'sss', 'change_profile': 'sss', 'mqueue': 'lsss', 'io_uring': 'ls', 'signal': 'lls',
    'ptrace': 'ls', 'unix': 'lssssssss', 'dbus': 'lsssssss', 'rlimit': 'sss', 'userns': 'b', 'all': '',
    'file': 'bsls', 'link': 'bbss', 'comment': '', 'abi': 'sb', 'alias': 'ss', 'include': 'bsb',
    'variable': 'slb', 'hat': 's', 'profile': 'slll',
}
HASQ = {'capability', 'network', 'mount', 'umount', 'remount', 'pivot_root', 'change_profile', 'mqueue', 'io_uring',
        'signal', 'ptrace', 'unix', 'dbus', 'userns', 'file', 'link'}
# which list field draws from which requirement table
LISTREQ = {
    ('capability', 0): ('capability', 'name'), ('mount', 1): ('mount', 'flags'), ('umount', 1): ('mount', 'flags'),
    ('remount', 1): ('mount', 'flags'), ('mqueue', 0): ('mqueue', 'access'), ('io_uring', 0): ('io_uring', 'access'),
    ('signal', 0): ('signal', 'access'), ('signal', 1): ('signal', 'set'), ('ptrace', 0): ('ptrace', 'access'),
    ('unix', 0): ('unix', 'access'), ('dbus', 0): ('dbus', 'access'),
}
# values a field really takes in policy text (keywords with a meaning of their own: a queue type, a socket type, a bus),
# used by generators that set `real = True`: two rules that differ only by such a value being present or absent
REAL = {('mqueue', 1): ['posix', 'sysv'], ('mqueue', 3): ['/q', '42', '/queue*', '7'], ('unix', 1): ['stream', 'dgram', 'seqpacket'],
        ('unix', 2): ['0', '1'], ('dbus', 1): ['system', 'session'], ('mount', 0): ['ext4', 'tmpfs'], ('umount', 0): ['ext4', 'tmpfs'],
        ('remount', 0): ['ext4', 'tmpfs'], ('network', 3): ['inet', 'inet6', 'unix'], ('network', 4): ['stream', 'dgram'],
        ('network', 5): ['tcp', 'udp'], ('change_profile', 0): ['safe', 'unsafe']}
CANON_STR = ['/etc/a', '/etc/b', '/etc/a/b', '@{bin}/a', '@{bin}/ab', '@{lib}/x', '/zzz', '/zz', '/usr/share/x', '/home/u/.c',
             '@{run}/x', '/dev/null', '/opt/x', '/var/x', '/a', 'foo', 'bar', 'foo-bar', 'a.b', 'org.x.y', 'tcp', 'x',
             '/tmp/x', '@{tmp}/y', '/dev/shm/z', '/{a,b}', '/a*', '/a**', 'session', 'system', ':1.2',
             'abstractions/base', 'abstractions/base', 'abstractions/bas', 'abstractions/base-x',
             '9', '10', '1024', '01024', '1min', '5m', '100', '99', '/dev/shm/a', '/dev/shm/', '/dev/shm', '/dev/a']
# one string per punctuation character of the sort alphabet (a character that loses its weight makes two of these compare equal)
PUNCT_STR = ['/p' + c + 'q' for c in '!"#$%&\'*(){}[]@+,-./:;<=>?\\^_`|~']
NUMS = ['9', '10', '1024', '01024', '1min', '5m', '100', '99', '2', '1h', 'infinity']
ODD_STR = ['/Foo', '/foo', '/ETC/a', '@{HOME}/.x', '@{PROC}/1', '/a b', '/a\tb', '/a b c', '@{HOME}/X', '"/q r"',
           'Org.X', 'org.X']


class Gen:
    def __init__(self, rng, tables, profile_extras=False):
        # flags and extended attributes of profile rules: generated for the compare/sort suites only (Profile.Merge sorts the
        # flags of its receiver in place even when it refuses the merge, which the merge model does not follow)
        self.profile_extras = profile_extras
        self.rng = rng
        self.req = tables['Aa']['Requirements']
        # the known classes that depend on a table (letter case / foreign bytes, mixed file prefixes) are defined by the tables
        # as they were when the findings were recorded, not by whatever the tables of the tree say now
        import json as _json
        try:
            pin = _json.load(open(os.path.join(os.path.dirname(os.path.dirname(os.path.abspath(__file__))), 'known_findings.json'))).get('pinned_tables', {})
        except (OSError, ValueError):
            pin = {}
        self.alpha = set(base64.b64decode(pin.get('StringAlphabet', tables['Aa']['StringAlphabet'])).decode('latin-1'))
        self.file_alpha = pin.get('FileAlphabet', tables['Aa']['FileAlphabet'])
        self.tables_differ_from_pin = (pin.get('StringAlphabet', tables['Aa']['StringAlphabet']) != tables['Aa']['StringAlphabet']
                                       or pin.get('FileAlphabet', tables['Aa']['FileAlphabet']) != tables['Aa']['FileAlphabet'])
        self.code_literals, self.shipped_includes = harvest()
        self.harvested = self.code_literals + self.shipped_includes

    def s(self, odd):
        r = self.rng
        if r.random() < 0.2:
            return ''
        if self.harvested and r.random() < 0.12:
            return r.choice(self.harvested)
        if r.random() < 0.06:
            return r.choice(PUNCT_STR)
        pool = ODD_STR if (odd and r.random() < 0.4) else CANON_STR
        return r.choice(pool)

    def lst(self, kind, idx, sort=True):
        r = self.rng
        if kind == 'file':
            acc = list(self.req['file']['access'])
            tr = list(self.req['file']['transition'])
            v = r.sample(acc, r.randint(0, 3))
            v.sort(key=acc.index)
            if r.random() < 0.3:
                v.append(r.choice(tr))
            if r.random() < 0.05:
                v.append(r.choice(tr))
            return v
        if kind == 'variable':
            return [r.choice(CANON_STR) for _ in range(r.randint(0, 3))]
        if kind == 'profile':
            if idx == 2:
                return r.sample(['complain', 'attach_disconnected', 'mediate_deleted'], r.randint(0, 2)) if self.profile_extras else []
            if idx == 3:
                return sorted(r.sample(['security.tagged=allowed', 'user.trust=tier1', 'security.apparmor=x', 'user.a=b'], r.randint(0, 3))) if self.profile_extras else []
            return [r.choice(CANON_STR) for _ in range(r.randint(0, 2))]
        tk = LISTREQ[(kind, idx)]
        vals = list(self.req[tk[0]][tk[1]])
        # requirement lists may hold duplicates (e.g. profile flags); keep the first occurrence
        vals = list(dict.fromkeys(vals))
        v = r.sample(vals, min(len(vals), r.randint(0, 3)))
        if sort or r.random() < 0.8:
            v.sort(key=vals.index)
        return v

    def rule(self, kind=None, odd=False):
        r = self.rng
        kind = kind or r.choice(list(SCHEMA))
        f = []
        for i, t in enumerate(SCHEMA[kind]):
            if t == 's' and getattr(self, 'real', False) and (kind, i) in REAL and r.random() < 0.5:
                f.append(r.choice(REAL[(kind, i)] + ['']))
            elif t == 's':
                f.append(self.s(odd))
            elif t == 'l':
                f.append(self.lst(kind, i))
            else:
                f.append(r.random() < 0.3)
        if kind == 'file' and r.random() < 0.2:
            # paths at the boundary of the prefix table: an entry itself, an entry followed by a glob, an alternation, a letter
            e = r.choice([x for x in self.file_alpha if x.startswith('/')] or ['/etc'])
            f[1] = e + r.choice(['', '{,/**}', '*', '{,/}', 'x', '/'])
        if kind == 'include' and r.random() < 0.4:
            # include targets the code names itself (magic entries of the include order), against each other
            magic = [v for v in self.code_literals if v.startswith('abstractions/') or v.startswith('tunables/')]
            if magic:
                f[1] = r.choice(magic)
        if kind == 'rlimit' and r.random() < 0.7:
            # same resource, values that look like numbers: where a numeric and a textual order would part
            f = [r.choice(['cpu', 'nofile', 'nice']), '<=', r.choice(NUMS)]
        q = (False, '')
        if kind in HASQ:
            q = (r.random() < 0.2, r.choice(['', '', '', 'deny', 'allow']))
        c = r.choice(['', '', '', ' c1', ' c2'])
        return {'kind': kind, 'audit': q[0], 'at': q[1], 'comment': c, 'nnp': False, 'fi': False, 'opt': False, 'f': f}

    def perturb(self, x, odd=False):
        """near duplicate: change one field, the case of a letter, the qualifier, or nothing"""
        r = self.rng
        y = dict(x, f=list(x['f']))
        k = r.randint(0, 6)
        kind = x['kind']
        if k == 0 or not y['f']:
            return y
        if k == 1 and kind in HASQ:
            if r.random() < 0.5:
                y['audit'] = not y['audit']
            else:
                y['at'] = r.choice([a for a in ['', 'deny', 'allow'] if a != y['at']])
            return y
        if k == 6:
            # the same values in other fields: move (or swap) a string between two string fields
            si = [j for j, t in enumerate(SCHEMA[kind]) if t == 's']
            if len(si) >= 2:
                a, b = r.sample(si, 2)
                if r.random() < 0.5:
                    y['f'][a], y['f'][b] = y['f'][b], y['f'][a]
                else:
                    y['f'][b], y['f'][a] = y['f'][a], ''
                return y
        i = r.randrange(len(y['f']))
        t = SCHEMA[kind][i]
        if t == 's':
            if kind == 'rlimit' and i == 2:
                y['f'][i] = r.choice(NUMS)
            elif odd and k == 2 and y['f'][i]:
                y['f'][i] = y['f'][i].swapcase()
            elif odd and k == 3 and y['f'][i]:
                y['f'][i] = y['f'][i] + r.choice([' ', '\t', 'A'])
            elif getattr(self, 'real', False) and (kind, i) in REAL and r.random() < 0.7:
                y['f'][i] = r.choice([v for v in REAL[(kind, i)] + [''] if v != y['f'][i]])
            else:
                y['f'][i] = self.s(odd)
        elif t == 'l':
            if k == 4:
                y['f'][i] = []
            else:
                y['f'][i] = self.lst(kind, i)
        else:
            y['f'][i] = not y['f'][i]
        return y

    def canon_str(self, s):
        return all(c in self.alpha for c in s)

    def canon(self, x):
        """every compared string is over the sort alphabet (hence lower case)"""
        for v, t in zip(x['f'], SCHEMA[x['kind']]):
            if t == 's' and not self.canon_str(v):
                return False
            if t == 'l' and not all(self.canon_str(e) for e in v):
                return False
        return self.canon_str(x['at'])

    def letter(self, path):
        for l in self.file_alpha:
            if path.startswith(l):
                return l
        return ''


def enc(x):
    if x is None:
        return 'nil'
    head = [x['kind'], '1' if x['audit'] else '0', esc(x['at']), esc(x['comment']), '1' if x['nnp'] else '0',
            '1' if x['fi'] else '0', '1' if x['opt'] else '0']
    fs = []
    for v, t in zip(x['f'], SCHEMA[x['kind']]):
        if t == 's':
            fs.append(esc(v))
        elif t == 'l':
            fs.append(esc_list(v))
        else:
            fs.append('1' if v else '0')
    return '|'.join(head + fs)


def dec(w):
    from lib import unesc, unesc_list
    if w == 'nil':
        return None
    p = w.split('|')
    kind = p[0]
    f = []
    for i, t in enumerate(SCHEMA[kind]):
        v = p[7 + i] if 7 + i < len(p) else ''
        if t == 's':
            f.append(unesc(v))
        elif t == 'l':
            f.append(unesc_list(v))
        else:
            f.append(v == '1')
    return {'kind': kind, 'audit': p[1] == '1', 'at': unesc(p[2]), 'comment': unesc(p[3]), 'nnp': p[4] == '1',
            'fi': p[5] == '1', 'opt': p[6] == '1', 'f': f}


def key(x):
    """identity of a rule for Compare purposes: everything but Base"""
    if x is None:
        return None
    return (x['kind'], x['audit'], x['at'], tuple(tuple(v) if isinstance(v, list) else v for v in x['f']))
