"""Generator of *valid* aa rules for the text round trip (C09) and the reference parser (C12).

A rule is valid when every field holds a value the rule kind admits (table values from the
regenerated requirement tables, AARE paths, names) — see `valid_class` for the classes that the
unchanged code is known not to round-trip.  Wire form shared with rules.py."""
import rules as R

SEG = ['a', 'b', 'foo', 'bar', 'x1', 'lib', 'share', '.cache', 'foo-bar', 'a.b', 'Foo', 'X11', 'v2.0', 'g++', 'libstdc++.so.6', 'k=v',
       'T\u00e9l\u00e9chargements', 'caf\u00e9', '\u0414\u043e\u043a\u0443\u043c\u0435\u043d\u0442\u044b']      # names outside ASCII (several bytes per character)
VARS = ['@{bin}', '@{lib}', '@{HOME}', '@{run}', '@{PROC}', '@{sys}', '@{user_config_dirs}', '@{etc_ro}', '@{MOUNTS}']
ROOTS = ['/usr', '/etc', '/var', '/tmp', '/dev', '/opt', '/home', '']
GLOBS = ['*', '**', '?', '[0-9]', '[^.]', '[a-f]*', '{,.}', '{a,b}', '{a,b{c,d}}', '@{int}', '@{hex}', '{,/}']
NAMES = ['foo', 'bar', 'child-open', 'gpg', 'foo//bar', 'systemd-logind', 'unconfined', '@{p_systemd}', 'org.x.y',
         '"@{p_dbus}"', 'a_b', 'xdg-open', ':1.2', 'peer-1']
COMMENTS = ['', '', '', ' c1', ' see bug 12', ' TODO: x, y', ' a=b (c)', " it's", ' # nested', ' {x}',
            # prose that merely mentions a marker word where the parser does not look for it (shipped profiles have such lines)
            ' apt-helper gets no new privs so rix it', ' see the no new privs note', ' \u201cquoted\u201d na\u00efve text']
WORDS = ['ext4', 'tmpfs', 'proc', 'overlay', 'fuse.foo']


class Gen9:
    def __init__(self, rng, tables):
        self.rng = rng
        self.req = tables['Aa']['Requirements']
        self.weight_kinds = set(tables['Aa'].get('WeightKinds', []))

    # ------------------------------------------------------------------ strings
    def path(self, quoted_ok=True, dirok=True):
        r = self.rng
        root = r.choice(VARS) if r.random() < 0.45 else r.choice(ROOTS)
        n = r.randint(1, 4)
        segs = []
        for _ in range(n):
            s = r.choice(SEG)
            k = r.random()
            if k < 0.25:
                s += r.choice(GLOBS)
            elif k < 0.3:
                s = r.choice(GLOBS) + s
            segs.append(s)
        p = root + '/' + '/'.join(segs)
        if dirok and r.random() < 0.15:
            p += '/'
        if quoted_ok and r.random() < 0.12:
            # a path with a space must be quoted
            i = r.randrange(1, len(p))
            p = '"' + p[:i] + ' ' + p[i:] + '"'
        return p

    def name(self):
        return self.rng.choice(NAMES)

    def sub(self, kind, key, lo=0, hi=3, canon=True):
        r = self.rng
        vals = list(dict.fromkeys(self.req[kind][key]))
        v = r.sample(vals, min(len(vals), r.randint(lo, hi)))
        if canon or r.random() < 0.7:
            v.sort(key=vals.index)
        return v

    def opt(self, f, p=0.5):
        return f() if self.rng.random() < p else ''

    # ------------------------------------------------------------------ rules
    def rule(self, kind=None, qual=True, comment=True):
        r = self.rng
        kinds = ['capability', 'network', 'mount', 'umount', 'remount', 'pivot_root', 'change_profile', 'mqueue',
                 'io_uring', 'signal', 'ptrace', 'unix', 'dbus', 'rlimit', 'userns', 'all', 'file', 'file', 'file',
                 'link', 'include', 'comment']
        kind = kind or r.choice(kinds)
        f = getattr(self, 'k_' + kind)()
        q = (False, '')
        if qual and kind in R.HASQ:
            q = (r.random() < 0.2, r.choice(['', '', '', 'deny', 'deny', 'allow']) if r.random() < 0.9 else '')
        c = r.choice(COMMENTS) if comment else ''
        if kind == 'comment' and not c:
            c = ' note'
        x = {'kind': kind, 'audit': q[0], 'at': q[1], 'comment': c, 'nnp': False, 'fi': False, 'opt': False, 'f': f}
        if comment and kind not in ('comment', 'include') and r.random() < 0.06:
            x[r.choice(['nnp', 'fi', 'opt'])] = True
        return x

    def k_capability(self):
        return [self.sub('capability', 'name', 0, 3)]

    def k_network(self):
        r = self.rng
        dom = r.choice(self.req['network']['domains']) if r.random() < 0.85 else ''
        ty = proto = ''
        if dom and r.random() < 0.6:
            if r.random() < 0.6:
                ty = r.choice(self.req['network']['type'])
            else:
                proto = r.choice(self.req['network']['protocol'])
        return ['', '', '', dom, ty, proto]

    def k_mount(self):
        r = self.rng
        return [self.opt(lambda: r.choice(WORDS)), self.sub('mount', 'flags', 0, 3), self.opt(lambda: self.path(False)),
                self.opt(lambda: self.path(False))]

    def k_umount(self):
        r = self.rng
        return [self.opt(lambda: r.choice(WORDS), 0.3), self.sub('mount', 'flags', 0, 2), self.opt(lambda: self.path(False), 0.8)]

    def k_remount(self):
        f = self.k_umount()
        if self.rng.random() < 0.3:
            f[1] = ['remount']          # what a log record with flags="remount" gives: the keyword's own flag, alone
        return f

    def k_pivot_root(self):
        return [self.opt(lambda: self.path(False)), self.opt(lambda: self.path(False)), self.opt(self.name)]

    def k_change_profile(self):
        r = self.rng
        return [self.opt(lambda: r.choice(self.req['change_profile']['mode']), 0.3), self.opt(lambda: self.path(False)),
                self.opt(self.name, 0.7)]

    def k_mqueue(self):
        r = self.rng
        return [self.sub('mqueue', 'access', 0, 3), self.opt(lambda: r.choice(self.req['mqueue']['type'])),
                self.opt(self.name), r.choice(['/queue', '/q-1', '1234', '/a*', '']) if r.random() < 0.9 else '']

    def k_io_uring(self):
        return [self.sub('io_uring', 'access', 0, 2), self.opt(self.name)]

    def k_signal(self):
        return [self.sub('signal', 'access', 0, 3), self.sub('signal', 'set', 0, 3), self.opt(self.name)]

    def k_ptrace(self):
        return [self.sub('ptrace', 'access', 0, 3), self.opt(self.name)]

    def k_unix(self):
        r = self.rng
        addr = lambda: r.choice(['none', '@/tmp/.X11-unix/X[0-9]*', '@/tmp/dbus-*', '"@/tmp/.ICE-unix/a b"', '@@{udbus}/bus', '@{run}/x'])
        return [self.sub('unix', 'access', 0, 3), self.opt(lambda: r.choice(['stream', 'dgram', 'seqpacket'])),
                self.opt(lambda: r.choice(['0', 'tcp']), 0.15), self.opt(addr), self.opt(self.name, 0.3),
                self.opt(lambda: 'a', 0.04), self.opt(lambda: 'o', 0.04), self.opt(self.name), self.opt(addr)]

    def k_dbus(self):
        r = self.rng
        acc = self.sub('dbus', 'access', 0, 2)
        bus = self.opt(lambda: r.choice(self.req['dbus']['bus']), 0.8)
        nm = lambda: r.choice(['org.freedesktop.DBus', 'org.gnome.Shell{,.*}', 'org.a.b', ':1.@{int}', '"org.x.*"'])
        if acc[:1] == ['bind']:
            return [['bind'], bus or 'session', nm(), '', '', '', '', '']
        acc = [a for a in acc if a != 'bind']
        return [acc, bus, '', self.opt(lambda: r.choice(['/org/freedesktop/DBus', '/org/a{,/**}', '/']) ),
                self.opt(nm), self.opt(lambda: r.choice(['Get', 'GetAll', '{Get,Set}', 'Hello'])), self.opt(nm),
                self.opt(self.name)]

    def k_rlimit(self):
        r = self.rng
        return [r.choice(self.req['rlimit']['keys']), '<=', r.choice(['1024', 'infinity', '5M', '0', '-20'])]

    def k_userns(self):
        return [True]

    def k_all(self):
        return []

    def access(self):
        r = self.rng
        acc = list(self.req['file']['access'])
        v = r.sample(acc, r.randint(0, 3))
        v.sort(key=acc.index)
        if r.random() < 0.35 or not v:
            v.append(r.choice(self.req['file']['transition']))
        return v

    def k_file(self):
        r = self.rng
        a = self.access()
        tgt = ''
        if a and len(a[-1]) > 1 and r.random() < 0.4:
            tgt = self.name()
        return [r.random() < 0.3, self.path(), a, tgt]

    def k_link(self):
        r = self.rng
        return [r.random() < 0.3, r.random() < 0.3, self.path(), self.opt(lambda: self.path(), 0.85)]

    def k_include(self):
        r = self.rng
        return [r.random() < 0.4, r.choice(['abstractions/base', 'abstractions/nameservice-strict', 'local/foo', '/etc/x d/y']),
                r.random() < 0.8]

    def k_comment(self):
        return []

    def k_abi(self):
        return [self.rng.choice(['abi/4.0', 'abi/3.0']), self.rng.random() < 0.8]

    def k_alias(self):
        return [self.path(False), self.path(False)]

    def k_variable(self):
        r = self.rng
        return [r.choice(['exec_path', 'foo', 'lib_dirs', 'name']), [self.path(False, False) for _ in range(r.randint(1, 3))],
                r.random() < 0.7]


def known_class(x):
    """name of the known round-trip class a valid rule falls in, or None"""
    k = x['kind']
    f = x['f']
    if x['comment'].endswith('}'):
        return 'K_paragraphEndsBrace'      # (as the last line of a paragraph)
    if x['at'] == 'allow':
        return 'K_allow'
    if any(isinstance(v, str) and '=' in v for v in f) and not (k == 'file' and not x['audit'] and x['at'] != 'deny'):
        # a value holding `=` is read as key=value unless the line starts with the path itself (or `owner`)
        return 'K_equalsInValue'
    if k == 'unix' and (f[5] or f[6]):
        return 'K_unixAttrOpt'
    if x['nnp']:
        return 'K_noNewPrivs'
    if (x['fi'] or x['opt']) and not x['comment']:
        return 'K_markerEmptyComment'
    if k == 'include' and f[2] and ' ' in f[1]:
        return 'K_includeSpaceMagic'
    if k == 'mqueue' and not f[3]:
        return 'K_mqueueNoName'
    has_c = bool(x['comment'] or x['nnp'] or x['fi'] or x['opt'])
    if has_c and k not in ('comment', 'include'):
        n = len(f)
        bare = {
            'capability': lambda: not f[0], 'network': lambda: not f[3], 'mount': lambda: not (f[0] or f[1] or f[2] or f[3]),
            'umount': lambda: not (f[0] or f[1] or f[2]), 'remount': lambda: not (f[0] or f[1] or f[2]),
            'pivot_root': lambda: not (f[0] or f[1] or f[2]), 'change_profile': lambda: not (f[1] or f[2]),
            'dbus': lambda: not any(f),
            'io_uring': lambda: not (f[0] or f[1]), 'signal': lambda: not (f[0] or f[1] or f[2]), 'ptrace': lambda: not (f[0] or f[1]),
            'unix': lambda: not any(f[:5] + f[7:]), 'userns': lambda: True, 'all': lambda: True,
        }.get(k, lambda: False)()
        if bare:
            return 'K_commentBareKeyword'
    return None
