"""Parser for the RE2 subset used by apparmor.d, from Go regex *source text*.

Outputs a small AST (tuples); translators to
  * literal alternatives (`lit_alts`) for the `Str.Step` layer, and
  * the Lean `Rx.Re` term (`to_lean`) for the generic engine.
Anything outside the subset raises `Unsupported` (reported as a broken tie).
"""


class Unsupported(Exception):
    pass


WS = [('\t', '\t'), ('\n', '\n'), ('\x0c', '\x0c'), ('\r', '\r'), (' ', ' ')]


class P:
    def __init__(s, src):
        s.src = src
        s.i = 0
        s.multiline = False
        s.dotall = False

    def peek(s):
        return s.src[s.i] if s.i < len(s.src) else None

    def eat(s):
        c = s.src[s.i]
        s.i += 1
        return c

    def parse(s):
        while s.src.startswith('(?', s.i) and s.i + 2 < len(s.src) and s.src[s.i + 2] in 'ms':
            j = s.src.index(')', s.i)
            fl = s.src[s.i + 2:j]
            if not all(c in 'ms' for c in fl):
                raise Unsupported('flags ' + fl)
            s.multiline |= 'm' in fl
            s.dotall |= 's' in fl
            s.i = j + 1
        r = s.alt()
        if s.i != len(s.src):
            raise Unsupported('trailing input in %r at %d' % (s.src, s.i))
        return r

    def alt(s):
        left = s.seq()
        while s.peek() == '|':
            s.eat()
            right = s.seq()
            left = ('alt', left, right)
        return left

    def seq(s):
        items = []
        while s.peek() is not None and s.peek() not in '|)':
            items.append(s.rep())
        if not items:
            return ('eps',)
        r = items[-1]
        for it in reversed(items[:-1]):
            r = ('seq', it, r)
        return r

    def rep(s):
        a = s.atom()
        while s.peek() in ('*', '+', '?'):
            op = s.eat()
            greedy = True
            if s.peek() == '?':
                s.eat()
                greedy = False
            a = ({'*': 'star', '+': 'plus', '?': 'opt'}[op], a, greedy)
        if s.peek() == '{':
            j = s.i + 1
            while j < len(s.src) and s.src[j] in '0123456789,':
                j += 1
            if j < len(s.src) and s.src[j] == '}' and j > s.i + 1 and s.src[s.i + 1].isdigit():
                raise Unsupported('counted repetition: ' + s.src)
        return a

    def atom(s):
        c = s.eat()
        if c == '(':
            cap = True
            if s.src.startswith('?:', s.i):
                s.i += 2
                cap = False
            elif s.src.startswith('?', s.i):
                raise Unsupported('group flags: ' + s.src)
            r = s.alt()
            if s.peek() != ')':
                raise Unsupported('unbalanced group: ' + s.src)
            s.eat()
            return ('grp', r) if cap else ('ncg', r)
        if c == '[':
            return s.cls()
        if c == '.':
            return ('cls', ('any',))
        if c == '^':
            return ('bol',)
        if c == '$':
            return ('eol',)
        if c == '\\':
            return s.esc()
        if c in '*+?)':
            raise Unsupported('unexpected %r in %r' % (c, s.src))
        return ('chr', c)

    def esc(s):
        c = s.eat()
        if c == 's':
            return ('cls', ('set', False, list(WS)))
        if c == 'd':
            return ('cls', ('set', False, [('0', '9')]))
        if c == 'x':
            h = s.src[s.i:s.i + 2]
            s.i += 2
            return ('chr', chr(int(h, 16)))
        if c == 'n':
            return ('chr', '\n')
        if c == 'r':
            return ('chr', '\r')
        if c == 't':
            return ('chr', '\t')
        if c.isalnum():
            raise Unsupported('escape \\%s in %r' % (c, s.src))
        return ('chr', c)

    def cls(s):
        neg = False
        if s.peek() == '^':
            s.eat()
            neg = True
        rs = []
        first = True
        while True:
            c = s.eat()
            if c == ']' and not first:
                break
            first = False
            if c == '[' and s.peek() == ':':
                raise Unsupported('posix class in ' + s.src)
            if c == '\\':
                e = s.eat()
                if e == 't':
                    c = '\t'
                elif e == 's':
                    rs += list(WS)
                    continue
                elif e == 'd':
                    rs.append(('0', '9'))
                    continue
                elif e == 'n':
                    c = '\n'
                elif e == 'r':
                    c = '\r'
                elif e.isalnum():
                    raise Unsupported('class escape \\%s in %r' % (e, s.src))
                else:
                    c = e
            if s.peek() == '-' and s.src[s.i + 1] != ']':
                s.eat()
                hi = s.eat()
                if hi == '\\':
                    hi = s.eat()
                rs.append((c, hi))
            else:
                rs.append((c, c))
        return ('cls', ('set', neg, rs))


def parse(src):
    p = P(src)
    ast = p.parse()
    return ast, p.multiline, p.dotall


def lit_alts(ast):
    """Expand an AST made of literals, `.`, groups, alternation and `?` into the list of
    alternatives in priority order; each alternative is a list of chars or None (dot).
    Raises Unsupported for anything else."""
    k = ast[0]
    if k == 'eps':
        return [[]]
    if k == 'chr':
        return [[ast[1]]]
    if k == 'cls':
        if ast[1][0] == 'any':
            return [[None]]
        raise Unsupported('class')
    if k in ('grp', 'ncg'):
        return lit_alts(ast[1])
    if k == 'seq':
        a, b = lit_alts(ast[1]), lit_alts(ast[2])
        return [x + y for x in a for y in b]
    if k == 'alt':
        return lit_alts(ast[1]) + lit_alts(ast[2])
    if k == 'opt':
        a = lit_alts(ast[1])
        return a + [[]] if ast[2] else [[]] + a
    raise Unsupported(k)


def ch(c):
    return "(Char.ofNat %d)" % ord(c)


def to_lean(t):
    k = t[0]
    if k == 'eps':
        return '.eps'
    if k == 'chr':
        return '(.chr %s)' % ch(t[1])
    if k == 'cls':
        c = t[1]
        if c[0] == 'any':
            return '(.cls .any)'
        return '(.cls (.set %s [%s]))' % ('true' if c[1] else 'false',
                                          ', '.join('(%s, %s)' % (ch(a), ch(b)) for a, b in c[2]))
    if k in ('seq', 'alt'):
        return '(.%s %s %s)' % (k, to_lean(t[1]), to_lean(t[2]))
    if k in ('star', 'plus', 'opt'):
        return '(.%s %s %s)' % (k, to_lean(t[1]), 'true' if t[2] else 'false')
    if k in ('bol', 'eol'):
        return '.' + k
    if k == 'grp':
        return '(.grp %s)' % to_lean(t[1])
    if k == 'ncg':
        return to_lean(t[1])
    raise Unsupported(k)


def lean_str(s):
    """Lean string literal for arbitrary text (ASCII-escaped)."""
    out = ['"']
    for c in s:
        o = ord(c)
        if c == '"':
            out.append('\\"')
        elif c == '\\':
            out.append('\\\\')
        elif c == '\n':
            out.append('\\n')
        elif c == '\t':
            out.append('\\t')
        elif c == '\r':
            out.append('\\r')
        elif 0x20 <= o < 0x7f:
            out.append(c)
        elif o < 0x100:
            out.append('\\x%02x' % o)
        elif o <= 0xffff:
            out.append('\\u%04x' % o)
        else:
            out.append(c)           # Lean sources are UTF-8: a character beyond the BMP stands for itself
    out.append('"')
    return ''.join(out)


def sample(ast, rng, maxrep=3, minimal=False):
    """a random string matched by the AST (anchors give nothing); classes draw from their own ranges.
    `minimal`: every repetition at its lower bound (a star matches nothing, an optional part is absent)"""
    if minimal:
        class _Min:
            def randint(self, a, b): return a
            def random(self): return 0.99
            def choice(self, xs): return rng.choice(xs)
        return sample(ast, _Min(), maxrep)
    t = ast[0]
    if t == 'eps' or t in ('bol', 'eol'):
        return ''
    if t == 'chr':
        return ast[1]
    if t == 'seq':
        return sample(ast[1], rng, maxrep) + sample(ast[2], rng, maxrep)
    if t == 'alt':
        return sample(ast[1] if rng.random() < 0.5 else ast[2], rng, maxrep)
    if t in ('grp', 'ncg'):
        return sample(ast[1], rng, maxrep)
    if t == 'star':
        return ''.join(sample(ast[1], rng, maxrep) for _ in range(rng.randint(0, maxrep)))
    if t == 'plus':
        return ''.join(sample(ast[1], rng, maxrep) for _ in range(rng.randint(1, maxrep)))
    if t == 'opt':
        return sample(ast[1], rng, maxrep) if rng.random() < 0.5 else ''
    if t == 'cls':
        c = ast[1]
        if c[0] == 'any':
            return rng.choice('ab1.-_')
        neg, rs = c[1], c[2]
        if not neg:
            lo, hi = rng.choice(rs)
            return chr(rng.randint(ord(lo), ord(hi)))
        for _ in range(50):
            x = rng.choice('abcxyz0189._-:')
            if not any(lo <= x <= hi for lo, hi in rs):
                return x
        return 'q'
    raise Unsupported('sample: ' + t)
