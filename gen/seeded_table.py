#!/usr/bin/env python3
"""Rewrites the table of seeded changes in DESIGN.md (between the SEEDED-TABLE markers) from seeded/*/meta.json."""
import glob, json, os, re
V = '/verif'
rows = []
for d in sorted(glob.glob(os.path.join(V, 'seeded', '*'))):
    m = json.load(open(os.path.join(d, 'meta.json')))
    name = os.path.basename(d)
    det = m.get('detected_by', '')
    first = 'no' if re.search(r'missed at first|after strengthening', det) else 'yes'
    own = 'yes' if re.search(r'\./check %s\b' % m['property'], det) and not re.search(r'not \./check %s\b' % m['property'], det) else 'other check'
    needs = m.get('needs_to_manifest', '').replace('|', '/').replace('\n', ' ')
    rows.append('| %s | %s | %s | %s | %s |' % (name, needs[:260], det.replace('|', '/')[:300], first, own))
tab = ['| change | what it needs in order to show | caught by | caught before any strengthening | by the check of its own property |',
       '|---|---|---|---|---|'] + rows
n = len(rows)
nfirst = sum(1 for r in rows if r.split('|')[4].strip() == 'yes')
txt = '\n'.join(tab) + '\n\n%d seeded changes; %d were caught by the machinery as it stood when they arrived, %d only after a check was strengthened (every one is caught now).\n' % (n, nfirst, n - nfirst)
p = os.path.join(V, 'DESIGN.md')
s = open(p).read()
a, b = '<!-- SEEDED-TABLE-BEGIN -->', '<!-- SEEDED-TABLE-END -->'
s = s[:s.index(a) + len(a)] + '\n' + txt + s[s.index(b):]
open(p, 'w').write(s)
print(n, nfirst)
