#!/bin/sh
# usage: try_mut.sh <patch> <check ids...> : apply a seeded change to /repo, run checks, undo
patch=$1; shift
cd /repo && git apply "$patch" || { echo "APPLY FAILED"; exit 2; }
for id in "$@"; do
  (cd /verif && timeout 1800 ./check $id 2>&1 | grep -E "VIOLATION|tier=|  #" | head -8)
done
cd /repo && git apply -R "$patch"; git checkout -- . ; git status --short | head -3
