// vharness runs the real apparmor.d code in-process for the verification
// machinery in /verif.  Built from /repo's working tree with -tags verif.
package main

import (
	"encoding/json"
	"fmt"
	"os"
)

var suites = map[string]opFunc{}

func main() {
	if len(os.Args) < 2 {
		fmt.Fprintln(os.Stderr, "usage: vharness tables | run <suite>")
		os.Exit(2)
	}
	switch os.Args[1] {
	case "tables":
		enc := json.NewEncoder(os.Stdout)
		enc.SetEscapeHTML(false)
		enc.SetIndent("", " ")
		if err := enc.Encode(tables()); err != nil {
			panic(err)
		}
	case "run":
		if len(os.Args) < 3 {
			fmt.Fprintln(os.Stderr, "usage: vharness run <suite>")
			os.Exit(2)
		}
		h, ok := suites[os.Args[2]]
		if !ok {
			fmt.Fprintln(os.Stderr, "unknown suite", os.Args[2])
			os.Exit(2)
		}
		serve(h)
	default:
		fmt.Fprintln(os.Stderr, "unknown command", os.Args[1])
		os.Exit(2)
	}
}
