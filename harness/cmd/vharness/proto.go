package main

import (
	"bufio"
	"fmt"
	"os"
	"strings"
)

// Line protocol: fields separated by TAB; inside a field, records are separated
// by '|' and list elements by ';'. Every atom is percent-escaped: bytes outside
// 0x21-0x7e and the bytes % ; | are written %XX.

const hexd = "0123456789ABCDEF"

func esc(s string) string {
	var b strings.Builder
	for i := 0; i < len(s); i++ {
		c := s[i]
		if c < 0x21 || c > 0x7e || c == '%' || c == ';' || c == '|' {
			b.WriteByte('%')
			b.WriteByte(hexd[c>>4])
			b.WriteByte(hexd[c&15])
		} else {
			b.WriteByte(c)
		}
	}
	return b.String()
}

func unhex(c byte) int {
	switch {
	case c >= '0' && c <= '9':
		return int(c - '0')
	case c >= 'A' && c <= 'F':
		return int(c-'A') + 10
	case c >= 'a' && c <= 'f':
		return int(c-'a') + 10
	}
	return -1
}

func unesc(s string) string {
	var b strings.Builder
	for i := 0; i < len(s); i++ {
		if s[i] == '%' && i+2 < len(s) {
			h, l := unhex(s[i+1]), unhex(s[i+2])
			if h >= 0 && l >= 0 {
				b.WriteByte(byte(h<<4 | l))
				i += 2
				continue
			}
		}
		b.WriteByte(s[i])
	}
	return b.String()
}

func escList(l []string) string {
	r := make([]string, len(l))
	for i, s := range l {
		r[i] = esc(s)
	}
	return strings.Join(r, ";")
}

// An empty field is the empty list; a list holding one empty string is "%".
func unescList(s string) []string {
	if s == "" {
		return []string{}
	}
	parts := strings.Split(s, ";")
	for i, p := range parts {
		if p == "%" {
			parts[i] = ""
		} else {
			parts[i] = unesc(p)
		}
	}
	return parts
}

func escListE(l []string) string {
	if len(l) == 1 && l[0] == "" {
		return "%"
	}
	r := make([]string, len(l))
	for i, s := range l {
		if s == "" {
			r[i] = "%"
		} else {
			r[i] = esc(s)
		}
	}
	return strings.Join(r, ";")
}

func b2s(b bool) string {
	if b {
		return "1"
	}
	return "0"
}

type opFunc func(f []string) string

// serve reads ops from stdin, one per line, and writes one reply per line.
// A panic inside an op is reported as "panic".
func serve(handler opFunc) {
	in := bufio.NewReaderSize(os.Stdin, 1<<20)
	out := bufio.NewWriterSize(os.Stdout, 1<<20)
	defer out.Flush()
	// the library prints diagnostics ("Unknown rule: ...") on standard output: keep them out of the protocol
	if null, err := os.OpenFile(os.DevNull, os.O_WRONLY, 0); err == nil {
		os.Stdout = null
	}
	for {
		line, err := in.ReadString('\n')
		if len(line) > 0 {
			line = strings.TrimRight(line, "\n")
			fields := strings.Split(line, "\t")
			reply := safely(handler, fields)
			fmt.Fprintln(out, reply)
		}
		if err != nil {
			break
		}
	}
}

func safely(h opFunc, f []string) (res string) {
	defer func() {
		if r := recover(); r != nil {
			res = "panic"
		}
	}()
	return h(f)
}
