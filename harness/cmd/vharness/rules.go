package main

import (
	"fmt"
	"strings"

	"github.com/roddhjav/apparmor.d/pkg/aa"
)

// Wire form of a rule:  kind|audit|accessType|comment|nnp|fi|opt|F0|F1|...
// with the fields of the Go struct in declaration order; a string field is an escaped
// atom, a list field is ';'-separated escaped atoms, a bool is 0/1.

func sl(s string) []string {
	if s == "" {
		return nil
	}
	return unescList(s)
}

func bl(s string) bool { return s == "1" }

func decodeRule(w string) aa.Rule {
	if w == "nil" {
		return nil
	}
	p := strings.Split(w, "|")
	for len(p) < 20 {
		p = append(p, "")
	}
	kind := p[0]
	q := aa.Qualifier{Audit: bl(p[1]), AccessType: unesc(p[2])}
	b := aa.Base{Comment: unesc(p[3]), NoNewPrivs: bl(p[4]), FileInherit: bl(p[5]), Optional: bl(p[6])}
	f := p[7:]
	s := func(i int) string { return unesc(f[i]) }
	l := func(i int) []string { return sl(f[i]) }
	switch kind {
	case "capability":
		return &aa.Capability{Base: b, Qualifier: q, Names: l(0)}
	case "network":
		return &aa.Network{Base: b, Qualifier: q, AddressExpr: aa.AddressExpr{Source: s(0), Destination: s(1), Port: s(2)},
			Domain: s(3), Type: s(4), Protocol: s(5)}
	case "mount":
		return &aa.Mount{Base: b, Qualifier: q, MountConditions: aa.MountConditions{FsType: s(0), Options: l(1)}, Source: s(2), MountPoint: s(3)}
	case "umount":
		return &aa.Umount{Base: b, Qualifier: q, MountConditions: aa.MountConditions{FsType: s(0), Options: l(1)}, MountPoint: s(2)}
	case "remount":
		return &aa.Remount{Base: b, Qualifier: q, MountConditions: aa.MountConditions{FsType: s(0), Options: l(1)}, MountPoint: s(2)}
	case "pivot_root":
		return &aa.PivotRoot{Base: b, Qualifier: q, OldRoot: s(0), NewRoot: s(1), TargetProfile: s(2)}
	case "change_profile":
		return &aa.ChangeProfile{Base: b, Qualifier: q, ExecMode: s(0), Exec: s(1), ProfileName: s(2)}
	case "mqueue":
		return &aa.Mqueue{Base: b, Qualifier: q, Access: l(0), Type: s(1), Label: s(2), Name: s(3)}
	case "io_uring":
		return &aa.IOUring{Base: b, Qualifier: q, Access: l(0), Label: s(1)}
	case "signal":
		return &aa.Signal{Base: b, Qualifier: q, Access: l(0), Set: l(1), Peer: s(2)}
	case "ptrace":
		return &aa.Ptrace{Base: b, Qualifier: q, Access: l(0), Peer: s(1)}
	case "unix":
		return &aa.Unix{Base: b, Qualifier: q, Access: l(0), Type: s(1), Protocol: s(2), Address: s(3), Label: s(4),
			Attr: s(5), Opt: s(6), PeerLabel: s(7), PeerAddr: s(8)}
	case "dbus":
		return &aa.Dbus{Base: b, Qualifier: q, Access: l(0), Bus: s(1), Name: s(2), Path: s(3), Interface: s(4),
			Member: s(5), PeerName: s(6), PeerLabel: s(7)}
	case "rlimit":
		return &aa.Rlimit{Base: b, Key: s(0), Op: s(1), Value: s(2)}
	case "userns":
		return &aa.Userns{Base: b, Qualifier: q, Create: bl(f[0])}
	case "all":
		return &aa.All{Base: b}
	case "file":
		return &aa.File{Base: b, Qualifier: q, Owner: bl(f[0]), Path: s(1), Access: l(2), Target: s(3)}
	case "link":
		return &aa.Link{Base: b, Qualifier: q, Owner: bl(f[0]), Subset: bl(f[1]), Path: s(2), Target: s(3)}
	case "comment":
		return &aa.Comment{Base: b}
	case "abi":
		return &aa.Abi{Base: b, Path: s(0), IsMagic: bl(f[1])}
	case "alias":
		return &aa.Alias{Base: b, Path: s(0), RewrittenPath: s(1)}
	case "include":
		return &aa.Include{Base: b, IfExists: bl(f[0]), Path: s(1), IsMagic: bl(f[2])}
	case "variable":
		return &aa.Variable{Base: b, Name: s(0), Values: l(1), Define: bl(f[2])}
	case "hat":
		return &aa.Hat{Base: b, Name: s(0)}
	case "profile":
		// flags and extended attributes (k=v words) travel too: Compare/Merge may come to read them
		attrs := map[string]string{}
		if len(f) > 3 {
			for _, kv := range l(3) {
				k, v, _ := strings.Cut(kv, "=")
				attrs[k] = v
			}
		}
		var flags []string
		if len(f) > 2 {
			flags = l(2)
		}
		return &aa.Profile{Base: b, Header: aa.Header{Name: s(0), Attachments: l(1), Flags: flags, Attributes: attrs}}
	}
	panic("unknown kind " + kind)
}

func encodeRule(r aa.Rule) string {
	if r == nil {
		return "nil"
	}
	var b aa.Base
	var q aa.Qualifier
	var f []string
	S := esc
	L := escListE
	B := b2s
	switch r := r.(type) {
	case *aa.Capability:
		b, q, f = r.Base, r.Qualifier, []string{L(r.Names)}
	case *aa.Network:
		b, q, f = r.Base, r.Qualifier, []string{S(r.Source), S(r.Destination), S(r.Port), S(r.Domain), S(r.Type), S(r.Protocol)}
	case *aa.Mount:
		b, q, f = r.Base, r.Qualifier, []string{S(r.FsType), L(r.Options), S(r.Source), S(r.MountPoint)}
	case *aa.Umount:
		b, q, f = r.Base, r.Qualifier, []string{S(r.FsType), L(r.Options), S(r.MountPoint)}
	case *aa.Remount:
		b, q, f = r.Base, r.Qualifier, []string{S(r.FsType), L(r.Options), S(r.MountPoint)}
	case *aa.PivotRoot:
		b, q, f = r.Base, r.Qualifier, []string{S(r.OldRoot), S(r.NewRoot), S(r.TargetProfile)}
	case *aa.ChangeProfile:
		b, q, f = r.Base, r.Qualifier, []string{S(r.ExecMode), S(r.Exec), S(r.ProfileName)}
	case *aa.Mqueue:
		b, q, f = r.Base, r.Qualifier, []string{L(r.Access), S(r.Type), S(r.Label), S(r.Name)}
	case *aa.IOUring:
		b, q, f = r.Base, r.Qualifier, []string{L(r.Access), S(r.Label)}
	case *aa.Signal:
		b, q, f = r.Base, r.Qualifier, []string{L(r.Access), L(r.Set), S(r.Peer)}
	case *aa.Ptrace:
		b, q, f = r.Base, r.Qualifier, []string{L(r.Access), S(r.Peer)}
	case *aa.Unix:
		b, q, f = r.Base, r.Qualifier, []string{L(r.Access), S(r.Type), S(r.Protocol), S(r.Address), S(r.Label), S(r.Attr), S(r.Opt), S(r.PeerLabel), S(r.PeerAddr)}
	case *aa.Dbus:
		b, q, f = r.Base, r.Qualifier, []string{L(r.Access), S(r.Bus), S(r.Name), S(r.Path), S(r.Interface), S(r.Member), S(r.PeerName), S(r.PeerLabel)}
	case *aa.Rlimit:
		b, f = r.Base, []string{S(r.Key), S(r.Op), S(r.Value)}
	case *aa.Userns:
		b, q, f = r.Base, r.Qualifier, []string{B(r.Create)}
	case *aa.All:
		b = r.Base
	case *aa.File:
		b, q, f = r.Base, r.Qualifier, []string{B(r.Owner), S(r.Path), L(r.Access), S(r.Target)}
	case *aa.Link:
		b, q, f = r.Base, r.Qualifier, []string{B(r.Owner), B(r.Subset), S(r.Path), S(r.Target)}
	case *aa.Comment:
		b = r.Base
	case *aa.Abi:
		b, f = r.Base, []string{S(r.Path), B(r.IsMagic)}
	case *aa.Alias:
		b, f = r.Base, []string{S(r.Path), S(r.RewrittenPath)}
	case *aa.Include:
		b, f = r.Base, []string{B(r.IfExists), S(r.Path), B(r.IsMagic)}
	case *aa.Variable:
		b, f = r.Base, []string{S(r.Name), L(r.Values), B(r.Define)}
	case *aa.Hat:
		b, f = r.Base, []string{S(r.Name)}
	case *aa.Profile:
		at := []string{}
		for k, v := range r.Attributes {
			at = append(at, k+"="+v)
		}
		sortStrings(at)
		b, f = r.Base, []string{S(r.Name), L(r.Attachments), L(r.Flags), L(at)}
	default:
		panic(fmt.Sprintf("unknown rule type %T", r))
	}
	head := []string{r.Kind().String(), B(q.Audit), S(q.AccessType), S(b.Comment), B(b.NoNewPrivs), B(b.FileInherit), B(b.Optional)}
	return strings.Join(append(head, f...), "|")
}

func decodeRules(fields []string) aa.Rules {
	res := make(aa.Rules, 0, len(fields))
	for _, w := range fields {
		if w == "" {
			continue
		}
		res = append(res, decodeRule(w))
	}
	return res
}

func encodeRules(rs aa.Rules) string {
	out := make([]string, len(rs))
	for i, r := range rs {
		out[i] = encodeRule(r)
	}
	return strings.Join(out, "\t")
}

func init() {
	// compare <rule> <rule>  ->  ok <int>   (same kind)
	suites["compare"] = func(f []string) string {
		a, b := decodeRule(f[0]), decodeRule(f[1])
		return fmt.Sprintf("ok\t%d", a.Compare(b))
	}
	// sortcmp <rule> <rule> -> ok <int>: the comparator of Rules.Sort, observed through Sort on the pair
	suites["merge"] = func(f []string) string {
		rs := decodeRules(f)
		rs = rs.Merge()
		return "ok\t" + encodeRules(rs)
	}
	suites["sort"] = func(f []string) string {
		rs := decodeRules(f)
		rs = rs.Sort()
		return "ok\t" + encodeRules(rs)
	}
	suites["mergevalues"] = func(f []string) string {
		return "ok\t" + escListE(aa.VerifMergeValues(aa.Kind(f[0]), f[1], sl(f[2]), sl(f[3])))
	}
	suites["cmpstr"] = func(f []string) string {
		return fmt.Sprintf("ok\t%d", aa.VerifCompare(unesc(f[0]), unesc(f[1])))
	}
}
