package main

import (
	"github.com/roddhjav/apparmor.d/pkg/prebuild"
	"github.com/roddhjav/apparmor.d/pkg/prebuild/builder"
)

func init() {
	// builder <names;...> <file name> <text>  ->  ok <text> | err
	suites["builder"] = func(f []string) string {
		names := unescList(f[0])
		opt := builder.NewOption(prebuild.RootApparmord.Join(unesc(f[1])))
		text := unesc(f[2])
		for _, n := range names {
			b, ok := builder.Builders[n]
			if !ok {
				return "err\tunknown-builder"
			}
			var err error
			text, err = b.Apply(opt, text)
			if err != nil {
				return "err\tapply"
			}
		}
		return "ok\t" + esc(text)
	}
}

func init() {
	// buildrun <names;...> <file name> <text>  ->  ok <text> | err
	// The same chain through builder.Run, as cli.Build does, with the builders registered first: several builds with
	// different task sets in one process (what a test driver or a packaging script that loops over configurations does).
	suites["buildrun"] = func(f []string) string {
		builder.VerifReset()
		builder.Register(unescList(f[0])...)
		text, err := builder.Run(prebuild.RootApparmord.Join(unesc(f[1])), unesc(f[2]))
		builder.VerifReset()
		if err != nil {
			return "err\tapply"
		}
		return "ok\t" + esc(text)
	}
}
