package main

import (
	"github.com/roddhjav/apparmor.d/pkg/prebuild"
	"github.com/roddhjav/apparmor.d/pkg/prebuild/builder"
)

func init() {
	// builder <names;...> <file name> <text>  ->  ok <text> | err
	suites["builder"] = func(f []string) string {
		names := unescList(f[0])
		opt := builder.NewOption(prebuild.RootApparmord.Join(unesc(f[1])))
		text := unesc(f[2])
		for _, n := range names {
			b, ok := builder.Builders[n]
			if !ok {
				return "err\tunknown-builder"
			}
			var err error
			text, err = b.Apply(opt, text)
			if err != nil {
				return "err\tapply"
			}
		}
		return "ok\t" + esc(text)
	}
}
