package main

import (
	"os"
	"strconv"

	"github.com/roddhjav/apparmor.d/pkg/prebuild"
	"github.com/roddhjav/apparmor.d/pkg/prebuild/cli"
	"github.com/roddhjav/apparmor.d/pkg/prebuild/prepare"
)

func init() {
	// cliprepare <tree dir> <dist> <abi> <version> <task;task;...>  ->  ok | err
	// Runs the real prepare stage (cli.Prepare) with the given registered tasks, inside <tree dir>.
	suites["cliprepare"] = func(f []string) string {
		must(os.Chdir(unesc(f[0])))
		abi, _ := strconv.Atoi(f[2])
		ver, _ := strconv.ParseFloat(f[3], 64)
		prebuild.VerifSetTarget(unesc(f[1]), abi, ver)
		prepare.VerifReset()
		prepare.Register(unescList(f[4])...)
		devnull, _ := os.Open(os.DevNull)
		old := os.Stdout
		os.Stdout, _ = os.OpenFile(os.DevNull, os.O_WRONLY, 0)
		err := cli.Prepare()
		os.Stdout = old
		devnull.Close()
		if err != nil {
			return "err\t" + esc(err.Error())
		}
		return "ok"
	}
}
