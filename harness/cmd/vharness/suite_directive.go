package main

import (
	"strconv"

	"github.com/roddhjav/apparmor.d/pkg/prebuild"
	"github.com/roddhjav/apparmor.d/pkg/prebuild/directive"
)

func init() {
	// filter <dist> <abi> <version> <text>  ->  ok <text> | err
	suites["filter"] = func(f []string) string {
		abi, _ := strconv.Atoi(f[1])
		ver, _ := strconv.ParseFloat(f[2], 64)
		prebuild.VerifSetTarget(unesc(f[0]), abi, ver)
		out, err := directive.Run(prebuild.RootApparmord.Join("x"), unesc(f[3]))
		if err != nil {
			return "err"
		}
		return "ok\t" + esc(out)
	}
}
