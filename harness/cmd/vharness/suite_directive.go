package main

import (
	"strconv"

	"github.com/roddhjav/apparmor.d/pkg/aa"
	"github.com/roddhjav/apparmor.d/pkg/prebuild"
	"github.com/roddhjav/apparmor.d/pkg/prebuild/directive"
)

func init() {
	// filter <dist> <abi> <version> <text>  ->  ok <text> | err
	suites["filter"] = func(f []string) string {
		abi, _ := strconv.Atoi(f[1])
		ver, _ := strconv.ParseFloat(f[2], 64)
		prebuild.VerifSetTarget(unesc(f[0]), abi, ver)
		out, err := directive.Run(prebuild.RootApparmord.Join("x"), unesc(f[3]))
		if err != nil {
			return "err"
		}
		return "ok\t" + esc(out)
	}
}

func init() {
	// dbusdir <directive line> -> ok <generated text> <rules read back by aa.ParseRules...>
	suites["dbusdir"] = func(f []string) string {
		raw := unesc(f[0])
		out, err := directive.Run(prebuild.RootApparmord.Join("x"), raw+"\n")
		if err != nil {
			return "err"
		}
		paras, _, err := aa.ParseRules(out)
		if err != nil {
			return "ok\t" + esc(out) + "\tparse-error"
		}
		rs := paras.Flatten()
		keep := aa.Rules{}
		for _, r := range rs {
			if r != nil && r.Kind() != aa.COMMENT {
				keep = append(keep, r)
			}
		}
		return "ok\t" + esc(out) + "\t" + encodeRules(keep)
	}
}
