package main

import (
	"os"
	"path/filepath"
	"strings"

	"github.com/roddhjav/apparmor.d/pkg/paths"
	"github.com/roddhjav/apparmor.d/pkg/prebuild"
	"github.com/roddhjav/apparmor.d/pkg/prebuild/builder"
	"github.com/roddhjav/apparmor.d/pkg/prebuild/directive"
)

func init() {
	// hist <builders;...> <name=text;name=text library> <name=text> <name=text> ...
	// Writes the library profiles into a scratch build directory, then processes the given
	// profiles one after the other IN THIS PROCESS (builders, then directives, then write
	// back, as cli.Build does). Reply: one escaped output per profile ("!err" on error).
	suites["hist"] = func(f []string) string {
		root, err := os.MkdirTemp("", "vharness-hist-")
		must(err)
		defer os.RemoveAll(root)
		old := prebuild.RootApparmord
		defer func() { prebuild.RootApparmord = old }()
		prebuild.RootApparmord = paths.New(root)
		for _, kv := range unescListRaw(f[1]) {
			name, text, _ := strings.Cut(kv, "=")
			must(os.WriteFile(filepath.Join(root, name), []byte(text), 0o644))
		}
		builder.VerifReset()
		builder.Register(unescList(f[0])...)
		out := []string{}
		for _, item := range f[2:] {
			name, text, _ := strings.Cut(unesc(item), "=")
			file := prebuild.RootApparmord.Join(name)
			must(os.WriteFile(file.String(), []byte(text), 0o644))
			res, err := builder.Run(file, text)
			if err == nil {
				res, err = directive.Run(file, res)
			}
			if err != nil {
				out = append(out, "!err")
				continue
			}
			must(os.WriteFile(file.String(), []byte(res), 0o644))
			out = append(out, esc(res))
		}
		return "ok\t" + strings.Join(out, "\t")
	}
}

func unescListRaw(s string) []string { return unescList(s) }
