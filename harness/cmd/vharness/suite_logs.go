package main

import (
	"sort"
	"strings"

	"github.com/roddhjav/apparmor.d/pkg/aa"
	"github.com/roddhjav/apparmor.d/pkg/logs"
	"github.com/roddhjav/apparmor.d/pkg/util"
)

func encLog(l logs.AppArmorLog) string {
	keys := make([]string, 0, len(l))
	for k := range l {
		keys = append(keys, k)
	}
	sort.Strings(keys)
	kv := make([]string, 0, len(keys))
	for _, k := range keys {
		kv = append(kv, esc(k)+"="+esc(l[k]))
	}
	return strings.Join(kv, ";")
}

func init() {
	// getlogs <filter> <text> -> ok <line;line;...>
	suites["getlogs"] = func(f []string) string {
		out := logs.GetApparmorLogs(strings.NewReader(unesc(f[1])), unesc(f[0]))
		return "ok\t" + escListE(out)
	}
	// lognew <text> -> ok <k=v;k=v>|<k=v;...>   (keys sorted)
	suites["lognew"] = func(f []string) string {
		ls := logs.New(strings.NewReader(unesc(f[0])), "")
		out := make([]string, len(ls))
		for i, l := range ls {
			out[i] = encLog(l)
		}
		return "ok\t" + strings.Join(out, "|") + "\t" + b2s(logs.VerifQuoted())
	}
	suites["rx"] = func(f []string) string {
		t := unesc(f[1])
		switch f[0] {
		case "cleanlogs":
			return "ok\t" + esc(logs.VerifClean(t))
		case "resolvelogs":
			return "ok\t" + esc(logs.VerifResolve(t))
		case "filter":
			return "ok\t" + esc(util.Filter(t))
		case "decodehex":
			return "ok\t" + esc(util.DecodeHexInString(t))
		}
		return "err"
	}
	// logstring <text> -> ok <AppArmorLogs.String()>
	suites["logstring"] = func(f []string) string {
		return "ok\t" + esc(logs.New(strings.NewReader(unesc(f[0])), "").String())
	}
	// logrules <text> -> ok <profile name>=<rule>\t<rule>...|...  rules after Merge+Sort+Format, wire form
	suites["logrules"] = func(f []string) string {
		ps := logs.New(strings.NewReader(unesc(f[0])), "").ParseToProfiles()
		names := make([]string, 0, len(ps))
		for n := range ps {
			names = append(names, n)
		}
		sort.Strings(names)
		out := []string{}
		for _, n := range names {
			p := ps[n]
			raw := encodeRulesSemi(p.Rules)
			p.Merge(nil)
			p.Sort()
			p.Format()
			out = append(out, esc(n)+"\t"+esc(strings.Join(p.Flags, ","))+"\t"+esc(raw)+"\t"+esc(encodeRulesSemi(p.Rules))+"\t"+esc(p.String()))
		}
		return "ok\t" + strings.Join(out, "\t")
	}
}

// rules separated by newline inside one escaped field
func encodeRulesSemi(rs aa.Rules) string {
	out := make([]string, len(rs))
	for i, r := range rs {
		out[i] = encodeRule(r)
	}
	return strings.Join(out, "\n")
}

func init() {
	// fromlog <k=v;k=v;...>  ->  ok <flags> <rule> <rule>... | panic
	suites["fromlog"] = func(f []string) string {
		log := map[string]string{}
		for _, kv := range unescListRaw(f[0]) {
			k, v, _ := strings.Cut(kv, "=")
			log[k] = v
		}
		p := &aa.Profile{}
		p.AddRule(log)
		return "ok\t" + esc(strings.Join(p.Flags, ",")) + "\t" + encodeRules(p.Rules)
	}
}
