package main

import (
	"os"
	"path/filepath"
	"sort"
	"strings"

	"github.com/roddhjav/apparmor.d/pkg/paths"
	"github.com/roddhjav/apparmor.d/pkg/prebuild"
	"github.com/roddhjav/apparmor.d/pkg/prebuild/prepare"
)

var tmpRoot string

func scratchRoot() string {
	if tmpRoot == "" {
		d, err := os.MkdirTemp("", "vharness-")
		if err != nil {
			panic(err)
		}
		tmpRoot = d
	}
	return tmpRoot
}

func init() {
	// setflags <manifest line> <text>  ->  ok <text>
	// Runs the real SetFlags task on a one-file build directory whose main.flags manifest
	// holds the given line for profile "p".
	suites["setflags"] = func(f []string) string {
		root := scratchRoot()
		defer os.RemoveAll(root)
		defer func() { tmpRoot = "" }()
		build := filepath.Join(root, "build")
		flagDir := filepath.Join(root, "flags")
		must(os.MkdirAll(filepath.Join(build, "apparmor.d"), 0o755))
		must(os.MkdirAll(flagDir, 0o755))
		must(os.WriteFile(filepath.Join(flagDir, "main.flags"), []byte(unesc(f[0])+"\n"), 0o644))
		must(os.WriteFile(filepath.Join(build, "apparmor.d", "p"), []byte(unesc(f[1])), 0o644))
		oldRoot, oldAa, oldFlag, oldDist := prebuild.Root, prebuild.RootApparmord, prebuild.FlagDir, prebuild.Distribution
		defer func() {
			prebuild.Root, prebuild.RootApparmord, prebuild.FlagDir, prebuild.Distribution = oldRoot, oldAa, oldFlag, oldDist
		}()
		prebuild.Root = paths.New(build)
		prebuild.RootApparmord = prebuild.Root.Join("apparmor.d")
		prebuild.FlagDir = paths.New(flagDir)
		prebuild.Distribution = "none"
		msg, err := prepare.Tasks["setflags"].Apply()
		if err != nil {
			return "err\tapply"
		}
		out, err := os.ReadFile(filepath.Join(build, "apparmor.d", "p"))
		if err != nil {
			return "err\tread"
		}
		nf := 0
		for _, m := range msg {
			if strings.Contains(m, "not found") {
				nf++
			}
		}
		return "ok\t" + esc(string(out)) + "\t" + b2s(nf > 0)
	}
}

func must(err error) {
	if err != nil {
		panic(err)
	}
}

func init() {
	// setflags2 <main.flags text> <dist.flags text> <profile names;...> <source headers;...>  ->  ok <header line per profile;...>
	// The real SetFlags task over a build directory of several profiles with BOTH manifests (common and per-distribution),
	// as in a real build: a profile may be listed in one, in both (the distribution's entry overrides) or in neither.
	suites["setflags2"] = func(f []string) string {
		root := scratchRoot()
		defer os.RemoveAll(root)
		defer func() { tmpRoot = "" }()
		build := filepath.Join(root, "build")
		flagDir := filepath.Join(root, "flags")
		must(os.MkdirAll(filepath.Join(build, "apparmor.d"), 0o755))
		must(os.MkdirAll(flagDir, 0o755))
		must(os.WriteFile(filepath.Join(flagDir, "main.flags"), []byte(unesc(f[0])), 0o644))
		must(os.WriteFile(filepath.Join(flagDir, "vdist.flags"), []byte(unesc(f[1])), 0o644))
		names := unescList(f[2])
		heads := unescList(f[3])
		for i, n := range names {
			must(os.WriteFile(filepath.Join(build, "apparmor.d", n), []byte(heads[i]+"\n  capability kill,\n}\n"), 0o644))
		}
		oldRoot, oldAa, oldFlag, oldDist := prebuild.Root, prebuild.RootApparmord, prebuild.FlagDir, prebuild.Distribution
		defer func() {
			prebuild.Root, prebuild.RootApparmord, prebuild.FlagDir, prebuild.Distribution = oldRoot, oldAa, oldFlag, oldDist
		}()
		prebuild.Root = paths.New(build)
		prebuild.RootApparmord = prebuild.Root.Join("apparmor.d")
		prebuild.FlagDir = paths.New(flagDir)
		prebuild.Distribution = "vdist"
		if _, err := prepare.Tasks["setflags"].Apply(); err != nil {
			return "err\tapply"
		}
		res := []string{}
		for _, n := range names {
			out, err := os.ReadFile(filepath.Join(build, "apparmor.d", n))
			if err != nil {
				return "err\tread"
			}
			res = append(res, strings.SplitN(string(out), "\n", 2)[0])
		}
		return "ok\t" + escList(res)
	}
}

func init() {
	// flagsread <flags dir> <manifest name>  ->  ok <profile=flag,flag;...> (sorted by profile)
	// What the code itself reads from a flags manifest (prebuild.Flags.Read), for comparison with an independent reading.
	suites["flagsread"] = func(f []string) string {
		old := prebuild.FlagDir
		defer func() { prebuild.FlagDir = old }()
		prebuild.FlagDir = paths.New(unesc(f[0]))
		m := prebuild.Flags.Read(unesc(f[1]))
		res := []string{}
		for k, v := range m {
			res = append(res, k+"="+strings.Join(v, ","))
		}
		sort.Strings(res)
		return "ok\t" + escList(res)
	}
}
