package main

import (
	"os"
	"path/filepath"
	"strings"

	"github.com/roddhjav/apparmor.d/pkg/paths"
	"github.com/roddhjav/apparmor.d/pkg/prebuild"
	"github.com/roddhjav/apparmor.d/pkg/prebuild/prepare"
)

var tmpRoot string

func scratchRoot() string {
	if tmpRoot == "" {
		d, err := os.MkdirTemp("", "vharness-")
		if err != nil {
			panic(err)
		}
		tmpRoot = d
	}
	return tmpRoot
}

func init() {
	// setflags <manifest line> <text>  ->  ok <text>
	// Runs the real SetFlags task on a one-file build directory whose main.flags manifest
	// holds the given line for profile "p".
	suites["setflags"] = func(f []string) string {
		root := scratchRoot()
		defer os.RemoveAll(root)
		defer func() { tmpRoot = "" }()
		build := filepath.Join(root, "build")
		flagDir := filepath.Join(root, "flags")
		must(os.MkdirAll(filepath.Join(build, "apparmor.d"), 0o755))
		must(os.MkdirAll(flagDir, 0o755))
		must(os.WriteFile(filepath.Join(flagDir, "main.flags"), []byte(unesc(f[0])+"\n"), 0o644))
		must(os.WriteFile(filepath.Join(build, "apparmor.d", "p"), []byte(unesc(f[1])), 0o644))
		oldRoot, oldAa, oldFlag, oldDist := prebuild.Root, prebuild.RootApparmord, prebuild.FlagDir, prebuild.Distribution
		defer func() {
			prebuild.Root, prebuild.RootApparmord, prebuild.FlagDir, prebuild.Distribution = oldRoot, oldAa, oldFlag, oldDist
		}()
		prebuild.Root = paths.New(build)
		prebuild.RootApparmord = prebuild.Root.Join("apparmor.d")
		prebuild.FlagDir = paths.New(flagDir)
		prebuild.Distribution = "none"
		msg, err := prepare.Tasks["setflags"].Apply()
		if err != nil {
			return "err\tapply"
		}
		out, err := os.ReadFile(filepath.Join(build, "apparmor.d", "p"))
		if err != nil {
			return "err\tread"
		}
		nf := 0
		for _, m := range msg {
			if strings.Contains(m, "not found") {
				nf++
			}
		}
		return "ok\t" + esc(string(out)) + "\t" + b2s(nf > 0)
	}
}

func must(err error) {
	if err != nil {
		panic(err)
	}
}
