package main

import (
	"github.com/roddhjav/apparmor.d/pkg/aa"
)

func init() {
	// resolve <attachments;...> <rule> <rule> ...  ->  ok <attachments> <GetAttachments()> <rules...> | err
	suites["resolve"] = func(f []string) string {
		file := &aa.AppArmorProfileFile{Preamble: decodeRules(f[1:])}
		file.Profiles = []*aa.Profile{{Header: aa.Header{Name: "p", Attachments: sl(f[0])}}}
		if err := file.Resolve(); err != nil {
			return "err"
		}
		return "ok\t" + escListE(file.Profiles[0].Attachments) + "\t" + esc(file.Profiles[0].GetAttachments()) + "\t" + encodeRules(file.Preamble)
	}
}

func init() {
	// resolvedef <attachments;...> <rule> <rule> ...  ->  ok <attachments> <GetAttachments()> | err
	// The same, starting from aa.DefaultTunables() as the userspace builder does: the given rules come after the built-in
	// tunables, may refer to them and may append to them.  Several files are resolved one after the other in one process.
	suites["resolvedef"] = func(f []string) string {
		file := aa.DefaultTunables()
		file.Preamble = append(file.Preamble, decodeRules(f[1:])...)
		file.Profiles = []*aa.Profile{{Header: aa.Header{Name: "p", Attachments: sl(f[0])}}}
		if err := file.Resolve(); err != nil {
			return "err"
		}
		return "ok\t" + escListE(file.Profiles[0].Attachments) + "\t" + esc(file.Profiles[0].GetAttachments())
	}
}
