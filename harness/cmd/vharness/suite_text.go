package main

import (
	"reflect"
	"strings"

	"github.com/roddhjav/apparmor.d/pkg/aa"
)

// rules with their alignment paddings travel as alternating fields: <rule> <paddings;...>

func setBase(r aa.Rule, pads []string) {
	if r == nil {
		return
	}
	b := reflect.ValueOf(r).Elem().FieldByName("Base")
	if !b.IsValid() {
		return
	}
	if len(pads) > 0 {
		b.FieldByName("Paddings").Set(reflect.ValueOf(pads))
	}
	if r.Kind() == aa.COMMENT {
		b.FieldByName("IsLineRule").SetBool(true) // what the parser builds for a comment line
	}
}

func getPads(r aa.Rule) []string {
	if r == nil {
		return nil
	}
	b := reflect.ValueOf(r).Elem().FieldByName("Base")
	if !b.IsValid() {
		return nil
	}
	return b.FieldByName("Paddings").Interface().([]string)
}

func decodePadded(f []string) aa.Rules {
	rs := aa.Rules{}
	for i := 0; i < len(f); i += 2 {
		if f[i] == "" {
			continue
		}
		r := decodeRule(f[i])
		if i+1 < len(f) {
			setBase(r, sl(f[i+1]))
		} else {
			setBase(r, nil)
		}
		rs = append(rs, r)
	}
	return rs
}

func encodePadded(rs aa.Rules) string {
	out := make([]string, 0, 2*len(rs))
	for _, r := range rs {
		out = append(out, encodeRule(r), escListE(getPads(r)))
	}
	return strings.Join(out, "\t")
}

func encodeTree(t []aa.VerifKV) string {
	var sb strings.Builder
	for _, e := range t {
		sb.WriteString("<")
		sb.WriteString(esc(e.Key))
		sb.WriteString("^")
		sb.WriteString(esc(e.Comment))
		if e.HasVals {
			sb.WriteString("=")
			sb.WriteString(encodeTree(e.Values))
		}
		sb.WriteString(">")
	}
	return sb.String()
}

func init() {
	// render1 <rule> <paddings> -> ok <Rule.String()>
	suites["render1"] = func(f []string) string {
		rs := decodePadded(f)
		if len(rs) != 1 || rs[0] == nil {
			return "err\tbad-op"
		}
		return "ok\t" + esc(rs[0].String())
	}
	// render (<rule> <paddings>)* -> ok <Rules.String()>
	suites["render"] = func(f []string) string {
		aa.IndentationLevel = 0
		return "ok\t" + esc(decodePadded(f).String())
	}
	// format <rule>* -> ok (<rule> <paddings>)*   : Rules.Format()
	suites["format"] = func(f []string) string {
		rs := decodeRules(f)
		for _, r := range rs {
			setBase(r, nil)
		}
		return "ok\t" + encodePadded(rs.Format())
	}
	// msf <rule>* -> ok (<rule> <paddings>)*   : Merge, Sort, Format as aa-log and the exec directive do
	suites["msf"] = func(f []string) string {
		rs := decodeRules(f)
		for _, r := range rs {
			setBase(r, nil)
		}
		return "ok\t" + encodePadded(rs.Merge().Sort().Format())
	}
	// tokenize <inHeader> <text> -> ok <tokens;...>
	suites["tokenize"] = func(f []string) string {
		aa.VerifSetInHeader(f[0] == "1")
		defer aa.VerifSetInHeader(false)
		return "ok\t" + escListE(aa.VerifTokenize(unesc(f[1])))
	}
	// parserule <inHeader> <text> -> ok <tree>
	suites["parserule"] = func(f []string) string {
		aa.VerifSetInHeader(f[0] == "1")
		defer aa.VerifSetInHeader(false)
		return "ok\t" + encodeTree(aa.VerifParseRuleTree(unesc(f[1])))
	}
	// commarules <text> -> ok <tree> <tree> ...
	suites["commarules"] = func(f []string) string {
		aa.VerifSetInHeader(false)
		rs, err := aa.VerifParseCommaRules(unesc(f[0]))
		if err != nil {
			return "err"
		}
		out := []string{"ok"}
		for _, r := range rs {
			out = append(out, encodeTree(r))
		}
		return strings.Join(out, "\t")
	}
	// parserules <text> -> ok <rule>* [-- <rule>*]*   : aa.ParseRules, one group per paragraph
	suites["parserules"] = func(f []string) string {
		aa.VerifSetInHeader(false)
		defer aa.VerifSetInHeader(false)
		paras, _, err := aa.ParseRules(unesc(f[0]))
		if err != nil {
			return "err"
		}
		out := []string{"ok"}
		for i, p := range paras {
			if i > 0 {
				out = append(out, "--")
			}
			for _, r := range p {
				out = append(out, encodeRule(r))
			}
		}
		return strings.Join(out, "\t")
	}
	// toaccess <kind> <text> -> ok <list> | err
	suites["toaccess"] = func(f []string) string {
		v, err := aa.VerifToAccess(aa.Kind(f[0]), unesc(f[1]))
		if err != nil {
			return "err"
		}
		return "ok\t" + escListE(v)
	}
	// parsefile <text> -> ok <nb> <name> <attachments> <flags> <k=v;...> <preamble rule>* | err
	suites["parsefile"] = func(f []string) string {
		aa.VerifSetInHeader(false)
		defer aa.VerifSetInHeader(false)
		file := &aa.AppArmorProfileFile{}
		nb, err := file.Parse(unesc(f[0]))
		if err != nil {
			return "err"
		}
		name, att, flags, attrs := "", []string{}, []string{}, []string{}
		has := "0"
		if len(file.Profiles) > 0 {
			h := file.Profiles[0].Header
			has = "1"
			name, att, flags = h.Name, h.Attachments, h.Flags
			for k, v := range h.Attributes {
				attrs = append(attrs, k+"="+v)
			}
			sortStrings(attrs)
		}
		_ = nb
		return "ok\t" + has + "\t" + esc(name) + "\t" + escListE(att) + "\t" + escListE(flags) + "\t" + escListE(attrs) + "\t" + encodeRules(file.Preamble)
	}
}

func sortStrings(l []string) {
	for i := 1; i < len(l); i++ {
		for j := i; j > 0 && l[j] < l[j-1]; j-- {
			l[j], l[j-1] = l[j-1], l[j]
		}
	}
}

func init() {
	// fileroundtrip <name> <attachments;...> <flags;...> <k=v;...> <preamble rule>*
	//   -> ok <printed file> <has profile> <name> <attachments> <flags> <attrs> -- <preamble rule>*
	// AppArmorProfileFile.String() of a file with that preamble and one profile header, then Parse of the text.
	suites["fileroundtrip"] = func(f []string) string {
		aa.VerifSetInHeader(false)
		defer aa.VerifSetInHeader(false)
		aa.IndentationLevel = 0
		attrs := map[string]string{}
		for _, kv := range sl(f[3]) {
			k, v, _ := strings.Cut(kv, "=")
			attrs[k] = v
		}
		pre := decodeRules(f[4:])
		for _, r := range pre {
			setBase(r, nil)
		}
		file := &aa.AppArmorProfileFile{Preamble: pre}
		file.Profiles = []*aa.Profile{{Header: aa.Header{Name: unesc(f[0]), Attachments: sl(f[1]), Flags: sl(f[2]), Attributes: attrs}}}
		text := file.String()
		back := &aa.AppArmorProfileFile{}
		if _, err := back.Parse(text); err != nil {
			return "err\t" + esc(text)
		}
		name, att, flags, at := "", []string{}, []string{}, []string{}
		has := "0"
		if len(back.Profiles) > 0 {
			h := back.Profiles[0].Header
			has = "1"
			name, att, flags = h.Name, h.Attachments, h.Flags
			for k, v := range h.Attributes {
				at = append(at, k+"="+v)
			}
			sortStrings(at)
		}
		return "ok\t" + esc(text) + "\t" + has + "\t" + esc(name) + "\t" + escListE(att) + "\t" + escListE(flags) + "\t" + escListE(at) + "\t--\t" + encodeRules(back.Preamble)
	}
	// parsehist <file text> <rules text> -> the reply of parserules on <rules text> after Parse(<file text>) ran in the same
	// process without any reset in between (what a tool that reads tunables and then formats rules does)
	suites["parsehist"] = func(f []string) string {
		aa.VerifSetInHeader(false)
		defer aa.VerifSetInHeader(false)
		file := &aa.AppArmorProfileFile{}
		_, _ = file.Parse(unesc(f[0]))
		paras, _, err := aa.ParseRules(unesc(f[1]))
		if err != nil {
			return "err"
		}
		out := []string{"ok"}
		for i, p := range paras {
			if i > 0 {
				out = append(out, "--")
			}
			for _, r := range p {
				out = append(out, encodeRule(r))
			}
		}
		return strings.Join(out, "\t")
	}
}

func init() {
	// aahist <verb> <text>: several steps of the formatter tool in ONE process (no reset in between)
	//   parse <text> -> the reply of parserules
	//   fmt <text>   -> ok <text>: every paragraph parsed, then Merge().Sort().Format().String() as cmd/aa does
	suites["aahist"] = func(f []string) string {
		if len(f) < 2 {
			return "err\tbad-op"
		}
		if f[0] == "parse" {
			return suites["parserules"](f[1:])
		}
		aa.VerifSetInHeader(false)
		defer aa.VerifSetInHeader(false)
		paras, _, err := aa.ParseRules(unesc(f[1]))
		if err != nil {
			return "err"
		}
		var sb strings.Builder
		for _, p := range paras {
			aa.IndentationLevel = 0
			sb.WriteString(p.Merge().Sort().Format().String())
			sb.WriteString("\n")
		}
		return "ok\t" + esc(sb.String())
	}
}
