package main

import (
	"github.com/roddhjav/apparmor.d/pkg/aa"
	"github.com/roddhjav/apparmor.d/pkg/logs"
	"github.com/roddhjav/apparmor.d/pkg/prebuild"
	"github.com/roddhjav/apparmor.d/pkg/prebuild/builder"
	"github.com/roddhjav/apparmor.d/pkg/prebuild/directive"
	"github.com/roddhjav/apparmor.d/pkg/prebuild/prepare"
	"github.com/roddhjav/apparmor.d/pkg/util"
)

type allTables struct {
	Aa        aa.VerifTablesT
	Regex     map[string]map[string][][2]string
	Dists     map[string][]string
	Families  map[string][]string
	Tunables  [][]string // name, values...
	Builders  []string
	BuilderMsg map[string]string
	TaskMsg   map[string]string
	Tasks     []string
	Directive []string
	Hex       []byte
}

func tables() allTables {
	d, f := prebuild.VerifDists()
	t := allTables{
		Aa: aa.VerifTables(),
		Regex: map[string]map[string][][2]string{
			"builder":   builder.VerifRegex(),
			"directive": directive.VerifRegex(),
			"prepare":   prepare.VerifRegex(),
			"util":      util.VerifRegex(),
			"logs":      logs.VerifRegex(),
		},
		Dists:    d,
		Families: f,
	}
	for _, v := range aa.DefaultTunables().Preamble.GetVariables() {
		t.Tunables = append(t.Tunables, append([]string{v.Name}, v.Values...))
	}
	t.BuilderMsg = map[string]string{}
	t.TaskMsg = map[string]string{}
	for k, b := range builder.Builders {
		t.Builders = append(t.Builders, k)
		t.BuilderMsg[k] = b.Message()
	}
	for k, b := range prepare.Tasks {
		t.Tasks = append(t.Tasks, k)
		t.TaskMsg[k] = b.Message()
	}
	for k := range directive.Directives {
		t.Directive = append(t.Directive, k)
	}
	// the harness itself ranges over registries kept in maps: sort what it collected
	sortStrings(t.Builders)
	sortStrings(t.Tasks)
	sortStrings(t.Directive)
	return t
}
