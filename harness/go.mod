module verif/harness

go 1.23.0

require github.com/roddhjav/apparmor.d v0.0.0

replace github.com/roddhjav/apparmor.d => /repo
