import AaVerif.Str
