import AaVerif.Aa.Rule
/-!
# Aa.Cmp — model of `compare` (pkg/aa/util.go) and of every `Rule.Compare`

Strings are compared after ASCII lower-casing, at the first differing byte by the weight of
the byte in `stringAlphabet` (0 for a byte outside it), then by length.
-/
namespace Aa

structure Tables where
  stringAlphabet : List Char
  fileAlphabet : List (List Char)
  fileGroups : List (List Char × List Char)
  ruleAlphabet : List String
  requirements : List (String × List (String × List (List Char)))
  /-- kinds present in `requirementsWeights` (computed in an `init` that runs before the files sorting after
  template.go have registered their requirements) -/
  weightKinds : List String
deriving Repr

def lowerC (c : Char) : Char :=
  if 'A' ≤ c ∧ c ≤ 'Z' then Char.ofNat (c.toNat + 32) else c

def lower (s : List Char) : List Char := s.map lowerC

/-- weight = index in the alphabet, 0 when absent (Go map default).  With a duplicate-free
alphabet (checked on the regenerated table) first and last index coincide. -/
def weight {α : Type} [DecidableEq α] (al : List α) (c : α) : Int :=
  if c ∈ al then (al.idxOf c : Nat) else 0

/-- comparison of two already lower-cased strings -/
def cmpLow (al : List Char) : List Char → List Char → Int
  | [], [] => 0
  | [], y :: ys => -((y :: ys).length : Int)
  | x :: xs, [] => ((x :: xs).length : Int)
  | x :: xs, y :: ys => if x = y then cmpLow al xs ys else weight al x - weight al y

def cmpStr (al : List Char) (a b : List Char) : Int := cmpLow al (lower a) (lower b)

/-- `slices.CompareFunc` with `cmpStr` -/
def cmpList (al : List Char) : List (List Char) → List (List Char) → Int
  | [], [] => 0
  | [], _ :: _ => -1
  | _ :: _, [] => 1
  | x :: xs, y :: ys => if cmpStr al x y ≠ 0 then cmpStr al x y else cmpList al xs ys

def b2i (b : Bool) : Int := if b then 1 else 0
def cmpBool (a b : Bool) : Int := b2i a - b2i b

/-- comparison of two fields of the same type (fields of different types never meet) -/
def cmpFld (al : List Char) : Fld → Fld → Int
  | .s a, .s b => cmpStr al a b
  | .l a, .l b => cmpList al a b
  | .b a, .b b => cmpBool a b
  | _, _ => 0

/-- lexicographic comparison of two key lists -/
def cmpFlds (al : List Char) : List Fld → List Fld → Int
  | x :: xs, y :: ys => if cmpFld al x y ≠ 0 then cmpFld al x y else cmpFlds al xs ys
  | _, _ => 0

/-! ## Schema of `Compare` per kind -/

structure CmpSchema where
  hasQ : Bool
  order : List Nat

def cmpSchema : String → CmpSchema
  | "capability" => ⟨true, [0]⟩
  | "network" => ⟨true, [3, 4, 5, 0, 1, 2]⟩
  | "mount" => ⟨true, [2, 3, 0, 1]⟩
  | "umount" => ⟨true, [2, 0, 1]⟩
  | "remount" => ⟨true, [2, 0, 1]⟩
  | "pivot_root" => ⟨true, [0, 1, 2]⟩
  | "change_profile" => ⟨true, [0, 1, 2]⟩
  | "mqueue" => ⟨true, [0, 1, 2, 3]⟩
  | "io_uring" => ⟨true, [0, 1]⟩
  | "signal" => ⟨true, [0, 1, 2]⟩
  | "ptrace" => ⟨true, [0, 1]⟩
  | "unix" => ⟨true, [0, 1, 2, 3, 4, 5, 6, 7, 8]⟩
  | "dbus" => ⟨true, [0, 1, 2, 3, 4, 5, 6, 7]⟩
  | "rlimit" => ⟨false, [0, 1, 2]⟩
  | "userns" => ⟨true, [0]⟩
  | "all" => ⟨false, []⟩
  | "file" => ⟨true, [0, 1, 2, 3]⟩
  | "link" => ⟨true, [0, 2, 3, 1]⟩
  | "comment" => ⟨false, []⟩
  | "abi" => ⟨false, [0, 1]⟩
  | "alias" => ⟨false, [0, 1]⟩
  | "include" => ⟨false, [1, 2, 0]⟩
  | "variable" => ⟨false, [0, 2, 1]⟩
  | "hat" => ⟨false, [0]⟩
  | "profile" => ⟨false, [0, 1]⟩
  | _ => ⟨false, []⟩

/-- the list of keys `Compare` looks at, in order (the qualifier last) -/
def keyList (r : Rule) : List Fld :=
  let sc := cmpSchema r.kind
  sc.order.map r.fld ++ (if sc.hasQ then [.b r.audit, .s r.accessType] else [])

/-- `getLetterIn(fileAlphabet, path)` -/
def letterIn (fa : List (List Char)) (p : List Char) : List Char :=
  match fa.find? (fun l => l.isPrefixOf p) with
  | some l => l
  | none => []

def basePath : List Char := "abstractions/base".toList

/-- `Rule.Compare` for two rules of the same kind -/
def compareRule (T : Tables) (r o : Rule) : Int :=
  if r.kind == "file" then
    let lr := letterIn T.fileAlphabet (r.fld 1).str
    let lo := letterIn T.fileAlphabet (o.fld 1).str
    if weight T.fileAlphabet lr ≠ weight T.fileAlphabet lo ∧ lr ≠ [] ∧ lo ≠ [] then
      weight T.fileAlphabet lr - weight T.fileAlphabet lo
    else cmpFlds T.stringAlphabet (keyList r) (keyList o)
  else if r.kind == "include" then
    let c := cmpStr T.stringAlphabet (r.fld 1).str (o.fld 1).str
    if c ≠ 0 then
      if (r.fld 1).str = basePath then -1
      else if (o.fld 1).str = basePath then 1
      else c
    else cmpFlds T.stringAlphabet (keyList r) (keyList o)
  else cmpFlds T.stringAlphabet (keyList r) (keyList o)

/-- kind used by `Rules.Sort` (`include if exists` sorts last) -/
def sortKind (r : Rule) : String :=
  if r.kind == "include" && (r.fld 0).bool then "include_if_exists" else r.kind

/-- comparator of `Rules.Sort` -/
def sortCmp (T : Tables) (a b : Rule) : Int :=
  if a.kind ≠ b.kind then weight T.ruleAlphabet (sortKind a) - weight T.ruleAlphabet (sortKind b)
  else compareRule T a b

/-- stable insertion sort (the reference for `slices.SortFunc` on inputs without ties) -/
def insertBy {α : Type} (cmp : α → α → Int) (x : α) : List α → List α
  | [] => [x]
  | y :: ys => if cmp x y ≤ 0 then x :: y :: ys else y :: insertBy cmp x ys

def sortBy {α : Type} (cmp : α → α → Int) : List α → List α
  | [] => []
  | x :: xs => insertBy cmp x (sortBy cmp xs)

/-! ## Order theory of the string comparison -/

/-- strings over the alphabet (hence lower case: the alphabet holds no upper-case letter) -/
def Canon (al : List Char) (s : List Char) : Prop := ∀ c ∈ s, c ∈ al

theorem weight_inj {α : Type} [DecidableEq α] {al : List α} {x y : α} (hx : x ∈ al) (hy : y ∈ al)
    (h : weight al x = weight al y) : x = y := by
  unfold weight at h
  simp only [hx, hy, if_true] at h
  have : al.idxOf x = al.idxOf y := by exact_mod_cast h
  have h1 := List.getElem_idxOf (List.idxOf_lt_length_of_mem hx)
  have h2 := List.getElem_idxOf (List.idxOf_lt_length_of_mem hy)
  simp only [this] at h1
  rw [← h1, h2]

theorem cmpLow_eq_zero {al : List Char} : ∀ {a b : List Char}, Canon al a → Canon al b →
    cmpLow al a b = 0 → a = b
  | [], [], _, _, _ => rfl
  | [], y :: ys, _, _, h => by simp [cmpLow] at h; omega
  | x :: xs, [], _, _, h => by simp [cmpLow] at h; omega
  | x :: xs, y :: ys, ha, hb, h => by
    simp only [cmpLow] at h
    split at h
    · rename_i hxy
      subst hxy
      have := cmpLow_eq_zero (a := xs) (b := ys) (fun c hc => ha c (by simp [hc]))
        (fun c hc => hb c (by simp [hc])) h
      rw [this]
    · rename_i hxy
      exact absurd (weight_inj (ha x (by simp)) (hb y (by simp)) (by omega)) hxy

theorem cmpLow_refl (al : List Char) : ∀ a, cmpLow al a a = 0
  | [] => rfl
  | x :: xs => by simp [cmpLow, cmpLow_refl al xs]

theorem cmpLow_antisymm (al : List Char) : ∀ (a b : List Char), cmpLow al a b = - cmpLow al b a
  | [], [] => by simp [cmpLow]
  | [], y :: ys => by simp [cmpLow]
  | x :: xs, [] => by simp [cmpLow]
  | x :: xs, y :: ys => by
    simp only [cmpLow]
    by_cases h : x = y
    · subst h; simp [cmpLow_antisymm al xs ys]
    · have h' : ¬ y = x := fun e => h e.symm
      simp only [h, h', if_false]; omega

theorem cmpLow_trans {al : List Char} : ∀ {a b c : List Char}, Canon al a → Canon al b → Canon al c →
    cmpLow al a b ≤ 0 → cmpLow al b c ≤ 0 → cmpLow al a c ≤ 0
  | [], _, [], _, _, _, _, _ => by simp [cmpLow]
  | [], _, z :: zs, _, _, _, _, _ => by simp [cmpLow]; omega
  | x :: xs, [], _, _, _, _, h1, _ => by simp [cmpLow] at h1; omega
  | x :: xs, y :: ys, [], _, _, _, _, h2 => by simp [cmpLow] at h2; omega
  | x :: xs, y :: ys, z :: zs, ha, hb, hc, h1, h2 => by
    have hxs : Canon al xs := fun c h => ha c (by simp [h])
    have hys : Canon al ys := fun c h => hb c (by simp [h])
    have hzs : Canon al zs := fun c h => hc c (by simp [h])
    have mx := ha x (by simp); have my := hb y (by simp); have mz := hc z (by simp)
    simp only [cmpLow] at h1 h2 ⊢
    by_cases hxy : x = y
    · subst hxy
      simp only [if_true] at h1
      by_cases hyz : x = z
      · subst hyz
        simp only [if_true] at h2 ⊢
        exact cmpLow_trans hxs hys hzs h1 h2
      · simp only [hyz, if_false] at h2 ⊢
        exact h2
    · simp only [hxy, if_false] at h1
      by_cases hyz : y = z
      · subst hyz
        simp only [hxy, if_false]
        exact h1
      · simp only [hyz, if_false] at h2
        by_cases hxz : x = z
        · subst hxz
          have : weight al x ≠ weight al y := fun e => hxy (weight_inj mx my e)
          omega
        · simp only [hxz, if_false]; omega

/-! ### A small theory of comparators on a domain -/

/-- `c` is a total preorder on `D` in which only identical elements compare equal -/
structure IsOrd {α : Type} (D : α → Prop) (c : α → α → Int) : Prop where
  antisymm : ∀ a b, c a b = - c b a
  trans : ∀ a b x, D a → D b → D x → c a b ≤ 0 → c b x ≤ 0 → c a x ≤ 0
  eq_of_zero : ∀ a b, D a → D b → c a b = 0 → a = b

theorem IsOrd.refl {α : Type} {D : α → Prop} {c : α → α → Int} (h : IsOrd D c) (a : α) : c a a = 0 := by
  have := h.antisymm a a; omega

/-- strictness propagates: `a < b ≤ x → a < x` -/
theorem IsOrd.lt_of_lt_of_le {α : Type} {D : α → Prop} {c : α → α → Int} (h : IsOrd D c)
    {a b x : α} (ha : D a) (hb : D b) (hx : D x) (h1 : c a b < 0) (h2 : c b x ≤ 0) : c a x < 0 := by
  apply Classical.byContradiction
  intro hn
  have hxa : c x a ≤ 0 := by have := h.antisymm a x; omega
  have hxb : c x b ≤ 0 := h.trans x a b hx ha hb hxa (by omega)
  have hbx0 : c b x = 0 := by have := h.antisymm b x; omega
  have := h.eq_of_zero b x hb hx hbx0
  subst this
  omega

theorem IsOrd.lt_of_le_of_lt {α : Type} {D : α → Prop} {c : α → α → Int} (h : IsOrd D c)
    {a b x : α} (ha : D a) (hb : D b) (hx : D x) (h1 : c a b ≤ 0) (h2 : c b x < 0) : c a x < 0 := by
  apply Classical.byContradiction
  intro hn
  have hxa : c x a ≤ 0 := by have := h.antisymm a x; omega
  have hxb : c x b ≤ 0 := h.trans x a b hx ha hb hxa h1
  have := h.antisymm b x
  omega

/-- strings whose lower-case form is over the alphabet -/
def CanonL (al : List Char) (s : List Char) : Prop := Canon al (lower s)

theorem cmpStr_antisymm (al : List Char) (a b : List Char) : cmpStr al a b = - cmpStr al b a :=
  cmpLow_antisymm al _ _

theorem cmpStr_trans {al : List Char} {a b c : List Char} (ha : CanonL al a) (hb : CanonL al b)
    (hc : CanonL al c) : cmpStr al a b ≤ 0 → cmpStr al b c ≤ 0 → cmpStr al a c ≤ 0 :=
  cmpLow_trans ha hb hc

/-- equal under `compare` means equal up to letter case -/
theorem cmpStr_eq_zero {al : List Char} {a b : List Char} (ha : CanonL al a) (hb : CanonL al b)
    (h : cmpStr al a b = 0) : lower a = lower b :=
  cmpLow_eq_zero ha hb h

theorem lower_of_canon {al : List Char} (hal : ∀ c ∈ al, lowerC c = c) {s : List Char}
    (h : Canon al s) : lower s = s := by
  unfold lower
  induction s with
  | nil => rfl
  | cons c cs ih =>
    simp only [List.map_cons]
    rw [hal c (h c (by simp)), ih (fun x hx => h x (by simp [hx]))]

/-- on strings over the alphabet, `compare` is a total preorder with identity -/
theorem cmpStr_isOrd {al : List Char} (hal : ∀ c ∈ al, lowerC c = c) : IsOrd (Canon al) (cmpStr al) where
  antisymm := cmpStr_antisymm al
  trans := fun a b x ha hb hx => by
    have e1 := lower_of_canon hal ha; have e2 := lower_of_canon hal hb; have e3 := lower_of_canon hal hx
    exact cmpStr_trans (a := a) (b := b) (c := x) (by unfold CanonL; rwa [e1]) (by unfold CanonL; rwa [e2])
      (by unfold CanonL; rwa [e3])
  eq_of_zero := fun a b ha hb h => by
    have e1 := lower_of_canon hal ha; have e2 := lower_of_canon hal hb
    have := cmpStr_eq_zero (a := a) (b := b) (by unfold CanonL; rwa [e1]) (by unfold CanonL; rwa [e2]) h
    rwa [e1, e2] at this

/-! ### Lists of strings -/

theorem cmpList_isOrd {al : List Char} (hal : ∀ c ∈ al, lowerC c = c) :
    IsOrd (fun l : List (List Char) => ∀ s ∈ l, Canon al s) (cmpList al) where
  antisymm := by
    intro a
    induction a with
    | nil => intro b; cases b <;> simp [cmpList]
    | cons x xs ih =>
      intro b
      cases b with
      | nil => simp [cmpList]
      | cons y ys =>
        simp only [cmpList]
        have := cmpStr_antisymm al x y
        by_cases h : cmpStr al x y = 0
        · have h' : cmpStr al y x = 0 := by omega
          simp [h, h', ih ys]
        · have h' : cmpStr al y x ≠ 0 := by omega
          simp [h, h']; omega
  trans := by
    have S := cmpStr_isOrd hal
    intro a
    induction a with
    | nil =>
      intro b x _ _ _ _ _
      cases x <;> simp [cmpList]
    | cons p ps ih =>
      intro b x ha hb hx h1 h2
      cases b with
      | nil => simp [cmpList] at h1
      | cons q qs =>
        cases x with
        | nil => simp [cmpList] at h2
        | cons r rs =>
          have hp := ha p (by simp); have hq := hb q (by simp); have hr := hx r (by simp)
          simp only [cmpList] at h1 h2 ⊢
          by_cases e1 : cmpStr al p q = 0
          · have := S.eq_of_zero p q hp hq e1
            subst this
            simp only [e1, ne_eq, not_true_eq_false, if_false] at h1
            by_cases e2 : cmpStr al p r = 0
            · simp only [e2, ne_eq, not_true_eq_false, if_false] at h2 ⊢
              exact ih qs rs (fun s hs => ha s (by simp [hs])) (fun s hs => hb s (by simp [hs]))
                (fun s hs => hx s (by simp [hs])) h1 h2
            · simp only [e2, ne_eq, not_false_eq_true, if_true] at h2 ⊢
              exact h2
          · simp only [e1, ne_eq, not_false_eq_true, if_true] at h1
            have hlt : cmpStr al p q < 0 := by omega
            by_cases e2 : cmpStr al q r = 0
            · have := S.eq_of_zero q r hq hr e2
              subst this
              simp only [e1, ne_eq, not_false_eq_true, if_true]
              exact h1
            · simp only [e2, ne_eq, not_false_eq_true, if_true] at h2
              have := S.lt_of_lt_of_le hp hq hr hlt h2
              have hne : cmpStr al p r ≠ 0 := by omega
              simp only [hne, ne_eq, not_false_eq_true, if_true]
              omega
  eq_of_zero := by
    have S := cmpStr_isOrd hal
    intro a
    induction a with
    | nil => intro b _ _ h; cases b with
      | nil => rfl
      | cons y ys => simp [cmpList] at h
    | cons p ps ih =>
      intro b ha hb h
      cases b with
      | nil => simp [cmpList] at h
      | cons q qs =>
        simp only [cmpList] at h
        by_cases e1 : cmpStr al p q = 0
        · simp only [e1, ne_eq, not_true_eq_false, if_false] at h
          have := S.eq_of_zero p q (ha p (by simp)) (hb q (by simp)) e1
          subst this
          rw [ih qs (fun s hs => ha s (by simp [hs])) (fun s hs => hb s (by simp [hs])) h]
        · simp [e1] at h

theorem cmpBool_isOrd : IsOrd (fun _ : Bool => True) cmpBool where
  antisymm := by intro a b; cases a <;> cases b <;> simp [cmpBool, b2i]
  trans := by intro a b x _ _ _; cases a <;> cases b <;> cases x <;> simp [cmpBool, b2i]
  eq_of_zero := by intro a b _ _; cases a <;> cases b <;> simp [cmpBool, b2i]

/-! ### Fields and key lists -/

/-- canonical field: every string over the alphabet -/
def CanonFld (al : List Char) : Fld → Prop
  | .s v => Canon al v
  | .l v => ∀ s ∈ v, Canon al s
  | .b _ => True

instance (al : List Char) (s : List Char) : Decidable (Canon al s) := by unfold Canon; infer_instance

instance (al : List Char) (f : Fld) : Decidable (CanonFld al f) := by
  cases f <;> unfold CanonFld <;> infer_instance

/-- two fields have the same type -/
def sameShape : Fld → Fld → Prop
  | .s _, .s _ => True
  | .l _, .l _ => True
  | .b _, .b _ => True
  | _, _ => False

def shapeOf : Fld → Nat
  | .s _ => 0
  | .l _ => 1
  | .b _ => 2

/-- key lists of a given shape with canonical fields -/
def CanonKeys (al : List Char) (sh : List Nat) (k : List Fld) : Prop :=
  k.map shapeOf = sh ∧ ∀ f ∈ k, CanonFld al f

instance (al : List Char) (sh : List Nat) (k : List Fld) : Decidable (CanonKeys al sh k) := by
  unfold CanonKeys; infer_instance

theorem cmpFlds_isOrd {al : List Char} (hal : ∀ c ∈ al, lowerC c = c) (sh : List Nat) :
    IsOrd (CanonKeys al sh) (cmpFlds al) := by
  have S := cmpStr_isOrd hal
  have L := cmpList_isOrd hal
  have B := cmpBool_isOrd
  -- per-field facts for fields of equal shape
  have fanti : ∀ x y : Fld, cmpFld al x y = - cmpFld al y x := by
    intro x y
    cases x <;> cases y <;> simp [cmpFld]
    · exact S.antisymm _ _
    · exact L.antisymm _ _
    · exact B.antisymm _ _
  have fzero : ∀ x y : Fld, shapeOf x = shapeOf y → CanonFld al x → CanonFld al y →
      cmpFld al x y = 0 → x = y := by
    intro x y hs hx hy h
    cases x <;> cases y <;> simp [shapeOf] at hs
    · simp only [cmpFld] at h; rw [S.eq_of_zero _ _ hx hy h]
    · simp only [cmpFld] at h; rw [L.eq_of_zero _ _ hx hy h]
    · simp only [cmpFld] at h; rw [B.eq_of_zero _ _ trivial trivial h]
  have ftrans : ∀ x y z : Fld, shapeOf x = shapeOf y → shapeOf y = shapeOf z →
      CanonFld al x → CanonFld al y → CanonFld al z →
      cmpFld al x y ≤ 0 → cmpFld al y z ≤ 0 → cmpFld al x z ≤ 0 := by
    intro x y z h1 h2 hx hy hz
    cases x <;> cases y <;> simp [shapeOf] at h1 <;> cases z <;> simp [shapeOf] at h2
    · exact S.trans _ _ _ hx hy hz
    · exact L.trans _ _ _ hx hy hz
    · exact B.trans _ _ _ trivial trivial trivial
  have flt : ∀ x y z : Fld, shapeOf x = shapeOf y → shapeOf y = shapeOf z →
      CanonFld al x → CanonFld al y → CanonFld al z →
      cmpFld al x y < 0 → cmpFld al y z ≤ 0 → cmpFld al x z < 0 := by
    intro x y z h1 h2 hx hy hz a1 a2
    apply Classical.byContradiction
    intro hn
    have hzx : cmpFld al z x ≤ 0 := by have := fanti x z; omega
    have hzy : cmpFld al z y ≤ 0 := ftrans z x y (by omega) h1 hz hx hy hzx (by omega)
    have hyz0 : cmpFld al y z = 0 := by have := fanti y z; omega
    have := fzero y z h2 hy hz hyz0
    subst this
    omega
  refine ⟨?_, ?_, ?_⟩
  · intro a
    induction a with
    | nil => intro b; cases b <;> simp [cmpFlds]
    | cons x xs ih =>
      intro b
      cases b with
      | nil => simp [cmpFlds]
      | cons y ys =>
        simp only [cmpFlds]
        have := fanti x y
        by_cases h : cmpFld al x y = 0
        · have h' : cmpFld al y x = 0 := by omega
          simp [h, h', ih ys]
        · have h' : cmpFld al y x ≠ 0 := by omega
          simp [h, h']; omega
  · intro a
    induction a generalizing sh with
    | nil => intro b x _ _ _ _ _; simp [cmpFlds]
    | cons p ps ih =>
      intro b x ha hb hx h1 h2
      cases b with
      | nil => have e1 := ha.1; have e2 := hb.1; rw [← e1] at e2; simp at e2
      | cons q qs =>
        cases x with
        | nil => have e1 := ha.1; have e2 := hx.1; rw [← e1] at e2; simp at e2
        | cons r rs =>
          obtain ⟨sa, ca⟩ := ha; obtain ⟨sb, cb⟩ := hb; obtain ⟨sx, cx⟩ := hx
          cases sh with
          | nil => simp at sa
          | cons s0 sh' =>
            simp only [List.map_cons, List.cons.injEq] at sa sb sx
            have spq : shapeOf p = shapeOf q := by rw [sa.1, sb.1]
            have sqr : shapeOf q = shapeOf r := by rw [sb.1, sx.1]
            have hp := ca p (by simp); have hq := cb q (by simp); have hr := cx r (by simp)
            simp only [cmpFlds] at h1 h2 ⊢
            by_cases e1 : cmpFld al p q = 0
            · have := fzero p q spq hp hq e1
              subst this
              simp only [e1, ne_eq, not_true_eq_false, if_false] at h1
              by_cases e2 : cmpFld al p r = 0
              · simp only [e2, ne_eq, not_true_eq_false, if_false] at h2 ⊢
                exact ih sh' qs rs ⟨sa.2, fun f hf => ca f (by simp [hf])⟩
                  ⟨sb.2, fun f hf => cb f (by simp [hf])⟩ ⟨sx.2, fun f hf => cx f (by simp [hf])⟩ h1 h2
              · simp only [e2, ne_eq, not_false_eq_true, if_true] at h2 ⊢
                exact h2
            · simp only [e1, ne_eq, not_false_eq_true, if_true] at h1
              have hlt : cmpFld al p q < 0 := by omega
              by_cases e2 : cmpFld al q r = 0
              · have := fzero q r sqr hq hr e2
                subst this
                simp only [e1, ne_eq, not_false_eq_true, if_true]
                exact h1
              · simp only [e2, ne_eq, not_false_eq_true, if_true] at h2
                have := flt p q r spq sqr hp hq hr hlt h2
                have hne : cmpFld al p r ≠ 0 := by omega
                simp only [hne, ne_eq, not_false_eq_true, if_true]
                omega
  · intro a
    induction a generalizing sh with
    | nil =>
      intro b ha hb _
      cases b with
      | nil => rfl
      | cons y ys => have e1 := ha.1; have e2 := hb.1; rw [← e1] at e2; simp at e2
    | cons p ps ih =>
      intro b ha hb h
      cases b with
      | nil => have e1 := ha.1; have e2 := hb.1; rw [← e1] at e2; simp at e2
      | cons q qs =>
        obtain ⟨sa, ca⟩ := ha; obtain ⟨sb, cb⟩ := hb
        cases sh with
        | nil => simp at sa
        | cons s0 sh' =>
          simp only [List.map_cons, List.cons.injEq] at sa sb
          have spq : shapeOf p = shapeOf q := by rw [sa.1, sb.1]
          simp only [cmpFlds] at h
          by_cases e1 : cmpFld al p q = 0
          · simp only [e1, ne_eq, not_true_eq_false, if_false] at h
            have := fzero p q spq (ca p (by simp)) (cb q (by simp)) e1
            subst this
            rw [ih sh' qs ⟨sa.2, fun f hf => ca f (by simp [hf])⟩ ⟨sb.2, fun f hf => cb f (by simp [hf])⟩ h]
          · simp [e1] at h

end Aa
