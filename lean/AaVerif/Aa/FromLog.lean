import AaVerif.Aa.Merge
/-!
# Aa.FromLog — model of `Profile.AddRule` and of every `new<Kind>FromLog` (pkg/aa)

A log record is an association list key ↦ value (as produced by `logs.New`).  A constructor
that panics in Go (`Must(toValues …)`, `newFileFromLog`) returns `none`.
-/
namespace Aa

abbrev Log := List (List Char × List Char)

def Log.get (l : Log) (k : String) : List Char :=
  match l.find? (fun p => p.1 == k.toList) with
  | some (_, v) => v
  | none => []

def Log.has (l : Log) (k : String) : Bool := l.any (fun p => p.1 == k.toList)

def isInfixC (p t : List Char) : Bool :=
  match t with
  | [] => p.isEmpty
  | c :: cs => p.isPrefixOf (c :: cs) || isInfixC p cs

/-- `IsOwner` -/
def isOwner (l : Log) : Bool :=
  l.has "fsuid" && l.has "ouid" && l.get "fsuid" == l.get "ouid" && l.get "ouid" != ['0'] &&
    !isInfixC "dbus".toList (l.get "operation")

structure BaseQ where
  audit : Bool
  comment : List Char
  noNewPrivs : Bool
  fileInherit : Bool
  optional : Bool

/-- `newBaseFromLog` + `newQualifierFromLog` -/
def baseFromLog (l : Log) : BaseQ :=
  let info := l.get "info"
  let fi := l.get "operation" == "file_inherit".toList
  let e1 := l.get "error" == "-1".toList
  let opt := e1 && isInfixC "optional:".toList info
  let nnp := e1 && !opt
  let c0 : List Char := if opt then replaceFirstLit "optional: ".toList [] info else []
  let c := if info.isEmpty then c0 else c0 ++ ' ' :: info
  { audit := l.get "apparmor" == "AUDIT".toList, comment := c, noNewPrivs := nnp, fileInherit := fi, optional := opt }
where
  replaceFirstLit (p r : List Char) : List Char → List Char
    | [] => []
    | c :: cs => if p.isPrefixOf (c :: cs) && !p.isEmpty then r ++ (c :: cs).drop p.length else c :: replaceFirstLit p r cs

def mkRule (kind : String) (l : Log) (flds : List Fld) : Rule :=
  let b := baseFromLog l
  { kind := kind, audit := b.audit, accessType := [], comment := b.comment, noNewPrivs := b.noNewPrivs,
    fileInherit := b.fileInherit, optional := b.optional, flds := flds }

def splitOn (sep : Char) (s : List Char) : List (List Char) :=
  let rec go (cur : List Char) (acc : List (List Char)) : List Char → List (List Char)
    | [] => (cur.reverse :: acc).reverse
    | c :: cs => if c == sep then go [] (cur.reverse :: acc) cs else go (c :: cur) acc cs
  go [] [] s

def trimChars (cs : List Char) (s : List Char) : List Char :=
  ((s.dropWhile cs.contains).reverse.dropWhile cs.contains).reverse

/-- `tokenToSlice` -/
def tokenToSlice (t : List Char) : List (List Char) :=
  let t := trimChars ['(', ')', '\n'] t
  if t.contains ',' then (splitOn ',' t).map (trimChars [' '])
  else if t.contains ' ' then (splitOn ' ' t).map (trimChars [' '])
  else [t]

/-- `toValues`; `none` = error (the callers `Must` it, i.e. panic).  Empty elements are dropped. -/
def toValues (T : Tables) (kind key : String) (input : List Char) : Option (List (List Char)) :=
  let req := reqValues T kind key
  if !(T.requirements.any (fun p => p.1 == kind && p.2.any (fun q => q.1 == key))) then none else
  let res := ((tokenToSlice input).map (trimChars ['"', ' '])).filter (fun x => !x.isEmpty)
  if res.all req.contains then
    let w := if T.weightKinds.contains kind then req else []
    some (compact (sortBy (fun x y => weight w x - weight w y) res))
  else none

/-- `toAccess("file-log", mask)` -/
def toAccessFileLog (T : Tables) (mask2acc : List (List Char × List Char)) (mask : List Char) : Option (List (List Char)) :=
  let acc := reqValues T "file" "access"
  let conv := mask.map (fun c =>
    if acc.contains [c] then some [c]
    else match mask2acc.find? (fun p => p.1 == [c]) with
      | some (_, v) => if v.isEmpty then none else some v
      | none => none)
  if conv.all Option.isSome then
    some (compact (sortBy (cmpFileAccess T) (conv.filterMap id)))
  else none

def fileFromLog (T : Tables) (m2a : List (List Char × List Char)) (l : Log) : Option Rule :=
  match toAccessFileLog T m2a (l.get "requested_mask") with
  | none => none
  | some acc =>
    if acc == [['l']] then
      some (mkRule "link" l [.b (isOwner l), .b false, .s (l.get "name"), .s (l.get "target")])
    else some (mkRule "file" l [.b (isOwner l), .s (l.get "name"), .l acc, .s (l.get "target")])

def mountConds (T : Tables) (l : Log) : Option (List Fld) :=
  if l.has "flags" then (toValues T "mount" "flags" (l.get "flags")).map (fun o => [.s (l.get "fstype"), .l o])
  else some [.s (l.get "fstype"), .l []]

def accOf (T : Tables) (l : Log) (kind field : String) : Option (List (List Char)) :=
  toValues T kind "access" (l.get field)

def rlimitFromLog (l : Log) : Rule :=
  { (mkRule "rlimit" l [.s (l.get "rlimit"), .s "<=".toList, .s (l.get "value")]) with audit := false }
def usernsFromLog (l : Log) : Rule := mkRule "userns" l [.b true]
def capabilityFromLog (T : Tables) (l : Log) : Option Rule :=
  (toValues T "capability" "name" (l.get "capname")).map (fun n => mkRule "capability" l [.l n])
def networkFromLog (l : Log) : Rule :=
  mkRule "network" l [.s (l.get "laddr"), .s (l.get "faddr"), .s (l.get "lport"),
    .s (l.get "family"), .s (l.get "sock_type"), .s (l.get "protocol")]
def unixFromLog (T : Tables) (l : Log) : Option Rule :=
  (accOf T l "unix" "requested_mask").map (fun a => mkRule "unix" l [.l a, .s (l.get "sock_type"), .s (l.get "protocol"),
    .s (l.get "addr"), .s (l.get "label"), .s (l.get "attr"), .s (l.get "opt"), .s (l.get "peer"), .s (l.get "peer_addr")])
def mqueueFromLog (T : Tables) (l : Log) : Option Rule :=
  let ty := if isInfixC "posix".toList (l.get "class") then "posix" else if isInfixC "sysv".toList (l.get "class") then "sysv" else "posix"
  (accOf T l "mqueue" "requested").map (fun a => mkRule "mqueue" l [.l a, .s ty.toList, .s (l.get "label"), .s (l.get "name")])
def signalFromLog (T : Tables) (l : Log) : Option Rule :=
  (accOf T l "signal" "requested_mask").map (fun a => mkRule "signal" l [.l a, .l [l.get "signal"], .s (l.get "peer")])
def ptraceFromLog (T : Tables) (l : Log) : Option Rule :=
  (accOf T l "ptrace" "requested_mask").map (fun a => mkRule "ptrace" l [.l a, .s (l.get "peer")])
def iouringFromLog (T : Tables) (l : Log) : Option Rule :=
  (accOf T l "io_uring" "requested").map (fun a => mkRule "io_uring" l [.l a, .s (l.get "label")])
def dbusFromLog (l : Log) : Rule :=
  let bind := l.get "mask" == "bind".toList
  mkRule "dbus" l [.l [l.get "mask"], .s (l.get "bus"), .s (if bind then l.get "name" else []), .s (l.get "path"),
    .s (l.get "interface"), .s (l.get "member"), .s (if bind then [] else l.get "name"), .s (l.get "peer_label")]
def mountClassFromLog (T : Tables) (l : Log) : Option Rule :=
  if isInfixC "remount".toList (l.get "flags") then (mountConds T l).map (fun mc => mkRule "remount" l (mc ++ [.s (l.get "name")]))
  else
    let op := String.ofList (l.get "operation")
    if op == "mount" then (mountConds T l).map (fun mc => mkRule "mount" l (mc ++ [.s (l.get "srcname"), .s (l.get "name")]))
    else if op == "umount" then (mountConds T l).map (fun mc => mkRule "umount" l (mc ++ [.s (l.get "name")]))
    else if op == "remount" then (mountConds T l).map (fun mc => mkRule "remount" l (mc ++ [.s (l.get "name")]))
    else if op == "pivotroot" then some (mkRule "pivot_root" l [.s (l.get "srcname"), .s (l.get "name"), .s []])
    else none      -- nil function: panic
def changeProfileFromLog (l : Log) : Rule :=
  mkRule "change_profile" l [.s (l.get "mode"), .s (l.get "exec"), .s (l.get "target")]

/-- `newLogMap[value]`: outer `none` = the value is not a key of the map; inner `none` = panic -/
def ruleFromLogClass (T : Tables) (m2a : List (List Char × List Char)) (l : Log) (cls : List Char) : Option (Option Rule) :=
  let c := String.ofList cls
  if c == "rlimits" then some (some (rlimitFromLog l))
  else if c == "namespace" then some (some (usernsFromLog l))
  else if c == "cap" || c == "capable" then some (capabilityFromLog T l)
  else if c == "net" then
    if l.get "family" == "unix".toList then some (unixFromLog T l) else some (some (networkFromLog l))
  else if c == "posix_mqueue" || c == "sysv_mqueue" then some (mqueueFromLog T l)
  else if c == "signal" then some (signalFromLog T l)
  else if c == "ptrace" then some (ptraceFromLog T l)
  else if c == "unix" then some (unixFromLog T l)
  else if c == "io_uring" then some (iouringFromLog T l)
  else if c == "dbus" then some (some (dbusFromLog l))
  else if c == "mount" then some (mountClassFromLog T l)
  else if c == "file" then
    if l.get "operation" == "change_onexec".toList then some (some (changeProfileFromLog l)) else some (fileFromLog T m2a l)
  else if ["chmod", "exec", "getattr", "link", "mkdir", "mknod", "open", "rename_dest", "rename_src", "rmdir", "truncate", "unlink"].contains c then
    some (fileFromLog T m2a l)
  else none

/-- `Profile.AddRule`: the rules appended for one record (`none` = panic) -/
def addRule (T : Tables) (m2a : List (List Char × List Char)) (l : Log) : Option (List Rule) :=
  let pre : List Rule :=
    if l.get "error" == "-13".toList && isInfixC "namespace creation restricted".toList (l.get "info") then
      [mkRule "userns" l [.b true]] else []
  let tryKeys := ["class", "family", "operation"].filterMap (fun k =>
    match ruleFromLogClass T m2a l (l.get k) with
    | some r => some r
    | none => none)
  match tryKeys with
  | r :: _ => r.map (fun x => pre ++ [x])
  | [] =>
    if "file_".toList.isPrefixOf (l.get "operation") then (fileFromLog T m2a l).map (fun x => pre ++ [x])
    else if isInfixC "dbus".toList (l.get "operation") then
      some (pre ++ [dbusFromLog l])
    else some pre

end Aa
