import AaVerif.Aa.Order
/-!
# Aa.Idem — merging an already merged list changes nothing (every kind but `signal`)

The *key* of a rule is its kind, qualifier and subject (every field that `Merge` does not unite).
On the domain `Dom10` without signal rules, the inner loop of `Rules.Merge` keeps a later rule
exactly when its key differs from the key of `r[i]`, and never changes the key of `r[i]`; so the
merged list has pairwise different keys, and on such a list the loop does nothing.

`signal` is outside: its two merge keys (access with equal signal set, signal set with equal access)
make the key of `r[i]` move while it absorbs (`K_signalIdempotence`, witness in `Props/C10`).
-/
namespace Aa

abbrev Key := String × Bool × List Char × List Fld

def keyOf (r : Rule) : Key := (r.kind, r.audit, r.accessType, subjectOf r)

def kO : Option Rule → Option Key := Option.map keyOf

/-- the domain: `Dom10` and not a signal rule -/
def DomI (al : List Char) (r : Rule) : Prop := Dom10 al r ∧ r.kind ≠ "signal"

theorem subjectOf_congr {r o : Rule} (hk : r.kind = o.kind) (hf : r.flds = o.flds) : subjectOf r = subjectOf o := by
  unfold subjectOf; rw [hk, hf]

/-- what a successful `Merge` says about the keys: the two rules had the same key, and the merged
rule still has it -/
theorem merge_keys (T : Tables) {r o r' : Rule} (hr : Dom10 T.stringAlphabet r) (ho : Dom10 T.stringAlphabet o)
    (hk : r.kind = o.kind) (hs : r.kind ≠ "signal") (h : mergeRule T r o = some r') :
    keyOf r = keyOf o ∧ keyOf r' = keyOf r := by
  have hs' : (r.kind == "signal") = false := by simpa using hs
  have hok := mergeOk_all r.kind hr.kind
  unfold mergeRule at h
  simp only [hs', Bool.false_eq_true, if_false] at h
  cases hsc : mergeSchema r.kind with
  | none => rw [hsc] at h; cases h
  | some sc =>
    obtain ⟨nq, keys, merged⟩ := sc
    rw [hsc] at h
    simp only at h
    unfold mergeOk at hok
    rw [hsc] at hok
    split at h
    · cases h
    · rename_i hq
      split at h
      · rename_i hkeys
        cases merged with
        | none =>
          simp only [Option.some.injEq] at h
          simp only [Bool.and_eq_true, Bool.or_eq_true, beq_iff_eq, Bool.not_eq_true', List.isEmpty_iff] at hok
          obtain ⟨⟨hnq, hu⟩, _⟩ := hok
          have hq' : r.audit = o.audit ∧ r.accessType = o.accessType := by
            rcases hnq with hnq | hnq
            · subst hnq
              exact qual_eq_of_qualEq (by simpa using hq)
            · have a := hr.noQ hnq
              have b := ho.noQ (by rw [← hk]; exact hnq)
              exact ⟨a.1.trans b.1.symm, a.2.trans b.2.symm⟩
          have hp : permIdx r.kind = [] := permIdx_of_schema_none hs hsc
          have hsub : subjectOf o = subjectOf r := by
            unfold subjectOf
            rw [← hk, hp]
            rcases hu with hu | hu
            · simp [hu]
            · have a := hr.shape; have b := ho.shape
              rw [← hk, hu] at b; rw [hu] at a
              simp only [List.map_eq_nil_iff] at a b
              rw [a, b]
          subst h
          refine ⟨?_, rfl⟩
          unfold keyOf
          rw [hk, hq'.1, hq'.2, hsub]
        | some m =>
          obtain ⟨i, tk, key⟩ := m
          simp only [Option.some.injEq] at h
          simp only [Bool.and_eq_true, beq_iff_eq, List.all_eq_true, List.mem_range, Bool.or_eq_true,
            List.contains_iff_mem, Bool.not_eq_true'] at hok
          obtain ⟨⟨⟨⟨⟨hty, hcov⟩, hnq⟩, hord⟩, _⟩, _⟩ := hok
          have hp : permIdx r.kind = [i] := permIdx_of_schema hs hsc
          have hlen := length_of_shape hr.shape ho.shape hk
          have hq' : r.audit = o.audit ∧ r.accessType = o.accessType := by
            rcases hnq with hnq | hnq
            · subst hnq
              exact qual_eq_of_qualEq (by simpa using hq)
            · have a := hr.noQ hnq
              have b := ho.noQ (by rw [← hk]; exact hnq)
              exact ⟨a.1.trans b.1.symm, a.2.trans b.2.symm⟩
          have hns : r.kind ≠ "userns" := by
            intro e; rw [e] at hsc; simp [mergeSchema] at hsc
          have hns' : (r.kind == "userns") = false := by simpa using hns
          have hrest : ∀ j, j < r.flds.length → j ≠ i → r.fld j = o.fld j := by
            intro j hj hji
            have hj' : j < (fldTypes r.kind).length := by rw [← hr.shape]; simpa using hj
            rcases hcov j hj' with e | e
            · exact absurd e hji
            · have := List.all_eq_true.mp hkeys j e
              simpa using this
          have hsub : r.flds.set i (.l []) = o.flds.set i (.l []) := set_eq_of_rest i _ hlen hrest
          subst h
          constructor
          · unfold keyOf subjectOf
            rw [← hk, hns', hp, hq'.1, hq'.2]
            simp [blankAt, hsub]
          · unfold keyOf subjectOf
            show (r.kind, r.audit, r.accessType, _) = _
            have : (mergeBase (r.setFld i (.l (mergeValues T tk key (r.fld i).list (o.fld i).list))) o).kind = r.kind := rfl
            rw [this, hns', hp]
            simp [blankAt, mergeBase, Rule.setFld]
      · cases h

/-- different keys: the later rule is neither a duplicate nor mergeable -/
theorem sep_of_key_ne (T : Tables) (hal : ∀ c ∈ T.stringAlphabet, lowerC c = c) {r o : Rule}
    (hr : DomI T.stringAlphabet r) (ho : DomI T.stringAlphabet o) (hk : r.kind = o.kind)
    (hne : keyOf r ≠ keyOf o) : compareRule T r o ≠ 0 ∧ mergeRule T r o = none := by
  constructor
  · intro hc
    obtain ⟨h1, h2, h3⟩ := compare_zero_identical T hal hr.1 ho.1 hk hc
    apply hne
    unfold keyOf
    rw [hk, h1, h2, subjectOf_congr hk h3]
  · cases hm : mergeRule T r o with
    | none => rfl
    | some r' => exact absurd (merge_keys T hr.1 ho.1 hk hr.2 hm).1 hne

theorem compareRule_congr_right (T : Tables) (r : Rule) {o o' : Rule} (h1 : o.kind = o'.kind)
    (h2 : o.audit = o'.audit) (h3 : o.accessType = o'.accessType) (h4 : o.flds = o'.flds) :
    compareRule T r o = compareRule T r o' := by
  unfold compareRule keyList Rule.fld
  rw [h1, h2, h3, h4]

theorem compareRule_self (T : Tables) (r : Rule) : compareRule T r r = 0 := by
  have := compareRule_antisymm T (rfl : r.kind = r.kind)
  omega

/-- equal keys: the later rule is a duplicate or is merged — in both cases it does not stay -/
theorem absorbed_of_key_eq (T : Tables) {r o : Rule}
    (hr : DomI T.stringAlphabet r) (_ho : DomI T.stringAlphabet o) (hk : r.kind = o.kind)
    (he : keyOf r = keyOf o) : compareRule T r o = 0 ∨ ∃ r', mergeRule T r o = some r' := by
  have hs := hr.2
  have hs' : (r.kind == "signal") = false := by simpa using hs
  have hok := mergeOk_all r.kind hr.1.kind
  unfold keyOf at he
  simp only [Prod.mk.injEq] at he
  obtain ⟨_, ha, hat, hsub⟩ := he
  cases hsc : mergeSchema r.kind with
  | none =>
    -- never merged: the subject is the whole field list, so the rules are identical for `Compare`
    left
    have hp : permIdx r.kind = [] := by
      unfold permIdx; simp [hs', hsc]
    have hns : (r.kind == "userns") = false := by
      cases e : (r.kind == "userns") with
      | false => rfl
      | true =>
        have : r.kind = "userns" := by simpa using e
        rw [this] at hsc; simp [mergeSchema] at hsc
    have hns' : (o.kind == "userns") = false := by rw [← hk]; exact hns
    have hf : r.flds = o.flds := by
      unfold subjectOf at hsub
      rw [← hk, hns, hp] at hsub
      simpa [blankAt] using hsub
    rw [compareRule_congr_right T r hk.symm ha.symm hat.symm hf.symm]
    exact compareRule_self T r
  | some sc =>
    right
    obtain ⟨nq, keys, merged⟩ := sc
    unfold mergeOk at hok
    rw [hsc] at hok
    unfold mergeRule
    simp only [hs', Bool.false_eq_true, if_false, hsc]
    have hqe : qualEq r o = true := by simp [qualEq, ha, hat]
    cases merged with
    | none =>
      simp only [Bool.and_eq_true, Bool.or_eq_true, beq_iff_eq, Bool.not_eq_true', List.isEmpty_iff] at hok
      obtain ⟨_, hke⟩ := hok
      subst hke
      simp [hqe]
    | some m =>
      obtain ⟨i, tk, key⟩ := m
      simp only [Bool.and_eq_true, beq_iff_eq, List.all_eq_true, List.mem_range, Bool.or_eq_true,
        List.contains_iff_mem, Bool.not_eq_true', decide_eq_true_eq] at hok
      obtain ⟨⟨⟨⟨⟨hty, hcov⟩, hnq⟩, hord⟩, hni⟩, hrange⟩ := hok
      have hp : permIdx r.kind = [i] := permIdx_of_schema hs hsc
      have hns : r.kind ≠ "userns" := by
        intro e; rw [e] at hsc; simp [mergeSchema] at hsc
      have hns' : (r.kind == "userns") = false := by simpa using hns
      have hsub' : r.flds.set i (.l []) = o.flds.set i (.l []) := by
        unfold subjectOf at hsub
        rw [← hk, hns', hp] at hsub
        simpa [blankAt] using hsub
      have hkeys : (keys.all fun j => r.fld j == o.fld j) = true := by
        rw [List.all_eq_true]
        intro j hj
        have hji : j ≠ i := by
          intro e; subst e
          have : keys.contains j = true := by simpa using hj
          rw [hni] at this; cases this
        have := congrArg (fun l => l.getD j (.s [])) hsub'
        simp only [List.getD_eq_getElem?_getD, List.getElem?_set_ne (Ne.symm hji)] at this
        simpa [Rule.fld, List.getD_eq_getElem?_getD] using this
      simp [hqe, hkeys]

/-! ### the inner loop in terms of keys -/

theorem domI_merge (T : Tables) (hal : ∀ c ∈ T.stringAlphabet, lowerC c = c) {r o r' : Rule}
    (hr : DomI T.stringAlphabet r) (ho : DomI T.stringAlphabet o) (hk : r.kind = o.kind)
    (h : mergeRule T r o = some r') : DomI T.stringAlphabet r' := by
  refine ⟨(mergeContract T hal r o r' hr.1 ho.1 hk h).1, ?_⟩
  have := (merge_keys T hr.1 ho.1 hk hr.2 h).2
  have hk' : r'.kind = r.kind := by
    have := congrArg Prod.fst this
    exact this
  rw [hk']; exact hr.2

theorem kind_ne_comment {al : List Char} {r : Rule} (h : DomI al r) : r.kind ≠ "comment" := by
  intro e
  have := h.1.kind
  rw [e] at this
  revert this; decide

/-- **The inner loop, by keys**: `r[i]` keeps its key, and the survivors are exactly the later
entries whose key differs from it. -/
theorem absorb_keys (T : Tables) (hal : ∀ c ∈ T.stringAlphabet, lowerC c = c) :
    ∀ (os : List (Option Rule)) (r : Option Rule), DomO (DomI T.stringAlphabet) r →
      (∀ o ∈ os, DomO (DomI T.stringAlphabet) o) →
      kO (absorb T r os).1 = kO r ∧ (absorb T r os).2 = os.filter (fun o => decide (kO o ≠ kO r)) ∧
      DomO (DomI T.stringAlphabet) (absorb T r os).1 ∧ ∀ o ∈ (absorb T r os).2, DomO (DomI T.stringAlphabet) o
  | [], r, hr, _ => by simp [absorb, hr]
  | o :: os, r, hr, hos => by
    have hos' : ∀ x ∈ os, DomO (DomI T.stringAlphabet) x := fun x hx => hos x (by simp [hx])
    have ho := hos o (by simp)
    -- keep o, continue with the same r
    have keep : ∀ (r : Option Rule), DomO (DomI T.stringAlphabet) r → kO o ≠ kO r →
        kO (absorb T r os).1 = kO r ∧ o :: (absorb T r os).2 = (o :: os).filter (fun o => decide (kO o ≠ kO r)) ∧
        DomO (DomI T.stringAlphabet) (absorb T r os).1 ∧ ∀ x ∈ o :: (absorb T r os).2, DomO (DomI T.stringAlphabet) x := by
      intro r hr hne
      obtain ⟨h1, h2, h3, h4⟩ := absorb_keys T hal os r hr hos'
      refine ⟨h1, ?_, h3, ?_⟩
      · rw [List.filter_cons, if_pos (by simpa using hne), h2]
      · intro x hx
        simp only [List.mem_cons] at hx
        rcases hx with rfl | hx
        · exact ho
        · exact h4 x hx
    -- drop o, continue with r2 of the same key
    have drop : ∀ (r r2 : Option Rule), DomO (DomI T.stringAlphabet) r2 → kO r2 = kO r → kO o = kO r →
        kO (absorb T r2 os).1 = kO r ∧ (absorb T r2 os).2 = (o :: os).filter (fun o => decide (kO o ≠ kO r)) ∧
        DomO (DomI T.stringAlphabet) (absorb T r2 os).1 ∧ ∀ x ∈ (absorb T r2 os).2, DomO (DomI T.stringAlphabet) x := by
      intro r r2 hr2 hk2 heq
      obtain ⟨h1, h2, h3, h4⟩ := absorb_keys T hal os r2 hr2 hos'
      refine ⟨h1.trans hk2, ?_, h3, h4⟩
      rw [List.filter_cons, if_neg (by simpa using heq), h2, hk2]
    cases r with
    | none =>
      cases o with
      | none => simp only [absorb]; exact drop none none hr rfl rfl
      | some oj => simp only [absorb]; exact keep none hr (by simp [kO])
    | some ri =>
      cases o with
      | none => simp only [absorb]; exact keep (some ri) hr (by simp [kO])
      | some oj =>
        have hri : DomI T.stringAlphabet ri := hr
        have hoj : DomI T.stringAlphabet oj := ho
        simp only [absorb]
        split
        · rename_i hkind
          refine keep (some ri) hr ?_
          simp only [kO, Option.map_some, ne_eq, Option.some.injEq]
          intro e
          exact hkind (congrArg Prod.fst e).symm
        · rename_i hkind
          have hk : ri.kind = oj.kind := by simpa using hkind
          split
          · rename_i hc
            obtain ⟨h1, h2, h3⟩ := compare_zero_identical T hal hri.1 hoj.1 hk hc.2
            refine drop (some ri) (some ri) hr rfl ?_
            simp only [kO, Option.map_some, Option.some.injEq]
            unfold keyOf
            rw [hk, h1, h2, subjectOf_congr hk h3]
          · rename_i hc
            have hcmp : compareRule T ri oj ≠ 0 := fun e => hc ⟨kind_ne_comment hri, e⟩
            split
            · rename_i r' hm
              have hkeys := merge_keys T hri.1 hoj.1 hk hri.2 hm
              refine drop (some ri) (some r') (domI_merge T hal hri hoj hk hm) ?_ ?_
              · simp only [kO, Option.map_some, hkeys.2]
              · simp only [kO, Option.map_some, hkeys.1]
            · rename_i hm
              refine keep (some ri) hr ?_
              simp only [kO, Option.map_some, ne_eq, Option.some.injEq]
              intro e
              rcases absorbed_of_key_eq T hri hoj hk e.symm with h | ⟨r', h⟩
              · exact hcmp h
              · rw [h] at hm; cases hm

/-! ### the whole loop -/

/-- after `Rules.Merge` the keys are pairwise different -/
theorem mergeAux_nodup (T : Tables) (hal : ∀ c ∈ T.stringAlphabet, lowerC c = c) :
    ∀ (n : Nat) (l : List (Option Rule)), l.length ≤ n → (∀ o ∈ l, DomO (DomI T.stringAlphabet) o) →
      ((mergeAux T n l).map kO).Nodup ∧ (∀ o ∈ mergeAux T n l, DomO (DomI T.stringAlphabet) o) ∧
      ∀ k, k ∈ (mergeAux T n l).map kO → k ∈ l.map kO
  | 0, l, hl, _ => by
    have : l = [] := List.length_eq_zero_iff.mp (by omega)
    subst this; simp [mergeAux]
  | n + 1, [], _, _ => by simp [mergeAux]
  | n + 1, r :: rs, hl, hdom => by
    obtain ⟨h1, h2, h3, h4⟩ := absorb_keys T hal rs r (hdom r (by simp)) (fun o ho => hdom o (by simp [ho]))
    have hlen := absorb_length T r rs
    obtain ⟨i1, i2, i3⟩ := mergeAux_nodup T hal n (absorb T r rs).2 (by simp at hl; omega) h4
    simp only [mergeAux, List.map_cons, List.nodup_cons, List.mem_cons]
    refine ⟨⟨?_, i1⟩, ?_, ?_⟩
    · intro hmem
      have := i3 _ hmem
      rw [h2, List.mem_map] at this
      obtain ⟨o, ho, he⟩ := this
      rw [List.mem_filter] at ho
      have hne : kO o ≠ kO r := by simpa using ho.2
      exact hne (he.trans h1)
    · intro o ho
      rcases ho with rfl | ho
      · exact h3
      · exact i2 o ho
    · intro k hk
      rcases hk with rfl | hk
      · left; exact h1
      · right
        have := i3 k hk
        rw [h2, List.mem_map] at this
        obtain ⟨o, ho, he⟩ := this
        exact List.mem_map.mpr ⟨o, (List.mem_filter.mp ho).1, he⟩

theorem absorb_fst_fix (T : Tables) (hal : ∀ c ∈ T.stringAlphabet, lowerC c = c) :
    ∀ (os : List (Option Rule)) (r : Option Rule), DomO (DomI T.stringAlphabet) r →
      (∀ o ∈ os, DomO (DomI T.stringAlphabet) o) → kO r ∉ os.map kO → (absorb T r os).1 = r
  | [], r, _, _, _ => by simp [absorb]
  | o :: os, r, hr, hos, hne => by
    have hos' : ∀ x ∈ os, DomO (DomI T.stringAlphabet) x := fun x hx => hos x (by simp [hx])
    have hne' : kO r ∉ os.map kO := fun h => hne (by simp [h])
    have hno : kO o ≠ kO r := fun e => hne (by simp [e])
    have ih := absorb_fst_fix T hal os r hr hos' hne'
    cases r with
    | none =>
      cases o with
      | none => exact absurd rfl hno
      | some oj => simp only [absorb]; exact ih
    | some ri =>
      cases o with
      | none => simp only [absorb]; exact ih
      | some oj =>
        have hri : DomI T.stringAlphabet ri := hr
        have hoj : DomI T.stringAlphabet oj := hos (some oj) (by simp)
        simp only [absorb]
        split
        · exact ih
        · rename_i hkind
          have hk : ri.kind = oj.kind := by simpa using hkind
          have hkn : keyOf ri ≠ keyOf oj := by
            intro e; apply hno; simp [kO, e]
          obtain ⟨s1, s2⟩ := sep_of_key_ne T hal hri hoj hk hkn
          split
          · rename_i hc; exact absurd hc.2 s1
          · rw [s2]; exact ih

/-- when no later entry has the key of `r`, the inner loop leaves everything as it is -/
theorem absorb_fix (T : Tables) (hal : ∀ c ∈ T.stringAlphabet, lowerC c = c) (r : Option Rule)
    (hr : DomO (DomI T.stringAlphabet) r) (os : List (Option Rule))
    (hos : ∀ o ∈ os, DomO (DomI T.stringAlphabet) o) (hne : kO r ∉ os.map kO) : absorb T r os = (r, os) := by
  obtain ⟨_, h2, _, _⟩ := absorb_keys T hal os r hr hos
  have hf : os.filter (fun o => decide (kO o ≠ kO r)) = os := by
    rw [List.filter_eq_self]
    intro o ho
    have : kO o ≠ kO r := fun e => hne (List.mem_map.mpr ⟨o, ho, e⟩)
    simpa using this
  rw [Prod.ext_iff]
  exact ⟨absorb_fst_fix T hal os r hr hos hne, h2.trans hf⟩

/-- a list with pairwise different keys is a fixed point of `Rules.Merge` -/
theorem mergeAux_fix (T : Tables) (hal : ∀ c ∈ T.stringAlphabet, lowerC c = c) :
    ∀ (n : Nat) (l : List (Option Rule)), l.length ≤ n → (∀ o ∈ l, DomO (DomI T.stringAlphabet) o) →
      (l.map kO).Nodup → mergeAux T n l = l
  | 0, l, hl, _, _ => by
    have : l = [] := List.length_eq_zero_iff.mp (by omega)
    subst this; simp [mergeAux]
  | n + 1, [], _, _, _ => by simp [mergeAux]
  | n + 1, r :: rs, hl, hdom, hnd => by
    simp only [List.map_cons, List.nodup_cons] at hnd
    have hrs : ∀ o ∈ rs, DomO (DomI T.stringAlphabet) o := fun o ho => hdom o (by simp [ho])
    simp only [mergeAux]
    rw [absorb_fix T hal r (hdom r (by simp)) rs hrs hnd.1]
    simp only
    rw [mergeAux_fix T hal n rs (by simp at hl; omega) hrs hnd.2]

/-- **Idempotence**: merging an already merged list changes nothing — every list (any length, any
order, `nil` entries included) of rules of `Dom10` that holds no signal rule. -/
theorem mergeRules_idempotent (T : Tables) (hal : ∀ c ∈ T.stringAlphabet, lowerC c = c)
    (l : List (Option Rule)) (hdom : ∀ o ∈ l, DomO (DomI T.stringAlphabet) o) :
    mergeRules T (mergeRules T l) = mergeRules T l := by
  obtain ⟨h1, h2, _⟩ := mergeAux_nodup T hal l.length l (Nat.le_refl _) hdom
  exact mergeAux_fix T hal _ _ (Nat.le_refl _) h2 h1

end Aa
