import AaVerif.Aa.Wire
/-!
# Aa.Meaning — what a rule grants or denies, and the two per-rule contracts of `Rules.Merge`

A *fact* is (kind, qualifier, subject, permission): the subject is the list of the rule's fields
with the permission list(s) blanked, the permission one element of each permission list.  An
**empty permission list means every permission** (AppArmor semantics), which is why the domain
of the theorems asks for non-empty lists: on mixed lists the merge narrows the rule (known
class `K_emptyAccess`, witness in `Props/C10`).

The two contracts (`MergeContract`, `DupContract` of `Aa.Merge`) are discharged here for this
meaning on the domain `Dom10`, for every table `T` whose string alphabet is lower case; the list
theorem `mergeRules_den` then gives meaning preservation for lists of any length.

Outside the domain, on purpose:
* `mount`, `umount`, `remount` — their option list is one conjunctive flag set, and `Merge` unites
  it (`K_mountOptions`);
* `comment`, `hat`, `profile` — never merged, `Compare` does not read all their fields;
* strings with bytes outside the sort alphabet or upper-case letters (`K_case`, `K_zeroWeight`).
-/
namespace Aa

structure Fact where
  kind : String
  audit : Bool
  accessType : List Char
  subject : List Fld
  perm : List (List Char)

/-- the kinds the meaning theorems speak about -/
def meaningKinds : List String :=
  ["capability", "network", "pivot_root", "change_profile", "mqueue", "io_uring", "signal", "ptrace",
   "unix", "dbus", "rlimit", "userns", "all", "file", "link", "abi", "alias", "include", "variable"]

/-- indices of the permission list(s) of a kind: the field(s) `Merge` unites -/
def permIdx (k : String) : List Nat :=
  if k == "signal" then [0, 1] else
  match mergeSchema k with
  | some ⟨_, _, some (i, _, _)⟩ => [i]
  | _ => []

def blankAt (fl : List Fld) (is : List Nat) : List Fld := is.foldl (fun fl i => fl.set i (.l [])) fl

/-- the subject: every field that is not a permission list (`userns` has no subject: its only
field, `create`, is the one permission of the kind) -/
def subjectOf (r : Rule) : List Fld :=
  if r.kind == "userns" then [] else blankAt r.flds (permIdx r.kind)

/-- a permission list holds `p`: it names it, or it is empty (= every permission) -/
def holds (l : List (List Char)) (p : List Char) : Prop := l = [] ∨ p ∈ l

def permsOf (r : Rule) (perm : List (List Char)) : Prop :=
  match permIdx r.kind with
  | [] => perm = []
  | [i] => ∃ p, holds (r.fld i).list p ∧ perm = [p]
  | [i, j] => ∃ p q, holds (r.fld i).list p ∧ holds (r.fld j).list q ∧ perm = [p, q]
  | _ => False

/-- **meaning of a rule** -/
def den (r : Rule) (f : Fact) : Prop :=
  f.kind = r.kind ∧ f.audit = r.audit ∧ f.accessType = r.accessType ∧ f.subject = subjectOf r ∧
  permsOf r f.perm

/-- **domain**: a rule of a meaningful kind, with the fields of its kind, canonical strings, a
default qualifier when the kind has none, and named permissions -/
structure Dom10 (al : List Char) (r : Rule) : Prop where
  kind : r.kind ∈ meaningKinds
  shape : r.flds.map shapeOf = fldTypes r.kind
  canon : ∀ f ∈ keyList r, CanonFld al f
  noQ : (cmpSchema r.kind).hasQ = false → r.audit = false ∧ r.accessType = []
  perms : ∀ i ∈ permIdx r.kind, (r.fld i).list ≠ []

/-! ### schema facts, decided over the kind table -/

/-- what the merge proof needs from the schema of a kind with a merged field -/
def mergeOk (k : String) : Bool :=
  match mergeSchema k with
  | some ⟨nq, keys, some (i, _, _)⟩ =>
    (fldTypes k).getD i 9 == 1 &&
    (List.range (fldTypes k).length).all (fun j => j == i || keys.contains j) &&
    (nq || !(cmpSchema k).hasQ) &&
    (cmpSchema k).order.contains i && !keys.contains i && keys.all (fun j => j < (fldTypes k).length)
  | some ⟨nq, keys, none⟩ => (nq || !(cmpSchema k).hasQ) && (k == "userns" || (fldTypes k).isEmpty) && keys.isEmpty
  | none => true

theorem mergeOk_all : ∀ k ∈ meaningKinds, mergeOk k = true := by decide

/-- `Compare` reads every field of the kind, each index is in range, and the key list has one shape -/
def cmpOk (k : String) : Bool :=
  let o := (cmpSchema k).order
  (List.range (fldTypes k).length).all (fun i => o.contains i) && o.all (fun i => i < (fldTypes k).length)

theorem cmpOk_all : ∀ k ∈ meaningKinds, cmpOk k = true := by decide

end Aa

namespace Aa

/-! ### small facts about fields -/

theorem fld_eq_getElem (r : Rule) (i : Nat) (h : i < r.flds.length) : r.fld i = r.flds[i] := by
  simp [Rule.fld, List.getD_eq_getElem?_getD, h]

theorem fld_setFld_same (r : Rule) (i : Nat) (v : Fld) (h : i < r.flds.length) : (r.setFld i v).fld i = v := by
  simp [Rule.fld, Rule.setFld, List.getD_eq_getElem?_getD, h]

theorem fld_setFld_ne (r : Rule) (i j : Nat) (v : Fld) (h : i ≠ j) : (r.setFld i v).fld j = r.fld j := by
  simp [Rule.fld, Rule.setFld, List.getD_eq_getElem?_getD, List.getElem?_set_ne h]

theorem set_eq_of_rest {a b : List Fld} (i : Nat) (x : Fld) (hl : a.length = b.length)
    (h : ∀ j, j < a.length → j ≠ i → a.getD j (.s []) = b.getD j (.s [])) : a.set i x = b.set i x := by
  apply List.ext_getElem
  · simp [hl]
  · intro n h1 h2
    by_cases e : i = n
    · subst e; simp
    · rw [List.getElem_set_ne e, List.getElem_set_ne e]
      have hn : n < a.length := by simpa using h1
      have := h n hn (fun e' => e e'.symm)
      simpa [List.getD_eq_getElem?_getD, hn, hl ▸ hn] using this

theorem holds_iff_mem {l : List (List Char)} (h : l ≠ []) (p : List Char) : holds l p ↔ p ∈ l := by
  simp [holds, h]

theorem mergeValues_ne_nil (T : Tables) (kind key : String) {a : List (List Char)} (b : List (List Char))
    (h : a ≠ []) : mergeValues T kind key a b ≠ [] := by
  cases a with
  | nil => exact absurd rfl h
  | cons y ys =>
    intro e
    have : y ∈ mergeValues T kind key (y :: ys) b := (mem_mergeValues T kind key _ _ y).mpr (Or.inl (by simp))
    rw [e] at this; cases this

theorem length_of_shape {r o : Rule} (hr : r.flds.map shapeOf = fldTypes r.kind)
    (ho : o.flds.map shapeOf = fldTypes o.kind) (hk : r.kind = o.kind) : r.flds.length = o.flds.length := by
  have := congrArg List.length hr
  have := congrArg List.length ho
  simp only [List.length_map] at *
  rw [hk] at *; omega

end Aa

namespace Aa

theorem mergeBase_proj (r o : Rule) : (mergeBase r o).kind = r.kind ∧ (mergeBase r o).audit = r.audit ∧
    (mergeBase r o).accessType = r.accessType ∧ (mergeBase r o).flds = r.flds := ⟨rfl, rfl, rfl, rfl⟩

/-- merging one permission list: the merged rule means the union -/
theorem den_merge_field (T : Tables) (r o : Rule) (i : Nat) (tk key : String)
    (hk : r.kind = o.kind) (ha : r.audit = o.audit) (hat : r.accessType = o.accessType)
    (hp : permIdx r.kind = [i]) (hns : r.kind ≠ "userns")
    (hlen : r.flds.length = o.flds.length) (hi : i < r.flds.length)
    (hrest : ∀ j, j < r.flds.length → j ≠ i → r.fld j = o.fld j)
    (hr : (r.fld i).list ≠ []) (ho : (o.fld i).list ≠ []) (f : Fact) :
    den (mergeBase (r.setFld i (.l (mergeValues T tk key (r.fld i).list (o.fld i).list))) o) f ↔
      (den r f ∨ den o f) := by
  have hns' : (r.kind == "userns") = false := by simpa using hns
  have hns'' : (o.kind == "userns") = false := by rw [← hk]; exact hns'
  have hpo : permIdx o.kind = [i] := by rw [← hk]; exact hp
  have hsub : r.flds.set i (.l []) = o.flds.set i (.l []) := set_eq_of_rest i _ hlen hrest
  have hm := mergeValues_ne_nil T tk key (o.fld i).list hr
  generalize hv : mergeValues T tk key (r.fld i).list (o.fld i).list = v at hm
  have hmem : ∀ p, p ∈ v ↔ (p ∈ (r.fld i).list ∨ p ∈ (o.fld i).list) := by
    intro p; rw [← hv]; exact mem_mergeValues T tk key _ _ p
  generalize hr' : mergeBase (r.setFld i (.l v)) o = r'
  have k1 : r'.kind = r.kind := by rw [← hr']; rfl
  have k2 : r'.audit = r.audit := by rw [← hr']; rfl
  have k3 : r'.accessType = r.accessType := by rw [← hr']; rfl
  have k4 : r'.flds = r.flds.set i (.l v) := by rw [← hr']; rfl
  have k5 : (r'.fld i).list = v := by
    simp [Rule.fld, k4, List.getD_eq_getElem?_getD, hi, Fld.list]
  have s1 : subjectOf r' = r.flds.set i (.l []) := by
    simp [subjectOf, k1, hns', hp, blankAt, k4]
  have s2 : subjectOf r = r.flds.set i (.l []) := by simp [subjectOf, hns', hp, blankAt]
  have s3 : subjectOf o = r.flds.set i (.l []) := by simp [subjectOf, hns'', hpo, blankAt, hsub]
  unfold den permsOf
  rw [s1, s2, s3, k1, k2, k3, hp, hpo, ← hk, ← ha, ← hat]
  simp only [k5, holds_iff_mem hm, holds_iff_mem hr, holds_iff_mem ho, hmem]
  constructor
  · rintro ⟨h1, h2, h3, h4, p, hp', h5⟩
    rcases hp' with hp' | hp'
    · exact Or.inl ⟨h1, h2, h3, h4, p, hp', h5⟩
    · exact Or.inr ⟨h1, h2, h3, h4, p, hp', h5⟩
  · rintro (⟨h1, h2, h3, h4, p, hp', h5⟩ | ⟨h1, h2, h3, h4, p, hp', h5⟩)
    · exact ⟨h1, h2, h3, h4, p, Or.inl hp', h5⟩
    · exact ⟨h1, h2, h3, h4, p, Or.inr hp', h5⟩

end Aa

namespace Aa

theorem set_self_of_getD {l : List Nat} {i x d : Nat} (h : l.getD i d = x) (hx : x ≠ d) : l.set i x = l := by
  have hi : i < l.length := by
    apply Classical.byContradiction
    intro hn
    rw [List.getD_eq_getElem?_getD, List.getElem?_eq_none (by omega)] at h
    exact hx h.symm
  have : l[i] = x := by simpa [List.getD_eq_getElem?_getD, hi] using h
  rw [← this]; exact List.set_getElem_self hi

theorem lt_of_getD_ne {l : List Nat} {i x d : Nat} (h : l.getD i d = x) (hx : x ≠ d) : i < l.length := by
  apply Classical.byContradiction
  intro hn
  rw [List.getD_eq_getElem?_getD, List.getElem?_eq_none (by omega)] at h
  exact hx h.symm

theorem qual_eq_of_qualEq {r o : Rule} (h : qualEq r o = true) : r.audit = o.audit ∧ r.accessType = o.accessType := by
  simpa [qualEq] using h

/-- the keys of the qualifier are canonical in both rules or in none -/
theorem keyList_mem_fld {r : Rule} {j : Nat} (h : j ∈ (cmpSchema r.kind).order) : r.fld j ∈ keyList r := by
  unfold keyList
  simp only [List.mem_append, List.mem_map]
  exact Or.inl ⟨j, h, rfl⟩

theorem canonFld_list {al : List Char} {x : Fld} (h : CanonFld al x) : ∀ s ∈ x.list, Canon al s := by
  cases x with
  | s v => intro s hs; cases hs
  | l v => exact h
  | b v => intro s hs; cases hs

/-- the rule obtained by merging one permission list stays in the domain -/
theorem dom_merge_field (T : Tables) {r o : Rule} {i : Nat} (tk key : String)
    (hr : Dom10 T.stringAlphabet r) (ho : Dom10 T.stringAlphabet o)
    (hp : permIdx r.kind = [i]) (hty : (fldTypes r.kind).getD i 9 = 1)
    (hord : i ∈ (cmpSchema r.kind).order) (hio : o.fld i ∈ keyList o) :
    Dom10 T.stringAlphabet
      (mergeBase (r.setFld i (.l (mergeValues T tk key (r.fld i).list (o.fld i).list))) o) := by
  have hne : (r.fld i).list ≠ [] := hr.perms i (by rw [hp]; simp)
  generalize hv : mergeValues T tk key (r.fld i).list (o.fld i).list = v
  have hmem : ∀ p, p ∈ v ↔ (p ∈ (r.fld i).list ∨ p ∈ (o.fld i).list) := by
    intro p; rw [← hv]; exact mem_mergeValues T tk key _ _ p
  have hvne : v ≠ [] := by rw [← hv]; exact mergeValues_ne_nil T tk key _ hne
  have hi : i < r.flds.length := by
    have := lt_of_getD_ne hty (by decide)
    rw [← hr.shape] at this; simpa using this
  refine ⟨hr.kind, ?_, ?_, hr.noQ, ?_⟩
  · show (r.flds.set i (.l v)).map shapeOf = fldTypes r.kind
    rw [List.map_set, hr.shape]
    exact set_self_of_getD (x := 1) hty (by decide)
  · intro f hf
    have hf' : f ∈ (cmpSchema r.kind).order.map (mergeBase (r.setFld i (.l v)) o).fld ++
        (if (cmpSchema r.kind).hasQ then [.b r.audit, .s r.accessType] else []) := hf
    rw [List.mem_append] at hf'
    rcases hf' with hf' | hf'
    · rw [List.mem_map] at hf'
      obtain ⟨j, hj, rfl⟩ := hf'
      by_cases e : i = j
      · subst e
        have : (mergeBase (r.setFld i (.l v)) o).fld i = .l v := fld_setFld_same r i _ hi
        rw [this]
        intro s hs
        rcases (hmem s).mp hs with h | h
        · exact canonFld_list (hr.canon _ (keyList_mem_fld hord)) s h
        · exact canonFld_list (ho.canon _ hio) s h
      · have : (mergeBase (r.setFld i (.l v)) o).fld j = r.fld j := fld_setFld_ne r i j _ e
        rw [this]
        exact hr.canon _ (keyList_mem_fld hj)
    · apply hr.canon
      unfold keyList
      exact List.mem_append.mpr (Or.inr hf')
  · intro j hj
    have hj' : j ∈ permIdx r.kind := hj
    rw [hp] at hj'
    simp only [List.mem_singleton] at hj'
    subst hj'
    have : (mergeBase (r.setFld j (.l v)) o).fld j = .l v := fld_setFld_same r j _ hi
    rw [this]; exact hvne

end Aa

namespace Aa

theorem permIdx_of_schema {k : String} (hs : k ≠ "signal") {nq : Bool} {keys : List Nat} {i : Nat} {a b : String}
    (h : mergeSchema k = some ⟨nq, keys, some (i, a, b)⟩) : permIdx k = [i] := by
  unfold permIdx
  have : (k == "signal") = false := by simpa using hs
  simp [this, h]

theorem permIdx_of_schema_none {k : String} (hs : k ≠ "signal") {nq : Bool} {keys : List Nat}
    (h : mergeSchema k = some ⟨nq, keys, none⟩) : permIdx k = [] := by
  unfold permIdx
  have : (k == "signal") = false := by simpa using hs
  simp [this, h]

/-- **Merge contract, every kind but `signal`.** -/
theorem mergeContract_plain (T : Tables) (r o r' : Rule)
    (hr : Dom10 T.stringAlphabet r) (ho : Dom10 T.stringAlphabet o) (hk : r.kind = o.kind)
    (hs : r.kind ≠ "signal") (h : mergeRule T r o = some r') :
    Dom10 T.stringAlphabet r' ∧ ∀ f, den r' f ↔ (den r f ∨ den o f) := by
  have hs' : (r.kind == "signal") = false := by simpa using hs
  have hok := mergeOk_all r.kind hr.kind
  unfold mergeRule at h
  simp only [hs', Bool.false_eq_true, if_false] at h
  cases hsc : mergeSchema r.kind with
  | none => rw [hsc] at h; cases h
  | some sc =>
    obtain ⟨nq, keys, merged⟩ := sc
    rw [hsc] at h
    simp only at h
    unfold mergeOk at hok
    rw [hsc] at hok
    split at h
    · cases h
    · rename_i hq
      split at h
      · rename_i hkeys
        cases merged with
        | none =>
          simp only [Option.some.injEq] at h
          simp only [Bool.and_eq_true, Bool.or_eq_true, beq_iff_eq, Bool.not_eq_true', List.isEmpty_iff] at hok
          obtain ⟨⟨hnq, hu⟩, _⟩ := hok
          have hq' : r.audit = o.audit ∧ r.accessType = o.accessType := by
            rcases hnq with hnq | hnq
            · subst hnq
              exact qual_eq_of_qualEq (by simpa using hq)
            · have a := hr.noQ hnq
              have b := ho.noQ (by rw [← hk]; exact hnq)
              exact ⟨a.1.trans b.1.symm, a.2.trans b.2.symm⟩
          obtain ⟨qa, qt⟩ := hq'
          subst h
          refine ⟨⟨hr.kind, hr.shape, hr.canon, hr.noQ, hr.perms⟩, ?_⟩
          intro f
          have hp : permIdx r.kind = [] := permIdx_of_schema_none hs hsc
          have hpo : permIdx o.kind = [] := by rw [← hk]; exact hp
          have e1 : den (mergeBase r o) f ↔ den r f := Iff.rfl
          have hsub : subjectOf o = subjectOf r := by
            unfold subjectOf
            rw [← hk, hp]
            rcases hu with hu | hu
            · simp [hu]
            · have a := hr.shape; have b := ho.shape
              rw [← hk, hu] at b; rw [hu] at a
              simp only [List.map_eq_nil_iff] at a b
              rw [a, b]
          have e2 : den o f ↔ den r f := by
            unfold den permsOf
            rw [hsub, hp, hpo, ← hk, ← qa, ← qt]
          rw [e1, e2]; simp
        | some m =>
          obtain ⟨i, tk, key⟩ := m
          simp only [Option.some.injEq] at h
          simp only [Bool.and_eq_true, beq_iff_eq, List.all_eq_true, List.mem_range, Bool.or_eq_true,
            List.contains_iff_mem, Bool.not_eq_true'] at hok
          obtain ⟨⟨⟨⟨⟨hty, hcov⟩, hnq⟩, hord⟩, _⟩, _⟩ := hok
          have hp : permIdx r.kind = [i] := permIdx_of_schema hs hsc
          have hlen := length_of_shape hr.shape ho.shape hk
          have hi : i < r.flds.length := by
            have := lt_of_getD_ne hty (by decide)
            rw [← hr.shape] at this; simpa using this
          have hq' : r.audit = o.audit ∧ r.accessType = o.accessType := by
            rcases hnq with hnq | hnq
            · subst hnq
              exact qual_eq_of_qualEq (by simpa using hq)
            · have a := hr.noQ hnq
              have b := ho.noQ (by rw [← hk]; exact hnq)
              exact ⟨a.1.trans b.1.symm, a.2.trans b.2.symm⟩
          have hns : r.kind ≠ "userns" := by
            intro e; rw [e] at hsc; simp [mergeSchema] at hsc
          have hrest : ∀ j, j < r.flds.length → j ≠ i → r.fld j = o.fld j := by
            intro j hj hji
            have hj' : j < (fldTypes r.kind).length := by rw [← hr.shape]; simpa using hj
            rcases hcov j hj' with e | e
            · exact absurd e hji
            · have := List.all_eq_true.mp hkeys j e
              simpa using this
          have hio : o.fld i ∈ keyList o := keyList_mem_fld (by rw [← hk]; exact hord)
          subst h
          refine ⟨dom_merge_field T tk key hr ho hp hty hord hio, ?_⟩
          intro f
          exact den_merge_field T r o i tk key hk hq'.1 hq'.2 hp hns hlen hi hrest
            (hr.perms i (by rw [hp]; simp)) (ho.perms i (by rw [← hk, hp]; simp)) f
      · cases h

end Aa

namespace Aa

theorem shape_signal {fl : List Fld} (h : fl.map shapeOf = [1, 1, 0]) :
    ∃ a s p, fl = [.l a, .l s, .s p] := by
  rcases fl with _ | ⟨x, _ | ⟨y, _ | ⟨z, _ | ⟨w, t⟩⟩⟩⟩ <;> simp at h
  cases x <;> cases y <;> cases z <;> simp [shapeOf] at h
  exact ⟨_, _, _, rfl⟩

theorem permIdx_signal : permIdx "signal" = [0, 1] := by decide

theorem den_signal {r : Rule} {a s : List (List Char)} {p : List Char} (hk : r.kind = "signal")
    (hf : r.flds = [.l a, .l s, .s p]) (f : Fact) :
    den r f ↔ (f.kind = "signal" ∧ f.audit = r.audit ∧ f.accessType = r.accessType ∧
      f.subject = [.l [], .l [], .s p] ∧ ∃ x y, holds a x ∧ holds s y ∧ f.perm = [x, y]) := by
  unfold den permsOf subjectOf
  rw [hk, permIdx_signal]
  simp [blankAt, hf, Rule.fld, Fld.list]

theorem dom_signal {al : List Char} {r : Rule} {a s : List (List Char)} {p : List Char} (hk : r.kind = "signal")
    (hf : r.flds = [.l a, .l s, .s p]) :
    Dom10 al r ↔ ((∀ x ∈ a, Canon al x) ∧ (∀ x ∈ s, Canon al x) ∧ Canon al p ∧ Canon al r.accessType ∧
      a ≠ [] ∧ s ≠ []) := by
  constructor
  · intro h
    have c := h.canon
    have pp := h.perms
    rw [hk, permIdx_signal] at pp
    have f0 : r.fld 0 = .l a := by simp [Rule.fld, hf]
    have f1 : r.fld 1 = .l s := by simp [Rule.fld, hf]
    have f2 : r.fld 2 = .s p := by simp [Rule.fld, hf]
    simp only [keyList, hk, cmpSchema, List.map_cons, List.map_nil, f0, f1, f2] at c
    refine ⟨c (.l a) (by simp), c (.l s) (by simp), c (.s p) (by simp), c (.s r.accessType) (by simp), ?_, ?_⟩
    · simpa [Rule.fld, hf, Fld.list] using pp 0 (by simp)
    · simpa [Rule.fld, hf, Fld.list] using pp 1 (by simp)
  · rintro ⟨h1, h2, h3, h4, h5, h6⟩
    refine ⟨by rw [hk]; decide, by rw [hk, hf]; rfl, ?_, ?_, ?_⟩
    · intro f hf'
      have f0 : r.fld 0 = .l a := by simp [Rule.fld, hf]
      have f1 : r.fld 1 = .l s := by simp [Rule.fld, hf]
      have f2 : r.fld 2 = .s p := by simp [Rule.fld, hf]
      simp only [keyList, hk, cmpSchema, f0, f1, f2, List.map_cons,
        List.map_nil, if_true, List.cons_append, List.nil_append, List.mem_cons, List.not_mem_nil, or_false] at hf'
      rcases hf' with rfl | rfl | rfl | rfl | rfl
      · exact h1
      · exact h2
      · exact h3
      · trivial
      · exact h4
    · intro hq; rw [hk] at hq; simp [cmpSchema] at hq
    · intro i hi
      rw [hk, permIdx_signal] at hi
      simp only [List.mem_cons, List.not_mem_nil, or_false] at hi
      rcases hi with rfl | rfl
      · simpa [Rule.fld, hf, Fld.list] using h5
      · simpa [Rule.fld, hf, Fld.list] using h6

/-- **Merge contract, `signal`** (two permission lists: access and signal set; one of them is
united when the other one and the peer are equal). -/
theorem mergeContract_signal (T : Tables) (hal : ∀ c ∈ T.stringAlphabet, lowerC c = c) (r o r' : Rule)
    (hr : Dom10 T.stringAlphabet r) (ho : Dom10 T.stringAlphabet o) (hk : r.kind = o.kind)
    (hs : r.kind = "signal") (h : mergeRule T r o = some r') :
    Dom10 T.stringAlphabet r' ∧ ∀ f, den r' f ↔ (den r f ∨ den o f) := by
  have hso : o.kind = "signal" := by rw [← hk]; exact hs
  have L := cmpList_isOrd hal
  have shr := hr.shape; have sho := ho.shape
  rw [hs] at shr; rw [hso] at sho
  simp only [fldTypes] at shr sho
  obtain ⟨a, s, p, e1⟩ := shape_signal shr
  obtain ⟨a', s', p', e2⟩ := shape_signal sho
  obtain ⟨ca, cs, cp, ct, na, ns⟩ := (dom_signal hs e1).mp hr
  obtain ⟨ca', cs', cp', ct', na', ns'⟩ := (dom_signal hso e2).mp ho
  unfold mergeRule at h
  have hs' : (r.kind == "signal") = true := by simp [hs]
  simp only [hs', if_true, Rule.fld, e1, e2, List.getD_cons_zero, List.getD_cons_succ, Fld.list] at h
  split at h
  · cases h
  · rename_i hq
    obtain ⟨qa, qt⟩ := qual_eq_of_qualEq (by simpa using hq)
    split at h
    · rename_i hc
      simp only [Bool.and_eq_true, beq_iff_eq, Fld.s.injEq] at hc
      obtain ⟨hp, hc⟩ := hc
      have hss : s = s' := L.eq_of_zero s s' cs cs' hc
      subst hp; subst hss
      simp only [Option.some.injEq] at h
      subst h
      generalize hv : mergeValues T "signal" "access" a a' = v
      have hmem : ∀ x, x ∈ v ↔ (x ∈ a ∨ x ∈ a') := by intro x; rw [← hv]; exact mem_mergeValues T _ _ _ _ x
      have hvne : v ≠ [] := by rw [← hv]; exact mergeValues_ne_nil T _ _ _ na
      have k1 : (mergeBase (r.setFld 0 (.l v)) o).kind = "signal" := hs
      have k2 : (mergeBase (r.setFld 0 (.l v)) o).flds = [.l v, .l s, .s p] := by
        show r.flds.set 0 (.l v) = _; rw [e1]; rfl
      refine ⟨(dom_signal k1 k2).mpr ⟨?_, cs, cp, ct, hvne, ns⟩, ?_⟩
      · intro x hx; rcases (hmem x).mp hx with hx | hx
        · exact ca x hx
        · exact ca' x hx
      · intro f
        rw [den_signal k1 k2, den_signal hs e1, den_signal hso e2]
        have e3 : (mergeBase (r.setFld 0 (.l v)) o).audit = r.audit := rfl
        have e4 : (mergeBase (r.setFld 0 (.l v)) o).accessType = r.accessType := rfl
        rw [e3, e4, ← qa, ← qt]
        simp only [holds_iff_mem hvne, holds_iff_mem na, holds_iff_mem na', hmem]
        constructor
        · rintro ⟨h1, h2, h3, h4, x, y, hx, hy, h5⟩
          rcases hx with hx | hx
          · exact Or.inl ⟨h1, h2, h3, h4, x, y, hx, hy, h5⟩
          · exact Or.inr ⟨h1, h2, h3, h4, x, y, hx, hy, h5⟩
        · rintro (⟨h1, h2, h3, h4, x, y, hx, hy, h5⟩ | ⟨h1, h2, h3, h4, x, y, hx, hy, h5⟩)
          · exact ⟨h1, h2, h3, h4, x, y, Or.inl hx, hy, h5⟩
          · exact ⟨h1, h2, h3, h4, x, y, Or.inr hx, hy, h5⟩
    · split at h
      · rename_i hc
        simp only [Bool.and_eq_true, beq_iff_eq, Fld.s.injEq] at hc
        obtain ⟨hp, hc⟩ := hc
        have haa : a = a' := L.eq_of_zero a a' ca ca' hc
        subst hp; subst haa
        simp only [Option.some.injEq] at h
        subst h
        generalize hv : mergeValues T "signal" "set" s s' = v
        have hmem : ∀ x, x ∈ v ↔ (x ∈ s ∨ x ∈ s') := by intro x; rw [← hv]; exact mem_mergeValues T _ _ _ _ x
        have hvne : v ≠ [] := by rw [← hv]; exact mergeValues_ne_nil T _ _ _ ns
        have k1 : (mergeBase (r.setFld 1 (.l v)) o).kind = "signal" := hs
        have k2 : (mergeBase (r.setFld 1 (.l v)) o).flds = [.l a, .l v, .s p] := by
          show r.flds.set 1 (.l v) = _; rw [e1]; rfl
        refine ⟨(dom_signal k1 k2).mpr ⟨ca, ?_, cp, ct, na, hvne⟩, ?_⟩
        · intro x hx; rcases (hmem x).mp hx with hx | hx
          · exact cs x hx
          · exact cs' x hx
        · intro f
          rw [den_signal k1 k2, den_signal hs e1, den_signal hso e2]
          have e3 : (mergeBase (r.setFld 1 (.l v)) o).audit = r.audit := rfl
          have e4 : (mergeBase (r.setFld 1 (.l v)) o).accessType = r.accessType := rfl
          rw [e3, e4, ← qa, ← qt]
          simp only [holds_iff_mem hvne, holds_iff_mem ns, holds_iff_mem ns', hmem]
          constructor
          · rintro ⟨h1, h2, h3, h4, x, y, hx, hy, h5⟩
            rcases hy with hy | hy
            · exact Or.inl ⟨h1, h2, h3, h4, x, y, hx, hy, h5⟩
            · exact Or.inr ⟨h1, h2, h3, h4, x, y, hx, hy, h5⟩
          · rintro (⟨h1, h2, h3, h4, x, y, hx, hy, h5⟩ | ⟨h1, h2, h3, h4, x, y, hx, hy, h5⟩)
            · exact ⟨h1, h2, h3, h4, x, y, hx, Or.inl hy, h5⟩
            · exact ⟨h1, h2, h3, h4, x, y, hx, Or.inr hy, h5⟩
      · cases h

end Aa

namespace Aa

/-- **Merge contract** for the meaning `den` on `Dom10` -/
theorem mergeContract (T : Tables) (hal : ∀ c ∈ T.stringAlphabet, lowerC c = c) :
    MergeContract T den (Dom10 T.stringAlphabet) := by
  intro r o r' hr ho hk h
  by_cases hs : r.kind = "signal"
  · exact mergeContract_signal T hal r o r' hr ho hk hs h
  · exact mergeContract_plain T r o r' hr ho hk hs h

/-! ### the duplicate test -/

theorem den_congr {r o : Rule} (h1 : r.kind = o.kind) (h2 : r.audit = o.audit) (h3 : r.accessType = o.accessType)
    (h4 : r.flds = o.flds) (f : Fact) : den r f ↔ den o f := by
  unfold den permsOf subjectOf Rule.fld
  rw [h1, h2, h3, h4]

theorem shapeOf_fld (r : Rule) (j : Nat) : shapeOf (r.fld j) = (r.flds.map shapeOf).getD j 0 := by
  unfold Rule.fld
  simp only [List.getD_eq_getElem?_getD, List.getElem?_map]
  cases r.flds[j]? <;> rfl

theorem keyList_shape (r : Rule) :
    (keyList r).map shapeOf = (cmpSchema r.kind).order.map (fun j => (r.flds.map shapeOf).getD j 0) ++
      (if (cmpSchema r.kind).hasQ then [2, 0] else []) := by
  unfold keyList
  simp only [List.map_append, List.map_map]
  congr 1
  · apply List.map_congr_left
    intro j _
    exact shapeOf_fld r j
  · split <;> rfl

/-- a zero of `Compare` is a zero of the key comparison (the prefix rule of `file` and the
`abstractions/base` rule of `include` only ever return non-zero values) -/
theorem cmpFlds_zero_of_compareRule (T : Tables) (r o : Rule) (h : compareRule T r o = 0) :
    cmpFlds T.stringAlphabet (keyList r) (keyList o) = 0 := by
  unfold compareRule at h
  split at h
  · simp only at h
    split at h
    · rename_i hc; omega
    · exact h
  · split at h
    · simp only at h
      split at h
      · rename_i hc
        split at h
        · omega
        · split at h
          · omega
          · exact absurd h hc
      · exact h
    · exact h

/-- **Equal keys mean identical**: on `Dom10`, two rules of one kind whose key lists compare equal have
the same qualifier and the same fields. -/
theorem keys_zero_identical (T : Tables) (hal : ∀ c ∈ T.stringAlphabet, lowerC c = c) {r o : Rule}
    (hr : Dom10 T.stringAlphabet r) (ho : Dom10 T.stringAlphabet o) (hk : r.kind = o.kind)
    (hz : cmpFlds T.stringAlphabet (keyList r) (keyList o) = 0) :
    r.audit = o.audit ∧ r.accessType = o.accessType ∧ r.flds = o.flds := by
  have shr := keyList_shape r
  have sho := keyList_shape o
  rw [hr.shape] at shr
  rw [ho.shape, ← hk] at sho
  have hkeys : keyList r = keyList o :=
    (cmpFlds_isOrd hal _).eq_of_zero _ _ ⟨shr, hr.canon⟩ ⟨sho, ho.canon⟩ hz
  have hok := cmpOk_all r.kind hr.kind
  simp only [cmpOk, Bool.and_eq_true, List.all_eq_true, List.mem_range, List.contains_iff_mem,
    decide_eq_true_eq] at hok
  unfold keyList at hkeys
  rw [← hk] at hkeys
  have hlen : ((cmpSchema r.kind).order.map r.fld).length = ((cmpSchema r.kind).order.map o.fld).length := by simp
  obtain ⟨h1, h2⟩ := List.append_inj hkeys hlen
  have hflds : r.flds = o.flds := by
    have hl := length_of_shape hr.shape ho.shape hk
    apply List.ext_getElem hl
    intro n hn1 hn2
    have hn : n < (fldTypes r.kind).length := by rw [← hr.shape]; simpa using hn1
    have := List.map_inj_left.mp h1 n (hok.1 n hn)
    simpa [Rule.fld, List.getD_eq_getElem?_getD, hn1, hn2] using this
  have hq : r.audit = o.audit ∧ r.accessType = o.accessType := by
    cases hh : (cmpSchema r.kind).hasQ with
    | true => rw [hh] at h2; simpa using h2
    | false =>
      have a := hr.noQ hh
      have b := ho.noQ (by rw [← hk]; exact hh)
      exact ⟨a.1.trans b.1.symm, a.2.trans b.2.symm⟩
  exact ⟨hq.1, hq.2, hflds⟩

/-- **Compare-equal means identical** (every meaningful kind, `file` and `include` included): on
`Dom10`, two rules of one kind that `Compare` equal have the same qualifier and the same fields —
they differ at most in their comment and bookkeeping flags. -/
theorem compare_zero_identical (T : Tables) (hal : ∀ c ∈ T.stringAlphabet, lowerC c = c) {r o : Rule}
    (hr : Dom10 T.stringAlphabet r) (ho : Dom10 T.stringAlphabet o) (hk : r.kind = o.kind)
    (hc : compareRule T r o = 0) : r.audit = o.audit ∧ r.accessType = o.accessType ∧ r.flds = o.flds :=
  keys_zero_identical T hal hr ho hk (cmpFlds_zero_of_compareRule T r o hc)

/-- **Duplicate contract**: dropping a rule that compares equal to an earlier one drops no fact. -/
theorem dupContract (T : Tables) (hal : ∀ c ∈ T.stringAlphabet, lowerC c = c) :
    DupContract T den (Dom10 T.stringAlphabet) := by
  intro r o hr ho hk _ hc f
  obtain ⟨h1, h2, h3⟩ := compare_zero_identical T hal hr ho hk hc
  exact (den_congr hk h1 h2 h3 f).mpr

/-- **C10 on the model**: `Rules.Merge` preserves the meaning of every list over `Dom10`. -/
theorem mergeRules_meaning (T : Tables) (hal : ∀ c ∈ T.stringAlphabet, lowerC c = c)
    (l : List (Option Rule)) (hdom : ∀ o ∈ l, DomO (Dom10 T.stringAlphabet) o) (f : Fact) :
    Den den (mergeRules T l) f ↔ Den den l f :=
  mergeRules_den T den _ (mergeContract T hal) (dupContract T hal) l hdom f

end Aa

namespace Aa

theorem dom10_iff (al : List Char) (r : Rule) : Dom10 al r ↔
    (r.kind ∈ meaningKinds ∧ r.flds.map shapeOf = fldTypes r.kind ∧ (∀ f ∈ keyList r, CanonFld al f) ∧
     ((cmpSchema r.kind).hasQ = false → r.audit = false ∧ r.accessType = []) ∧
     ∀ i ∈ permIdx r.kind, (r.fld i).list ≠ []) :=
  ⟨fun h => ⟨h.kind, h.shape, h.canon, h.noQ, h.perms⟩, fun ⟨a, b, c, d, e⟩ => ⟨a, b, c, d, e⟩⟩

/-- the domain is decidable: the driver evaluates it on every generated rule -/
instance (al : List Char) (r : Rule) : Decidable (Dom10 al r) := decidable_of_iff _ (dom10_iff al r).symm

end Aa
