import AaVerif.Aa.Cmp
/-!
# Aa.Merge — model of `merge` (util.go), every `Rule.Merge`, and `Rules.Merge`
-/
namespace Aa

def reqValues (T : Tables) (kind key : String) : List (List Char) :=
  match T.requirements.find? (fun p => p.1 == kind) with
  | some (_, keys) => match keys.find? (fun p => p.1 == key) with
    | some (_, vs) => vs
    | none => []
  | none => []

/-- `compareFileAccess` -/
def cmpFileAccess (T : Tables) (i j : List Char) : Int :=
  let acc := reqValues T "file" "access"
  let tr := reqValues T "file" "transition"
  if acc.contains i && acc.contains j then weight acc i - weight acc j
  else if tr.contains i && tr.contains j then weight tr i - weight tr j
  else if acc.contains i then -1 else 1

/-- `slices.Compact` -/
def compact : List (List Char) → List (List Char)
  | [] => []
  | [a] => [a]
  | a :: b :: l => if a = b then compact (b :: l) else a :: compact (b :: l)

/-- `merge(kind, key, a, b)`: append, sort, compact.  The sort is the stable insertion sort;
Go's `slices.SortFunc` agrees with it whenever distinct values have distinct weights. -/
def mergeValues (T : Tables) (kind key : String) (a b : List (List Char)) : List (List Char) :=
  let c := a ++ b
  let sorted :=
    if kind == "file" then sortBy (cmpFileAccess T) c
    else if kind == "variable" then sortBy (cmpStr T.stringAlphabet) c
    else
      let vs := if T.weightKinds.contains kind then reqValues T kind key else []
      sortBy (fun x y => weight vs x - weight vs y) c
  compact sorted

def qualEq (r o : Rule) : Bool := r.audit == o.audit && r.accessType == o.accessType

/-- `Base.merge` -/
def mergeBase (r o : Rule) : Rule :=
  { r with noNewPrivs := r.noNewPrivs || o.noNewPrivs,
           fileInherit := r.fileInherit || o.fileInherit,
           optional := r.optional || o.optional,
           comment := if o.comment.isEmpty then r.comment else r.comment ++ ' ' :: o.comment }

/-- merge description of a kind: the fields that must be equal (Go `==`), the merged list field
and the requirement table that orders it -/
structure MergeSchema where
  needQ : Bool
  keys : List Nat
  merged : Option (Nat × String × String)   -- field index, table kind, table key

def mergeSchema : String → Option MergeSchema
  | "mqueue" => some ⟨true, [1, 2, 3], some (0, "mqueue", "access")⟩
  | "io_uring" => some ⟨true, [1], some (0, "io_uring", "access")⟩
  | "ptrace" => some ⟨true, [1], some (0, "ptrace", "access")⟩
  | "unix" => some ⟨true, [1, 2, 3, 4, 5, 6, 7, 8], some (0, "unix", "access")⟩
  | "dbus" => some ⟨true, [1, 2, 3, 4, 5, 6, 7], some (0, "dbus", "access")⟩
  | "file" => some ⟨true, [0, 1, 3], some (2, "file", "access")⟩
  | "mount" => some ⟨true, [2, 3, 0], some (1, "mount", "flags")⟩
  | "umount" => some ⟨true, [2, 0], some (1, "mount", "flags")⟩
  | "remount" => some ⟨true, [2, 0], some (1, "mount", "flags")⟩
  | "userns" => some ⟨true, [], none⟩
  | "all" => some ⟨false, [], none⟩
  | "variable" => some ⟨false, [0, 2], some (1, "variable", "access")⟩
  | _ => none

/-- `r.Merge(o)` for two rules of the same kind: the new `r` when the rules were merged -/
def mergeRule (T : Tables) (r o : Rule) : Option Rule :=
  if r.kind == "signal" then
    if !qualEq r o then none
    else if (r.fld 2) == (o.fld 2) && cmpList T.stringAlphabet (r.fld 1).list (o.fld 1).list == 0 then
      some (mergeBase (r.setFld 0 (.l (mergeValues T "signal" "access" (r.fld 0).list (o.fld 0).list))) o)
    else if (r.fld 2) == (o.fld 2) && cmpList T.stringAlphabet (r.fld 0).list (o.fld 0).list == 0 then
      some (mergeBase (r.setFld 1 (.l (mergeValues T "signal" "set" (r.fld 1).list (o.fld 1).list))) o)
    else none
  else
    match mergeSchema r.kind with
    | none => none
    | some sc =>
      if sc.needQ && !qualEq r o then none
      else if sc.keys.all (fun i => r.fld i == o.fld i) then
        match sc.merged with
        | none => some (mergeBase r o)
        | some (i, k, key) =>
          some (mergeBase (r.setFld i (.l (mergeValues T k key (r.fld i).list (o.fld i).list))) o)
      else none

/-- inner loop of `Rules.Merge` for a fixed `i`: the (possibly mutated) `r[i]` and the survivors -/
def absorb (T : Tables) (r : Option Rule) : List (Option Rule) → Option Rule × List (Option Rule)
  | [] => (r, [])
  | o :: os =>
    match r, o with
    | none, none => absorb T r os                       -- both nil: delete j
    | none, some _ => let p := absorb T r os; (p.1, o :: p.2)
    | some _, none => let p := absorb T r os; (p.1, o :: p.2)
    | some ri, some oj =>
      if ri.kind ≠ oj.kind then let p := absorb T r os; (p.1, o :: p.2)
      else if ri.kind ≠ "comment" ∧ compareRule T ri oj = 0 then absorb T r os
      else match mergeRule T ri oj with
        | some r' => absorb T (some r') os
        | none => let p := absorb T r os; (p.1, o :: p.2)

theorem absorb_length (T : Tables) (r : Option Rule) (os : List (Option Rule)) :
    (absorb T r os).2.length ≤ os.length := by
  induction os generalizing r with
  | nil => simp [absorb]
  | cons o os ih =>
    cases r <;> cases o <;> simp only [absorb]
    · have := ih none; simp only [List.length_cons]; omega
    · have := ih none; simp only [List.length_cons]; omega
    · rename_i ri; have := ih (some ri); simp only [List.length_cons]; omega
    · rename_i ri oj
      split
      · have := ih (some ri); simp only [List.length_cons]; omega
      · split
        · have := ih (some ri); simp only [List.length_cons]; omega
        · split
          · rename_i r' _; have := ih (some r'); simp only [List.length_cons]; omega
          · have := ih (some ri); simp only [List.length_cons]; omega

/-- `Rules.Merge` with explicit fuel (structural, so that the kernel can evaluate it) -/
def mergeAux (T : Tables) : Nat → List (Option Rule) → List (Option Rule)
  | 0, _ => []
  | _ + 1, [] => []
  | f + 1, r :: rs =>
    let p := absorb T r rs
    p.1 :: mergeAux T f p.2

/-- `Rules.Merge` -/
def mergeRules (T : Tables) (l : List (Option Rule)) : List (Option Rule) := mergeAux T l.length l

/-- `Rules.Sort` (reference: stable insertion sort with the Sort comparator) -/
def sortRules (T : Tables) (l : List Rule) : List Rule := sortBy (sortCmp T) l

end Aa

/-! ## What a list of rules means, and why `Rules.Merge` preserves it -/
namespace Aa

section Generic
variable {Fact : Type} (T : Tables) (den : Rule → Fact → Prop) (D : Rule → Prop)

/-- meaning of an entry (`nil` entries mean nothing) -/
def denO : Option Rule → Fact → Prop
  | none, _ => False
  | some r, f => den r f

/-- meaning of a list: union of the meanings of its entries -/
def Den (l : List (Option Rule)) (f : Fact) : Prop := ∃ r ∈ l, denO den r f

def DomO : Option Rule → Prop
  | none => True
  | some r => D r

/-- contract of `Rule.Merge`: the merged rule means the union of the two -/
def MergeContract : Prop :=
  ∀ r o r', D r → D o → r.kind = o.kind → mergeRule T r o = some r' →
    D r' ∧ ∀ f, den r' f ↔ (den r f ∨ den o f)

/-- contract of the duplicate test: a rule that compares equal adds no meaning -/
def DupContract : Prop :=
  ∀ r o, D r → D o → r.kind = o.kind → r.kind ≠ "comment" → compareRule T r o = 0 →
    ∀ f, den o f → den r f

theorem Den_cons (x : Option Rule) (l : List (Option Rule)) (f : Fact) :
    Den den (x :: l) f ↔ (denO den x f ∨ Den den l f) := by
  simp [Den]

theorem absorb_den (hm : MergeContract T den D) (hd : DupContract T den D)
    (r : Option Rule) (os : List (Option Rule)) (hr : DomO D r) (hos : ∀ o ∈ os, DomO D o) (f : Fact) :
    DomO D (absorb T r os).1 ∧ (∀ o ∈ (absorb T r os).2, DomO D o) ∧
    ((denO den (absorb T r os).1 f ∨ Den den (absorb T r os).2 f) ↔ (denO den r f ∨ Den den os f)) := by
  induction os generalizing r with
  | nil => simp [absorb, hr, Den]
  | cons o os ih =>
    have hos' : ∀ x ∈ os, DomO D x := fun x hx => hos x (by simp [hx])
    have ho : DomO D o := hos o (by simp)
    -- the case "keep o, continue with the same r"
    have keep : ∀ (r : Option Rule), DomO D r →
        DomO D (absorb T r os).1 ∧ (∀ x ∈ o :: (absorb T r os).2, DomO D x) ∧
        ((denO den (absorb T r os).1 f ∨ Den den (o :: (absorb T r os).2) f) ↔
          (denO den r f ∨ Den den (o :: os) f)) := by
      intro r hr
      obtain ⟨h1, h2, h3⟩ := ih r hr hos'
      refine ⟨h1, ?_, ?_⟩
      · intro x hx
        simp only [List.mem_cons] at hx
        rcases hx with rfl | hx
        · exact ho
        · exact h2 x hx
      · rw [Den_cons, Den_cons]
        constructor
        · rintro (h | h | h)
          · rcases h3.mp (Or.inl h) with h | h <;> simp [h]
          · simp [h]
          · rcases h3.mp (Or.inr h) with h | h <;> simp [h]
        · rintro (h | h | h)
          · rcases h3.mpr (Or.inl h) with h | h <;> simp [h]
          · simp [h]
          · rcases h3.mpr (Or.inr h) with h | h <;> simp [h]
    cases r with
    | none =>
      cases o with
      | none =>
        simp only [absorb]
        obtain ⟨h1, h2, h3⟩ := ih none hr hos'
        refine ⟨h1, h2, ?_⟩
        rw [h3, Den_cons]; simp [denO]
      | some oj => simp only [absorb]; exact keep none hr
    | some ri =>
      cases o with
      | none => simp only [absorb]; exact keep (some ri) hr
      | some oj =>
        simp only [absorb]
        split
        · exact keep (some ri) hr
        · rename_i hk
          have hk : ri.kind = oj.kind := by simpa using hk
          split
          · rename_i hc
            obtain ⟨h1, h2, h3⟩ := ih (some ri) hr hos'
            refine ⟨h1, h2, ?_⟩
            rw [h3, Den_cons]
            constructor
            · intro h; rcases h with h | h <;> simp [h]
            · rintro (h | h | h)
              · exact Or.inl h
              · exact Or.inl (hd ri oj hr ho hk hc.1 hc.2 f h)
              · exact Or.inr h
          · split
            · rename_i r' hmr
              obtain ⟨hD', hden⟩ := hm ri oj r' hr ho hk hmr
              obtain ⟨h1, h2, h3⟩ := ih (some r') hD' hos'
              refine ⟨h1, h2, ?_⟩
              rw [h3, Den_cons]
              simp only [denO]
              rw [hden f]
              constructor
              · rintro ((h | h) | h) <;> simp [h]
              · rintro (h | h | h) <;> simp [h]
            · exact keep (some ri) hr

theorem mergeAux_den (hm : MergeContract T den D) (hd : DupContract T den D) :
    ∀ (n : Nat) (l : List (Option Rule)), l.length ≤ n → (∀ o ∈ l, DomO D o) →
      ∀ f, Den den (mergeAux T n l) f ↔ Den den l f := by
  intro n
  induction n with
  | zero =>
    intro l hl _ f
    have : l = [] := List.length_eq_zero_iff.mp (by omega)
    subst this; simp [mergeAux, Den]
  | succ n ih =>
    intro l hl hdom f
    cases l with
    | nil => simp [mergeAux, Den]
    | cons r rs =>
      simp only [mergeAux]
      obtain ⟨h1, h2, h3⟩ := absorb_den T den D hm hd r rs (hdom r (by simp)) (fun o ho => hdom o (by simp [ho])) f
      have hlen := absorb_length T r rs
      rw [Den_cons, ih _ (by simp at hl; omega) h2 f, h3, Den_cons]

/-- **Generic meaning preservation.** Under the two per-rule contracts, `Rules.Merge` neither
drops nor adds a fact, for every list over the domain (any length, any order, `nil` entries
included). -/
theorem mergeRules_den (hm : MergeContract T den D) (hd : DupContract T den D)
    (l : List (Option Rule)) (hdom : ∀ o ∈ l, DomO D o) (f : Fact) :
    Den den (mergeRules T l) f ↔ Den den l f :=
  mergeAux_den T den D hm hd l.length l (Nat.le_refl _) hdom f

end Generic

/-! ### `merge` on permission lists is a union -/

theorem mem_insertBy {α : Type} (cmp : α → α → Int) (x y : α) : ∀ l, y ∈ insertBy cmp x l ↔ y = x ∨ y ∈ l
  | [] => by simp [insertBy]
  | z :: zs => by
    simp only [insertBy]
    split
    · simp
    · simp only [List.mem_cons, mem_insertBy cmp x y zs]
      constructor
      · rintro (h | h | h) <;> simp [h]
      · rintro (h | h | h) <;> simp [h]

theorem mem_sortBy {α : Type} (cmp : α → α → Int) (y : α) : ∀ l, y ∈ sortBy cmp l ↔ y ∈ l
  | [] => by simp [sortBy]
  | x :: xs => by simp [sortBy, mem_insertBy, mem_sortBy cmp y xs]

theorem mem_compact (y : List Char) : ∀ l, y ∈ compact l ↔ y ∈ l
  | [] => by simp [compact]
  | [a] => by simp [compact]
  | a :: b :: l => by
    simp only [compact]
    split
    · rename_i h; subst h
      rw [mem_compact y (a :: l)]; simp
    · simp only [List.mem_cons, mem_compact y (b :: l)]

/-- **`merge` is a union**, whatever the kind and the weight table: no permission is lost, none
is invented. -/
theorem mem_mergeValues (T : Tables) (kind key : String) (a b : List (List Char)) (y : List Char) :
    y ∈ mergeValues T kind key a b ↔ (y ∈ a ∨ y ∈ b) := by
  unfold mergeValues
  simp only [mem_compact]
  split
  · rw [mem_sortBy]; simp
  · split
    · rw [mem_sortBy]; simp
    · rw [mem_sortBy]; simp

end Aa
