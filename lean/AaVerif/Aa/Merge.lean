import AaVerif.Aa.Cmp
/-!
# Aa.Merge — model of `merge` (util.go), every `Rule.Merge`, and `Rules.Merge`
-/
namespace Aa

def reqValues (T : Tables) (kind key : String) : List (List Char) :=
  match T.requirements.find? (fun p => p.1 == kind) with
  | some (_, keys) => match keys.find? (fun p => p.1 == key) with
    | some (_, vs) => vs
    | none => []
  | none => []

/-- `compareFileAccess` -/
def cmpFileAccess (T : Tables) (i j : List Char) : Int :=
  let acc := reqValues T "file" "access"
  let tr := reqValues T "file" "transition"
  if acc.contains i && acc.contains j then weight acc i - weight acc j
  else if tr.contains i && tr.contains j then weight tr i - weight tr j
  else if acc.contains i then -1 else 1

/-- `slices.Compact` -/
def compact : List (List Char) → List (List Char)
  | [] => []
  | [a] => [a]
  | a :: b :: l => if a = b then compact (b :: l) else a :: compact (b :: l)

/-- `merge(kind, key, a, b)`: append, sort, compact.  The sort is the stable insertion sort;
Go's `slices.SortFunc` agrees with it whenever distinct values have distinct weights. -/
def mergeValues (T : Tables) (kind key : String) (a b : List (List Char)) : List (List Char) :=
  let c := a ++ b
  let sorted :=
    if kind == "file" then sortBy (cmpFileAccess T) c
    else if kind == "variable" then sortBy (cmpStr T.stringAlphabet) c
    else sortBy (fun x y => weight (reqValues T kind key) x - weight (reqValues T kind key) y) c
  compact sorted

def qualEq (r o : Rule) : Bool := r.audit == o.audit && r.accessType == o.accessType

/-- `Base.merge` -/
def mergeBase (r o : Rule) : Rule :=
  { r with noNewPrivs := r.noNewPrivs || o.noNewPrivs,
           fileInherit := r.fileInherit || o.fileInherit,
           optional := r.optional || o.optional,
           comment := if o.comment.isEmpty then r.comment else r.comment ++ ' ' :: o.comment }

/-- merge description of a kind: the fields that must be equal (Go `==`), the merged list field
and the requirement table that orders it -/
structure MergeSchema where
  needQ : Bool
  keys : List Nat
  merged : Option (Nat × String × String)   -- field index, table kind, table key

def mergeSchema : String → Option MergeSchema
  | "mqueue" => some ⟨true, [1, 2, 3], some (0, "mqueue", "access")⟩
  | "io_uring" => some ⟨true, [1], some (0, "io_uring", "access")⟩
  | "ptrace" => some ⟨true, [1], some (0, "ptrace", "access")⟩
  | "unix" => some ⟨true, [1, 2, 3, 4, 5, 6, 7, 8], some (0, "unix", "access")⟩
  | "dbus" => some ⟨true, [1, 2, 3, 4, 5, 6, 7], some (0, "dbus", "access")⟩
  | "file" => some ⟨true, [0, 1, 3], some (2, "file", "access")⟩
  | "mount" => some ⟨true, [2, 3, 0], some (1, "mount", "flags")⟩
  | "umount" => some ⟨true, [2, 0], some (1, "mount", "flags")⟩
  | "remount" => some ⟨true, [2, 0], some (1, "mount", "flags")⟩
  | "userns" => some ⟨true, [], none⟩
  | "all" => some ⟨false, [], none⟩
  | "variable" => some ⟨false, [0, 2], some (1, "variable", "access")⟩
  | _ => none

/-- `r.Merge(o)` for two rules of the same kind: the new `r` when the rules were merged -/
def mergeRule (T : Tables) (r o : Rule) : Option Rule :=
  if r.kind == "signal" then
    if !qualEq r o then none
    else if (r.fld 2) == (o.fld 2) && cmpList T.stringAlphabet (r.fld 1).list (o.fld 1).list == 0 then
      some (mergeBase (r.setFld 0 (.l (mergeValues T "signal" "access" (r.fld 0).list (o.fld 0).list))) o)
    else if (r.fld 2) == (o.fld 2) && cmpList T.stringAlphabet (r.fld 0).list (o.fld 0).list == 0 then
      some (mergeBase (r.setFld 1 (.l (mergeValues T "signal" "set" (r.fld 1).list (o.fld 1).list))) o)
    else none
  else
    match mergeSchema r.kind with
    | none => none
    | some sc =>
      if sc.needQ && !qualEq r o then none
      else if sc.keys.all (fun i => r.fld i == o.fld i) then
        match sc.merged with
        | none => some (mergeBase r o)
        | some (i, k, key) =>
          some (mergeBase (r.setFld i (.l (mergeValues T k key (r.fld i).list (o.fld i).list))) o)
      else none

/-- inner loop of `Rules.Merge` for a fixed `i`: the (possibly mutated) `r[i]` and the survivors -/
def absorb (T : Tables) (r : Option Rule) : List (Option Rule) → Option Rule × List (Option Rule)
  | [] => (r, [])
  | o :: os =>
    match r, o with
    | none, none => absorb T r os                       -- both nil: delete j
    | none, some _ => let p := absorb T r os; (p.1, o :: p.2)
    | some _, none => let p := absorb T r os; (p.1, o :: p.2)
    | some ri, some oj =>
      if ri.kind ≠ oj.kind then let p := absorb T r os; (p.1, o :: p.2)
      else if ri.kind ≠ "comment" ∧ compareRule T ri oj = 0 then absorb T r os
      else match mergeRule T ri oj with
        | some r' => absorb T (some r') os
        | none => let p := absorb T r os; (p.1, o :: p.2)

theorem absorb_length (T : Tables) (r : Option Rule) (os : List (Option Rule)) :
    (absorb T r os).2.length ≤ os.length := by
  induction os generalizing r with
  | nil => simp [absorb]
  | cons o os ih =>
    cases r <;> cases o <;> simp only [absorb]
    · have := ih none; simp only [List.length_cons]; omega
    · have := ih none; simp only [List.length_cons]; omega
    · rename_i ri; have := ih (some ri); simp only [List.length_cons]; omega
    · rename_i ri oj
      split
      · have := ih (some ri); simp only [List.length_cons]; omega
      · split
        · have := ih (some ri); simp only [List.length_cons]; omega
        · split
          · rename_i r' _; have := ih (some r'); simp only [List.length_cons]; omega
          · have := ih (some ri); simp only [List.length_cons]; omega

/-- `Rules.Merge` with explicit fuel (structural, so that the kernel can evaluate it) -/
def mergeAux (T : Tables) : Nat → List (Option Rule) → List (Option Rule)
  | 0, _ => []
  | _ + 1, [] => []
  | f + 1, r :: rs =>
    let p := absorb T r rs
    p.1 :: mergeAux T f p.2

/-- `Rules.Merge` -/
def mergeRules (T : Tables) (l : List (Option Rule)) : List (Option Rule) := mergeAux T l.length l

/-- `Rules.Sort` (reference: stable insertion sort with the Sort comparator) -/
def sortRules (T : Tables) (l : List Rule) : List Rule := sortBy (sortCmp T) l

end Aa
