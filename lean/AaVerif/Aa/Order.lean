import AaVerif.Aa.Meaning
import AaVerif.Aa.Sort
/-!
# Aa.Order — `Rules.Sort`'s comparator is a total preorder with identity on a stated domain

`sortCmp` (kind weight, then the kind's own `Compare`) is shown to be antisymmetric, transitive and
zero only on identical rules on the domain `DomS T b`:

* a rule of `Dom10` (meaningful kind, the fields of its kind, strings over the sort alphabet) …
* … whose kind has a weight in `ruleAlphabet` (comment, abi, alias, variable have none: `K_weightlessKinds`),
* that carries no comment or bookkeeping flag (`Compare` ignores them, so two rules that differ
  only there are a tie, and the order of ties is up to the sort algorithm),
* that is not an `include if exists` (`K_includeIfExistsMixed`),
* and, for file rules, whose path has a known prefix iff `b` (mixed lists: `K_filePrefixCycle`).

Consequences (`Props/C11`): sorting is idempotent and independent of the order in which the rules
are supplied, for every list over the domain and every sort algorithm that returns a sorted
permutation.
-/
namespace Aa

/-! ### two ways of building comparators -/

/-- an integer key in front of a comparator -/
theorem IsOrd.lexInt {α : Type} {D : α → Prop} {c : α → α → Int} (h : IsOrd D c) (w : α → Int) :
    IsOrd D (fun a b => if w a ≠ w b then w a - w b else c a b) where
  antisymm := by
    intro a b
    show (if w a ≠ w b then w a - w b else c a b) = -(if w b ≠ w a then w b - w a else c b a)
    by_cases e : w a = w b
    · rw [if_neg (fun n => n e), if_neg (fun n => n e.symm)]
      exact h.antisymm a b
    · rw [if_pos e, if_pos (fun x => e x.symm)]; omega
  trans := by
    intro a b x ha hb hx h1 h2
    have h1' : (if w a ≠ w b then w a - w b else c a b) ≤ 0 := h1
    have h2' : (if w b ≠ w x then w b - w x else c b x) ≤ 0 := h2
    show (if w a ≠ w x then w a - w x else c a x) ≤ 0
    by_cases e1 : w a = w b <;> by_cases e2 : w b = w x
    · rw [if_neg (fun n => n e1)] at h1'
      rw [if_neg (fun n => n e2)] at h2'
      rw [if_neg (fun n => n (e1.trans e2))]
      exact h.trans a b x ha hb hx h1' h2'
    · rw [if_pos e2] at h2'
      rw [if_pos (fun e => e2 (e1.symm.trans e))]; omega
    · rw [if_pos e1] at h1'
      rw [if_pos (fun e => e1 (e.trans e2.symm))]; omega
    · rw [if_pos e1] at h1'
      rw [if_pos e2] at h2'
      have e3 : ¬ w a = w x := by omega
      rw [if_pos e3]; omega
  eq_of_zero := by
    intro a b ha hb hz
    have hz' : (if w a ≠ w b then w a - w b else c a b) = 0 := hz
    by_cases e : w a = w b
    · rw [if_neg (fun n => n e)] at hz'
      exact h.eq_of_zero a b ha hb hz'
    · rw [if_pos e] at hz'; omega

/-- a weighted class in front of per-class comparators -/
theorem IsOrd.lexKey {α κ : Type} [DecidableEq κ] {D : α → Prop} (k : α → κ) (W : κ → Int) (c : α → α → Int)
    (hW : ∀ a b, D a → D b → W (k a) = W (k b) → k a = k b)
    (hc : ∀ v, IsOrd (fun a => D a ∧ k a = v) c) :
    IsOrd D (fun a b => if k a ≠ k b then W (k a) - W (k b) else c a b) where
  antisymm := by
    intro a b
    show (if k a ≠ k b then W (k a) - W (k b) else c a b) = -(if k b ≠ k a then W (k b) - W (k a) else c b a)
    by_cases e : k a = k b
    · rw [if_neg (fun n => n e), if_neg (fun n => n e.symm)]
      exact (hc (k a)).antisymm a b
    · rw [if_pos e, if_pos (fun x => e x.symm)]; omega
  trans := by
    intro a b x ha hb hx h1 h2
    have h1' : (if k a ≠ k b then W (k a) - W (k b) else c a b) ≤ 0 := h1
    have h2' : (if k b ≠ k x then W (k b) - W (k x) else c b x) ≤ 0 := h2
    show (if k a ≠ k x then W (k a) - W (k x) else c a x) ≤ 0
    by_cases e1 : k a = k b <;> by_cases e2 : k b = k x
    · rw [if_neg (fun n => n e1)] at h1'
      rw [if_neg (fun n => n e2)] at h2'
      rw [if_neg (fun n => n (e1.trans e2))]
      exact (hc (k x)).trans a b x ⟨ha, e1.trans e2⟩ ⟨hb, e2⟩ ⟨hx, rfl⟩ h1' h2'
    · rw [if_pos e2] at h2'
      rw [if_pos (fun e => e2 (e1.symm.trans e)), e1]; exact h2'
    · rw [if_pos e1] at h1'
      rw [if_pos (fun e => e1 (e.trans e2.symm)), ← e2]; exact h1'
    · rw [if_pos e1] at h1'
      rw [if_pos e2] at h2'
      have n1 : W (k a) ≠ W (k b) := fun e => e1 (hW a b ha hb e)
      have n2 : W (k b) ≠ W (k x) := fun e => e2 (hW b x hb hx e)
      by_cases e3 : k a = k x
      · rw [e3] at h1' n1; omega
      · rw [if_pos e3]; omega
  eq_of_zero := by
    intro a b ha hb hz
    have hz' : (if k a ≠ k b then W (k a) - W (k b) else c a b) = 0 := hz
    by_cases e : k a = k b
    · rw [if_neg (fun n => n e)] at hz'
      exact (hc (k a)).eq_of_zero a b ⟨ha, rfl⟩ ⟨hb, e.symm⟩ hz'
    · rw [if_pos e] at hz'
      exact absurd (hW a b ha hb (by omega)) e

/-- transfer along a comparator that agrees on the domain -/
theorem IsOrd.of_eq_on {α : Type} {D : α → Prop} {c c' : α → α → Int} (h : IsOrd D c)
    (hanti : ∀ a b, c' a b = - c' b a) (heq : ∀ a b, D a → D b → c' a b = c a b) : IsOrd D c' where
  antisymm := hanti
  trans := by
    intro a b x ha hb hx h1 h2
    rw [heq a b ha hb] at h1; rw [heq b x hb hx] at h2; rw [heq a x ha hx]
    exact h.trans a b x ha hb hx h1 h2
  eq_of_zero := by
    intro a b ha hb hz
    rw [heq a b ha hb] at hz
    exact h.eq_of_zero a b ha hb hz

/-! ### the domain -/

structure DomS (T : Tables) (b : Bool) (r : Rule) : Prop where
  dom : Dom10 T.stringAlphabet r
  weighted : r.kind ∈ T.ruleAlphabet
  plain : r.comment = [] ∧ r.noNewPrivs = false ∧ r.fileInherit = false ∧ r.optional = false
  noIfExists : r.kind = "include" → (r.fld 0).bool = false
  pre : r.kind = "file" → (letterIn T.fileAlphabet (r.fld 1).str).isEmpty = !b

/-- the comparison of the key lists (what every `Compare` ends with) -/
def baseCmp (T : Tables) (r o : Rule) : Int := cmpFlds T.stringAlphabet (keyList r) (keyList o)

def shapeOfKind (v : String) : List Nat :=
  (cmpSchema v).order.map (fun j => (fldTypes v).getD j 0) ++ (if (cmpSchema v).hasQ then [2, 0] else [])

theorem canonKeys_of_dom {T : Tables} {r : Rule} {v : String} (h : Dom10 T.stringAlphabet r) (hv : r.kind = v) :
    CanonKeys T.stringAlphabet (shapeOfKind v) (keyList r) := by
  refine ⟨?_, h.canon⟩
  rw [keyList_shape, h.shape, hv]; rfl

theorem rule_ext {r o : Rule} (h1 : r.kind = o.kind) (h2 : r.audit = o.audit) (h3 : r.accessType = o.accessType)
    (h4 : r.comment = o.comment) (h5 : r.noNewPrivs = o.noNewPrivs) (h6 : r.fileInherit = o.fileInherit)
    (h7 : r.optional = o.optional) (h8 : r.flds = o.flds) : r = o := by
  cases r; cases o; simp_all

/-- on rules of one kind, the key comparison is a total preorder in which only identical rules tie -/
theorem baseCmp_isOrd (T : Tables) (hal : ∀ c ∈ T.stringAlphabet, lowerC c = c) (b : Bool) (v : String) :
    IsOrd (fun r => DomS T b r ∧ r.kind = v) (baseCmp T) where
  antisymm := fun r o => (cmpFlds_isOrd hal []).antisymm _ _
  trans := by
    intro r o x hr ho hx
    exact (cmpFlds_isOrd hal (shapeOfKind v)).trans _ _ _ (canonKeys_of_dom hr.1.dom hr.2)
      (canonKeys_of_dom ho.1.dom ho.2) (canonKeys_of_dom hx.1.dom hx.2)
  eq_of_zero := by
    intro r o hr ho hz
    have hk : r.kind = o.kind := hr.2.trans ho.2.symm
    obtain ⟨h1, h2, h3⟩ := keys_zero_identical T hal hr.1.dom ho.1.dom hk hz
    have pr := hr.1.plain; have po := ho.1.plain
    exact rule_ext hk h1 h2 (pr.1.trans po.1.symm) (pr.2.1.trans po.2.1.symm) (pr.2.2.1.trans po.2.2.1.symm)
      (pr.2.2.2.trans po.2.2.2.symm) h3

/-! ### `Compare` per kind, as a key in front of the key comparison -/

theorem compareRule_plain' (T : Tables) {r o : Rule} (hf : r.kind ≠ "file") (hi : r.kind ≠ "include") :
    compareRule T r o = baseCmp T r o := by
  unfold compareRule baseCmp
  have h1 : (r.kind == "file") = false := by simpa using hf
  have h2 : (r.kind == "include") = false := by simpa using hi
  simp [h1, h2]

/-- prefix weight of a file rule -/
def fileW (T : Tables) (r : Rule) : Int := weight T.fileAlphabet (letterIn T.fileAlphabet (r.fld 1).str)

theorem compareRule_file (T : Tables) {r o : Rule} (hf : r.kind = "file") :
    compareRule T r o =
      if fileW T r ≠ fileW T o ∧ letterIn T.fileAlphabet (r.fld 1).str ≠ [] ∧ letterIn T.fileAlphabet (o.fld 1).str ≠ []
      then fileW T r - fileW T o else baseCmp T r o := by
  unfold compareRule baseCmp fileW
  have h1 : (r.kind == "file") = true := by simp [hf]
  simp only [h1, if_true]

theorem compareRule_file_known (T : Tables) {r o : Rule} (hf : r.kind = "file")
    (hr : (letterIn T.fileAlphabet (r.fld 1).str).isEmpty = false)
    (ho : (letterIn T.fileAlphabet (o.fld 1).str).isEmpty = false) :
    compareRule T r o = if fileW T r ≠ fileW T o then fileW T r - fileW T o else baseCmp T r o := by
  rw [compareRule_file T hf]
  have a : letterIn T.fileAlphabet (r.fld 1).str ≠ [] := by simpa using hr
  have b : letterIn T.fileAlphabet (o.fld 1).str ≠ [] := by simpa using ho
  simp only [a, b, ne_eq, not_false_eq_true, and_true]

theorem compareRule_file_unknown (T : Tables) {r o : Rule} (hf : r.kind = "file")
    (hr : (letterIn T.fileAlphabet (r.fld 1).str).isEmpty = true) :
    compareRule T r o = baseCmp T r o := by
  rw [compareRule_file T hf]
  have a : letterIn T.fileAlphabet (r.fld 1).str = [] := by simpa using hr
  simp [a]

/-- `abstractions/base` first -/
def inclW (r : Rule) : Int := if (r.fld 1).str = basePath then 0 else 1

theorem shape_include {fl : List Fld} (h : fl.map shapeOf = [2, 0, 2]) : ∃ x p y, fl = [.b x, .s p, .b y] := by
  rcases fl with _ | ⟨x, _ | ⟨y, _ | ⟨z, _ | ⟨w, t⟩⟩⟩⟩ <;> simp at h
  cases x <;> cases y <;> cases z <;> simp [shapeOf] at h
  exact ⟨_, _, _, rfl⟩

theorem compareRule_include (T : Tables) (hal : ∀ c ∈ T.stringAlphabet, lowerC c = c) {r o : Rule}
    (hr : Dom10 T.stringAlphabet r) (ho : Dom10 T.stringAlphabet o) (hk : r.kind = "include") (hko : o.kind = "include") :
    compareRule T r o = if inclW r ≠ inclW o then inclW r - inclW o else baseCmp T r o := by
  have S := cmpStr_isOrd hal
  have sr := hr.shape; have so := ho.shape
  rw [hk] at sr; rw [hko] at so
  obtain ⟨x, p, y, e1⟩ := shape_include sr
  obtain ⟨x', p', y', e2⟩ := shape_include so
  have f1 : r.fld 1 = .s p := by simp [Rule.fld, e1]
  have f1' : o.fld 1 = .s p' := by simp [Rule.fld, e2]
  have cp : Canon T.stringAlphabet p := by
    have := hr.canon (.s p) (by rw [← f1]; exact keyList_mem_fld (by rw [hk]; decide))
    exact this
  have cp' : Canon T.stringAlphabet p' := by
    have := ho.canon (.s p') (by rw [← f1']; exact keyList_mem_fld (by rw [hko]; decide))
    exact this
  -- the key comparison starts with the path
  have hb : cmpStr T.stringAlphabet p p' ≠ 0 → baseCmp T r o = cmpStr T.stringAlphabet p p' := by
    intro hne
    unfold baseCmp keyList
    rw [hk, hko]
    simp only [cmpSchema, List.map_cons, f1, f1', List.cons_append, cmpFlds, cmpFld, ne_eq, hne, not_false_eq_true, if_true]
  unfold compareRule
  have h1 : (r.kind == "file") = false := by simp [hk]
  have h2 : (r.kind == "include") = true := by simp [hk]
  simp only [h1, h2, Bool.false_eq_true, if_false, if_true, f1, f1', Fld.str]
  unfold inclW
  simp only [f1, f1', Fld.str]
  by_cases hc : cmpStr T.stringAlphabet p p' = 0
  · have : p = p' := S.eq_of_zero p p' cp cp' hc
    subst this
    simp [hc]
    rfl
  · simp only [hc, ne_eq, not_false_eq_true, if_true]
    by_cases a : p = basePath
    · have b : p' ≠ basePath := by
        intro e; rw [a, e] at hc; exact hc (S.refl _)
      simp [a, b]
    · by_cases b : p' = basePath
      · simp [a, b]
      · simp only [a, b, if_false, not_true_eq_false]
        exact (hb hc).symm

/-! ### antisymmetry of `Compare` for two rules of one kind, without any hypothesis on the strings -/

theorem baseCmp_antisymm (T : Tables) (r o : Rule) : baseCmp T r o = - baseCmp T o r := by
  unfold baseCmp
  -- cmpFlds is antisymmetric for every pair of key lists (proved inside cmpFlds_isOrd for any alphabet)
  have key : ∀ (a b : List Fld), cmpFlds T.stringAlphabet a b = - cmpFlds T.stringAlphabet b a := by
    intro a
    induction a with
    | nil => intro b; cases b <;> simp [cmpFlds]
    | cons x xs ih =>
      intro b
      cases b with
      | nil => simp [cmpFlds]
      | cons y ys =>
        simp only [cmpFlds]
        have hf : cmpFld T.stringAlphabet x y = - cmpFld T.stringAlphabet y x := by
          cases x <;> cases y <;> simp [cmpFld]
          · exact cmpStr_antisymm _ _ _
          · rename_i a b
            revert b
            induction a with
            | nil => intro b; cases b <;> simp [cmpList]
            | cons p ps ih2 =>
              intro b
              cases b with
              | nil => simp [cmpList]
              | cons q qs =>
                simp only [cmpList]
                have := cmpStr_antisymm T.stringAlphabet p q
                by_cases h : cmpStr T.stringAlphabet p q = 0
                · have h' : cmpStr T.stringAlphabet q p = 0 := by omega
                  simp [h, h', ih2 qs]
                · have h' : cmpStr T.stringAlphabet q p ≠ 0 := by omega
                  simp [h, h']; omega
          · rename_i a b; cases a <;> cases b <;> simp [cmpBool, b2i]
        by_cases h : cmpFld T.stringAlphabet x y = 0
        · have h' : cmpFld T.stringAlphabet y x = 0 := by omega
          simp [h, h', ih ys]
        · have h' : cmpFld T.stringAlphabet y x ≠ 0 := by omega
          simp [h, h']; omega
  exact key _ _

theorem cmpStr_self (al : List Char) (a : List Char) : cmpStr al a a = 0 := cmpLow_refl al _

theorem compareRule_antisymm (T : Tables) {r o : Rule} (hk : r.kind = o.kind) :
    compareRule T r o = - compareRule T o r := by
  by_cases hf : r.kind = "file"
  · rw [compareRule_file T hf, compareRule_file T (hk ▸ hf), baseCmp_antisymm T r o]
    by_cases c : fileW T r ≠ fileW T o ∧ letterIn T.fileAlphabet (r.fld 1).str ≠ [] ∧
        letterIn T.fileAlphabet (o.fld 1).str ≠ []
    · have c' : fileW T o ≠ fileW T r ∧ letterIn T.fileAlphabet (o.fld 1).str ≠ [] ∧
          letterIn T.fileAlphabet (r.fld 1).str ≠ [] := ⟨fun e => c.1 e.symm, c.2.2, c.2.1⟩
      rw [if_pos c, if_pos c']; omega
    · have c' : ¬ (fileW T o ≠ fileW T r ∧ letterIn T.fileAlphabet (o.fld 1).str ≠ [] ∧
          letterIn T.fileAlphabet (r.fld 1).str ≠ []) := fun e => c ⟨fun x => e.1 x.symm, e.2.2, e.2.1⟩
      rw [if_neg c, if_neg c']
  · by_cases hi : r.kind = "include"
    · have hio : o.kind = "include" := hk ▸ hi
      unfold compareRule
      have h1 : (r.kind == "file") = false := by simp [hi]
      have h2 : (r.kind == "include") = true := by simp [hi]
      have h3 : (o.kind == "file") = false := by simp [hio]
      have h4 : (o.kind == "include") = true := by simp [hio]
      simp only [h1, h2, h3, h4, Bool.false_eq_true, if_false, if_true]
      have ha := cmpStr_antisymm T.stringAlphabet (r.fld 1).str (o.fld 1).str
      have hb := baseCmp_antisymm T r o
      unfold baseCmp at hb
      by_cases c : cmpStr T.stringAlphabet (r.fld 1).str (o.fld 1).str = 0
      · have c' : cmpStr T.stringAlphabet (o.fld 1).str (r.fld 1).str = 0 := by omega
        simp only [c, c', ne_eq, not_true_eq_false, if_false]
        exact hb
      · have c' : cmpStr T.stringAlphabet (o.fld 1).str (r.fld 1).str ≠ 0 := by omega
        simp only [c, c', ne_eq, not_false_eq_true, if_true]
        by_cases a : (r.fld 1).str = basePath
        · have b : (o.fld 1).str ≠ basePath := by
            intro e; rw [a, e] at c; exact c (cmpStr_self _ _)
          simp [a, b]
        · by_cases b : (o.fld 1).str = basePath
          · simp [a, b]
          · simp only [a, b, if_false]; omega
    · have hfo : o.kind ≠ "file" := hk ▸ hf
      have hio : o.kind ≠ "include" := hk ▸ hi
      rw [compareRule_plain' T hf hi, compareRule_plain' T hfo hio]
      exact baseCmp_antisymm T r o

/-- `Compare` between two rules of one kind (0 otherwise: `Rules.Sort` never asks) -/
def cmpSame (T : Tables) (a b : Rule) : Int := if a.kind = b.kind then compareRule T a b else 0

theorem cmpSame_antisymm (T : Tables) (a b : Rule) : cmpSame T a b = - cmpSame T b a := by
  unfold cmpSame
  by_cases e : a.kind = b.kind
  · rw [if_pos e, if_pos e.symm]; exact compareRule_antisymm T e
  · rw [if_neg e, if_neg (fun x => e x.symm)]; rfl

/-- **`Compare` is a total preorder with identity** on the rules of one kind in the domain -/
theorem cmpSame_isOrd (T : Tables) (hal : ∀ c ∈ T.stringAlphabet, lowerC c = c) (b : Bool) (v : String) :
    IsOrd (fun r => DomS T b r ∧ r.kind = v) (cmpSame T) := by
  have B := baseCmp_isOrd T hal b v
  by_cases hf : v = "file"
  · cases b with
    | true =>
      refine (B.lexInt (fileW T)).of_eq_on (cmpSame_antisymm T) ?_
      intro r o hr ho
      have kr : r.kind = "file" := hr.2.trans hf
      have ko : o.kind = "file" := ho.2.trans hf
      unfold cmpSame
      rw [if_pos (kr.trans ko.symm)]
      exact compareRule_file_known T kr (by simpa using hr.1.pre kr) (by simpa using ho.1.pre ko)
    | false =>
      refine B.of_eq_on (cmpSame_antisymm T) ?_
      intro r o hr ho
      have kr : r.kind = "file" := hr.2.trans hf
      have ko : o.kind = "file" := ho.2.trans hf
      unfold cmpSame
      rw [if_pos (kr.trans ko.symm)]
      exact compareRule_file_unknown T kr (by simpa using hr.1.pre kr)
  · by_cases hi : v = "include"
    · refine (B.lexInt inclW).of_eq_on (cmpSame_antisymm T) ?_
      intro r o hr ho
      have kr : r.kind = "include" := hr.2.trans hi
      have ko : o.kind = "include" := ho.2.trans hi
      unfold cmpSame
      rw [if_pos (kr.trans ko.symm)]
      exact compareRule_include T hal hr.1.dom ho.1.dom kr ko
    · refine B.of_eq_on (cmpSame_antisymm T) ?_
      intro r o hr ho
      unfold cmpSame
      rw [if_pos (hr.2.trans ho.2.symm)]
      exact compareRule_plain' T (by rw [hr.2]; exact hf) (by rw [hr.2]; exact hi)

/-! ### the comparator of `Rules.Sort` -/

theorem sortKind_of_dom {T : Tables} {b : Bool} {r : Rule} (h : DomS T b r) : sortKind r = r.kind := by
  unfold sortKind
  by_cases e : r.kind = "include"
  · have := h.noIfExists e
    simp [this]
  · have : (r.kind == "include") = false := by simpa using e
    simp [this]

/-- **`Rules.Sort`'s comparator is a total preorder in which only identical rules tie**, on `DomS T b`. -/
theorem sortCmp_isOrd (T : Tables) (hal : ∀ c ∈ T.stringAlphabet, lowerC c = c) (b : Bool) :
    IsOrd (DomS T b) (sortCmp T) := by
  have L := IsOrd.lexKey (D := DomS T b) (fun r => r.kind) (fun v => weight T.ruleAlphabet v) (cmpSame T)
    (fun a c ha hc e => weight_inj ha.weighted hc.weighted e) (cmpSame_isOrd T hal b)
  refine L.of_eq_on ?_ ?_
  · -- antisymmetry of sortCmp itself, for all rules
    intro a c
    unfold sortCmp
    by_cases e : a.kind = c.kind
    · rw [if_neg (fun n => n e), if_neg (fun n => n e.symm)]; exact compareRule_antisymm T e
    · rw [if_pos e, if_pos (fun x => e x.symm)]; omega
  · intro a c ha hc
    unfold sortCmp cmpSame
    rw [sortKind_of_dom ha, sortKind_of_dom hc]
    by_cases e : a.kind = c.kind
    · rw [if_neg (fun n => n e), if_neg (fun n => n e), if_pos e]
    · rw [if_pos e, if_pos e]

/-- **Sorting is canonical**: for every list over the domain, the reference sort of any
rearrangement of the list is the same list; in particular sorting twice changes nothing. -/
theorem sort_canonical (T : Tables) (hal : ∀ c ∈ T.stringAlphabet, lowerC c = c) (b : Bool)
    {l₁ l₂ : List Rule} (hp : l₁.Perm l₂) (hD : ∀ r ∈ l₁, DomS T b r) :
    sortBy (sortCmp T) l₁ = sortBy (sortCmp T) l₂ :=
  sortBy_perm_invariant (sortCmp_isOrd T hal b) hp hD

theorem sort_idempotent (T : Tables) (hal : ∀ c ∈ T.stringAlphabet, lowerC c = c) (b : Bool)
    (l : List Rule) (hD : ∀ r ∈ l, DomS T b r) :
    sortBy (sortCmp T) (sortBy (sortCmp T) l) = sortBy (sortCmp T) l :=
  sort_canonical T hal b (sortBy_perm _ l) (fun r hr => hD r ((sortBy_perm _ l).subset hr))

end Aa

namespace Aa

theorem domS_iff (T : Tables) (b : Bool) (r : Rule) : DomS T b r ↔
    (Dom10 T.stringAlphabet r ∧ r.kind ∈ T.ruleAlphabet ∧
     (r.comment = [] ∧ r.noNewPrivs = false ∧ r.fileInherit = false ∧ r.optional = false) ∧
     (r.kind = "include" → (r.fld 0).bool = false) ∧
     (r.kind = "file" → (letterIn T.fileAlphabet (r.fld 1).str).isEmpty = !b)) :=
  ⟨fun h => ⟨h.dom, h.weighted, h.plain, h.noIfExists, h.pre⟩, fun ⟨a, b, c, d, e⟩ => ⟨a, b, c, d, e⟩⟩

instance (T : Tables) (b : Bool) (r : Rule) : Decidable (DomS T b r) := decidable_of_iff _ (domS_iff T b r).symm

end Aa
