import AaVerif.Aa.Merge
import AaVerif.Aa.Render
import AaVerif.Proto
/-!
# Aa.Parse — model of the rule parser of `pkg/aa` (parse.go, the `new<Kind>` constructors,
`newBase`, `toAccess`/`toValues`)

Faithful to the code, quirks and panics included: a result is `ok v`, `err` (the Go function
returned an error) or `panic` (index out of range, unbalanced block).  Text is a list of bytes
kept in `Char`s; the Go code iterates runes, which makes no difference on valid UTF-8 because
every character it looks at is ASCII.
-/
namespace Aa.Parse

inductive Res (α : Type) where
  | ok (a : α)
  | err
  | panic
deriving Repr, DecidableEq, Inhabited

def Res.bind {α β : Type} (x : Res α) (f : α → Res β) : Res β :=
  match x with
  | .ok a => f a
  | .err => .err
  | .panic => .panic

instance : Monad Res where
  pure := .ok
  bind := Res.bind

/-! ## strings helpers -/

def trimLeftSet (cut : Text) : Text → Text
  | [] => []
  | c :: cs => if cut.contains c then trimLeftSet cut cs else c :: cs

def trimRightSet (cut : Text) (s : Text) : Text := (trimLeftSet cut s.reverse).reverse

/-- `strings.Trim(s, cutset)` -/
def trimSet (cut : Text) (s : Text) : Text := trimRightSet cut (trimLeftSet cut s)

/-- `strings.Split(s, string(sep))` for a one-byte separator -/
def splitChar (sep : Char) (s : Text) : List Text := Proto.splitOnChar sep s

/-- `strings.Contains(s, sub)` -/
def containsSub (sub : Text) : Text → Bool
  | [] => sub.isEmpty
  | c :: cs => sub.isPrefixOf (c :: cs) || containsSub sub cs

/-- `strings.Replace(s, old, new, 1)` for non-empty `old` -/
def replaceFirst (old new : Text) : Text → Text
  | [] => []
  | c :: cs => if old.isPrefixOf (c :: cs) then new ++ (c :: cs).drop old.length
               else c :: replaceFirst old new cs

def replaceFirst' (old new s : Text) : Text := if old.isEmpty then new ++ s else replaceFirst old new s

/-- `strings.SplitN(s, "=", 2)` when `s` contains `=` -/
def cutEq : Text → Text × Text
  | [] => ([], [])
  | c :: cs => if c == '=' then ([], cs) else let p := cutEq cs; (c :: p.1, p.2)

/-! ## the token tree -/

/-- Go `kv`: `vals = none` is the nil `values` -/
inductive KV where
  | mk (key : Text) (vals : Option (List KV)) (comment : Text)
deriving Repr, Inhabited

def KV.key : KV → Text | .mk k _ _ => k
def KV.vals : KV → Option (List KV) | .mk _ v _ => v
def KV.comment : KV → Text | .mk _ _ c => c
def KV.setComment : KV → Text → KV | .mk k v _, c => .mk k v c
def KV.plain (k : Text) : KV := .mk k none []

abbrev RuleT := List KV

/-- `rule.GetSlice` -/
def getSlice (r : RuleT) : List Text := (r.filter (fun kv => kv.vals.isNone)).map KV.key
/-- `rule.GetString` -/
def getString (r : RuleT) : Text := joinSp (getSlice r)
/-- `rule.GetValues(key)`: the values of the first entry with that key (nil when absent) -/
def getValues (r : RuleT) (key : String) : RuleT :=
  match r.find? (fun kv => kv.key == S key) with
  | some kv => kv.vals.getD []
  | none => []
def getValuesAsSlice (r : RuleT) (key : String) : List Text := getSlice (getValues r key)
def getValuesAsString (r : RuleT) (key : String) : Text := getString (getValues r key)
/-- `rule.Get(i)` -/
def getKey (r : RuleT) (i : Nat) : Res Text :=
  match r[i]? with
  | some kv => .ok kv.key
  | none => .panic

/-! ## tokenizeRule -/

def isOpenB (c : Char) : Bool := c == '(' || c == '{' || c == '['
def isCloseB (c : Char) : Bool := c == ')' || c == '}' || c == ']'

structure TokSt where
  depth : Nat := 0
  quoted : Bool := false
  wasPlus : Bool := false
  cur : Text := []            -- reversed
  toks : List Text := []      -- reversed
deriving Repr

def TokSt.flush (s : TokSt) : TokSt :=
  if s.cur.isEmpty then s else { s with cur := [], toks := s.cur.reverse :: s.toks }

/-- one rune of `tokenizeRule`; `none` is the panic on an unbalanced closing bracket -/
def tokStep (isVar : Bool) (s : TokSt) (c : Char) : Option TokSt :=
  if (c == ' ' || c == '\t') && s.depth == 0 && !s.quoted then some s.flush
  else if (c == '+' || c == '=') && s.depth == 0 && !s.quoted && isVar then
    let s := s.flush
    let toks := if s.wasPlus then (match s.toks with | _ :: t => S "+=" :: t | [] => [S "+="])
                else [c] :: s.toks
    some { s with toks := toks, wasPlus := c == '+' }
  else if c == '"' && s.depth == 0 then some { s with quoted := !s.quoted, cur := c :: s.cur }
  else if isOpenB c then some { s with depth := s.depth + 1, cur := c :: s.cur }
  else if isCloseB c then
    if s.depth == 0 then none else some { s with depth := s.depth - 1, cur := c :: s.cur }
  else some { s with cur := c :: s.cur }

def tokRun (isVar : Bool) : TokSt → Text → Option TokSt
  | s, [] => some s
  | s, c :: cs => match tokStep isVar s c with
    | some s' => tokRun isVar s' cs
    | none => none

/-- `tokenizeRule(str)` with the package flag `inHeader` as a parameter -/
def tokenize (inHeader : Bool) (str : Text) : Res (List Text) :=
  let isVar := inHeader && str.length > 2 && str.take 2 == S "@{"
  match tokRun isVar {} str with
  | some s => .ok s.flush.toks.reverse
  | none => .panic

/-! ## parseRule -/

def isAARE (s : Text) : Bool :=
  match s with
  | c :: _ => c == '@' || c == '/' || c == '"'
  | [] => false

def containsAny (s : Text) (chars : Text) : Bool := s.any chars.contains

/-- the list branch of `parseRule`, also `tokenToSlice` -/
def tokenToSlice (token : Text) : List Text :=
  let token := trimSet (S "()\n") token
  if token.contains ',' then (splitChar ',' token).map (trimSet [' '])
  else if token.contains ' ' then (splitChar ' ' token).map (trimSet [' '])
  else [token]

/-- loop of `parseRule` over the tokens; `rec` is `parseRule` on a shorter string -/
def parseToks (rec : Text → Res RuleT) (inAare : Bool) (n : Nat) :
    Nat → List Text → RuleT → Res RuleT
  | _, [], res => .ok res
  | idx, token :: rest, res =>
    if token == S "=" || token == S "+=" || token == S "<=" then
      parseToks rec inAare n (idx + 1) rest (res ++ [KV.plain token])
    else if token.contains '=' && !inAare then
      let (key, v) := cutEq token
      let values := trimSet [','] v
      let values := if values.contains '=' || !containsAny values (S ", ")
                    then trimSet (S "()\n") values else values
      match rec values with
      | .ok vs => parseToks rec inAare n (idx + 1) rest (res ++ [KV.mk key (some vs) []])
      | .err => .err
      | .panic => .panic
    else if token.contains '(' && !inAare then
      parseToks rec inAare n (idx + 1) rest (res ++ (tokenToSlice token).map KV.plain)
    else if (S "#").isPrefixOf token then
      if idx > 0 && idx + 1 < n then
        match res.reverse with
        | last :: init => .ok (init.reverse ++ [last.setComment (' ' :: joinSp rest)])
        | [] => .panic
      else parseToks rec inAare n (idx + 1) rest res
    else parseToks rec inAare n (idx + 1) rest (res ++ [KV.plain (trimSet ['\n'] token)])

/-- `parseRule(str)`; the fuel bounds the nesting of `key=(...)` values -/
def parseRuleF (inHeader : Bool) : Nat → Text → Res RuleT
  | 0, _ => .panic
  | fuel + 1, str =>
    match tokenize inHeader str with
    | .ok tokens =>
      let inAare := match tokens with
        | t :: _ => isAARE t || t == S "owner"
        | [] => false
      parseToks (parseRuleF inHeader fuel) inAare tokens.length 0 tokens []
    | .err => .err
    | .panic => .panic

def parseRule (inHeader : Bool) (str : Text) : Res RuleT := parseRuleF inHeader (str.length + 2) str

/-! ## parseCommaRules -/

structure CommaSt where
  buf : Text := []               -- reversed: input[blockStart:idx]
  depth : Int := 0
  comment : Bool := false
  canInline : Bool := false
  rules : List RuleT := []       -- reversed
deriving Inhabited

def setLastComment (rules : List RuleT) (c : Text) : Res (List RuleT) :=
  match rules with
  | [] => .panic
  | last :: rs =>
    match last.reverse with
    | [] => .panic
    | kv :: init => .ok ((init.reverse ++ [kv.setComment c]) :: rs)

def commaRun (inHeader : Bool) : CommaSt → Text → Res (List RuleT)
  | s, [] => .ok s.rules.reverse
  | s, c :: cs =>
    if isOpenB c then
      commaRun inHeader { s with depth := if s.comment then s.depth else s.depth + 1, buf := c :: s.buf } cs
    else if isCloseB c then
      commaRun inHeader { s with depth := if s.comment then s.depth else s.depth - 1, buf := c :: s.buf } cs
    else if c == '#' then
      if !s.comment && s.canInline then commaRun inHeader { s with comment := true, buf := [] } cs
      else commaRun inHeader { s with buf := c :: s.buf } cs
    else if c == '\n' then
      if s.comment then
        if s.canInline then
          match setLastComment s.rules s.buf.reverse with
          | .ok rules => commaRun inHeader { s with comment := false, canInline := false, rules := rules, buf := [c] } cs
          | .err => .err
          | .panic => .panic
        else commaRun inHeader { s with comment := false, canInline := false, buf := c :: s.buf } cs
      else commaRun inHeader { s with canInline := false, buf := c :: s.buf } cs
    else if c == ',' then
      if s.depth == 0 && !s.comment then
        let aare := match cs with
          | d :: _ => !(d == ' ' || d == '\n')
          | [] => false
        if !aare then
          match parseRule inHeader (trimSet (S "\n ") s.buf.reverse) with
          | .ok r => commaRun inHeader { s with rules := r :: s.rules, buf := [], canInline := true } cs
          | .err => .err
          | .panic => .panic
        else commaRun inHeader { s with buf := c :: s.buf } cs
      else commaRun inHeader { s with buf := c :: s.buf } cs
    else commaRun inHeader { s with buf := c :: s.buf } cs

def parseCommaRules (inHeader : Bool) (input : Text) : Res (List RuleT) := commaRun inHeader {} input

/-! ## values and accesses -/

/-- the loop of `toValues`: `for idx := range res` over the *initial* length, deleting empty
entries in place (the element that moves into `idx` is then skipped, and a later index may run
past the shortened slice: panic) -/
def toValuesLoop (req : List Text) : Nat → Nat → List Text → Res (List Text)
  | 0, _, res => .ok res
  | n + 1, idx, res =>
    match res[idx]? with
    | none => .panic
    | some v =>
      let v := trimSet (S "\" ") v
      if v.isEmpty then toValuesLoop req n (idx + 1) (res.eraseIdx idx)
      else if !req.contains v then .err
      else toValuesLoop req n (idx + 1) (res.set idx v)

def hasReq (T : Tables) (kind key : String) : Bool :=
  match T.requirements.find? (fun p => p.1 == kind) with
  | some (_, keys) => keys.any (fun p => p.1 == key)
  | none => false

/-- `toValues(kind, key, input)` -/
def toValues (T : Tables) (kind key : String) (input : Text) : Res (List Text) :=
  if !hasReq T kind key then .err else
  let res := tokenToSlice input
  match toValuesLoop (reqValues T kind key) res.length 0 res with
  | .ok res => .ok (mergeValues T kind key res [])
  | .err => .err
  | .panic => .panic

/-- `toAccess(FILE, input)` -/
def toAccessFile (T : Tables) (input : Text) : Res (List Text) :=
  let acc := reqValues T "file" "access"
  let res := (input.filter (fun c => acc.contains [c])).map (fun c => [c])
  let trans := input.filter (fun c => !acc.contains [c])
  if trans.isEmpty then .ok (mergeValues T "file" "access" res [])
  else if (reqValues T "file" "transition").contains trans then
    .ok (mergeValues T "file" "access" (res ++ [trans]) [])
  else .err

def toAccess (T : Tables) (kind : String) (input : Text) : Res (List Text) :=
  if kind == "file" then toAccessFile T input else toValues T kind "access" input

/-! ## newBase and the constructors -/

structure BaseV where
  comment : Text := []
  nnp : Bool := false
  fi : Bool := false
  opt : Bool := false

def newBase (rule : RuleT) : BaseV :=
  let comment : Text :=
    match rule with
    | [] => []
    | first :: rest =>
      if (first.key.head? == some '#') then getString rest
      else (rule.getLast?.map KV.comment).getD []
  if containsSub (S "file_inherit") comment then
    { comment := replaceFirst (S "file_inherit ") [] comment, fi := true }
  else if (S "no new privs").isPrefixOf comment then
    { comment := replaceFirst (S "no new privs ") [] comment, nnp := true }
  else if containsSub (S "optional:") comment then
    { comment := replaceFirst (S "optional: ") [] comment, opt := true }
  else { comment := comment }

def mkRule (kind : String) (q : Bool × Text) (b : BaseV) (flds : List Fld) : Rule :=
  { kind := kind, audit := q.1, accessType := q.2, comment := b.comment, noNewPrivs := b.nnp,
    fileInherit := b.fi, optional := b.opt, flds := flds }

def noQ : Bool × Text := (false, [])

/-- `newFile`; the owner flag is set by the caller -/
def newFile (T : Tables) (q : Bool × Text) (rule : RuleT) : Res Rule := do
  match rule with
  | [] =>
    let a ← toAccess T "file" []
    pure (mkRule "file" q (newBase rule) [.b false, .s [], .l a, .s []])
  | first :: _ =>
    let (owner, rule) := if first.key == S "owner" then (true, rule.drop 1) else (false, rule)
    let k0 ← getKey rule 0
    let rule := if k0 == S "file" then rule.drop 1 else rule
    let r := getSlice rule
    if r.length < 2 then .err else
    let path := r.getD 0 []
    let access := r.getD 1 []
    let target ← (if r.length > 2 then
        (if r.getD 2 [] != S "->" then Res.err
         else match r[3]? with
           | some t => Res.ok t
           | none => Res.panic)
      else Res.ok [])
    let a ← toAccess T "file" access
    pure (mkRule "file" q (newBase rule) [.b owner, .s path, .l a, .s target])

def newLink (q : Bool × Text) (rule : RuleT) : Res Rule :=
  match rule with
  | [] => .ok (mkRule "link" q (newBase rule) [.b false, .b false, .s [], .s []])
  | first :: _ =>
    let (owner, rule) := if first.key == S "owner" then (true, rule.drop 1) else (false, rule)
    let (subset, rule) := match rule with
      | f :: _ => if f.key == S "subset" then (true, rule.drop 1) else (false, rule)
      | [] => (false, rule)
    let r := getSlice rule
    let path := r.getD 0 []
    if r.length > 2 then
      if r.getD 1 [] != S "->" then .err
      else .ok (mkRule "link" q (newBase rule) [.b owner, .b subset, .s path, .s (r.getD 2 [])])
    else .ok (mkRule "link" q (newBase rule) [.b owner, .b subset, .s path, .s []])

def newMountConditions (T : Tables) (rule : RuleT) : Res (Text × List Text) := do
  let options ← toValues T "mount" "flags" (getValuesAsString rule "options")
  pure (getValuesAsString rule "fstype", options)

/-- source / `-> target` reading shared by mount and pivot_root -/
def srcArrow (r : List Text) : Res (Text × Text) :=
  match r with
  | [] => .ok ([], [])
  | r0 :: _ =>
    let (src, r) := if r0 != S "->" then (r0, r.drop 1) else ([], r)
    if r.length == 2 then
      if r.getD 0 [] != S "->" then .err else .ok (src, r.getD 1 [])
    else .ok (src, [])

def newRuleOf (T : Tables) (kw : Text) (q : Bool × Text) (rule : RuleT) : Res Rule := do
  let b := newBase rule
  if kw == S "abi" then
    if rule.length != 1 then .err else
    let path ← getKey rule 0
    match path with
    | '"' :: _ => pure (mkRule "abi" noQ b [.s (trimSet (S "\"<>") path), .b false])
    | '<' :: _ => pure (mkRule "abi" noQ b [.s (trimSet (S "\"<>") path), .b true])
    | [] => .panic
    | _ => .err
  else if kw == S "alias" then
    if rule.length != 3 then .err else
    let k1 ← getKey rule 1
    if k1 != S "->" then .err else
    pure (mkRule "alias" noQ b [.s ((rule.getD 0 default).key), .s ((rule.getD 2 default).key)])
  else if kw == S "all" then pure (mkRule "all" noQ b [])
  else if kw == S "set" then
    if rule.length != 4 then .err else
    if (rule.getD 0 default).key != S "rlimit" then .err else
    pure (mkRule "rlimit" noQ b [.s (rule.getD 1 default).key, .s (rule.getD 2 default).key, .s (rule.getD 3 default).key])
  else if kw == S "userns" then
    match rule with
    | [] => pure (mkRule "userns" q b [.b true])
    | [kv] => if kv.key != S "create" then .err else pure (mkRule "userns" q b [.b true])
    | _ => .err
  else if kw == S "capability" then
    let names ← toValues T "capability" "name" (getString rule)
    pure (mkRule "capability" q b [.l names])
  else if kw == S "network" then
    let r := getSlice rule
    let domain := r.getD 0 []
    let r1 := r.getD 1 []
    let (ty, proto) :=
      if r.length ≥ 2 then
        if (reqValues T "network" "type").contains r1 then (r1, [])
        else if (reqValues T "network" "protocol").contains r1 then ([], r1)
        else ([], [])
      else ([], [])
    pure (mkRule "network" q b [.s [], .s [], .s [], .s domain, .s ty, .s proto])
  else if kw == S "mount" then
    let (src, mp) ← srcArrow (getSlice rule)
    let (fs, opts) ← newMountConditions T rule
    pure (mkRule "mount" q b [.s fs, .l opts, .s src, .s mp])
  else if kw == S "umount" || kw == S "remount" then
    let mp := (getSlice rule).getD 0 []
    let (fs, opts) ← newMountConditions T rule
    pure (mkRule (String.ofList kw) q b [.s fs, .l opts, .s mp])
  else if kw == S "mqueue" then
    let r := getSlice rule
    let (access, name) :=
      match r.getLast? with
      | none => ([], [])
      | some name =>
        let a := joinSp r.dropLast
        (if (reqValues T "mqueue" "access").contains name then a ++ ' ' :: name else a, name)
    let acc ← toAccess T "mqueue" access
    pure (mkRule "mqueue" q b [.l acc, .s (getValuesAsString rule "type"), .s (getValuesAsString rule "label"), .s name])
  else if kw == S "io_uring" then
    let acc ← toAccess T "io_uring" (getString rule)
    pure (mkRule "io_uring" q b [.l acc, .s (getValuesAsString rule "label")])
  else if kw == S "pivot_root" then
    let (newroot, target) ← srcArrow (getSlice rule)
    pure (mkRule "pivot_root" q b [.s (getValuesAsString rule "oldroot"), .s newroot, .s target])
  else if kw == S "change_profile" then
    match rule with
    | [] => pure (mkRule "change_profile" q b [.s [], .s [], .s []])
    | f :: _ =>
      let (mode, rule) := if (reqValues T "change_profile" "mode").contains f.key then (f.key, rule.drop 1) else ([], rule)
      let b := newBase rule
      match rule with
      | [] => pure (mkRule "change_profile" q b [.s mode, .s [], .s []])
      | g :: _ =>
        if g.key != S "->" then
          if rule.length > 2 then
            if (rule.getD 1 default).key != S "->" then .err
            else pure (mkRule "change_profile" q b [.s mode, .s g.key, .s (rule.getD 2 default).key])
          else pure (mkRule "change_profile" q b [.s mode, .s g.key, .s []])
        else
          pure (mkRule "change_profile" q b [.s mode, .s [], .s (if rule.length > 1 then (rule.getD 1 default).key else [])])
  else if kw == S "signal" then
    let acc ← toAccess T "signal" (getString rule)
    let set ← toValues T "signal" "set" (getValuesAsString rule "set")
    pure (mkRule "signal" q b [.l acc, .l set, .s (getValuesAsString rule "peer")])
  else if kw == S "ptrace" then
    let acc ← toAccess T "ptrace" (getString rule)
    pure (mkRule "ptrace" q b [.l acc, .s (getValuesAsString rule "peer")])
  else if kw == S "unix" then
    let acc ← toAccess T "unix" (getString rule)
    let g := getValuesAsString rule
    let peer := getValues rule "peer"
    pure (mkRule "unix" q b [.l acc, .s (g "type"), .s (g "protocol"), .s (g "addr"), .s (g "label"), .s (g "attr"),
      .s (g "opt"), .s (getValuesAsString peer "label"), .s (getValuesAsString peer "addr")])
  else if kw == S "dbus" then
    let acc ← toAccess T "dbus" (getString rule)
    let g := getValuesAsString rule
    let peer := getValues rule "peer"
    pure (mkRule "dbus" q b [.l acc, .s (g "bus"), .s (g "name"), .s (g "path"), .s (g "interface"), .s (g "member"),
      .s (getValuesAsString peer "name"), .s (getValuesAsString peer "label")])
  else if kw == S "file" then newFile T q rule
  else if kw == S "link" then newLink q rule
  else .err

def ruleKeywords : List String :=
  ["abi", "alias", "all", "set", "userns", "capability", "network", "mount", "umount", "remount", "mqueue",
   "io_uring", "pivot_root", "change_profile", "signal", "ptrace", "unix", "dbus", "file", "link"]

/-- one rule of `newRules`: `none` for an unknown rule that is skipped with a message -/
def newRule1 (T : Tables) : Nat → Bool → Bool × Text → RuleT → Res (Option Rule)
  | 0, _, _, _ => .panic
  | fuel + 1, owner, q, rule => do
    let k0 ← getKey rule 0
    if k0 == S "owner" then newRule1 T fuel true q (rule.drop 1)
    else if k0 == S "allow" || k0 == S "deny" then newRule1 T fuel owner (q.1, k0) (rule.drop 1)
    else if k0 == S "audit" then newRule1 T fuel owner (true, q.2) (rule.drop 1)
    else if ruleKeywords.contains (String.ofList k0) then
      let r ← newRuleOf T k0 q (rule.drop 1)
      if owner && r.kind == "link" then pure (some (r.setFld 0 (.b true))) else pure (some r)
    else if k0.isEmpty then .err
    else if isAARE k0 || owner then
      let r ← newFile T q rule
      pure (some (r.setFld 0 (.b owner)))
    else pure none

def newRules (T : Tables) : List RuleT → Res (List Rule)
  | [] => .ok []
  | r :: rs =>
    if r.isEmpty then .err else
    match newRule1 T (r.length + 1) false noQ r with
    | .ok x =>
      match newRules T rs with
      | .ok l => .ok (match x with | some v => v :: l | none => l)
      | .err => .err
      | .panic => .panic
    | .err => .err
    | .panic => .panic

/-! ## line rules -/

def newComment (text : Text) : Rule :=
  mkRule "comment" noQ (newBase [KV.mk [] none text]) []

def newInclude (rule : RuleT) : Res Rule :=
  if rule.isEmpty then .err else
  let r := getSlice rule
  let (ifexists, r) :=
    if rule.length ≥ 3 && joinSp (r.take 2) == S "if exists" then (true, r.drop 2) else (false, r)
  match r with
  | [] => .panic
  | path :: _ =>
    match path with
    | '"' :: _ => .ok (mkRule "include" noQ (newBase rule) [.b ifexists, .s (trimSet (S "\"<>") path), .b false])
    | '<' :: _ => .ok (mkRule "include" noQ (newBase rule) [.b ifexists, .s (trimSet (S "\"<>") path), .b true])
    | [] => .panic
    | _ => .err

def newVariable (rule : RuleT) : Res Rule :=
  if rule.length < 3 then .err else
  let r := getSlice rule
  let name := trimSet (S "@{}") (rule.getD 0 default).key
  let op := (rule.getD 1 default).key
  if op == S "=" then .ok (mkRule "variable" noQ (newBase rule) [.s name, .l (r.drop 2), .b true])
  else if op == S "+=" then .ok (mkRule "variable" noQ (newBase rule) [.s name, .l (r.drop 2), .b false])
  else .err

/-- `parseLineRules`: the text left over and the line rules, in line order -/
def parseLineRules (inHeader isPreamble : Bool) (input : Text) : Res (Text × List Rule) :=
  let rec go (lines : List Text) (input : Text) (acc : List Rule) : Res (Text × List Rule) :=
    match lines with
    | [] => .ok (input, acc.reverse)
    | line :: rest =>
      let tmp := trimLeftSet (S "\t ") line
      if (S "#").isPrefixOf tmp then
        go rest (replaceFirst' line [] input) (newComment (tmp.drop 1) :: acc)
      else if (S "include").isPrefixOf tmp then
        match parseRule inHeader line with
        | .ok r => match newInclude (r.drop 1) with
          | .ok x => go rest (replaceFirst' line [] input) (x :: acc)
          | .err => .err
          | .panic => .panic
        | .err => .err
        | .panic => .panic
      else if (S "@{").isPrefixOf tmp && isPreamble then
        match parseRule inHeader line with
        | .ok r => match newVariable r with
          | .ok x => go rest (replaceFirst' line [] input) (x :: acc)
          | .err => .err
          | .panic => .panic
        | .err => .err
        | .panic => .panic
      else go rest input acc
  go (splitChar '\n' input) input []

/-- `parseParagraph` -/
def parseParagraph (T : Tables) (input : Text) : Res (List Rule) := do
  let (raw, res) ← parseLineRules false false input
  let rules ← parseCommaRules false raw
  let rrr ← newRules T rules
  pure (res ++ rrr)

/-! ## ParseRules: paragraphs -/

/-- all matches of `(?s).*?\n\n|$` that are not empty: the successive shortest chunks ending in a
blank line; what follows the last blank line is never matched -/
def paragraphsAux : Nat → Text → Text → List Text
  | 0, _, _ => []
  | _ + 1, _, [] => []
  | f + 1, cur, c :: cs =>
    match c, cs with
    | '\n', '\n' :: rest => ('\n' :: '\n' :: cur).reverse :: paragraphsAux f [] rest
    | _, _ => paragraphsAux f (c :: cur) cs

def paragraphs (input : Text) : List Text := paragraphsAux (input.length + 1) [] input

/-- text after the first newline (`strings.Cut(s, "\n")`) -/
def afterNl : Text → Text
  | [] => []
  | c :: cs => if c == '\n' then cs else afterNl cs

def isSuffixB (suf s : Text) : Bool := suf.reverse.isPrefixOf s.reverse

def paragraphBody (m : Text) : Text :=
  let tmp := trimRightSet ['\n'] (trimLeftSet (S "\t ") m)
  if (S "profile").isPrefixOf tmp then afterNl m
  else if (S "hat").isPrefixOf tmp || (S "^").isPrefixOf tmp then afterNl m
  else if isSuffixB (S "}") tmp then replaceFirst (S "}\n") (S "\n") m
  else m

/-- `ParseRules(input)`: the rules of each paragraph -/
def parseRules (T : Tables) (input : Text) : Res (List (List Rule)) :=
  let rec go : List Text → Res (List (List Rule))
    | [] => .ok []
    | p :: ps =>
      match parseParagraph T (paragraphBody p) with
      | .ok rs => match go ps with
        | .ok l => .ok (rs :: l)
        | .err => .err
        | .panic => .panic
      | .err => .err
      | .panic => .panic
  go (paragraphs input)

end Aa.Parse
