import AaVerif.Aa.ParseFile
import AaVerif.Ref.GrammarLemmas
/-!
# Aa.ParseCap — the library's own parser on rules made of keyword words (capability, network)

Symbolic counterpart of `Aa/ParseFile.lean` for the kinds whose printed form is a keyword followed
by plain words: every qualifier, every list of words of any length.  Used by `Props/C09`.
-/
namespace Aa.Parse
open Ref

/-- a character of a keyword-like word: no blank, quote, bracket, `#`, `,`, `=` -/
def capCh (c : Char) : Bool :=
  !(c == ' ' || c == '\t' || c == '\n' || c == '"' || isOpenB c || isCloseB c || c == '#' || c == ',' || c == '=')

/-- a keyword-like word -/
def CapW (w : Text) : Prop := w ≠ [] ∧ w.all capCh = true

instance (w : Text) : Decidable (CapW w) := by unfold CapW; infer_instance

theorem capCh_spec {c : Char} (h : capCh c = true) :
    c ≠ ' ' ∧ c ≠ '\t' ∧ c ≠ '\n' ∧ c ≠ '"' ∧ isOpenB c = false ∧ isCloseB c = false ∧ c ≠ '#' ∧ c ≠ ',' ∧ c ≠ '=' := by
  simp only [capCh, Bool.not_eq_true', Bool.or_eq_false_iff, beq_eq_false_iff_ne, ne_eq] at h
  obtain ⟨⟨⟨⟨⟨⟨⟨⟨h1, h2⟩, h3⟩, h4⟩, h5⟩, h6⟩, h7⟩, h8⟩, h9⟩ := h
  exact ⟨h1, h2, h3, h4, h5, h6, h7, h8, h9⟩

theorem scan_capW (w : Text) (hw : w.all capCh = true) (d : Nat) (q : Bool) (hd : d = 0) (hq : q = false) :
    scan d q w = some (0, false) := by
  subst hd; subst hq
  induction w with
  | nil => rfl
  | cons c cs ih =>
    simp only [List.all_cons, Bool.and_eq_true] at hw
    obtain ⟨h1, h2, h3, h4, h5, h6, _, _, _⟩ := capCh_spec hw.1
    unfold scan
    simp [h1, h2, h4, h5, h6, ih hw.2]

theorem atomic_of_capW {w : Text} (h : CapW w) : Atomic w := ⟨h.1, scan_capW w h.2 0 false rfl rfl⟩

theorem trimLeftSet_head (cut : Text) (c : Char) (cs : Text) (h : cut.contains c = false) :
    trimLeftSet cut (c :: cs) = c :: cs := by
  simp only [trimLeftSet, h, Bool.false_eq_true, if_false]

theorem trimRightSet_last (cut : Text) (s : Text) (c : Char) (h : cut.contains c = false) :
    trimRightSet cut (s ++ [c]) = s ++ [c] := by
  unfold trimRightSet
  rw [List.reverse_append, List.reverse_singleton, List.singleton_append, trimLeftSet_head cut c _ h]
  simp

/-- a text whose first and last characters are outside `cut` is left alone by `trimSet` -/
theorem trimSet_ends (cut s : Text) (c e : Char)
    (hh : s.head? = some c) (hl : s.getLast? = some e) (hc : cut.contains c = false) (he : cut.contains e = false) :
    trimSet cut s = s := by
  unfold trimSet
  cases s with
  | nil => simp at hh
  | cons a as =>
    simp only [List.head?_cons, Option.some.injEq] at hh
    subst hh
    rw [trimLeftSet_head cut a as hc]
    obtain ⟨init, hinit⟩ : ∃ init, a :: as = init ++ [e] := by
      have := List.getLast?_eq_some_iff.mp hl
      obtain ⟨ys, hys⟩ := this
      exact ⟨ys, hys⟩
    rw [hinit, trimRightSet_last cut init e he]

/-! ### words joined by single blanks -/

theorem joinB_eq_joinSp : ∀ (ts : List Text), joinB ts = joinSp ts
  | [] => rfl
  | [_] => rfl
  | a :: b :: l => by simp only [joinB, joinSp]; rw [joinB_eq_joinSp (b :: l)]

theorem joinB_eq_joinPad : ∀ (ts : List Text), joinB ts = joinPad ts []
  | [] => rfl
  | [_] => rfl
  | a :: b :: l => by
    simp only [joinB, joinPad, List.headD_nil, List.tail_nil, spaces]
    rw [joinB_eq_joinPad (b :: l)]; simp

/-- the characters of words joined by blanks: word characters and blanks -/
theorem joinB_chars : ∀ (ts : List Text), (∀ t ∈ ts, CapW t) → ∀ c ∈ joinB ts, capCh c = true ∨ c = ' '
  | [], _, c, hc => by simp [joinB] at hc
  | [a], h, c, hc => by
    simp only [joinB] at hc
    exact Or.inl (List.all_eq_true.mp (h a (List.mem_cons_self ..)).2 c hc)
  | a :: b :: l, h, c, hc => by
    simp only [joinB, List.mem_append, List.mem_cons] at hc
    rcases hc with hc | rfl | hc
    · exact Or.inl (List.all_eq_true.mp (h a (List.mem_cons_self ..)).2 c hc)
    · exact Or.inr rfl
    · exact joinB_chars (b :: l) (fun t ht => h t (List.mem_cons_of_mem _ ht)) c hc

theorem joinB_head : ∀ (ts : List Text), ts ≠ [] → (∀ t ∈ ts, CapW t) → ∃ c, (joinB ts).head? = some c ∧ capCh c = true
  | [], h, _ => absurd rfl h
  | [a], _, h => by
    obtain ⟨hne, hall⟩ := h a (List.mem_cons_self ..)
    cases a with
    | nil => exact absurd rfl hne
    | cons c cs => exact ⟨c, rfl, (by simp only [List.all_cons, Bool.and_eq_true] at hall; exact hall.1)⟩
  | a :: b :: l, _, h => by
    obtain ⟨hne, hall⟩ := h a (List.mem_cons_self ..)
    cases a with
    | nil => exact absurd rfl hne
    | cons c cs => exact ⟨c, rfl, (by simp only [List.all_cons, Bool.and_eq_true] at hall; exact hall.1)⟩

theorem joinB_last : ∀ (ts : List Text), ts ≠ [] → (∀ t ∈ ts, CapW t) → ∃ e, (joinB ts).getLast? = some e ∧ capCh e = true
  | [], h, _ => absurd rfl h
  | [a], _, h => by
    obtain ⟨hne, hall⟩ := h a (List.mem_cons_self ..)
    refine ⟨a.getLast hne, by simp [joinB, List.getLast?_eq_some_getLast hne], ?_⟩
    exact List.all_eq_true.mp hall _ (List.getLast_mem hne)
  | a :: b :: l, _, h => by
    obtain ⟨e, he, hc⟩ := joinB_last (b :: l) (by simp) (fun t ht => h t (List.mem_cons_of_mem _ ht))
    refine ⟨e, ?_, hc⟩
    simp only [joinB]
    simp [List.getLast?_append, List.getLast?_cons, he]

/-- cut sets made of characters that are not word characters -/
def CutOk (cut : Text) : Prop := ∀ c, capCh c = true → cut.contains c = false

theorem cutOk_nlsp : CutOk (S "\n ") := by
  intro c h; obtain ⟨h1, _, h3, _⟩ := capCh_spec h; simp [S, h1, h3]
theorem cutOk_parnl : CutOk (S "()\n") := by
  intro c h; obtain ⟨_, _, h3, _, h5, h6, _⟩ := capCh_spec h
  simp only [isOpenB, isCloseB, Bool.or_eq_false_iff, beq_eq_false_iff_ne, ne_eq] at h5 h6
  simp [S, h3, h5.1.1, h6.1.1]
theorem cutOk_qsp : CutOk (S "\" ") := by
  intro c h; obtain ⟨h1, _, _, h4, _⟩ := capCh_spec h; simp [S, h1, h4]
theorem cutOk_sp : CutOk [' '] := by
  intro c h; obtain ⟨h1, _⟩ := capCh_spec h; simp [h1]

theorem trimSet_joinB (cut : Text) (hc : CutOk cut) (ts : List Text) (h : ∀ t ∈ ts, CapW t) :
    trimSet cut (joinB ts) = joinB ts := by
  cases ts with
  | nil => simp [joinB, trimSet, trimRightSet, trimLeftSet]
  | cons a l =>
    obtain ⟨c, h1, h2⟩ := joinB_head (a :: l) (by simp) h
    obtain ⟨e, h3, h4⟩ := joinB_last (a :: l) (by simp) h
    exact trimSet_ends cut _ c e h1 h3 (hc c h2) (hc e h4)

/-! ### `tokenToSlice` and `toValues` on such a line -/

theorem splitGo_word (sep : Char) (w : Text) (hw : sep ∉ w) (cur : Text) (acc : List Text) (rest : Text) :
    Proto.splitOnChar.go sep cur acc (w ++ rest) = Proto.splitOnChar.go sep (w.reverse ++ cur) acc rest := by
  induction w generalizing cur with
  | nil => rfl
  | cons c cs ih =>
    simp only [List.mem_cons, not_or] at hw
    have hne : (c == sep) = false := by simpa using (fun h => hw.1 h.symm)
    simp only [List.cons_append, Proto.splitOnChar.go, hne, Bool.false_eq_true, if_false]
    rw [ih hw.2]; simp

theorem splitGo_joinB (sep : Char) (hsep : sep = ' ') : ∀ (ts : List Text) (t : Text) (cur : Text) (acc : List Text),
    (∀ x ∈ t :: ts, sep ∉ x) →
    Proto.splitOnChar.go sep cur acc (joinB (t :: ts)) = acc.reverse ++ (cur.reverse ++ t) :: ts
  | [], t, cur, acc, h => by
    have := splitGo_word sep t (h t (List.mem_cons_self ..)) cur acc []
    simp only [List.append_nil] at this
    simp [joinB, this, Proto.splitOnChar.go]
  | u :: us, t, cur, acc, h => by
    simp only [joinB]
    rw [splitGo_word sep t (h t (List.mem_cons_self ..)) cur acc]
    subst hsep
    simp only [Proto.splitOnChar.go, beq_self_eq_true, if_true]
    rw [splitGo_joinB ' ' rfl us u [] _ (fun x hx => h x (List.mem_cons_of_mem _ hx))]
    simp

theorem capW_no {w : Text} (h : CapW w) : ' ' ∉ w ∧ ',' ∉ w := by
  constructor <;> intro hm <;> have := capCh_spec (List.all_eq_true.mp h.2 _ hm) <;> simp at this

theorem splitChar_joinB (ts : List Text) (hne : ts ≠ []) (h : ∀ t ∈ ts, CapW t) : splitChar ' ' (joinB ts) = ts := by
  cases ts with
  | nil => exact absurd rfl hne
  | cons t l =>
    unfold splitChar Proto.splitOnChar
    rw [splitGo_joinB ' ' rfl l t [] [] (fun x hx => (capW_no (h x hx)).1)]
    simp

theorem joinB_no_comma (ts : List Text) (h : ∀ t ∈ ts, CapW t) : (joinB ts).contains ',' = false := by
  cases hc : (joinB ts).contains ',' with
  | false => rfl
  | true =>
    have hm : ',' ∈ joinB ts := by simpa using hc
    rcases joinB_chars ts h ',' hm with h1 | h1
    · have := capCh_spec h1; simp at this
    · simp at h1

theorem map_trim_id (cut : Text) (hc : CutOk cut) : ∀ (ts : List Text), (∀ t ∈ ts, CapW t) → ts.map (trimSet cut) = ts
  | [], _ => rfl
  | t :: l, h => by
    have := trimSet_joinB cut hc [t] (fun x hx => by
      have e : x = t := by simpa using hx
      rw [e]; exact h t (List.mem_cons_self ..))
    simp only [joinB] at this
    rw [List.map_cons, this, map_trim_id cut hc l (fun x hx => h x (List.mem_cons_of_mem _ hx))]

/-- `tokenToSlice` on words joined by blanks: the words (one empty word for the empty line) -/
theorem tokenToSlice_joinB (ts : List Text) (h : ∀ t ∈ ts, CapW t) :
    tokenToSlice (joinB ts) = if ts.isEmpty then [[]] else ts := by
  unfold tokenToSlice
  simp only [trimSet_joinB _ cutOk_parnl ts h, joinB_no_comma ts h, Bool.false_eq_true, if_false]
  match ts, h with
  | [], _ => simp [joinB]
  | [a], h =>
    have hn : ' ' ∉ a := (capW_no (h a (List.mem_cons_self ..))).1
    simp [joinB, hn]
  | a :: b :: l, h =>
    have : (joinB (a :: b :: l)).contains ' ' = true := by simp [joinB]
    rw [if_pos this, splitChar_joinB _ (by simp) h, map_trim_id _ cutOk_sp _ h]
    simp

/-- the loop of `toValues` over words that are all in the table -/
theorem toValuesLoop_all (req : List Text) : ∀ (rest pre : List Text),
    (∀ t ∈ rest, CapW t ∧ req.contains t = true) →
    toValuesLoop req rest.length pre.length (pre ++ rest) = .ok (pre ++ rest)
  | [], pre, _ => by simp [toValuesLoop]
  | t :: l, pre, h => by
    obtain ⟨hw, hr⟩ := h t (List.mem_cons_self ..)
    have ht : trimSet (S "\" ") t = t := by
      have := trimSet_joinB _ cutOk_qsp [t] (fun x hx => by
        have e : x = t := by simpa using hx
        rw [e]; exact hw)
      simpa [joinB] using this
    have hne : t.isEmpty = false := by cases t with | nil => exact absurd rfl hw.1 | cons _ _ => rfl
    simp only [List.length_cons, toValuesLoop]
    rw [List.getElem?_append_right (Nat.le_refl _)]
    simp only [Nat.sub_self, List.getElem?_cons_zero, ht, hne, hr, Bool.false_eq_true, if_false, Bool.not_true]
    have hset : (pre ++ t :: l).set pre.length t = pre ++ t :: l := by
      rw [List.set_append_right _ _ (Nat.le_refl _)]; simp
    rw [hset]
    have := toValuesLoop_all req l (pre ++ [t]) (fun x hx => h x (List.mem_cons_of_mem _ hx))
    simpa using this

/-- **`toValues` on a printed list of table words**: the list in the canonical order of its table -/
theorem toValues_joinB (T : Tables) (kind key : String) (hreq : hasReq T kind key = true) (ts : List Text)
    (h : ∀ t ∈ ts, CapW t ∧ (reqValues T kind key).contains t = true) :
    toValues T kind key (joinB ts) = .ok (mergeValues T kind key ts []) := by
  unfold toValues
  simp only [hreq, Bool.not_true, Bool.false_eq_true, if_false]
  rw [tokenToSlice_joinB ts (fun t ht => (h t ht).1)]
  cases ts with
  | nil =>
    have e1 : trimSet (S "\" ") [] = [] := by decide
    simp [toValuesLoop, e1, List.eraseIdx]
  | cons a l =>
    have := toValuesLoop_all (reqValues T kind key) (a :: l) [] h
    simp only [List.nil_append, List.length_nil, List.length_cons] at this
    simp [this]

/-! ### the constructors on the tokens of a capability rule -/

theorem vals_plain (t : Text) : (KV.plain t).vals = none := rfl
theorem key_plain (t : Text) : (KV.plain t).key = t := rfl
theorem comment_plain (t : Text) : (KV.plain t).comment = [] := rfl

theorem getSlice_plain (ts : List Text) : getSlice (ts.map KV.plain) = ts := by
  induction ts with
  | nil => rfl
  | cons t l ih =>
    simp only [getSlice] at ih ⊢
    simp only [List.map_cons, List.filter_cons, vals_plain, Option.isNone_none, if_true, key_plain, ih]

theorem getLast_comment_plain : ∀ (ts : List Text), (((ts.map KV.plain).getLast?).map KV.comment).getD [] = []
  | [] => rfl
  | [_] => rfl
  | _ :: b :: l => by
    have := getLast_comment_plain (b :: l)
    simpa [List.getLast?_cons_cons] using this

/-- the markers `newBase` looks for in a comment -/
def baseOfComment (c : Text) : BaseV :=
  if containsSub (S "file_inherit") c then { comment := replaceFirst (S "file_inherit ") [] c, fi := true }
  else if (S "no new privs").isPrefixOf c then { comment := replaceFirst (S "no new privs ") [] c, nnp := true }
  else if containsSub (S "optional:") c then { comment := replaceFirst (S "optional: ") [] c, opt := true }
  else { comment := c }

theorem baseOfComment_nil : baseOfComment [] = {} := by
  have c1 : containsSub (S "file_inherit") [] = false := by decide
  have c2 : (S "no new privs").isPrefixOf ([] : Text) = false := by decide
  have c3 : containsSub (S "optional:") [] = false := by decide
  simp only [baseOfComment, c1, c2, c3, Bool.false_eq_true, if_false]

theorem newBase_cons (first : KV) (rest : RuleT) :
    newBase (first :: rest) = baseOfComment (if (first.key.head? == some '#') then getString rest
      else (((first :: rest).getLast?).map KV.comment).getD []) := rfl

theorem newBase_plain (ts : List Text) (h : ∀ t ∈ ts, CapW t) : newBase (ts.map KV.plain) = {} := by
  cases ts with
  | nil => exact baseOfComment_nil
  | cons t l =>
    obtain ⟨hne, hall⟩ := h t (List.mem_cons_self ..)
    cases t with
    | nil => exact absurd rfl hne
    | cons c cs =>
      have hc : ((KV.plain (c :: cs)).key.head? == some '#') = false := by
        simp only [List.all_cons, Bool.and_eq_true] at hall
        have := (capCh_spec hall.1).2.2.2.2.2.2.1
        simpa [key_plain] using this
      have hl := getLast_comment_plain ((c :: cs) :: l)
      simp only [List.map_cons] at hl
      rw [List.map_cons, newBase_cons, hc, if_neg (by simp), hl]
      exact baseOfComment_nil

theorem newRule1_capability (T : Tables) (f : Nat) (q : Bool × Text) (names : List Text)
    (hreq : hasReq T "capability" "name" = true)
    (h : ∀ n ∈ names, CapW n ∧ (reqValues T "capability" "name").contains n = true) :
    newRule1 T (f + 1) false q (KV.plain (S "capability") :: names.map KV.plain) =
      .ok (some (mkRule "capability" q {} [.l (mergeValues T "capability" "name" names [])])) := by
  have hk : ruleKeywords.contains (String.ofList (S "capability")) = true := by decide
  have hb := newBase_plain names (fun n hn => (h n hn).1)
  have hv := toValues_joinB T "capability" "name" hreq names h
  rw [joinB_eq_joinSp] at hv
  rw [newRule1]
  simp only [getKey, KV.plain, KV.key, List.getElem?_cons_zero, bind, Res.bind, List.drop_succ_cons, List.drop_zero]
  rw [if_neg (by decide), if_neg (by decide), if_neg (by decide), if_pos hk]
  unfold newRuleOf
  simp only []
  rw [if_neg (by decide), if_neg (by decide), if_neg (by decide), if_neg (by decide), if_neg (by decide), if_pos (by decide)]
  rw [hb]
  simp only [getString, getSlice_plain, hv, bind, Res.bind, pure, Bool.false_and, Bool.false_eq_true, if_false]

theorem plain_of_capW {w : Text} (h : CapW w) : Plain w := by
  have hall := fun c hc => capCh_spec (List.all_eq_true.mp h.2 c hc)
  refine ⟨?_, ?_, ?_, ?_⟩
  · cases hc : w.contains '=' with
    | false => rfl
    | true => have := (hall '=' (by simpa using hc)).2.2.2.2.2.2.2.2; simp at this
  · cases hc : w.contains '(' with
    | false => rfl
    | true => have := (hall '(' (by simpa using hc)).2.2.2.2.1; simp [isOpenB] at this
  · obtain ⟨hne, ha⟩ := h
    cases w with
    | nil => exact absurd rfl hne
    | cons c cs =>
      have := (hall c (List.mem_cons_self ..)).2.2.2.2.2.2.1
      have hc : ('#' == c) = false := by simpa using fun (e : '#' = c) => this e.symm
      show List.isPrefixOf ['#'] (c :: cs) = false
      simp [List.isPrefixOf, hc]
  · have hc : CutOk ['\n'] := by
      intro c hcc; have := (capCh_spec hcc).2.2.1; simp [this]
    have := trimSet_joinB _ hc [w] (fun x hx => by
      have e : x = w := by simpa using hx
      rw [e]; exact h)
    simpa [joinB] using this

theorem joinB_simpleC (ts : List Text) (h : ∀ t ∈ ts, CapW t) : (joinB ts).all simpleC = true := by
  rw [List.all_eq_true]
  intro c hc
  rcases joinB_chars ts h c hc with h1 | rfl
  · obtain ⟨_, _, h3, _, h5, h6, h7, h8, _⟩ := capCh_spec h1
    simp [simpleC, h3, h5, h6, h7, h8]
  · decide

/-- a line of keyword-like words goes through the comma splitter, the tokenizer and `parseRule` as
its words -/
theorem parseCommaRules_words (ts : List Text) (h : ∀ t ∈ ts, CapW t) :
    parseCommaRules false (joinB ts ++ S ",\n") = .ok [ts.map KV.plain] := by
  rw [parseCommaRules_line _ (joinB_simpleC ts h), trimSet_joinB _ cutOk_nlsp ts h, joinB_eq_joinPad,
    parseRule_plain ts [] (fun t ht => atomic_of_capW (h t ht)) (fun t ht => plain_of_capW (h t ht))]
  rfl

/-- **Capability rules of any length through the library's own parser** -/
theorem parse_capability (T : Tables) (audit deny : Bool) (names : List Text)
    (hreq : hasReq T "capability" "name" = true)
    (h : ∀ n ∈ names, CapW n ∧ (reqValues T "capability" "name").contains n = true) :
    (parseCommaRules false (renderRule (capRule audit deny names) (padOf []) ++ S "\n")).bind (newRules T) =
      .ok [mkRule "capability" (audit, if deny then S "deny" else []) {}
        [.l (mergeValues T "capability" "name" names [])]] := by
  have hw : ∀ t ∈ qualWords audit deny ++ S "capability" :: names, CapW t := by
    intro t ht
    simp only [List.mem_append, List.mem_cons] at ht
    rcases ht with ht | rfl | ht
    · cases audit <;> cases deny <;> simp [qualWords] at ht
      all_goals (first | (rcases ht with rfl | rfl) | subst ht) <;> decide
    · decide
    · exact (h t ht).1
  rw [render_capability, List.append_assoc, show [','] ++ S "\n" = S ",\n" from rfl,
    parseCommaRules_words _ hw]
  simp only [Res.bind]
  unfold newRules
  cases audit <;> cases deny <;>
    simp only [qualWords, if_true, if_false, Bool.false_eq_true, List.nil_append, List.cons_append, List.map_cons,
      List.isEmpty_cons, List.length_cons, List.length_map, noQ, newRule1_audit, newRule1_deny,
      newRule1_capability T _ _ names hreq h, newRules]

/-! ### network rules: any domain word with any second word -/

/-- what `newNetwork` makes of the second word -/
def netSecond (T : Tables) (t : Text) : Text × Text :=
  if (reqValues T "network" "type").contains t then (t, [])
  else if (reqValues T "network" "protocol").contains t then ([], t) else ([], [])

theorem newRule1_network (T : Tables) (f : Nat) (q : Bool × Text) (d t : Text) (hd : CapW d) (ht : CapW t) :
    newRule1 T (f + 1) false q [KV.plain (S "network"), KV.plain d, KV.plain t] =
      .ok (some (mkRule "network" q {} [.s [], .s [], .s [], .s d, .s (netSecond T t).1, .s (netSecond T t).2])) := by
  have hk : ruleKeywords.contains (String.ofList (S "network")) = true := by decide
  have hb := newBase_plain [d, t] (fun n hn => by
    simp only [List.mem_cons, List.not_mem_nil, or_false] at hn
    rcases hn with rfl | rfl <;> assumption)
  have hs := getSlice_plain [d, t]
  simp only [List.map_cons, List.map_nil] at hb hs
  rw [newRule1]
  simp only [getKey, KV.plain, KV.key, List.getElem?_cons_zero, bind, Res.bind, List.drop_succ_cons, List.drop_zero]
  rw [if_neg (by decide), if_neg (by decide), if_neg (by decide), if_pos hk]
  unfold newRuleOf
  simp only []
  rw [if_neg (by decide), if_neg (by decide), if_neg (by decide), if_neg (by decide), if_neg (by decide),
    if_neg (by decide), if_pos (by decide)]
  simp only [KV.plain] at hb hs
  rw [hb, hs]
  simp only [List.getD_cons_zero, List.getD_cons_succ, List.length_cons, List.length_nil, Nat.reduceAdd, ge_iff_le,
    Nat.le_refl, if_true, netSecond]
  by_cases h1 : (reqValues T "network" "type").contains t = true
  · simp [pure]
  · by_cases h2 : (reqValues T "network" "protocol").contains t = true <;> simp [pure]

/-- **Network rules through the library's own parser**: every qualifier, every domain word, every
second word (a socket type of the table comes back as the type, a protocol as the protocol) -/
theorem parse_network (T : Tables) (audit deny : Bool) (d t : Text) (hd : CapW d) (ht : CapW t) :
    (parseCommaRules false (renderRule (netRule audit deny d t) (padOf []) ++ S "\n")).bind (newRules T) =
      .ok [mkRule "network" (audit, if deny then S "deny" else []) {}
        [.s [], .s [], .s [], .s d, .s (netSecond T t).1, .s (netSecond T t).2]] := by
  have hw : ∀ x ∈ qualWords audit deny ++ [S "network", d, t], CapW x := by
    intro x hx
    simp only [List.mem_append, List.mem_cons, List.not_mem_nil, or_false] at hx
    rcases hx with hx | rfl | rfl | rfl
    · cases audit <;> cases deny <;> simp [qualWords] at hx
      all_goals (first | (rcases hx with rfl | rfl) | subst hx) <;> decide
    · decide
    · exact hd
    · exact ht
  rw [render_network audit deny d t hd.1 ht.1, List.append_assoc, show [','] ++ S "\n" = S ",\n" from rfl,
    parseCommaRules_words _ hw]
  simp only [Res.bind]
  unfold newRules
  cases audit <;> cases deny <;>
    simp only [qualWords, if_true, if_false, Bool.false_eq_true, List.nil_append, List.cons_append, List.map_cons,
      List.map_nil, List.isEmpty_cons, List.length_cons, List.length_nil, noQ, newRule1_audit, newRule1_deny,
      newRule1_network T _ _ d t hd ht, newRules]

end Aa.Parse
