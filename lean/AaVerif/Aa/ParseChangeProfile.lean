import AaVerif.Aa.ParseRlimit
/-!
# Aa.ParseChangeProfile — `change_profile [mode] EXEC -> TARGET,` through the library's own parser

Every qualifier, no mode or any mode of the table, every keyword-like exec and target word.  The proof asks for one thing
the printed text cannot express: the exec word must not itself be a mode keyword (`change_profile safe -> t,` is read as
mode `safe` without an exec), and it must not be the arrow.
-/
namespace Aa.Parse
open Ref

def cpRule (audit deny : Bool) (m e t : Text) : Rule :=
  { kind := "change_profile", audit := audit, accessType := if deny then S "deny" else [], flds := [.s m, .s e, .s t] }

def modeW (m : Text) : List Text := if m.isEmpty then [] else [m]

def cpBody (m e t : Text) : List Text := modeW m ++ [e, S "->", t]

theorem render_cp (audit deny : Bool) (m e t : Text) (he : e ≠ []) (ht : t ≠ []) :
    renderRule (cpRule audit deny m e t) (padOf []) =
      joinB (qualWords audit deny ++ S "change_profile" :: cpBody m e t) ++ [','] := by
  have he' : e.isEmpty = false := by cases e <;> simp_all
  have ht' : t.isEmpty = false := by cases t <;> simp_all
  cases hm : m.isEmpty <;> cases audit <;> cases deny <;>
    simp [renderRule, cpRule, cpBody, modeW, renderQual, renderComment, padOf, qualWords, fS, Rule.fld, Fld.str,
      S, joinB, withS, he', ht', hm]

theorem newRule1_cp (T : Tables) (f : Nat) (q : Bool × Text) (m e t : Text)
    (hm : m = [] ∨ (CapW m ∧ (reqValues T "change_profile" "mode").contains m = true))
    (he : CapW e) (hne : (reqValues T "change_profile" "mode").contains e = false) (harrow : e ≠ S "->") (ht : CapW t) :
    newRule1 T (f + 1) false q (KV.plain (S "change_profile") :: (cpBody m e t).map KV.plain) =
      .ok (some (mkRule "change_profile" q {} [.s m, .s e, .s t])) := by
  have hk : ruleKeywords.contains (String.ofList (S "change_profile")) = true := by decide
  have hb := newBase_plain [e, S "->", t] (fun n hn => by
    simp only [List.mem_cons, List.not_mem_nil, or_false] at hn
    rcases hn with rfl | rfl | rfl
    · exact he
    · decide
    · exact ht)
  have harrow' : (e != S "->") = true := by simpa using harrow
  rw [newRule1]
  simp only [getKey, KV.plain, KV.key, List.getElem?_cons_zero, bind, Res.bind, List.drop_succ_cons, List.drop_zero]
  rw [if_neg (by decide), if_neg (by decide), if_neg (by decide), if_pos hk]
  unfold newRuleOf
  simp only []
  repeat (first | rw [if_pos (by decide)] | rw [if_neg (by decide)])
  simp only [List.map_cons, List.map_nil, KV.plain] at hb
  rcases hm with rfl | ⟨hcm, hin⟩
  · simp only [cpBody, modeW, List.isEmpty_nil, if_true, List.nil_append, List.map_cons, List.map_nil, KV.plain, KV.key, hne,
      Bool.false_eq_true, if_false, hb, harrow', List.length_cons, List.length_nil, List.getD_cons_succ, List.getD_cons_zero]
    simp [pure]
  · have hme : m.isEmpty = false := by
      obtain ⟨h, _⟩ := hcm; cases m <;> simp_all
    simp only [cpBody, modeW, hme, Bool.false_eq_true, if_false, List.cons_append, List.nil_append, List.map_cons, List.map_nil,
      KV.plain, KV.key, hin, if_true, List.drop_succ_cons, List.drop_zero, hb, harrow', List.length_cons, List.length_nil,
      List.getD_cons_succ, List.getD_cons_zero]
    simp [pure]

/-- **`change_profile` rules through the library's own parser** -/
theorem parse_cp (T : Tables) (audit deny : Bool) (m e t : Text)
    (hm : m = [] ∨ (CapW m ∧ (reqValues T "change_profile" "mode").contains m = true))
    (he : CapW e) (hne : (reqValues T "change_profile" "mode").contains e = false) (harrow : e ≠ S "->") (ht : CapW t) :
    (parseCommaRules false (renderRule (cpRule audit deny m e t) (padOf []) ++ S "\n")).bind (newRules T) =
      .ok [mkRule "change_profile" (audit, if deny then S "deny" else []) {} [.s m, .s e, .s t]] := by
  have hw : ∀ w ∈ qualWords audit deny ++ S "change_profile" :: cpBody m e t, CapW w := by
    intro w hw
    simp only [List.mem_append, List.mem_cons, cpBody, modeW, List.not_mem_nil, or_false] at hw
    rcases hw with hw | rfl | hw | rfl | rfl | rfl
    · cases audit <;> cases deny <;> simp [qualWords] at hw
      all_goals (first | (rcases hw with rfl | rfl) | subst hw) <;> decide
    · decide
    · rcases hm with rfl | ⟨hcm, _⟩
      · simp at hw
      · split at hw
        · simp at hw
        · have : w = m := by simpa using hw
          rw [this]; exact hcm
    · exact he
    · decide
    · exact ht
  rw [render_cp audit deny m e t he.1 ht.1, List.append_assoc, show [','] ++ S "\n" = S ",\n" from rfl,
    parseCommaRules_words _ hw]
  simp only [Res.bind]
  unfold newRules
  cases audit <;> cases deny <;>
    simp only [qualWords, if_true, if_false, Bool.false_eq_true, List.nil_append, List.cons_append, List.map_cons,
      List.isEmpty_cons, List.length_cons, List.length_map, noQ, newRule1_audit, newRule1_deny,
      newRule1_cp T _ _ m e t hm he hne harrow ht, newRules]

end Aa.Parse
