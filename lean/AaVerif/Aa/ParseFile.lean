import AaVerif.Aa.ParseLemmas
/-!
# Aa.ParseFile — the library's own parser on the tokens of a printed file rule, for every path

`newRules` (qualifier loop, keyword dispatch, `newFile`) is computed symbolically on the pre-parsed
rule `[audit] [deny] [owner] PATH MODE`: for every path token that starts with `/` or `@` and every
mode string, the constructor returns a file rule with exactly that path, the qualifier and owner flag
that were printed, and the access list `toAccess` builds from the mode string.
Together with `C09_line_to_tokens` (text ↦ tokens, any padding) this is the round trip of a file
rule without target and comment, for all paths.
-/
namespace Aa.Parse
open Aa

def PathHead (p : Text) : Prop := ∃ c cs, p = c :: cs ∧ (c = '/' ∨ c = '@')

theorem pathHead_ne (p : Text) (h : PathHead p) (k : String)
    (hk : ∀ c, k.toList.head? = some c → c ≠ '/' ∧ c ≠ '@') (hne : k.toList ≠ []) : (p == S k) = false := by
  obtain ⟨c, cs, rfl, hc⟩ := h
  cases hkl : k.toList with
  | nil => exact absurd hkl hne
  | cons d ds =>
    have := hk d (by simp [hkl])
    simp only [S, hkl, beq_eq_false_iff_ne, ne_eq, List.cons.injEq, not_and]
    intro e
    rcases hc with rfl | rfl
    · exact absurd e.symm this.1
    · exact absurd e.symm this.2

theorem pathHead_not_keyword (p : Text) (h : PathHead p) : ruleKeywords.contains (String.ofList p) = false := by
  obtain ⟨c, cs, rfl, hc⟩ := h
  have : ∀ k ∈ ruleKeywords, k ≠ String.ofList (c :: cs) := by
    intro k hk e
    have e' : k.toList = c :: cs := by rw [e]; simp
    have hh : ∀ k ∈ ruleKeywords, ∀ d, k.toList.head? = some d → d ≠ '/' ∧ d ≠ '@' := by decide
    have := hh k hk c (by simp [e'])
    rcases hc with rfl | rfl
    · exact this.1 rfl
    · exact this.2 rfl
  cases hcont : ruleKeywords.contains (String.ofList (c :: cs)) with
  | false => rfl
  | true =>
    have hm : String.ofList (c :: cs) ∈ ruleKeywords := by simpa using hcont
    exact absurd rfl (this _ hm)

theorem isAARE_of_pathHead (p : Text) (h : PathHead p) : isAARE p = true := by
  obtain ⟨c, cs, rfl, hc⟩ := h
  rcases hc with rfl | rfl <;> simp [isAARE]

theorem newBase_path_mode (p m : Text) (hp : PathHead p) : newBase [KV.plain p, KV.plain m] = {} := by
  obtain ⟨c, cs, rfl, hc⟩ := hp
  have hne : (c == '#') = false := by rcases hc with rfl | rfl <;> decide
  have hne' : ¬ c = '#' := by simpa using hne
  unfold newBase
  simp [KV.plain, KV.key, KV.comment, hne', containsSub]
  have e1 : S "file_inherit" ≠ [] := by decide
  have e2 : S "no new privs" ≠ [] := by decide
  have e3 : S "optional:" ≠ [] := by decide
  simp [e1, e2, e3]

/-- `newFile` on the two tokens PATH MODE -/
theorem newFile_path_mode (T : Tables) (q : Bool × Text) (p m : Text) (hp : PathHead p) :
    newFile T q [KV.plain p, KV.plain m] =
      (toAccessFile T m).bind (fun a => .ok (mkRule "file" q {} [.b false, .s p, .l a, .s []])) := by
  have k1 := pathHead_ne p hp "owner" (by decide) (by decide)
  have k2 := pathHead_ne p hp "file" (by decide) (by decide)
  unfold newFile
  simp only [KV.plain, KV.key, k1, k2, Bool.false_eq_true, if_false, getKey, List.getElem?_cons_zero, bind, Res.bind,
    getSlice, List.filter_cons, KV.vals, Option.isNone_none, if_true, List.filter_nil, List.map_cons, List.map_nil,
    List.length_cons, List.length_nil, Nat.reduceAdd, Nat.lt_irrefl, List.getD_cons_zero, List.getD_cons_succ, toAccess,
    beq_self_eq_true, gt_iff_lt]
  have hb := newBase_path_mode p m hp
  simp only [KV.plain] at hb
  rw [hb]
  cases toAccessFile T m <;> simp [pure]

theorem newRule1_audit (T : Tables) (f : Nat) (ow : Bool) (q : Bool × Text) (r : RuleT) :
    newRule1 T (f + 1) ow q (KV.plain (S "audit") :: r) = newRule1 T f ow (true, q.2) r := by
  rw [newRule1]
  simp [getKey, KV.plain, KV.key, bind, Res.bind, S]

theorem newRule1_deny (T : Tables) (f : Nat) (ow : Bool) (q : Bool × Text) (r : RuleT) :
    newRule1 T (f + 1) ow q (KV.plain (S "deny") :: r) = newRule1 T f ow (q.1, S "deny") r := by
  rw [newRule1]
  simp [getKey, KV.plain, KV.key, bind, Res.bind, S]

theorem newRule1_owner (T : Tables) (f : Nat) (ow : Bool) (q : Bool × Text) (r : RuleT) :
    newRule1 T (f + 1) ow q (KV.plain (S "owner") :: r) = newRule1 T f true q r := by
  rw [newRule1]
  simp [getKey, KV.plain, KV.key, bind, Res.bind, S]

theorem newRule1_path (T : Tables) (f : Nat) (ow : Bool) (q : Bool × Text) (p m : Text) (hp : PathHead p) :
    newRule1 T (f + 1) ow q [KV.plain p, KV.plain m] =
      (toAccessFile T m).bind (fun a => .ok (some (mkRule "file" q {} [.b ow, .s p, .l a, .s []]))) := by
  have k1 := pathHead_ne p hp "owner" (by decide) (by decide)
  have k2 := pathHead_ne p hp "allow" (by decide) (by decide)
  have k3 := pathHead_ne p hp "deny" (by decide) (by decide)
  have k4 := pathHead_ne p hp "audit" (by decide) (by decide)
  have k5 := pathHead_not_keyword p hp
  have k6 := isAARE_of_pathHead p hp
  have k7 : p.isEmpty = false := by obtain ⟨c, cs, rfl, _⟩ := hp; rfl
  rw [newRule1]
  simp only [getKey, KV.plain, KV.key, List.getElem?_cons_zero, bind, Res.bind, k1, k2, k3, k4, k5, k6, k7,
    Bool.false_eq_true, if_false, Bool.or_self, Bool.true_or, if_true]
  have := newFile_path_mode T q p m hp
  simp only [KV.plain] at this
  rw [this]
  cases toAccessFile T m <;> simp [Res.bind, pure, mkRule, Rule.setFld]

/-- the tokens a printed file rule is made of -/
def fileToks (audit deny owner : Bool) (p m : Text) : List Text :=
  (if audit then [S "audit"] else []) ++ (if deny then [S "deny"] else []) ++ (if owner then [S "owner"] else []) ++ [p, m]

/-- **The library's constructors on the tokens of a file rule**: for every qualifier, owner flag, path
token (begins with `/` or `@`) and mode string, `newRules` returns one file rule with exactly that
path, qualifier and owner flag, and the access list `toAccess` builds from the mode (or `toAccess`'s
error, when the mode string is not a valid permission). -/
theorem newRules_file (T : Tables) (audit deny owner : Bool) (p m : Text) (hp : PathHead p) :
    newRules T [(fileToks audit deny owner p m).map KV.plain] =
      (toAccessFile T m).bind (fun a => .ok [mkRule "file" (audit, if deny then S "deny" else []) {}
        [.b owner, .s p, .l a, .s []]]) := by
  unfold newRules
  cases audit <;> cases deny <;> cases owner <;>
    simp only [fileToks, if_true, if_false, Bool.false_eq_true, List.nil_append, List.cons_append, List.map_cons,
      List.map_nil, List.isEmpty_cons, List.length_cons, List.length_nil, Nat.reduceAdd, noQ,
      newRule1_audit, newRule1_deny, newRule1_owner, newRule1_path T _ _ _ p m hp] <;>
    cases toAccessFile T m <;> simp [Res.bind, newRules]

/-! ### the comma splitter on a body with brackets -/

/-- scan of a rule body by the comma splitter: brackets counted, no `#`, no newline, and a comma only
inside brackets; returns the final depth -/
def cscan : Int → Text → Option Int
  | d, [] => some d
  | d, c :: cs =>
    if isOpenB c then cscan (d + 1) cs
    else if isCloseB c then cscan (d - 1) cs
    else if c == '#' || c == '\n' then none
    else if c == ',' then (if d == 0 then none else cscan d cs)
    else cscan d cs

theorem commaRun_scan (body : Text) : ∀ (buf : Text) (depth : Int) (ci : Bool) (rules : List RuleT) (rest : Text) (d' : Int),
    cscan depth body = some d' →
    commaRun false { buf := buf, depth := depth, comment := false, canInline := ci, rules := rules } (body ++ rest) =
      commaRun false { buf := body.reverse ++ buf, depth := d', comment := false, canInline := ci, rules := rules } rest := by
  induction body with
  | nil =>
    intro buf depth ci rules rest d' h
    simp only [cscan, Option.some.injEq] at h
    subst h; simp
  | cons c cs ih =>
    intro buf depth ci rules rest d' h
    simp only [List.cons_append]
    unfold cscan at h
    by_cases ho : isOpenB c = true
    · simp only [ho, if_true] at h
      simp only [commaRun, ho, if_true, Bool.false_eq_true, if_false]
      rw [ih (c :: buf) (depth + 1) ci rules rest d' h]; simp
    · simp only [ho, Bool.false_eq_true, if_false] at h
      by_cases hcl : isCloseB c = true
      · simp only [hcl, if_true] at h
        simp only [commaRun, ho, hcl, if_true, Bool.false_eq_true, if_false]
        rw [ih (c :: buf) (depth - 1) ci rules rest d' h]; simp
      · simp only [hcl, Bool.false_eq_true, if_false] at h
        by_cases hh : (c == '#' || c == '\n') = true
        · simp [hh] at h
        · simp only [hh, Bool.false_eq_true, if_false] at h
          simp only [Bool.or_eq_true, not_or, Bool.not_eq_true] at hh
          by_cases hcm : (c == ',') = true
          · simp only [hcm, if_true] at h
            by_cases hd : depth = 0
            · simp [hd] at h
            · have hd' : (depth == 0) = false := by simpa using hd
              simp only [hd', Bool.false_eq_true, if_false] at h
              simp only [commaRun, ho, hcl, hh.1, hh.2, hcm, hd', Bool.false_eq_true, if_false, if_true, Bool.false_and]
              rw [ih (c :: buf) depth ci rules rest d' h]; simp
          · simp only [hcm, Bool.false_eq_true, if_false] at h
            simp only [commaRun, ho, hcl, hh.1, hh.2, hcm, Bool.false_eq_true, if_false]
            rw [ih (c :: buf) depth ci rules rest d' h]; simp

/-- **one printed rule line comes back as one pre-parsed rule**, for a body whose brackets are
balanced and whose commas all sit inside brackets (alternations, variable references) -/
theorem parseCommaRules_line' (body : Text) (h : cscan 0 body = some 0) :
    parseCommaRules false (body ++ S ",\n") =
      (parseRule false (trimSet (S "\n ") body)).bind (fun r => .ok [r]) := by
  unfold parseCommaRules
  have := commaRun_scan body [] 0 false [] (S ",\n") 0 h
  rw [show ({} : CommaSt) = { buf := [], depth := 0, comment := false, canInline := false, rules := [] } from rfl, this]
  simp only [S, List.append_nil]
  show commaRun false _ (',' :: '\n' :: []) = _
  simp only [commaRun, isOpenB, isCloseB, Char.reduceBEq, Bool.or_self, Bool.false_eq_true, if_false, if_true,
    Bool.not_false, Bool.and_self, Bool.not_true, beq_self_eq_true, Bool.or_true, List.reverse_reverse,
    List.reverse_append, List.reverse_nil, List.nil_append, List.append_nil, BEq.rfl]
  have hS : S "\n " = ['\n', ' '] := by decide
  rw [hS]
  cases hp : parseRule false (trimSet ['\n', ' '] body) with
  | ok r => simp [Res.bind, commaRun, isOpenB, isCloseB, hp]
  | err => simp [Res.bind, hp]
  | panic => simp [Res.bind, hp]

end Aa.Parse
