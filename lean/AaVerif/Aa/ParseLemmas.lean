import AaVerif.Aa.Parse
/-!
# Aa.ParseLemmas — helper lemmas about the tokenizer of `pkg/aa` (used by Props/C09, C12)
-/
namespace Aa.Parse

/-- scanning one token outside a variable definition: the bracket depth and quote state after
the token, `none` when the tokenizer would split inside it or panic -/
def scan (d : Nat) (q : Bool) : Text → Option (Nat × Bool)
  | [] => some (d, q)
  | c :: cs =>
    if (c == ' ' || c == '\t') && d == 0 && !q then none
    else if c == '"' && d == 0 then scan d (!q) cs
    else if isOpenB c then scan (d + 1) q cs
    else if isCloseB c then (if d == 0 then none else scan (d - 1) q cs)
    else scan d q cs

/-- a token the tokenizer keeps whole: not empty, never split, brackets and quotes closed -/
def Atomic (t : Text) : Prop := t ≠ [] ∧ scan 0 false t = some (0, false)

instance (t : Text) : Decidable (Atomic t) := by unfold Atomic; infer_instance

theorem tokStep_novar (s : TokSt) (c : Char) :
    tokStep false s c =
      if (c == ' ' || c == '\t') && s.depth == 0 && !s.quoted then some s.flush
      else if c == '"' && s.depth == 0 then some { s with quoted := !s.quoted, cur := c :: s.cur }
      else if isOpenB c then some { s with depth := s.depth + 1, cur := c :: s.cur }
      else if isCloseB c then
        if s.depth == 0 then none else some { s with depth := s.depth - 1, cur := c :: s.cur }
      else some { s with cur := c :: s.cur } := by
  unfold tokStep
  simp only [Bool.and_false, Bool.false_eq_true, if_false]

theorem tokRun_scan (t : Text) : ∀ (s : TokSt) (d' : Nat) (q' : Bool),
    scan s.depth s.quoted t = some (d', q') →
    tokRun false s t = some { s with depth := d', quoted := q', cur := t.reverse ++ s.cur } := by
  induction t with
  | nil =>
    intro s d' q' h
    simp only [scan, Option.some.injEq, Prod.mk.injEq] at h
    obtain ⟨h1, h2⟩ := h
    cases s; simp_all [tokRun]
  | cons c cs ih =>
    intro s d' q' h
    simp only [scan] at h
    simp only [tokRun, tokStep_novar]
    split at h
    · simp at h
    · rename_i h1
      rw [if_neg h1]
      split at h
      · rename_i h2
        rw [if_pos h2]
        simp only
        rw [ih _ d' q' (by simpa using h)]
        simp
      · rename_i h2
        rw [if_neg h2]
        split at h
        · rename_i h3
          rw [if_pos h3]
          simp only
          rw [ih _ d' q' (by simpa using h)]
          simp
        · rename_i h3
          rw [if_neg h3]
          split at h
          · rename_i h4
            rw [if_pos h4]
            split at h
            · simp at h
            · rename_i h5
              rw [if_neg h5]
              simp only
              rw [ih _ d' q' (by simpa using h)]
              simp
          · rename_i h4
            rw [if_neg h4]
            simp only
            rw [ih _ d' q' (by simpa using h)]
            simp

/-- a run of at least one space -/
def spaces (n : Nat) : Text := List.replicate (n + 1) ' '

theorem flush_flush (s : TokSt) : s.flush.flush = s.flush := by
  unfold TokSt.flush
  split <;> simp_all

theorem flush_depth (s : TokSt) : s.flush.depth = s.depth := by unfold TokSt.flush; split <;> rfl
theorem flush_quoted (s : TokSt) : s.flush.quoted = s.quoted := by unfold TokSt.flush; split <;> rfl

theorem tokRun_spaces (n : Nat) (s : TokSt) (hd : s.depth = 0) (hq : s.quoted = false) :
    tokRun false s (spaces n) = some s.flush := by
  induction n generalizing s with
  | zero =>
    simp only [spaces, List.replicate, tokRun, tokStep_novar, hd, hq]
    simp
  | succ n ih =>
    have : spaces (n + 1) = ' ' :: spaces n := rfl
    rw [this]
    simp only [tokRun, tokStep_novar, hd, hq]
    simp only [beq_self_eq_true, Bool.true_or, Bool.not_false, Bool.and_self, if_true]
    rw [ih s.flush (by rw [flush_depth, hd]) (by rw [flush_quoted, hq]), flush_flush]

theorem tokRun_append (a b : Text) (s : TokSt) :
    tokRun false s (a ++ b) = (tokRun false s a).bind (fun s' => tokRun false s' b) := by
  induction a generalizing s with
  | nil => simp [tokRun]
  | cons c cs ih =>
    simp only [List.cons_append, tokRun]
    cases tokStep false s c with
    | none => simp
    | some s' => simp [ih]

/-- tokens separated by runs of spaces (`ns` gives the extra length of each run) -/
def joinPad : List Text → List Nat → Text
  | [], _ => []
  | [t], _ => t
  | t :: t' :: ts, ns => t ++ spaces (ns.headD 0) ++ joinPad (t' :: ts) ns.tail

end Aa.Parse

namespace Aa.Parse

theorem flush_toks_of_cur_nil (s : TokSt) (h : s.cur = []) : s.flush = s := by
  unfold TokSt.flush; simp [h]

theorem flush_of_cur_ne (s : TokSt) (h : s.cur ≠ []) :
    s.flush = { s with cur := [], toks := s.cur.reverse :: s.toks } := by
  unfold TokSt.flush
  have : s.cur.isEmpty = false := by cases hc : s.cur with | nil => exact absurd hc h | cons _ _ => rfl
  simp [this]

theorem tokRun_joinPad (ts : List Text) : ∀ (ns : List Nat) (s : TokSt), (∀ t ∈ ts, Atomic t) →
    s.depth = 0 → s.quoted = false → s.cur = [] →
    ∃ s', tokRun false s (joinPad ts ns) = some s' ∧ s'.flush.toks = ts.reverse ++ s.toks := by
  induction ts with
  | nil =>
    intro ns s _ _ _ hc
    exact ⟨s, by simp [joinPad, tokRun], by rw [flush_toks_of_cur_nil s hc]; simp⟩
  | cons t ts ih =>
    intro ns s hat hd hq hc
    have ht := hat t (List.mem_cons_self ..)
    have hscan : scan s.depth s.quoted t = some (0, false) := by rw [hd, hq]; exact ht.2
    have hrun := tokRun_scan t s 0 false hscan
    cases ts with
    | nil =>
      refine ⟨_, by simpa [joinPad] using hrun, ?_⟩
      rw [flush_of_cur_ne]
      · simp [hc]
      · simp [hc, ht.1]
    | cons t' ts' =>
      simp only [joinPad]
      rw [List.append_assoc, tokRun_append, hrun]
      simp only [Option.bind_some]
      rw [tokRun_append, tokRun_spaces _ _ rfl rfl]
      simp only [Option.bind_some]
      have hne : (t.reverse ++ s.cur) ≠ [] := by simp [hc, ht.1]
      obtain ⟨s', h1, h2⟩ := ih ns.tail
        (TokSt.flush { s with depth := 0, quoted := false, cur := t.reverse ++ s.cur })
        (fun x hx => hat x (List.mem_cons_of_mem _ hx))
        (by rw [flush_depth]) (by rw [flush_quoted]) (by rw [flush_of_cur_ne _ hne])
      refine ⟨s', h1, ?_⟩
      rw [h2, flush_of_cur_ne _ hne]
      simp [hc]

/-- **the tokenizer reads back tokens separated by runs of spaces** (outside a preamble variable
definition) -/
theorem tokenize_joinPad (ts : List Text) (ns : List Nat) (hat : ∀ t ∈ ts, Atomic t) :
    tokenize false (joinPad ts ns) = .ok ts := by
  unfold tokenize
  simp only [Bool.false_and]
  obtain ⟨s', h1, h2⟩ := tokRun_joinPad ts ns {} hat rfl rfl rfl
  rw [h1]
  simp only [h2]
  simp

end Aa.Parse

namespace Aa.Parse

/-- a token that `parseRule` keeps as a single value: no `=`, no `(`, not a comment, no newline
at its ends -/
def Plain (t : Text) : Prop :=
  t.contains '=' = false ∧ t.contains '(' = false ∧ (S "#").isPrefixOf t = false ∧ trimSet ['\n'] t = t

instance (t : Text) : Decidable (Plain t) := by unfold Plain; infer_instance

theorem plain_not_op {t : Text} (h : Plain t) : (t == S "=" || t == S "+=" || t == S "<=") = false := by
  have h1 := h.1
  cases hb : (t == S "=" || t == S "+=" || t == S "<=") with
  | false => rfl
  | true =>
    simp only [Bool.or_eq_true, beq_iff_eq] at hb
    rcases hb with (rfl | rfl) | rfl <;> simp [S] at h1

theorem parseToks_plain (rec : Text → Res RuleT) (inAare : Bool) (n : Nat) (ts : List Text) :
    ∀ (idx : Nat) (res : RuleT), (∀ t ∈ ts, Plain t) →
    parseToks rec inAare n idx ts res = .ok (res ++ ts.map KV.plain) := by
  induction ts with
  | nil => intro idx res _; simp [parseToks]
  | cons t ts ih =>
    intro idx res h
    have ht := h t (List.mem_cons_self ..)
    have hop := plain_not_op ht
    unfold parseToks
    simp only [Bool.or_eq_true] at hop ⊢
    simp only [Bool.or_eq_false_iff] at hop
    rw [if_neg (by simp [hop.1.1, hop.1.2, hop.2])]
    have h1 : '=' ∉ t := by simpa using ht.1
    have h2 : '(' ∉ t := by simpa using ht.2.1
    rw [if_neg (by simp [h1])]
    rw [if_neg (by simp [h2])]
    rw [if_neg (by simp [ht.2.2.1])]
    rw [ht.2.2.2, ih (idx + 1) _ (fun x hx => h x (List.mem_cons_of_mem _ hx))]
    simp

/-- **`parseRule` reads a line of plain tokens back as its tokens**, whatever the spacing -/
theorem parseRule_plain (ts : List Text) (ns : List Nat) (hat : ∀ t ∈ ts, Atomic t)
    (hp : ∀ t ∈ ts, Plain t) : parseRule false (joinPad ts ns) = .ok (ts.map KV.plain) := by
  unfold parseRule parseRuleF
  rw [tokenize_joinPad ts ns hat]
  simp only
  rw [parseToks_plain _ _ _ ts 0 [] hp]
  simp

end Aa.Parse

namespace Aa.Parse

/-- a character that the comma splitter just copies when it is outside a comment -/
def simpleC (c : Char) : Bool := !(isOpenB c || isCloseB c || c == '#' || c == '\n' || c == ',')

theorem commaRun_simple (body : Text) : ∀ (s : CommaSt) (rest : Text), body.all simpleC = true →
    commaRun false s (body ++ rest) = commaRun false { s with buf := body.reverse ++ s.buf } rest := by
  induction body with
  | nil => intro s rest _; simp
  | cons c cs ih =>
    intro s rest h
    simp only [List.all_cons, Bool.and_eq_true] at h
    obtain ⟨hc, hcs⟩ := h
    simp only [simpleC, Bool.not_eq_true', Bool.or_eq_false_iff] at hc
    obtain ⟨⟨⟨⟨h1, h2⟩, h3⟩, h4⟩, h5⟩ := hc
    simp only [List.cons_append]
    simp only [commaRun, h1, h2, h3, h4, h5, Bool.false_eq_true, if_false]
    rw [ih _ rest hcs]
    simp

/-- inside a comment everything up to the end of the line is copied -/
theorem commaRun_comment (c : Text) : ∀ (s : CommaSt) (rest : Text), s.comment = true →
    c.contains '\n' = false →
    commaRun false s (c ++ rest) = commaRun false { s with buf := c.reverse ++ s.buf } rest := by
  induction c with
  | nil => intro s rest _ _; simp
  | cons x xs ih =>
    intro s rest hs hn
    have hx : (x == '\n') = false := by
      cases hb : (x == '\n') with
      | false => rfl
      | true =>
        have : x = '\n' := by simpa using hb
        subst this
        simp at hn
    have hxs : xs.contains '\n' = false := by
      simp only [List.contains_cons, Bool.or_eq_false_iff] at hn
      exact hn.2
    simp only [List.cons_append]
    by_cases ho : isOpenB x = true
    · simp only [commaRun, ho, if_true, hs]
      rw [ih _ rest (by simp [hs]) hxs]; simp
    · by_cases hcl : isCloseB x = true
      · simp only [commaRun, ho, hcl, Bool.false_eq_true, if_false, if_true, hs]
        rw [ih _ rest (by simp [hs]) hxs]; simp
      · by_cases hh : (x == '#') = true
        · simp only [commaRun, ho, hcl, hh, if_true, hs, Bool.not_true, Bool.false_and, Bool.false_eq_true, if_false]
          rw [ih _ rest (by simp [hs]) hxs]; simp
        · by_cases hcm : (x == ',') = true
          · simp only [commaRun, ho, hcl, hh, hx, hcm, if_true, hs, Bool.not_true, Bool.and_false, Bool.false_eq_true, if_false]
            rw [ih _ rest (by simp [hs]) hxs]; simp
          · simp only [commaRun, ho, hcl, hh, hx, hcm, Bool.false_eq_true, if_false]
            rw [ih _ rest (by simp [hs]) hxs]; simp

/-- **one printed rule line comes back as one pre-parsed rule**: `body,` followed by a newline,
for a body without brackets, commas, `#` or newlines -/
theorem parseCommaRules_line (body : Text) (h : body.all simpleC = true) :
    parseCommaRules false (body ++ S ",\n") =
      (parseRule false (trimSet (S "\n ") body)).bind (fun r => .ok [r]) := by
  unfold parseCommaRules
  rw [commaRun_simple body {} _ h]
  simp only [S, List.append_nil]
  show commaRun false _ (',' :: '\n' :: []) = _
  simp only [commaRun, isOpenB, isCloseB, Char.reduceBEq, Bool.or_self, Bool.false_eq_true, if_false, if_true,
    Bool.not_false, Bool.and_self, Bool.not_true, beq_self_eq_true, Bool.or_true, List.reverse_reverse,
    List.reverse_append, List.reverse_nil, List.nil_append, List.append_nil, BEq.rfl]
  have hS : S "\n " = ['\n', ' '] := by decide
  rw [hS]
  cases hp : parseRule false (trimSet ['\n', ' '] body) with
  | ok r => simp [Res.bind, commaRun, isOpenB, isCloseB, hp]
  | err => simp [Res.bind, hp]
  | panic => simp [Res.bind, hp]

end Aa.Parse
