import AaVerif.Aa.ParseChangeProfile
/-!
# Aa.ParseLink — `[owner] link [subset] PATH -> TARGET,` through the library's own parser

Every qualifier, the owner flag (read by `newRule1` and written into the finished rule), the subset flag, every path word
(starts with `/` or `@`, keyword-like) and every keyword-like target.
-/
namespace Aa.Parse
open Ref

def linkRule (audit deny owner subset : Bool) (a b : Text) : Rule :=
  { kind := "link", audit := audit, accessType := if deny then S "deny" else [], flds := [.b owner, .b subset, .s a, .s b] }

def ownerW (o : Bool) : List Text := if o then [S "owner"] else []
def subsetW (s : Bool) : List Text := if s then [S "subset"] else []

def linkBody (subset : Bool) (a b : Text) : List Text := subsetW subset ++ [a, S "->", b]

theorem render_link (audit deny owner subset : Bool) (a b : Text) (hb : b ≠ []) :
    renderRule (linkRule audit deny owner subset a b) (padOf []) =
      joinB (qualWords audit deny ++ ownerW owner ++ S "link" :: linkBody subset a b) ++ [','] := by
  have hb' : b.isEmpty = false := by cases b <;> simp_all
  cases audit <;> cases deny <;> cases owner <;> cases subset <;>
    simp [renderRule, linkRule, linkBody, ownerW, subsetW, renderQual, renderComment, padOf, qualWords, fS, fB, Rule.fld,
      Fld.str, Fld.bool, S, joinB, withS, hb']

theorem newLink_body (q : Bool × Text) (subset : Bool) (a b : Text) (ha : CapW a) (hp : PathHead a) (hb : CapW b) :
    newLink q ((linkBody subset a b).map KV.plain) = .ok (mkRule "link" q {} [.b false, .b subset, .s a, .s b]) := by
  have k1 := pathHead_ne a hp "owner" (by decide) (by decide)
  have k2 := pathHead_ne a hp "subset" (by decide) (by decide)
  have hbase := newBase_plain [a, S "->", b] (fun n hn => by
    simp only [List.mem_cons, List.not_mem_nil, or_false] at hn
    rcases hn with rfl | rfl | rfl
    · exact ha
    · decide
    · exact hb)
  have hs := getSlice_plain [a, S "->", b]
  simp only [List.map_cons, List.map_nil] at hbase hs
  cases subset
  · simp only [linkBody, subsetW, Bool.false_eq_true, if_false, List.nil_append, List.map_cons, List.map_nil, newLink,
      key_plain, k1, k2, hs, hbase]
    simp [S]
  · have e0 : (S "subset" == S "owner") = false := by decide
    have e1 : (S "subset" == S "subset") = true := by decide
    simp only [linkBody, subsetW, if_true, List.cons_append, List.nil_append, List.map_cons, List.map_nil, newLink,
      key_plain, e0, e1, Bool.false_eq_true, if_false, List.drop_succ_cons, List.drop_zero, hs, hbase]
    simp [S]

theorem newRule1_link (T : Tables) (f : Nat) (ow : Bool) (q : Bool × Text) (subset : Bool) (a b : Text)
    (ha : CapW a) (hp : PathHead a) (hb : CapW b) :
    newRule1 T (f + 1) ow q (KV.plain (S "link") :: (linkBody subset a b).map KV.plain) =
      .ok (some (mkRule "link" q {} [.b ow, .b subset, .s a, .s b])) := by
  have hk : ruleKeywords.contains (String.ofList (S "link")) = true := by decide
  rw [newRule1]
  simp only [getKey, KV.plain, KV.key, List.getElem?_cons_zero, bind, Res.bind, List.drop_succ_cons, List.drop_zero]
  rw [if_neg (by decide), if_neg (by decide), if_neg (by decide), if_pos hk]
  unfold newRuleOf
  simp only []
  repeat (first | rw [if_pos (by decide)] | rw [if_neg (by decide)])
  have := newLink_body q subset a b ha hp hb
  rw [this]
  cases ow <;> simp [mkRule, Rule.setFld, pure]

/-- **Link rules through the library's own parser** -/
theorem parse_link (T : Tables) (audit deny owner subset : Bool) (a b : Text)
    (ha : CapW a) (hp : PathHead a) (hb : CapW b) :
    (parseCommaRules false (renderRule (linkRule audit deny owner subset a b) (padOf []) ++ S "\n")).bind (newRules T) =
      .ok [mkRule "link" (audit, if deny then S "deny" else []) {} [.b owner, .b subset, .s a, .s b]] := by
  have hw : ∀ w ∈ qualWords audit deny ++ ownerW owner ++ S "link" :: linkBody subset a b, CapW w := by
    intro w hw
    simp only [List.mem_append, List.mem_cons, linkBody, List.not_mem_nil, or_false] at hw
    rcases hw with (hw | hw) | rfl | hw | rfl | rfl | rfl
    · cases audit <;> cases deny <;> simp [qualWords] at hw
      all_goals (first | (rcases hw with rfl | rfl) | subst hw) <;> decide
    · cases owner <;> simp [ownerW] at hw
      subst hw; decide
    · decide
    · cases subset <;> simp [subsetW] at hw
      subst hw; decide
    · exact ha
    · decide
    · exact hb
  rw [render_link audit deny owner subset a b hb.1, List.append_assoc, show [','] ++ S "\n" = S ",\n" from rfl,
    parseCommaRules_words _ hw]
  simp only [Res.bind]
  unfold newRules
  cases audit <;> cases deny <;> cases owner <;>
    simp only [qualWords, ownerW, if_true, if_false, Bool.false_eq_true, List.nil_append, List.cons_append, List.append_nil,
      List.map_cons, List.isEmpty_cons, List.length_cons, List.length_map, noQ, newRule1_audit, newRule1_deny, newRule1_owner,
      newRule1_link T _ _ _ subset a b ha hp hb, newRules]

end Aa.Parse
