import AaVerif.Aa.ParseCap
/-!
# Aa.ParsePtrace — ptrace rules through the library's own parser, symbolically

A printed ptrace rule holds the three token shapes `parseRule` tells apart: plain words, a parenthesised
list `(a b)` and a condition `key=value`.  For every qualifier, every access list of the table (any length,
order, repetition) and every keyword-like peer word, the printed line comes back as one ptrace rule with the
access list in table order and exactly that peer.
-/
namespace Aa.Parse
open Ref

/-! ### scanning neutral characters -/

/-- a character the tokenizer's bracket/quote scan ignores -/
def tneutral (c : Char) : Bool := !(c == ' ' || c == '\t' || c == '"' || isOpenB c || isCloseB c)

theorem scan_neutral (X : Text) (hX : X.all tneutral = true) (d : Nat) (q : Bool) (rest : Text) :
    scan d q (X ++ rest) = scan d q rest := by
  induction X with
  | nil => rfl
  | cons c cs ih =>
    simp only [List.all_cons, Bool.and_eq_true] at hX
    have hc := hX.1
    simp only [tneutral, Bool.not_eq_true', Bool.or_eq_false_iff, beq_eq_false_iff_ne, ne_eq] at hc
    obtain ⟨⟨⟨⟨h1, h2⟩, h3⟩, h4⟩, h5⟩ := hc
    simp only [List.cons_append]
    rw [scan]
    simp [h1, h2, h3, h4, h5, ih hX.2]

/-- inside brackets a blank is not a separator either -/
theorem scan_inner (X : Text) (hX : ∀ c ∈ X, tneutral c = true ∨ c = ' ') (d : Nat) (rest : Text) :
    scan (d + 1) false (X ++ rest) = scan (d + 1) false rest := by
  induction X with
  | nil => rfl
  | cons c cs ih =>
    have ih' := ih (fun x hx => hX x (List.mem_cons_of_mem _ hx))
    simp only [List.cons_append]
    rcases hX c (List.mem_cons_self ..) with hc | rfl
    · simp only [tneutral, Bool.not_eq_true', Bool.or_eq_false_iff, beq_eq_false_iff_ne, ne_eq] at hc
      obtain ⟨⟨⟨⟨h1, h2⟩, h3⟩, h4⟩, h5⟩ := hc
      rw [scan]
      simp [h3, h4, h5, ih']
    · rw [scan]
      simp [isOpenB, isCloseB, ih']

theorem capCh_tneutral {c : Char} (h : capCh c = true) : tneutral c = true := by
  obtain ⟨h1, h2, _, h4, h5, h6, _⟩ := capCh_spec h
  simp [tneutral, h1, h2, h4, h5, h6]

/-- `(a b c)` is one token -/
theorem atomic_paren (ws : List Text) (h : ∀ w ∈ ws, CapW w) : Atomic ('(' :: joinB ws ++ [')']) := by
  refine ⟨by simp, ?_⟩
  show scan 0 false ('(' :: (joinB ws ++ [')'])) = _
  rw [scan]
  have hin : ∀ c ∈ joinB ws, tneutral c = true ∨ c = ' ' := fun c hc =>
    (joinB_chars ws h c hc).imp capCh_tneutral id
  simp only [isOpenB, Char.reduceBEq, Bool.or_false, Bool.or_true, Bool.true_or, Bool.false_and, Bool.and_false,
    Bool.false_eq_true, if_false, if_true, Bool.or_self]
  rw [scan_inner _ hin 0 [')']]
  decide

/-- `key=value` is one token when the value is -/
theorem atomic_cond (key : String) (hk : (S key).all tneutral = true) (p : Text) (hp : Atomic p) :
    Atomic (S key ++ p) := by
  refine ⟨?_, ?_⟩
  · intro h0
    have := List.append_eq_nil_iff.mp h0
    exact hp.1 this.2
  · rw [scan_neutral _ hk]
    exact hp.2

/-! ### the comma splitter over such a line -/

/-- a character the comma splitter copies without counting -/
def cneutral (c : Char) : Bool := !(isOpenB c || isCloseB c || c == '#' || c == '\n' || c == ',')

theorem cscan_neutral (X : Text) (hX : X.all cneutral = true) (d : Int) (rest : Text) :
    cscan d (X ++ rest) = cscan d rest := by
  induction X with
  | nil => rfl
  | cons c cs ih =>
    simp only [List.all_cons, Bool.and_eq_true] at hX
    have hc := hX.1
    simp only [cneutral, Bool.not_eq_true', Bool.or_eq_false_iff, beq_eq_false_iff_ne, ne_eq] at hc
    obtain ⟨⟨⟨⟨h1, h2⟩, h3⟩, h4⟩, h5⟩ := hc
    simp only [List.cons_append]
    rw [cscan]
    simp [h1, h2, h3, h4, h5, ih hX.2]

theorem capCh_cneutral {c : Char} (h : capCh c = true) : cneutral c = true := by
  obtain ⟨_, _, h3, _, h5, h6, h7, h8, _⟩ := capCh_spec h
  simp [cneutral, h3, h5, h6, h7, h8]

theorem joinB_cneutral (ws : List Text) (h : ∀ w ∈ ws, CapW w) : (joinB ws).all cneutral = true := by
  rw [List.all_eq_true]
  intro c hc
  rcases joinB_chars ws h c hc with h1 | rfl
  · exact capCh_cneutral h1
  · decide

/-! ### `parseToks` on a prefix of plain tokens -/

theorem parseToks_plain_append (rec : Text → Res RuleT) (inAare : Bool) (n : Nat) (ts : List Text) (rest : List Text) :
    ∀ (idx : Nat) (res : RuleT), (∀ t ∈ ts, Plain t) →
    parseToks rec inAare n idx (ts ++ rest) res = parseToks rec inAare n (idx + ts.length) rest (res ++ ts.map KV.plain) := by
  induction ts with
  | nil => intro idx res _; simp
  | cons t ts ih =>
    intro idx res h
    have ht := h t (List.mem_cons_self ..)
    have hop := plain_not_op ht
    simp only [List.cons_append]
    rw [parseToks]
    simp only [Bool.or_eq_true] at hop ⊢
    simp only [Bool.or_eq_false_iff] at hop
    rw [if_neg (by simp [hop.1.1, hop.1.2, hop.2])]
    have h1 : '=' ∉ t := by simpa using ht.1
    have h2 : '(' ∉ t := by simpa using ht.2.1
    rw [if_neg (by simp [h1])]
    rw [if_neg (by simp [h2])]
    rw [if_neg (by simp [ht.2.2.1])]
    rw [ht.2.2.2, ih (idx + 1) _ (fun x hx => h x (List.mem_cons_of_mem _ hx))]
    simp [Nat.add_assoc, Nat.add_comm 1]

/-! ### the values a condition may carry -/

/-- a peer (or any condition value) the theorems cover: one token for the tokenizer and for the comma splitter, plain (no `=`,
no `(`), untouched by the trims applied to a condition value, not ending in a blank: `unconfined`, `foo//bar`,
`@{p_systemd}`, `/usr/bin/{a,b}` -/
def PeerW (p : Text) : Prop :=
  Atomic p ∧ Plain p ∧ cscan 0 p = some 0 ∧ trimSet [','] p = p ∧ trimSet (S "()\n") p = p ∧
  (p.getLast?.map (fun e => !(S "\n ").contains e)).getD false = true

instance (p : Text) : Decidable (PeerW p) := by unfold PeerW; infer_instance

theorem peerW_last {p : Text} (h : PeerW p) : ∃ e, p.getLast? = some e ∧ (S "\n ").contains e = false := by
  have := h.2.2.2.2.2
  cases hl : p.getLast? with
  | none => rw [hl] at this; simp at this
  | some e => rw [hl] at this; exact ⟨e, rfl, by simpa using this⟩

/-- every keyword-like word is such a value -/
theorem capW_peerW {p : Text} (hp : CapW p) : PeerW p := by
  have hcomma : CutOk [','] := by
    intro c hcc; have := (capCh_spec hcc).2.2.2.2.2.2.2.1; simp [this]
  have single : ∀ cut, CutOk cut → trimSet cut p = p := by
    intro cut hc
    have := trimSet_joinB cut hc [p] (fun x hx => by
      have e : x = p := by simpa using hx
      rw [e]; exact hp)
    simpa [joinB] using this
  refine ⟨atomic_of_capW hp, plain_of_capW hp, ?_, single _ hcomma, single _ cutOk_parnl, ?_⟩
  · have := cscan_neutral p (List.all_eq_true.mpr (fun c hc => capCh_cneutral (List.all_eq_true.mp hp.2 c hc))) 0 []
    rw [List.append_nil] at this
    rw [this]; rfl
  · have hne := hp.1
    rw [List.getLast?_eq_some_getLast hne]
    have := cutOk_nlsp _ (List.all_eq_true.mp hp.2 _ (List.getLast_mem hne))
    have hm : p.getLast hne ∉ S "\n " := by simpa using this
    simp [hm]

/-! ### the printed ptrace rule and its tokens -/

def ptraceRule (audit deny : Bool) (accs : List Text) (p : Text) : Rule :=
  { kind := "ptrace", audit := audit, accessType := if deny then S "deny" else [], flds := [.l accs, .s p] }

/-- the tokens of the printed rule -/
def ptraceToks (audit deny : Bool) (accs : List Text) (p : Text) : List Text :=
  qualWords audit deny ++ [S "ptrace", cjoin accs, S "peer=" ++ p]

theorem render_ptrace (audit deny : Bool) (accs : List Text) (p : Text) (ha : accs ≠ []) (hp : p ≠ []) :
    renderRule (ptraceRule audit deny accs p) (padOf []) = joinB (ptraceToks audit deny accs p) ++ [','] := by
  have ha' : accs.isEmpty = false := by cases accs <;> simp_all
  have hp' : p.isEmpty = false := by cases p <;> simp_all
  cases audit <;> cases deny <;>
    simp [renderRule, ptraceRule, ptraceToks, renderQual, renderComment, padOf, qualWords, fS, fL, Rule.fld, Fld.str, Fld.list,
      S, joinB, withS, withL, ha', hp']

theorem joinB_head' (t : Text) (ts : List Text) (c : Char) (h : t.head? = some c) : (joinB (t :: ts)).head? = some c := by
  cases t with
  | nil => simp at h
  | cons a as => cases ts <;> simpa [joinB] using h

theorem joinB_last' : ∀ (ts : List Text) (t : Text) (e : Char), t.getLast? = some e → (joinB (ts ++ [t])).getLast? = some e
  | [], t, e, h => by simpa [joinB] using h
  | [a], t, e, h => by
    have hne : t ≠ [] := by intro h0; simp [h0] at h
    simp [joinB, List.getLast?_append, List.getLast?_cons, h]
  | a :: b :: l, t, e, h => by
    have := joinB_last' (b :: l) t e h
    simp only [List.cons_append] at this ⊢
    simp only [joinB]
    cases hl : l ++ [t] with
    | nil => simp at hl
    | cons x xs =>
      rw [hl] at this
      simp only [joinB] at this ⊢
      simp [List.getLast?_append, List.getLast?_cons, this]

/-- the access list as printed: one word, or `(a b …)` -/
theorem cjoin_cases (accs : List Text) (ha : accs ≠ []) :
    (∃ a, accs = [a] ∧ cjoin accs = a) ∨ (2 ≤ accs.length ∧ cjoin accs = '(' :: joinB accs ++ [')']) := by
  match accs, ha with
  | [a], _ => exact Or.inl ⟨a, rfl, rfl⟩
  | a :: b :: l, _ => exact Or.inr ⟨by simp, by simp [cjoin, joinB_eq_joinSp]⟩

theorem qualWords_capW (audit deny : Bool) : ∀ t ∈ qualWords audit deny, CapW t := by
  intro t ht
  cases audit <;> cases deny <;> simp [qualWords] at ht
  all_goals (first | (rcases ht with rfl | rfl) | subst ht) <;> decide

theorem atomic_cjoin (accs : List Text) (ha : accs ≠ []) (h : ∀ a ∈ accs, CapW a) : Atomic (cjoin accs) := by
  rcases cjoin_cases accs ha with ⟨a, rfl, e⟩ | ⟨_, e⟩
  · rw [e]; exact atomic_of_capW (h a (List.mem_cons_self ..))
  · rw [e]; exact atomic_paren accs h

theorem ptraceToks_atomic (audit deny : Bool) (accs : List Text) (p : Text) (ha : accs ≠ [])
    (h : ∀ a ∈ accs, CapW a) (hp : PeerW p) : ∀ t ∈ ptraceToks audit deny accs p, Atomic t := by
  intro t ht
  simp only [ptraceToks, List.mem_append, List.mem_cons, List.not_mem_nil, or_false] at ht
  rcases ht with ht | rfl | rfl | rfl
  · exact atomic_of_capW (qualWords_capW audit deny t ht)
  · decide
  · exact atomic_cjoin accs ha h
  · exact atomic_cond "peer=" (by decide) p hp.1

/-- the printed body as characters: a neutral prefix, the access list, a neutral suffix -/
theorem ptrace_body (audit deny : Bool) (accs : List Text) (p : Text) :
    joinB (ptraceToks audit deny accs p) =
      ((qualWords audit deny).map (fun w => w ++ [' '])).flatten ++ S "ptrace " ++ cjoin accs ++ S " peer=" ++ p := by
  unfold ptraceToks
  rw [joinB_append_cons]
  simp [joinB, S]

theorem qual_prefix_cneutral (audit deny : Bool) :
    (((qualWords audit deny).map (fun w => w ++ [' '])).flatten ++ S "ptrace ").all cneutral = true := by
  cases audit <;> cases deny <;> decide

theorem ptrace_cscan (audit deny : Bool) (accs : List Text) (p : Text) (ha : accs ≠ [])
    (h : ∀ a ∈ accs, CapW a) (hp : PeerW p) : cscan 0 (joinB (ptraceToks audit deny accs p)) = some 0 := by
  rw [ptrace_body]
  have hend : cscan 0 (S " peer=" ++ p) = some 0 := by
    rw [cscan_neutral (S " peer=") (by decide)]
    exact hp.2.2.1
  rw [List.append_assoc, List.append_assoc, cscan_neutral _ (qual_prefix_cneutral audit deny)]
  rcases cjoin_cases accs ha with ⟨a, rfl, e⟩ | ⟨_, e⟩
  · rw [e, cscan_neutral a (List.all_eq_true.mpr (fun c hc => capCh_cneutral (List.all_eq_true.mp (h a (List.mem_cons_self ..)).2 c hc)))]
    exact hend
  · rw [e]
    show cscan 0 ('(' :: ((joinB accs ++ [')']) ++ (S " peer=" ++ p))) = some 0
    rw [cscan]
    simp only [isOpenB, Char.reduceBEq, Bool.or_false, Bool.true_or, if_true, List.append_assoc]
    rw [cscan_neutral _ (joinB_cneutral accs h)]
    show cscan (0 + 1) (')' :: (S " peer=" ++ p)) = some 0
    rw [cscan]
    simp only [isOpenB, isCloseB, Char.reduceBEq, Bool.or_false, Bool.or_self, Bool.false_eq_true, if_false, Bool.true_or,
      if_true]
    exact hend

theorem ptrace_trim (audit deny : Bool) (accs : List Text) (p : Text) (hp : PeerW p) :
    trimSet (S "\n ") (joinB (ptraceToks audit deny accs p)) = joinB (ptraceToks audit deny accs p) := by
  have hne := hp.1.1
  obtain ⟨e, hpl, hce⟩ := peerW_last hp
  have he : (S "peer=" ++ p).getLast? = some e := by
    rw [← hpl]; simp [List.getLast?_append, List.getLast?_eq_some_getLast hne]
  have h2 : (joinB (ptraceToks audit deny accs p)).getLast? = some e := by
    have : ptraceToks audit deny accs p = (qualWords audit deny ++ [S "ptrace", cjoin accs]) ++ [S "peer=" ++ p] := by
      simp [ptraceToks]
    rw [this]
    exact joinB_last' _ _ e he
  obtain ⟨c, h1, hcc⟩ : ∃ c, (joinB (ptraceToks audit deny accs p)).head? = some c ∧ capCh c = true := by
    cases audit <;> cases deny
    · exact ⟨'p', joinB_head' _ _ 'p' rfl, by decide⟩
    · exact ⟨'d', joinB_head' _ _ 'd' rfl, by decide⟩
    · exact ⟨'a', joinB_head' _ _ 'a' rfl, by decide⟩
    · exact ⟨'a', joinB_head' _ _ 'a' rfl, by decide⟩
  exact trimSet_ends _ _ c e h1 h2 (cutOk_nlsp c hcc) hce

/-! ### `parseRule` on the tokens -/

theorem trim_paren (ws : List Text) (hne : ws ≠ []) (h : ∀ w ∈ ws, CapW w) :
    trimSet (S "()\n") ('(' :: joinB ws ++ [')']) = joinB ws := by
  obtain ⟨c, h1, h2⟩ := joinB_head ws hne h
  obtain ⟨e, h3, h4⟩ := joinB_last ws hne h
  unfold trimSet
  have hl : trimLeftSet (S "()\n") ('(' :: joinB ws ++ [')']) = joinB ws ++ [')'] := by
    show trimLeftSet (S "()\n") ('(' :: (joinB ws ++ [')'])) = _
    rw [trimLeftSet, if_pos (by decide)]
    cases hj : joinB ws with
    | nil => rw [hj] at h1; simp at h1
    | cons a as =>
      rw [hj] at h1
      simp only [List.head?_cons, Option.some.injEq] at h1
      subst h1
      exact trimLeftSet_head _ a _ (cutOk_parnl a h2)
  rw [hl]
  unfold trimRightSet
  rw [List.reverse_append, List.reverse_singleton, List.singleton_append, trimLeftSet, if_pos (by decide)]
  obtain ⟨init, hinit⟩ : ∃ init, joinB ws = init ++ [e] := List.getLast?_eq_some_iff.mp h3
  rw [hinit, List.reverse_append, List.reverse_singleton, List.singleton_append,
    trimLeftSet_head _ e _ (cutOk_parnl e h4)]
  simp

theorem tokenToSlice_paren (ws : List Text) (h2 : 2 ≤ ws.length) (h : ∀ w ∈ ws, CapW w) :
    tokenToSlice ('(' :: joinB ws ++ [')']) = ws := by
  have hne : ws ≠ [] := by intro h0; simp [h0] at h2
  have := tokenToSlice_joinB ws h
  unfold tokenToSlice at this ⊢
  rw [trim_paren ws hne h]
  rw [trimSet_joinB _ cutOk_parnl ws h] at this
  have hemp : ws.isEmpty = false := by cases ws <;> simp_all
  simpa [hemp] using this

theorem cutEq_peer (p : Text) : cutEq (S "peer=" ++ p) = (S "peer", p) := by
  simp [S, cutEq]

/-- the value of a condition: one plain token is pre-parsed as itself -/
theorem parseRuleF_word (f : Nat) (p : Text) (ha : Atomic p) (hpl : Plain p) :
    parseRuleF false (f + 1) p = .ok [KV.plain p] := by
  rw [parseRuleF]
  have ht := tokenize_joinPad [p] [] (fun t ht => by
    have e : t = p := by simpa using ht
    rw [e]; exact ha)
  simp only [joinPad] at ht
  rw [ht]
  simp only
  have := parseToks_plain (parseRuleF false f) (isAARE p || p == S "owner") 1 [p] 0 [] (fun t ht => by
    have e : t = p := by simpa using ht
    rw [e]; exact hpl)
  simpa using this

/-- one step of `parseToks` on the condition `peer=value` -/
theorem parseToks_peer (f n idx : Nat) (p : Text) (hp : PeerW p) (res : RuleT) :
    parseToks (parseRuleF false (f + 1)) false n idx [S "peer=" ++ p] res =
      .ok (res ++ [KV.mk (S "peer") (some [KV.plain p]) []]) := by
  obtain ⟨ha, hpl, _, t1, t2, _⟩ := hp
  rw [parseToks]
  rw [if_neg (by simp [S])]
  rw [if_pos (by simp [S])]
  simp only [cutEq_peer, t1]
  have hv : (if (p.contains '=' || !containsAny p (S ", ")) = true then trimSet (S "()\n") p else p) = p := by
    split
    · exact t2
    · rfl
  rw [hv, parseRuleF_word f p ha hpl]
  simp [parseToks]

def peerKV (p : Text) : KV := KV.mk (S "peer") (some [KV.plain p]) []

/-- the pre-parsed rule `parseRule` returns for the printed line -/
def ptracePre (audit deny : Bool) (accs : List Text) (p : Text) : RuleT :=
  (qualWords audit deny ++ [S "ptrace"] ++ accs).map KV.plain ++ [peerKV p]

theorem parseRule_ptrace (audit deny : Bool) (accs : List Text) (p : Text) (ha : accs ≠ [])
    (h : ∀ a ∈ accs, CapW a) (hp : PeerW p) :
    parseRule false (joinB (ptraceToks audit deny accs p)) = .ok (ptracePre audit deny accs p) := by
  unfold parseRule
  generalize hlen : (joinB (ptraceToks audit deny accs p)).length = L
  show parseRuleF false (L + 1 + 1) _ = _
  rw [parseRuleF, joinB_eq_joinPad, tokenize_joinPad _ [] (ptraceToks_atomic audit deny accs p ha h hp)]
  simp only
  have hin : (match ptraceToks audit deny accs p with
      | t :: _ => isAARE t || t == S "owner"
      | [] => false) = false := by
    cases audit <;> cases deny <;> rfl
  show parseToks (parseRuleF false (L + 1)) (match ptraceToks audit deny accs p with
      | t :: _ => isAARE t || t == S "owner"
      | [] => false) _ 0 _ [] = _
  rw [hin]
  have hq : ∀ t ∈ qualWords audit deny ++ [S "ptrace"], Plain t := by
    intro t ht
    simp only [List.mem_append, List.mem_singleton] at ht
    rcases ht with ht | rfl
    · exact plain_of_capW (qualWords_capW audit deny t ht)
    · decide
  rcases cjoin_cases accs ha with ⟨a, rfl, e⟩ | ⟨h2, e⟩
  · -- one access word: every token but the last is plain
    have hsplit : ptraceToks audit deny [a] p = (qualWords audit deny ++ [S "ptrace"] ++ [a]) ++ [S "peer=" ++ p] := by
      simp [ptraceToks, e]
    rw [hsplit, parseToks_plain_append _ _ _ _ _ 0 [] (fun t ht => by
      simp only [List.mem_append, List.mem_singleton] at ht
      rcases ht with ht | rfl
      · exact hq t (by simpa using ht)
      · exact plain_of_capW (h t (List.mem_cons_self ..)))]
    rw [parseToks_peer L _ _ p hp]
    simp [ptracePre, peerKV]
  · have hsplit : ptraceToks audit deny accs p = (qualWords audit deny ++ [S "ptrace"]) ++ [cjoin accs, S "peer=" ++ p] := by
      simp [ptraceToks]
    rw [hsplit, parseToks_plain_append _ _ _ _ _ 0 [] hq, e]
    rw [parseToks]
    have hjeq : '=' ∉ joinB accs := by
      intro hm
      rcases joinB_chars accs h '=' hm with h1 | h1
      · have := capCh_spec h1; simp at this
      · simp at h1
    rw [if_neg (by simp [S])]
    rw [if_neg (by simp [hjeq])]
    rw [if_pos (by simp)]
    rw [tokenToSlice_paren accs h2 h, parseToks_peer L _ _ p hp]
    simp [ptracePre, peerKV]

/-! ### the constructors -/

theorem getSlice_accs_peer (accs : List Text) (p : Text) : getSlice (accs.map KV.plain ++ [peerKV p]) = accs := by
  have h1 := getSlice_plain accs
  unfold getSlice at h1 ⊢
  rw [List.filter_append, List.map_append, h1]
  have : [peerKV p].filter (fun kv => kv.vals.isNone) = [] := rfl
  rw [this]; simp

theorem find_peer : ∀ (accs : List Text) (p : Text), (∀ a ∈ accs, a ≠ S "peer") →
    (accs.map KV.plain ++ [peerKV p]).find? (fun kv => kv.key == S "peer") = some (peerKV p)
  | [], p, _ => by simp [peerKV, KV.key]
  | a :: l, p, h => by
    have ha : (a == S "peer") = false := by simpa using h a (List.mem_cons_self ..)
    simp only [List.map_cons, List.cons_append, List.find?_cons, key_plain, ha]
    exact find_peer l p (fun x hx => h x (List.mem_cons_of_mem _ hx))

theorem newBase_accs_peer (accs : List Text) (p : Text) (h : ∀ a ∈ accs, CapW a) :
    newBase (accs.map KV.plain ++ [peerKV p]) = {} := by
  have hlast : (((accs.map KV.plain ++ [peerKV p]).getLast?).map KV.comment).getD [] = [] := by
    simp [List.getLast?_append, peerKV, KV.comment]
  cases accs with
  | nil =>
    show newBase [peerKV p] = {}
    rw [newBase_cons]
    rw [if_neg (by simp [peerKV, KV.key, S])]
    simp only [List.map_nil, List.nil_append] at hlast
    rw [hlast]; exact baseOfComment_nil
  | cons a l =>
    obtain ⟨hne, hall⟩ := h a (List.mem_cons_self ..)
    cases a with
    | nil => exact absurd rfl hne
    | cons c cs =>
      have hc : ((KV.plain (c :: cs)).key.head? == some '#') = false := by
        simp only [List.all_cons, Bool.and_eq_true] at hall
        have := (capCh_spec hall.1).2.2.2.2.2.2.1
        simpa [key_plain] using this
      simp only [List.map_cons, List.cons_append] at hlast ⊢
      rw [newBase_cons, hc, if_neg (by simp), hlast]
      exact baseOfComment_nil

theorem newRule1_ptrace (T : Tables) (f : Nat) (q : Bool × Text) (accs : List Text) (p : Text)
    (hreq : hasReq T "ptrace" "access" = true)
    (h : ∀ a ∈ accs, CapW a ∧ (reqValues T "ptrace" "access").contains a = true) (hnp : ∀ a ∈ accs, a ≠ S "peer") :
    newRule1 T (f + 1) false q (KV.plain (S "ptrace") :: (accs.map KV.plain ++ [peerKV p])) =
      .ok (some (mkRule "ptrace" q {} [.l (mergeValues T "ptrace" "access" accs []), .s p])) := by
  have hk : ruleKeywords.contains (String.ofList (S "ptrace")) = true := by decide
  have hb := newBase_accs_peer accs p (fun a ha => (h a ha).1)
  have hv := toValues_joinB T "ptrace" "access" hreq accs h
  rw [joinB_eq_joinSp] at hv
  rw [newRule1]
  simp only [getKey, key_plain, List.getElem?_cons_zero, bind, Res.bind, List.drop_succ_cons, List.drop_zero]
  rw [if_neg (by decide), if_neg (by decide), if_neg (by decide), if_pos hk]
  unfold newRuleOf
  simp only []
  rw [if_neg (by decide), if_neg (by decide), if_neg (by decide), if_neg (by decide), if_neg (by decide),
    if_neg (by decide), if_neg (by decide), if_neg (by decide), if_neg (by decide), if_neg (by decide),
    if_neg (by decide), if_neg (by decide), if_neg (by decide), if_neg (by decide), if_pos (by decide)]
  have hs := getSlice_accs_peer accs p
  have hf := find_peer accs p hnp
  have hgs : getString (accs.map KV.plain ++ [peerKV p]) = joinSp accs := by unfold getString; rw [hs]
  have hgv : getValuesAsString (accs.map KV.plain ++ [peerKV p]) "peer" = p := by
    unfold getValuesAsString getValues; rw [hf]; rfl
  rw [hb]
  simp only [toAccess, hgs, hgv, hv, bind, Res.bind, pure, Bool.false_and, Bool.false_eq_true, if_false,
    show ("ptrace" == "file") = false from by decide]

/-- **Ptrace rules through the library's own parser**: every qualifier, every access list of the table
(any length, order, repetition), every peer value of the class `PeerW` -/
theorem parse_ptrace (T : Tables) (audit deny : Bool) (accs : List Text) (p : Text) (ha : accs ≠ [])
    (hreq : hasReq T "ptrace" "access" = true)
    (h : ∀ a ∈ accs, CapW a ∧ (reqValues T "ptrace" "access").contains a = true) (hnp : ∀ a ∈ accs, a ≠ S "peer")
    (hp : PeerW p) :
    (parseCommaRules false (renderRule (ptraceRule audit deny accs p) (padOf []) ++ S "\n")).bind (newRules T) =
      .ok [mkRule "ptrace" (audit, if deny then S "deny" else []) {}
        [.l (mergeValues T "ptrace" "access" accs []), .s p]] := by
  have hc := fun a ha => (h a ha).1
  rw [render_ptrace audit deny accs p ha hp.1.1, List.append_assoc, show [','] ++ S "\n" = S ",\n" from rfl,
    parseCommaRules_line' _ (ptrace_cscan audit deny accs p ha hc hp), ptrace_trim audit deny accs p hp,
    parseRule_ptrace audit deny accs p ha hc hp]
  simp only [Res.bind]
  unfold newRules
  cases audit <;> cases deny <;>
    simp only [ptracePre, qualWords, if_true, if_false, Bool.false_eq_true, List.nil_append, List.cons_append, List.map_cons,
      List.map_append, List.map_nil, List.isEmpty_cons, List.length_cons, List.length_append, List.length_map, List.length_nil,
      Nat.zero_add, noQ, newRule1_audit, newRule1_deny, newRule1_ptrace T _ _ accs p hreq h hnp, newRules]

end Aa.Parse
