import AaVerif.Aa.ParsePtrace
/-!
# Aa.ParseRlimit — `set rlimit KEY <= VALUE,` through the library's own parser

The one rule whose printed form holds an operator token: `parseRule` keeps `<=` as a plain entry although it holds `=`.
For every keyword-like key and value.
-/
namespace Aa.Parse
open Ref

def rlimitRule (k v : Text) : Rule := { kind := "rlimit", flds := [.s k, .s (S "<="), .s v] }

def rlimitToks (k v : Text) : List Text := [S "set", S "rlimit", k, S "<=", v]

theorem render_rlimit (k v : Text) : renderRule (rlimitRule k v) (padOf []) = joinB (rlimitToks k v) ++ [','] := by
  simp [renderRule, rlimitRule, rlimitToks, renderComment, padOf, fS, Rule.fld, Fld.str, S, joinB]

theorem rlimitToks_atomic (k v : Text) (hk : CapW k) (hv : CapW v) : ∀ t ∈ rlimitToks k v, Atomic t := by
  intro t ht
  simp only [rlimitToks, List.mem_cons, List.not_mem_nil, or_false] at ht
  rcases ht with rfl | rfl | rfl | rfl | rfl
  · decide
  · decide
  · exact atomic_of_capW hk
  · decide
  · exact atomic_of_capW hv

theorem rlimit_body_simple (k v : Text) (hk : CapW k) (hv : CapW v) : (joinB (rlimitToks k v)).all simpleC = true := by
  have hw : ∀ w, CapW w → w.all simpleC = true := by
    intro w h
    have := joinB_simpleC [w] (fun x hx => by
      have e : x = w := by simpa using hx
      rw [e]; exact h)
    simpa [joinB] using this
  have h1 := hw k hk
  have h2 := hw v hv
  simp [rlimitToks, joinB, List.all_append, h1, h2, S]
  decide

theorem rlimit_trim (k v : Text) (hv : CapW v) :
    trimSet (S "\n ") (joinB (rlimitToks k v)) = joinB (rlimitToks k v) := by
  obtain ⟨hne, hall⟩ := hv
  have he : v.getLast? = some (v.getLast hne) := List.getLast?_eq_some_getLast hne
  have h2 : (joinB (rlimitToks k v)).getLast? = some (v.getLast hne) := by
    have : rlimitToks k v = [S "set", S "rlimit", k, S "<="] ++ [v] := rfl
    rw [this]
    exact joinB_last' _ _ _ he
  have h1 : (joinB (rlimitToks k v)).head? = some 's' := joinB_head' _ _ 's' rfl
  exact trimSet_ends _ _ 's' _ h1 h2 (by decide) (cutOk_nlsp _ (List.all_eq_true.mp hall _ (List.getLast_mem hne)))

/-- the operator token is kept as a plain entry -/
theorem parseToks_le (rec : Text → Res RuleT) (ia : Bool) (n idx : Nat) (rest : List Text) (res : RuleT) :
    parseToks rec ia n idx (S "<=" :: rest) res = parseToks rec ia n (idx + 1) rest (res ++ [KV.plain (S "<=")]) := by
  rw [parseToks]
  rw [if_pos (by decide)]

theorem parseRule_rlimit (k v : Text) (hk : CapW k) (hv : CapW v) :
    parseRule false (joinB (rlimitToks k v)) = .ok ((rlimitToks k v).map KV.plain) := by
  unfold parseRule
  generalize (joinB (rlimitToks k v)).length = L
  show parseRuleF false (L + 1 + 1) _ = _
  rw [parseRuleF, joinB_eq_joinPad, tokenize_joinPad _ [] (rlimitToks_atomic k v hk hv)]
  simp only
  show parseToks (parseRuleF false (L + 1)) (isAARE (S "set") || S "set" == S "owner") _ 0 (rlimitToks k v) [] = _
  have e : rlimitToks k v = [S "set", S "rlimit", k] ++ (S "<=" :: [v]) := rfl
  rw [e, parseToks_plain_append _ _ _ _ _ 0 [] (fun t ht => by
    simp only [List.mem_cons, List.not_mem_nil, or_false] at ht
    rcases ht with rfl | rfl | rfl
    · decide
    · decide
    · exact plain_of_capW hk)]
  rw [parseToks_le]
  have := parseToks_plain_append (parseRuleF false (L + 1)) (isAARE (S "set") || S "set" == S "owner")
    ([S "set", S "rlimit", k] ++ S "<=" :: [v]).length [v] [] (0 + [S "set", S "rlimit", k].length + 1)
    ([] ++ List.map KV.plain [S "set", S "rlimit", k] ++ [KV.plain (S "<=")]) (fun t ht => by
      have e' : t = v := by simpa using ht
      rw [e']; exact plain_of_capW hv)
  simp only [List.append_nil] at this
  rw [this]
  simp [parseToks]

theorem newBase_head (t : Text) (c : Char) (cs : Text) (ht : t = c :: cs) (hc : c ≠ '#') (rest : List Text) :
    newBase ((t :: rest).map KV.plain) = {} := by
  have hl := getLast_comment_plain (t :: rest)
  simp only [List.map_cons] at hl ⊢
  have hh : ((KV.plain t).key.head? == some '#') = false := by
    rw [key_plain, ht]; simpa using hc
  rw [newBase_cons, hh, if_neg (by simp), hl]
  exact baseOfComment_nil

theorem newRules_rlimit (T : Tables) (k v : Text) :
    newRules T [(rlimitToks k v).map KV.plain] = .ok [mkRule "rlimit" noQ {} [.s k, .s (S "<="), .s v]] := by
  have hb := newBase_head (S "rlimit") 'r' (S "limit") rfl (by decide) [k, S "<=", v]
  unfold newRules
  simp only [rlimitToks, List.map_cons, List.map_nil, List.isEmpty_cons, List.length_cons, List.length_nil,
    Bool.false_eq_true, if_false]
  rw [newRule1]
  simp only [getKey, key_plain, List.getElem?_cons_zero, bind, Res.bind, List.drop_succ_cons, List.drop_zero]
  rw [if_neg (by decide), if_neg (by decide), if_neg (by decide), if_pos (by decide)]
  unfold newRuleOf
  simp only []
  rw [if_neg (by decide), if_neg (by decide), if_neg (by decide), if_pos (by decide)]
  simp only [List.map_cons, List.map_nil] at hb
  rw [hb]
  simp [key_plain, pure, newRules]

/-- **`set rlimit` rules through the library's own parser**: every keyword-like key and value -/
theorem parse_rlimit (T : Tables) (k v : Text) (hk : CapW k) (hv : CapW v) :
    (parseCommaRules false (renderRule (rlimitRule k v) (padOf []) ++ S "\n")).bind (newRules T) =
      .ok [mkRule "rlimit" noQ {} [.s k, .s (S "<="), .s v]] := by
  rw [render_rlimit, List.append_assoc, show [','] ++ S "\n" = S ",\n" from rfl,
    parseCommaRules_line _ (rlimit_body_simple k v hk hv), rlimit_trim k v hv, parseRule_rlimit k v hk hv]
  simp only [Res.bind]
  exact newRules_rlimit T k v

end Aa.Parse
