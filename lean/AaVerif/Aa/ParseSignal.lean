import AaVerif.Aa.ParsePtrace
/-!
# Aa.ParseSignal — signal rules through the library's own parser, symbolically

`signal (send receive) set=(hup int) peer=foo,`: an access list, a condition whose value is itself a list
(parsed by the recursive call of `parseRule`), and a word-valued condition.  For every qualifier, every
access list and every signal list of the tables (any length, order, repetition; one element printed bare,
several in parentheses) and every keyword-like peer word.
-/
namespace Aa.Parse
open Ref

/-! ### one step of `parseToks` per token shape -/

/-- the access list, bare or parenthesised, is read as its words -/
theorem parseToks_cjoin (rec : Text → Res RuleT) (n idx : Nat) (xs : List Text) (hne : xs ≠ [])
    (h : ∀ x ∈ xs, CapW x) (rest : List Text) (res : RuleT) :
    parseToks rec false n idx (cjoin xs :: rest) res = parseToks rec false n (idx + 1) rest (res ++ xs.map KV.plain) := by
  rcases cjoin_cases xs hne with ⟨a, rfl, e⟩ | ⟨h2, e⟩
  · rw [e]
    have := parseToks_plain_append rec false n [a] rest idx res (fun t ht => by
      have e' : t = a := by simpa using ht
      rw [e']; exact plain_of_capW (h a (List.mem_cons_self ..)))
    simpa using this
  · rw [e, parseToks]
    have hjeq : '=' ∉ joinB xs := by
      intro hm
      rcases joinB_chars xs h '=' hm with h1 | h1
      · have := capCh_spec h1; simp at this
      · simp at h1
    rw [if_neg (by simp [S])]
    rw [if_neg (by simp [hjeq])]
    rw [if_pos (by simp)]
    rw [tokenToSlice_paren xs h2 h]

/-- the value of `set=`: a word or a parenthesised list, pre-parsed by the recursive call as its words -/
theorem parseRuleF_cjoin (f : Nat) (xs : List Text) (hne : xs ≠ []) (h : ∀ x ∈ xs, CapW x) :
    parseRuleF false (f + 1) (cjoin xs) = .ok (xs.map KV.plain) := by
  rcases cjoin_cases xs hne with ⟨a, rfl, e⟩ | ⟨h2, e⟩
  · rw [e]; exact parseRuleF_word f a (atomic_of_capW (h a (List.mem_cons_self ..))) (plain_of_capW (h a (List.mem_cons_self ..)))
  · rw [parseRuleF]
    have ht := tokenize_joinPad [cjoin xs] [] (fun t ht => by
      have e' : t = cjoin xs := by simpa using ht
      rw [e']; exact atomic_cjoin xs hne h)
    simp only [joinPad] at ht
    rw [ht]
    simp only
    have hin : (isAARE (cjoin xs) || cjoin xs == S "owner") = false := by
      rw [e]; simp [isAARE, S]
    rw [hin]
    have := parseToks_cjoin (parseRuleF false f) 1 0 xs hne h [] []
    show parseToks (parseRuleF false f) false 1 0 [cjoin xs] [] = _
    rw [this]
    simp [parseToks]

theorem cutEq_set (v : Text) : cutEq (S "set=" ++ v) = (S "set", v) := by
  simp [S, cutEq]

def setKV (xs : List Text) : KV := KV.mk (S "set") (some (xs.map KV.plain)) []

/-- one step of `parseToks` on the condition `set=…` -/
theorem parseToks_set (f n idx : Nat) (xs : List Text) (hne : xs ≠ []) (h : ∀ x ∈ xs, CapW x)
    (rest : List Text) (res : RuleT) :
    parseToks (parseRuleF false (f + 1)) false n idx ((S "set=" ++ cjoin xs) :: rest) res =
      parseToks (parseRuleF false (f + 1)) false n (idx + 1) rest (res ++ [setKV xs]) := by
  rw [parseToks]
  rw [if_neg (by simp [S])]
  rw [if_pos (by simp [S])]
  simp only [cutEq_set]
  rcases cjoin_cases xs hne with ⟨a, rfl, e⟩ | ⟨h2, e⟩
  · -- a single signal: the value is a word
    have ha := h a (List.mem_cons_self ..)
    have hall := fun c hc => capCh_spec (List.all_eq_true.mp ha.2 c hc)
    have hnoeq : a.contains '=' = false := (plain_of_capW ha).1
    have hnocs : containsAny a (S ", ") = false := by
      cases hc : containsAny a (S ", ") with
      | false => rfl
      | true =>
        simp only [containsAny, List.any_eq_true] at hc
        obtain ⟨c, hc1, hc2⟩ := hc
        have := hall c hc1
        have hc3 : c = ',' ∨ c = ' ' := by simpa [S] using hc2
        rcases hc3 with rfl | rfl <;> simp at this
    have hcomma : CutOk [','] := by
      intro c hcc; have := (capCh_spec hcc).2.2.2.2.2.2.2.1; simp [this]
    have t1 : trimSet [','] a = a := by
      have := trimSet_joinB _ hcomma [a] (fun x hx => by
        have e' : x = a := by simpa using hx
        rw [e']; exact ha)
      simpa [joinB] using this
    have t2 : trimSet (S "()\n") a = a := by
      have := trimSet_joinB _ cutOk_parnl [a] (fun x hx => by
        have e' : x = a := by simpa using hx
        rw [e']; exact ha)
      simpa [joinB] using this
    rw [e]
    simp only [t1, hnoeq, hnocs, Bool.false_or, Bool.not_false, if_true, t2, parseRuleF_word f a (atomic_of_capW ha) (plain_of_capW ha)]
    simp [setKV]
  · -- several signals: the value `(a b …)` keeps its parentheses and is split by the recursive call
    have hjc := joinB_chars xs h
    have t1 : trimSet [','] (cjoin xs) = cjoin xs := by
      rw [e]
      exact trimSet_ends _ _ '(' ')' rfl (by
        show ('(' :: (joinB xs ++ [')'])).getLast? = some ')'
        rw [List.getLast?_cons]; simp [List.getLast?_append]) (by decide) (by decide)
    have hjeq : '=' ∉ joinB xs := by
      intro hm
      rcases hjc '=' hm with h1 | h1
      · have := capCh_spec h1; simp at this
      · simp at h1
    have hnoeq : (cjoin xs).contains '=' = false := by
      rw [e]; simp [hjeq]
    have hsp : containsAny (cjoin xs) (S ", ") = true := by
      rw [e]
      have : ' ' ∈ joinB xs := by
        match xs, h2 with
        | a :: b :: l, _ => simp [joinB]
      simp only [containsAny, List.any_eq_true]
      exact ⟨' ', by simp [this], by decide⟩
    simp only [t1, hnoeq, hsp, Bool.false_or, Bool.not_true, Bool.false_eq_true, if_false, parseRuleF_cjoin f xs hne h]
    simp [setKV]

/-! ### the printed signal rule and its tokens -/

def signalRule (audit deny : Bool) (accs set : List Text) (p : Text) : Rule :=
  { kind := "signal", audit := audit, accessType := if deny then S "deny" else [], flds := [.l accs, .l set, .s p] }

def signalToks (audit deny : Bool) (accs set : List Text) (p : Text) : List Text :=
  qualWords audit deny ++ [S "signal", cjoin accs, S "set=" ++ cjoin set, S "peer=" ++ p]

theorem render_signal (audit deny : Bool) (accs set : List Text) (p : Text) (ha : accs ≠ []) (hs : set ≠ []) (hp : p ≠ []) :
    renderRule (signalRule audit deny accs set p) (padOf []) = joinB (signalToks audit deny accs set p) ++ [','] := by
  have ha' : accs.isEmpty = false := by cases accs <;> simp_all
  have hs' : set.isEmpty = false := by cases set <;> simp_all
  have hp' : p.isEmpty = false := by cases p <;> simp_all
  cases audit <;> cases deny <;>
    simp [renderRule, signalRule, signalToks, renderQual, renderComment, padOf, qualWords, fS, fL, Rule.fld, Fld.str, Fld.list,
      S, joinB, withS, withL, ha', hs', hp']

theorem cscan_cjoin (xs : List Text) (hne : xs ≠ []) (h : ∀ x ∈ xs, CapW x) (rest : Text) :
    cscan 0 (cjoin xs ++ rest) = cscan 0 rest := by
  rcases cjoin_cases xs hne with ⟨a, rfl, e⟩ | ⟨_, e⟩
  · rw [e, cscan_neutral a (List.all_eq_true.mpr (fun c hc => capCh_cneutral (List.all_eq_true.mp (h a (List.mem_cons_self ..)).2 c hc)))]
  · rw [e]
    show cscan 0 ('(' :: ((joinB xs ++ [')']) ++ rest)) = _
    rw [cscan]
    simp only [isOpenB, Char.reduceBEq, Bool.or_false, Bool.true_or, if_true, List.append_assoc]
    rw [cscan_neutral _ (joinB_cneutral xs h)]
    show cscan (0 + 1) (')' :: rest) = _
    rw [cscan]
    simp only [isOpenB, isCloseB, Char.reduceBEq, Bool.or_false, Bool.or_self, Bool.false_eq_true, if_false, Bool.true_or,
      if_true]
    rfl

theorem atomic_set (xs : List Text) (hne : xs ≠ []) (h : ∀ x ∈ xs, CapW x) : Atomic (S "set=" ++ cjoin xs) := by
  obtain ⟨hn, hsc⟩ := atomic_cjoin xs hne h
  refine ⟨by simp [S], ?_⟩
  rw [scan_neutral (S "set=") (by decide)]
  exact hsc

theorem signalToks_atomic (audit deny : Bool) (accs set : List Text) (p : Text) (ha : accs ≠ []) (hs : set ≠ [])
    (h : ∀ a ∈ accs, CapW a) (h' : ∀ a ∈ set, CapW a) (hp : PeerW p) : ∀ t ∈ signalToks audit deny accs set p, Atomic t := by
  intro t ht
  simp only [signalToks, List.mem_append, List.mem_cons, List.not_mem_nil, or_false] at ht
  rcases ht with ht | rfl | rfl | rfl | rfl
  · exact atomic_of_capW (qualWords_capW audit deny t ht)
  · decide
  · exact atomic_cjoin accs ha h
  · exact atomic_set set hs h'
  · exact atomic_cond "peer=" (by decide) p hp.1

theorem signal_body (audit deny : Bool) (accs set : List Text) (p : Text) :
    joinB (signalToks audit deny accs set p) =
      ((qualWords audit deny).map (fun w => w ++ [' '])).flatten ++ S "signal " ++ (cjoin accs ++ (S " set=" ++ (cjoin set ++ (S " peer=" ++ p)))) := by
  unfold signalToks
  rw [joinB_append_cons]
  simp [joinB, S]

theorem signal_cscan (audit deny : Bool) (accs set : List Text) (p : Text) (ha : accs ≠ []) (hs : set ≠ [])
    (h : ∀ a ∈ accs, CapW a) (h' : ∀ a ∈ set, CapW a) (hp : PeerW p) :
    cscan 0 (joinB (signalToks audit deny accs set p)) = some 0 := by
  rw [signal_body]
  have hpre : (((qualWords audit deny).map (fun w => w ++ [' '])).flatten ++ S "signal ").all cneutral = true := by
    cases audit <;> cases deny <;> decide
  have hend : cscan 0 (S " peer=" ++ p) = some 0 := by
    rw [cscan_neutral (S " peer=") (by decide)]
    exact hp.2.2.1
  rw [cscan_neutral _ hpre, cscan_cjoin accs ha h, cscan_neutral (S " set=") (by decide), cscan_cjoin set hs h']
  exact hend

theorem signal_trim (audit deny : Bool) (accs set : List Text) (p : Text) (hp : PeerW p) :
    trimSet (S "\n ") (joinB (signalToks audit deny accs set p)) = joinB (signalToks audit deny accs set p) := by
  have hne := hp.1.1
  obtain ⟨e, hpl, hce⟩ := peerW_last hp
  have he : (S "peer=" ++ p).getLast? = some e := by
    rw [← hpl]; simp [List.getLast?_append, List.getLast?_eq_some_getLast hne]
  have h2 : (joinB (signalToks audit deny accs set p)).getLast? = some e := by
    have : signalToks audit deny accs set p =
        (qualWords audit deny ++ [S "signal", cjoin accs, S "set=" ++ cjoin set]) ++ [S "peer=" ++ p] := by
      simp [signalToks]
    rw [this]
    exact joinB_last' _ _ e he
  obtain ⟨c, h1, hcc⟩ : ∃ c, (joinB (signalToks audit deny accs set p)).head? = some c ∧ capCh c = true := by
    cases audit <;> cases deny
    · exact ⟨'s', joinB_head' _ _ 's' rfl, by decide⟩
    · exact ⟨'d', joinB_head' _ _ 'd' rfl, by decide⟩
    · exact ⟨'a', joinB_head' _ _ 'a' rfl, by decide⟩
    · exact ⟨'a', joinB_head' _ _ 'a' rfl, by decide⟩
  exact trimSet_ends _ _ c e h1 h2 (cutOk_nlsp c hcc) hce

/-- the pre-parsed rule `parseRule` returns for the printed line -/
def signalPre (audit deny : Bool) (accs set : List Text) (p : Text) : RuleT :=
  (qualWords audit deny ++ [S "signal"] ++ accs).map KV.plain ++ [setKV set, peerKV p]

theorem parseRule_signal (audit deny : Bool) (accs set : List Text) (p : Text) (ha : accs ≠ []) (hs : set ≠ [])
    (h : ∀ a ∈ accs, CapW a) (h' : ∀ a ∈ set, CapW a) (hp : PeerW p) :
    parseRule false (joinB (signalToks audit deny accs set p)) = .ok (signalPre audit deny accs set p) := by
  unfold parseRule
  generalize hlen : (joinB (signalToks audit deny accs set p)).length = L
  show parseRuleF false (L + 1 + 1) _ = _
  rw [parseRuleF, joinB_eq_joinPad, tokenize_joinPad _ [] (signalToks_atomic audit deny accs set p ha hs h h' hp)]
  simp only
  have hin : (match signalToks audit deny accs set p with
      | t :: _ => isAARE t || t == S "owner"
      | [] => false) = false := by
    cases audit <;> cases deny <;> rfl
  show parseToks (parseRuleF false (L + 1)) (match signalToks audit deny accs set p with
      | t :: _ => isAARE t || t == S "owner"
      | [] => false) _ 0 _ [] = _
  rw [hin]
  have hq : ∀ t ∈ qualWords audit deny ++ [S "signal"], Plain t := by
    intro t ht
    simp only [List.mem_append, List.mem_singleton] at ht
    rcases ht with ht | rfl
    · exact plain_of_capW (qualWords_capW audit deny t ht)
    · decide
  have hsplit : signalToks audit deny accs set p =
      (qualWords audit deny ++ [S "signal"]) ++ [cjoin accs, S "set=" ++ cjoin set, S "peer=" ++ p] := by
    simp [signalToks]
  rw [hsplit, parseToks_plain_append _ _ _ _ _ 0 [] hq, parseToks_cjoin _ _ _ accs ha h, parseToks_set L _ _ set hs h',
    parseToks_peer L _ _ p hp]
  simp [signalPre, peerKV]

/-! ### the constructors -/

theorem getSlice_signal (accs set : List Text) (p : Text) :
    getSlice (accs.map KV.plain ++ [setKV set, peerKV p]) = accs := by
  have h1 := getSlice_plain accs
  unfold getSlice at h1 ⊢
  rw [List.filter_append, List.map_append, h1]
  have : [setKV set, peerKV p].filter (fun kv => kv.vals.isNone) = [] := rfl
  rw [this]; simp

theorem find_signal (key : String) (kv1 kv2 : KV) : ∀ (accs : List Text), (∀ a ∈ accs, a ≠ S key) →
    (accs.map KV.plain ++ [kv1, kv2]).find? (fun kv => kv.key == S key) = [kv1, kv2].find? (fun kv => kv.key == S key)
  | [], _ => rfl
  | a :: l, h => by
    have ha : (a == S key) = false := by simpa using h a (List.mem_cons_self ..)
    simp only [List.map_cons, List.cons_append, List.find?_cons, key_plain, ha]
    exact find_signal key kv1 kv2 l (fun x hx => h x (List.mem_cons_of_mem _ hx))

theorem newBase_signal (accs set : List Text) (p : Text) (h : ∀ a ∈ accs, CapW a) :
    newBase (accs.map KV.plain ++ [setKV set, peerKV p]) = {} := by
  have hlast : (((accs.map KV.plain ++ [setKV set, peerKV p]).getLast?).map KV.comment).getD [] = [] := by
    simp [List.getLast?_append, peerKV, KV.comment]
  cases accs with
  | nil =>
    show newBase (setKV set :: [peerKV p]) = {}
    rw [newBase_cons]
    rw [if_neg (by simp [setKV, KV.key, S])]
    simp only [List.map_nil, List.nil_append] at hlast
    rw [hlast]; exact baseOfComment_nil
  | cons a l =>
    obtain ⟨hne, hall⟩ := h a (List.mem_cons_self ..)
    cases a with
    | nil => exact absurd rfl hne
    | cons c cs =>
      have hc : ((KV.plain (c :: cs)).key.head? == some '#') = false := by
        simp only [List.all_cons, Bool.and_eq_true] at hall
        have := (capCh_spec hall.1).2.2.2.2.2.2.1
        simpa [key_plain] using this
      simp only [List.map_cons, List.cons_append] at hlast ⊢
      rw [newBase_cons, hc, if_neg (by simp), hlast]
      exact baseOfComment_nil

theorem newRule1_signal (T : Tables) (f : Nat) (q : Bool × Text) (accs set : List Text) (p : Text)
    (hreq : hasReq T "signal" "access" = true) (hreq' : hasReq T "signal" "set" = true)
    (h : ∀ a ∈ accs, CapW a ∧ (reqValues T "signal" "access").contains a = true)
    (h' : ∀ a ∈ set, CapW a ∧ (reqValues T "signal" "set").contains a = true)
    (hnp : ∀ a ∈ accs, a ≠ S "peer") (hns : ∀ a ∈ accs, a ≠ S "set") :
    newRule1 T (f + 1) false q (KV.plain (S "signal") :: (accs.map KV.plain ++ [setKV set, peerKV p])) =
      .ok (some (mkRule "signal" q {} [.l (mergeValues T "signal" "access" accs []),
        .l (mergeValues T "signal" "set" set []), .s p])) := by
  have hk : ruleKeywords.contains (String.ofList (S "signal")) = true := by decide
  have hb := newBase_signal accs set p (fun a ha => (h a ha).1)
  have hv := toValues_joinB T "signal" "access" hreq accs h
  have hv' := toValues_joinB T "signal" "set" hreq' set h'
  rw [joinB_eq_joinSp] at hv hv'
  rw [newRule1]
  simp only [getKey, key_plain, List.getElem?_cons_zero, bind, Res.bind, List.drop_succ_cons, List.drop_zero]
  rw [if_neg (by decide), if_neg (by decide), if_neg (by decide), if_pos hk]
  unfold newRuleOf
  simp only []
  rw [if_neg (by decide), if_neg (by decide), if_neg (by decide), if_neg (by decide), if_neg (by decide),
    if_neg (by decide), if_neg (by decide), if_neg (by decide), if_neg (by decide), if_neg (by decide),
    if_neg (by decide), if_neg (by decide), if_neg (by decide), if_pos (by decide)]
  have hgs : getString (accs.map KV.plain ++ [setKV set, peerKV p]) = joinSp accs := by
    unfold getString; rw [getSlice_signal]
  have hgset : getValuesAsString (accs.map KV.plain ++ [setKV set, peerKV p]) "set" = joinSp set := by
    unfold getValuesAsString getValues
    rw [find_signal "set" _ _ accs hns]
    show getString ((setKV set).vals.getD []) = _
    unfold getString
    show joinSp (getSlice (set.map KV.plain)) = _
    rw [getSlice_plain]
  have hgpeer : getValuesAsString (accs.map KV.plain ++ [setKV set, peerKV p]) "peer" = p := by
    unfold getValuesAsString getValues
    rw [find_signal "peer" _ _ accs hnp]
    rfl
  rw [hb]
  simp only [toAccess, hgs, hgset, hgpeer, hv, hv', bind, Res.bind, pure, Bool.false_and, Bool.false_eq_true, if_false,
    show ("signal" == "file") = false from by decide]

/-- **Signal rules through the library's own parser**: every qualifier, every access list and every signal list of
the tables (any length, order, repetition), every keyword-like peer word -/
theorem parse_signal (T : Tables) (audit deny : Bool) (accs set : List Text) (p : Text) (ha : accs ≠ []) (hs : set ≠ [])
    (hreq : hasReq T "signal" "access" = true) (hreq' : hasReq T "signal" "set" = true)
    (h : ∀ a ∈ accs, CapW a ∧ (reqValues T "signal" "access").contains a = true)
    (h' : ∀ a ∈ set, CapW a ∧ (reqValues T "signal" "set").contains a = true)
    (hnp : ∀ a ∈ accs, a ≠ S "peer") (hns : ∀ a ∈ accs, a ≠ S "set") (hp : PeerW p) :
    (parseCommaRules false (renderRule (signalRule audit deny accs set p) (padOf []) ++ S "\n")).bind (newRules T) =
      .ok [mkRule "signal" (audit, if deny then S "deny" else []) {}
        [.l (mergeValues T "signal" "access" accs []), .l (mergeValues T "signal" "set" set []), .s p]] := by
  have hc := fun a ha => (h a ha).1
  have hc' := fun a ha => (h' a ha).1
  rw [render_signal audit deny accs set p ha hs hp.1.1, List.append_assoc, show [','] ++ S "\n" = S ",\n" from rfl,
    parseCommaRules_line' _ (signal_cscan audit deny accs set p ha hs hc hc' hp), signal_trim audit deny accs set p hp,
    parseRule_signal audit deny accs set p ha hs hc hc' hp]
  simp only [Res.bind]
  unfold newRules
  cases audit <;> cases deny <;>
    simp only [signalPre, qualWords, if_true, if_false, Bool.false_eq_true, List.nil_append, List.cons_append, List.map_cons,
      List.map_append, List.map_nil, List.isEmpty_cons, List.length_cons, List.length_append, List.length_map, List.length_nil,
      Nat.zero_add, noQ, newRule1_audit, newRule1_deny,
      newRule1_signal T _ _ accs set p hreq hreq' h h' hnp hns, newRules]

end Aa.Parse
