import AaVerif.Aa.Rule
/-!
# Aa.Render — model of the text/template rendering of `pkg/aa` (templates/rule/*.j2, rules.j2)

One function per template.  Text is a list of bytes kept in `Char`s.  The alignment paddings that
`Rules.Format` stores in `Base.Paddings` are a *parameter* (`pad i`, the string at index `i`,
empty beyond the end): whatever `Format` computes, `setPaddings` only ever stores runs of spaces
(`strings.Repeat(" ", n)`), and the theorems of C09/C12 are stated for every such padding.
-/
namespace Aa

abbrev Text := List Char

def S (s : String) : Text := s.toList

/-- padding function from the list stored in `Base.Paddings` -/
def padOf (l : List Text) (i : Nat) : Text := l.getD i []

def joinSp : List Text → Text
  | [] => []
  | [a] => a
  | a :: l => a ++ ' ' :: joinSp l

/-- template helper `cjoin` on a list -/
def cjoin (l : List Text) : Text :=
  match l with
  | [a] => a
  | _ => '(' :: joinSp l ++ [')']

/-- `{{ with .X }} prefix X {{ end }}` on a string field -/
def withS (pre : String) (v : Text) : Text := if v.isEmpty then [] else S pre ++ v

/-- `{{ with .X }} prefix (cjoin X) {{ end }}` on a list field -/
def withL (pre : String) (v : List Text) : Text := if v.isEmpty then [] else S pre ++ cjoin v

/-- template `comment`; `line` is `Base.IsLineRule` -/
def renderComment (r : Rule) (line : Bool) : Text :=
  if r.fileInherit || r.noNewPrivs || r.optional || !r.comment.isEmpty then
    (if line then S "#" else S " #")
    ++ (if r.fileInherit then S " file_inherit" else [])
    ++ (if r.noNewPrivs then S " no new privs" else [])
    ++ (if r.optional then S " optional:" else [])
    ++ r.comment
  else []

/-- template `qualifier` -/
def renderQual (r : Rule) (pad : Nat → Text) : Text :=
  (if r.audit then S "audit " else []) ++ pad 0
  ++ (if r.accessType == S "deny" then S "deny " else []) ++ pad 1

/-- `overindent`: `strings.Join([]string{Indentation, s}, "     ")` -/
def overindent (s : String) : Text := S "       " ++ S s

def fS (r : Rule) (i : Nat) : Text := (r.fld i).str
def fL (r : Rule) (i : Nat) : List Text := (r.fld i).list
def fB (r : Rule) (i : Nat) : Bool := (r.fld i).bool

/-- the body of a rule: everything the per-kind template prints (without the indentation and
the newline that `rules.j2` adds) -/
def renderRule (r : Rule) (pad : Nat → Text) : Text :=
  let q := renderQual r pad
  let c := renderComment r false
  match r.kind with
  | "capability" => q ++ S "capability" ++ ((fL r 0).map (fun n => ' ' :: n)).flatten ++ S "," ++ c
  | "network" =>
    q ++ S "network" ++ withS " " (fS r 3)
      ++ (if !(fS r 4).isEmpty then ' ' :: fS r 4 else withS " " (fS r 5)) ++ S "," ++ c
  | "mount" =>
    q ++ S "mount" ++ withS " fstype=" (fS r 0) ++ pad 2 ++ withL " options=" (fL r 1) ++ pad 3
      ++ withS " " (fS r 2) ++ pad 4 ++ withS " -> " (fS r 3) ++ S "," ++ pad 5 ++ c
  | "remount" =>
    q ++ S "remount" ++ withS " fstype=" (fS r 0) ++ pad 2 ++ withL " options=" (fL r 1) ++ pad 3
      ++ withS " " (fS r 2) ++ S "," ++ pad 4 ++ c
  | "umount" =>
    q ++ S "umount" ++ withS " fstype=" (fS r 0) ++ pad 2 ++ withL " options=" (fL r 1) ++ pad 3
      ++ withS " " (fS r 2) ++ S "," ++ pad 4 ++ c
  | "pivot_root" =>
    q ++ S "pivot_root" ++ withS " oldroot=" (fS r 0) ++ pad 2 ++ withS " " (fS r 1) ++ pad 3
      ++ withS " -> " (fS r 2) ++ S "," ++ pad 4 ++ c
  | "change_profile" =>
    q ++ S "change_profile" ++ withS " " (fS r 0) ++ withS " " (fS r 1) ++ withS " -> " (fS r 2)
      ++ S "," ++ c
  | "mqueue" =>
    q ++ S "mqueue" ++ withL " " (fL r 0) ++ pad 2 ++ withS " type=" (fS r 1) ++ pad 3
      ++ withS " label=" (fS r 2) ++ pad 4 ++ withS " " (fS r 3) ++ S "," ++ pad 5 ++ c
  | "io_uring" =>
    q ++ S "io_uring" ++ withL " " (fL r 0) ++ pad 2 ++ withS " label=" (fS r 1) ++ S "," ++ pad 3 ++ c
  | "signal" =>
    q ++ S "signal" ++ withL " " (fL r 0) ++ pad 2 ++ withL " set=" (fL r 1) ++ pad 3
      ++ withS " peer=" (fS r 2) ++ S "," ++ pad 4 ++ c
  | "ptrace" =>
    q ++ S "ptrace" ++ withL " " (fL r 0) ++ pad 2 ++ withS " peer=" (fS r 1) ++ S "," ++ pad 3 ++ c
  | "unix" =>
    let pl := fS r 7
    let pa := fS r 8
    q ++ S "unix" ++ withL " " (fL r 0) ++ pad 2 ++ withS " type=" (fS r 1) ++ pad 3
      ++ withS " protocol=" (fS r 2) ++ pad 4 ++ withS " addr=" (fS r 3) ++ pad 5
      ++ withS " label=" (fS r 4) ++ pad 6
      ++ (if !pl.isEmpty && !pa.isEmpty then S " peer=(label=" ++ pl ++ S ", addr=" ++ pa ++ S ")"
          else (if pl.isEmpty then [] else overindent "peer=(label=" ++ pl ++ S ")")
            ++ (if pa.isEmpty then [] else overindent "peer=(addr=" ++ pa ++ S ")"))
      ++ S "," ++ c
  | "dbus" =>
    let pn := fS r 6
    let pl := fS r 7
    q ++ S "dbus"
      ++ (if (fL r 0).head? == some (S "bind") then S " bind bus=" ++ fS r 1 ++ S " name=" ++ fS r 2
          else withL " " (fL r 0) ++ withS " bus=" (fS r 1) ++ withS " path=" (fS r 3)
            ++ (if (fS r 4).isEmpty then [] else '\n' :: overindent "interface=" ++ fS r 4)
            ++ (if (fS r 5).isEmpty then [] else '\n' :: overindent "member=" ++ fS r 5)
            ++ (if !pn.isEmpty && !pl.isEmpty then
                  '\n' :: overindent "peer=(name=" ++ pn ++ S ", label=" ++ pl ++ S ")"
                else (if pn.isEmpty then [] else '\n' :: overindent "peer=(name=" ++ pn ++ S ")")
                  ++ (if pl.isEmpty then [] else '\n' :: overindent "peer=(label=" ++ pl ++ S ")")))
      ++ S "," ++ c
  | "rlimit" =>
    S "set rlimit " ++ fS r 0 ++ S " " ++ pad 2 ++ fS r 1 ++ S " " ++ pad 3 ++ fS r 2 ++ S ","
      ++ pad 4 ++ c
  | "userns" => if fB r 0 then q ++ S "userns," ++ c else []
  | "all" => S "all," ++ c
  | "file" =>
    q ++ (if fB r 0 then S "owner " else []) ++ pad 2 ++ fS r 1 ++ S " " ++ pad 3
      ++ (fL r 2).flatten ++ withS " -> " (fS r 3) ++ S "," ++ pad 4 ++ c
  | "link" =>
    q ++ (if fB r 0 then S "owner " else []) ++ pad 2 ++ S "link "
      ++ (if fB r 1 then S "subset " else []) ++ pad 3 ++ fS r 2 ++ S " " ++ withS "-> " (fS r 3)
      ++ S "," ++ pad 4 ++ c
  | "abi" =>
    S "abi" ++ (if fB r 1 then S " <" ++ fS r 0 ++ S ">" else S " \"" ++ fS r 0 ++ S "\"") ++ S "," ++ c
  | "alias" => S "alias " ++ fS r 0 ++ S " -> " ++ fS r 1 ++ S "," ++ c
  | "include" =>
    S "include" ++ (if fB r 0 then S " if exists" else [])
      ++ (if fB r 2 then S " <" ++ fS r 1 ++ S ">" else S " \"" ++ fS r 1 ++ S "\"") ++ c
  | "variable" =>
    S "@{" ++ fS r 0 ++ S "}" ++ (if fB r 2 then S " = " else S " += ") ++ joinSp (fL r 1) ++ c
  | "comment" => renderComment r true
  | _ => []

/-- template `rules` at indentation level 0 (`Rules.String()`); `none` is a nil entry (blank
line).  `old` is the template variable `$oldkind`. -/
def renderRulesAux (old : String) : List (Option Rule × List Text) → Text
  | [] => []
  | (none, _) :: l => '\n' :: renderRulesAux old l
  | (some r, p) :: l =>
    if r.kind == "comment" then renderComment r true ++ '\n' :: renderRulesAux old l
    else
      (if r.kind != old && old != "" then ['\n'] else [])
        ++ renderRule r (padOf p) ++ '\n' :: renderRulesAux r.kind l

def renderRules (l : List (Option Rule × List Text)) : Text := renderRulesAux "" l

end Aa
