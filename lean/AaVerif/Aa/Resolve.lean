import AaVerif.Aa.Rule
/-!
# Aa.Resolve — model of `AppArmorProfileFile.Resolve` (pkg/aa/resolve.go)

Preamble = list of rules; a variable is a rule of kind `variable` with fields
`[name, values, define]`.  Errors are values, never defaults.
-/
namespace Aa

inductive RErr where
  | alreadyDefined | invalidReference | recursive | notDefined | outOfFuel
deriving Repr, DecidableEq

def isVar (r : Rule) : Bool := r.kind == "variable"
def vName (r : Rule) : List Char := (r.fld 0).str
def vValues (r : Rule) : List (List Char) := (r.fld 1).list
def vDefine (r : Rule) : Bool := (r.fld 2).bool

/-- append `vals` to the (unique) defining variable `name` already emitted -/
def appendTo (name : List Char) (vals : List (List Char)) : List Rule → List Rule
  | [] => []
  | r :: rs =>
    if isVar r && vDefine r && vName r == name then r.setFld 1 (.l (vValues r ++ vals)) :: rs
    else r :: appendTo name vals rs

/-- the `+=` folding loop (after the fix: the appended entry itself is removed) -/
def foldAppends : List Rule → List (List Char) → List Rule → Except RErr (List Rule)
  | [], _, out => .ok out
  | r :: rs, seen, out =>
    if isVar r then
      if seen.contains (vName r) then
        if vDefine r then .error .alreadyDefined
        else foldAppends rs seen (appendTo (vName r) (vValues r) out)
      else if vDefine r then foldAppends rs (vName r :: seen) (out ++ [r])
      else foldAppends rs seen (out ++ [r])
    else foldAppends rs seen (out ++ [r])

def tokOpen : List Char := ['@', '{']

def isInfixB (p t : List Char) : Bool :=
  match t with
  | [] => p.isEmpty
  | c :: cs => p.isPrefixOf (c :: cs) || isInfixB p cs

/-- leftmost match of `@{([^{}]+)}`: the name -/
def firstRef : List Char → Option (List Char)
  | [] => none
  | c :: cs =>
    if tokOpen.isPrefixOf (c :: cs) then
      let rest := (c :: cs).drop 2
      let nm := rest.takeWhile (fun x => x != '{' && x != '}')
      match rest.drop nm.length with
      | '}' :: _ => if nm.isEmpty then firstRef cs else some nm
      | _ => firstRef cs
    else firstRef cs

def replaceAllLit (p r : List Char) : Nat → List Char → List Char
  | 0, t => t
  | _, [] => []
  | f + 1, c :: cs =>
    if p.isPrefixOf (c :: cs) && !p.isEmpty then r ++ replaceAllLit p r f ((c :: cs).drop p.length)
    else c :: replaceAllLit p r f cs

def replLit (p r t : List Char) : List Char := replaceAllLit p r (t.length + 1) t

/-- `resolveValues` with fuel -/
def resolveValues (vars : List Rule) : Nat → List Char → Except RErr (List (List Char))
  | 0, _ => .error .outOfFuel
  | fuel + 1, input =>
    if !isInfixB tokOpen input then .ok [input] else
    match firstRef input with
    | none => .error .invalidReference
    | some nm =>
      let ref := tokOpen ++ nm ++ ['}']
      let defs := vars.filter (fun v => isVar v && vName v == nm)
      if defs.isEmpty then .error .notDefined else
      defs.foldlM (fun (acc : List (List Char)) v =>
        (vValues v).foldlM (fun (acc : List (List Char)) val =>
          if isInfixB ref val then .error .recursive
          else do
            let nv := replLit ['/', '/'] ['/'] (replLit ref val input)
            let res ← resolveValues vars fuel nv
            pure (acc ++ res)) acc) []

def resolveList (vars : List Rule) (fuel : Nat) (l : List (List Char)) : Except RErr (List (List Char)) :=
  l.foldlM (fun acc v => do let r ← resolveValues vars fuel v; pure (acc ++ r)) []

/-- resolve every variable in turn (later variables see the already resolved earlier ones) -/
def resolveVars (fuel : Nat) : List Rule → List Rule → Except RErr (List Rule)
  | done, [] => .ok done
  | done, r :: rs =>
    if isVar r then do
      let vals ← resolveList (done ++ r :: rs) fuel (vValues r)
      resolveVars fuel (done ++ [r.setFld 1 (.l vals)]) rs
    else resolveVars fuel (done ++ [r]) rs

/-- every match of `@{([^{}]+)}` in a value, leftmost first, not overlapping: the names -/
def allRefsF : Nat → List Char → List (List Char)
  | 0, _ => []
  | _, [] => []
  | f + 1, c :: cs =>
    if tokOpen.isPrefixOf (c :: cs) then
      let rest := (c :: cs).drop 2
      let nm := rest.takeWhile (fun x => x != '{' && x != '}')
      match rest.drop nm.length with
      | '}' :: after => if nm.isEmpty then allRefsF f cs else nm :: allRefsF f after
      | _ => allRefsF f cs
    else allRefsF f cs

def allRefs (t : List Char) : List (List Char) := allRefsF (t.length + 1) t

/-- the names a variable refers to directly (over all the rules that carry that name) -/
def refsOf (vars : List Rule) (name : List Char) : List (List Char) :=
  ((vars.filter (fun v => isVar v && vName v == name)).flatMap (fun v => (vValues v).flatMap allRefs)).eraseDups

/-- `n` rounds of "and what those refer to" -/
def reachN (vars : List Rule) : Nat → List (List Char) → List (List Char)
  | 0, s => s
  | n + 1, s => reachN vars n ((s ++ s.flatMap (refsOf vars)).eraseDups)

/-- `cyclicVariable() != ""`: some variable reaches itself through its references -/
def hasCycle (vars : List Rule) : Bool :=
  vars.any (fun v => isVar v && (reachN vars vars.length (refsOf vars (vName v))).contains (vName v))

/-- `Resolve` without the cycle test -/
def resolveCore (fuel : Nat) (pre : List Rule) (att : List (List Char)) :
    Except RErr (List Rule × List (List Char)) := do
  let folded ← foldAppends pre [] []
  let pre' ← resolveVars fuel [] folded
  let att' ← resolveList pre' fuel att
  pure (pre', att')

/-- `Resolve`: preamble and the attachments of the profile; a cycle between variables is an error (fix commit) -/
def resolve (fuel : Nat) (pre : List Rule) (att : List (List Char)) :
    Except RErr (List Rule × List (List Char)) :=
  match foldAppends pre [] [] with
  | .error e => .error e
  | .ok folded => if hasCycle folded then .error .recursive else resolveCore fuel pre att

/-- `Profile.GetAttachments` -/
def getAttachments : List (List Char) → List Char
  | [] => []
  | [a] => a
  | l => ['/', '{'] ++ (joinC (l.map (fun a => match a with | '/' :: r => r | _ => a))) ++ ['}']
where joinC : List (List Char) → List Char
  | [] => []
  | [a] => a
  | a :: b :: r => a ++ ',' :: joinC (b :: r)

end Aa
