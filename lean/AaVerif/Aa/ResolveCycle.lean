import AaVerif.Aa.Resolve
/-!
# Aa.ResolveCycle — the cycle test of `Resolve` finds every chain of references that closes

`hasCycle` runs `vars.length` rounds of "and what those refer to" from the direct references of each variable.
Every chain of direct references of length up to `vars.length + 1` that leads from a variable back to itself is found
(a cycle that visits no name twice is never longer than the number of names).
-/
namespace Aa

theorem subset_reachN (vars : List Rule) : ∀ (n : Nat) (s : List (List Char)), ∀ x ∈ s, x ∈ reachN vars n s
  | 0, _, _, hx => hx
  | n + 1, s, x, hx => by
    rw [reachN]
    apply subset_reachN vars n
    rw [List.mem_eraseDups]
    exact List.mem_append_left _ hx

theorem reachN_mono (vars : List Rule) : ∀ (n : Nat) (s t : List (List Char)), (∀ x ∈ s, x ∈ t) →
    ∀ x ∈ reachN vars n s, x ∈ reachN vars n t
  | 0, _, _, h, x, hx => h x hx
  | n + 1, s, t, h, x, hx => by
    rw [reachN] at hx ⊢
    refine reachN_mono vars n _ _ ?_ x hx
    intro y hy
    rw [List.mem_eraseDups] at hy ⊢
    rcases List.mem_append.mp hy with hy | hy
    · exact List.mem_append_left _ (h y hy)
    · rw [List.mem_flatMap] at hy
      obtain ⟨z, hz, hyz⟩ := hy
      exact List.mem_append_right _ (List.mem_flatMap.mpr ⟨z, h z hz, hyz⟩)

/-- one more round reaches what a member refers to -/
theorem step_reachN (vars : List Rule) (n : Nat) (s : List (List Char)) (x y : List Char)
    (hx : x ∈ s) (hy : y ∈ refsOf vars x) : y ∈ reachN vars (n + 1) s := by
  rw [reachN]
  apply subset_reachN vars n
  rw [List.mem_eraseDups]
  exact List.mem_append_right _ (List.mem_flatMap.mpr ⟨x, hx, hy⟩)

/-- a chain of direct references: each name is referred to by the one before -/
def Chain (vars : List Rule) : List Char → List (List Char) → Prop
  | _, [] => True
  | x, y :: rest => y ∈ refsOf vars x ∧ Chain vars y rest

/-- the end of a chain of `k` steps that starts inside `s` is reached in `k` rounds -/
theorem chain_reachN (vars : List Rule) : ∀ (chain : List (List Char)) (s : List (List Char)) (x : List Char),
    x ∈ s → Chain vars x chain → ∀ (e : List Char), (x :: chain).getLast? = some e → e ∈ reachN vars chain.length s
  | [], s, x, hx, _, e, he => by
    simp only [List.getLast?_singleton, Option.some.injEq] at he
    subst he
    exact hx
  | y :: rest, s, x, hx, hc, e, he => by
    obtain ⟨hy, hrest⟩ := hc
    have he' : (y :: rest).getLast? = some e := by
      rw [List.getLast?_cons_cons] at he; exact he
    -- y is in the set after one round; go on from there
    have hy1 : y ∈ (s ++ s.flatMap (refsOf vars)).eraseDups := by
      rw [List.mem_eraseDups]
      exact List.mem_append_right _ (List.mem_flatMap.mpr ⟨x, hx, hy⟩)
    have := chain_reachN vars rest _ y hy1 hrest e he'
    simpa [reachN] using this

/-- more rounds reach more -/
theorem reachN_le (vars : List Rule) : ∀ (k n : Nat) (s : List (List Char)), k ≤ n → ∀ x ∈ reachN vars k s, x ∈ reachN vars n s
  | 0, n, s, _, x, hx => subset_reachN vars n s x hx
  | k + 1, 0, _, h, _, _ => by omega
  | k + 1, n + 1, s, h, x, hx => by
    rw [reachN] at hx ⊢
    exact reachN_le vars k n _ (by omega) x hx

/-- **Every closed chain is found**: a variable rule `v`, a chain of direct references that starts at one of the names
`v` refers to and ends at the name of `v`, not longer than the number of rules: `hasCycle` says yes. -/
theorem hasCycle_of_chain (vars : List Rule) (v : Rule) (hv : v ∈ vars) (hvar : isVar v = true)
    (y : List Char) (chain : List (List Char)) (hy : y ∈ refsOf vars (vName v)) (hc : Chain vars y chain)
    (hend : (y :: chain).getLast? = some (vName v)) (hlen : chain.length ≤ vars.length) :
    hasCycle vars = true := by
  unfold hasCycle
  rw [List.any_eq_true]
  refine ⟨v, hv, ?_⟩
  simp only [hvar, Bool.true_and, List.contains_eq_mem, decide_eq_true_eq]
  have h1 := chain_reachN vars chain (refsOf vars (vName v)) y hy hc (vName v) hend
  exact reachN_le vars chain.length vars.length _ hlen _ h1

/-! ### … and only those: the test does not reject a preamble without a closed chain -/

theorem chain_append (vars : List Rule) : ∀ (c1 : List (List Char)) (x m : List Char) (c2 : List (List Char)),
    Chain vars x c1 → (x :: c1).getLast? = some m → Chain vars m c2 → Chain vars x (c1 ++ c2)
  | [], x, m, c2, _, hl, h2 => by
    simp only [List.getLast?_singleton, Option.some.injEq] at hl
    subst hl
    simpa using h2
  | y :: rest, x, m, c2, h1, hl, h2 => by
    obtain ⟨hy, hr⟩ := h1
    have hl' : (y :: rest).getLast? = some m := by rw [List.getLast?_cons_cons] at hl; exact hl
    exact ⟨hy, chain_append vars rest y m c2 hr hl' h2⟩

/-- whatever `reachN` holds is the end of a chain that starts in the set it was given -/
theorem reachN_chain (vars : List Rule) : ∀ (n : Nat) (s : List (List Char)) (x : List Char), x ∈ reachN vars n s →
    ∃ y ∈ s, ∃ chain, Chain vars y chain ∧ (y :: chain).getLast? = some x
  | 0, s, x, hx => ⟨x, hx, [], trivial, by simp⟩
  | n + 1, s, x, hx => by
    rw [reachN] at hx
    obtain ⟨y', hy', chain, hc, hl⟩ := reachN_chain vars n _ x hx
    rw [List.mem_eraseDups] at hy'
    rcases List.mem_append.mp hy' with hy' | hy'
    · exact ⟨y', hy', chain, hc, hl⟩
    · rw [List.mem_flatMap] at hy'
      obtain ⟨z, hz, hzy⟩ := hy'
      refine ⟨z, hz, y' :: chain, ⟨hzy, hc⟩, ?_⟩
      rw [List.getLast?_cons_cons]; exact hl

/-- **The cycle test reports only cycles**: when it says yes there is a variable rule and a chain of direct references that
leads from one of the names it refers to back to its own name. -/
theorem chain_of_hasCycle (vars : List Rule) (h : hasCycle vars = true) :
    ∃ v ∈ vars, isVar v = true ∧ ∃ y ∈ refsOf vars (vName v), ∃ chain, Chain vars y chain ∧
      (y :: chain).getLast? = some (vName v) := by
  unfold hasCycle at h
  rw [List.any_eq_true] at h
  obtain ⟨v, hv, hc⟩ := h
  simp only [Bool.and_eq_true, List.contains_eq_mem, decide_eq_true_eq] at hc
  obtain ⟨hvar, hmem⟩ := hc
  obtain ⟨y, hy, chain, hch, hl⟩ := reachN_chain vars vars.length _ _ hmem
  exact ⟨v, hv, hvar, y, hy, chain, hch, hl⟩

end Aa
