import AaVerif.Aa.Resolve
/-!
# Aa.ResolveLemmas — what a successful `resolveValues` returns

`resolveValues` either fails with an error value or returns strings in which no `@{` is left:
every variable reference has been replaced.  Proved for every variable table, every input and
every amount of fuel, by induction on the fuel with an invariant over the two nested folds.
-/
namespace Aa

/-- an invariant carried through a fold in the `Except` monad -/
theorem foldlM_inv {ε α β : Type} (f : β → α → Except ε β) (P : β → Prop) :
    ∀ (l : List α) (b res : β), (∀ b a b', a ∈ l → P b → f b a = .ok b' → P b') → P b →
      l.foldlM f b = .ok res → P res
  | [], b, res, _, hb, h => by
    simp only [List.foldlM_nil, pure, Except.pure, Except.ok.injEq] at h
    rw [← h]; exact hb
  | a :: as, b, res, hstep, hb, h => by
    simp only [List.foldlM_cons, bind, Except.bind] at h
    cases hfa : f b a with
    | error e => rw [hfa] at h; cases h
    | ok b' =>
      rw [hfa] at h
      exact foldlM_inv f P as b' res (fun b a b'' ha => hstep b a b'' (by simp [ha]))
        (hstep b a b' (by simp) hb hfa) h

def NoRef (s : List Char) : Prop := isInfixB tokOpen s = false

/-- **Every reference is replaced**: whatever the table, the input and the fuel, a successful
`resolveValues` returns only strings without `@{`. -/
theorem resolveValues_noRef (vars : List Rule) : ∀ (fuel : Nat) (input : List Char) (out : List (List Char)),
    resolveValues vars fuel input = .ok out → ∀ o ∈ out, NoRef o
  | 0, _, _, h => by simp [resolveValues] at h
  | fuel + 1, input, out, h => by
    unfold resolveValues at h
    by_cases hi : isInfixB tokOpen input = true
    · simp only [hi, Bool.not_true, Bool.false_eq_true, if_false] at h
      cases hr : firstRef input with
      | none => rw [hr] at h; cases h
      | some nm =>
        rw [hr] at h
        simp only at h
        split at h
        · cases h
        · -- outer fold over the definitions, inner fold over their values
          refine foldlM_inv _ (fun acc => ∀ o ∈ acc, NoRef o) _ [] out ?_ (by simp) h
          intro acc v acc' _ hacc hstep
          refine foldlM_inv _ (fun acc => ∀ o ∈ acc, NoRef o) _ acc acc' ?_ hacc hstep
          intro a val a' _ ha hs
          split at hs
          · cases hs
          · simp only [bind, Except.bind] at hs
            split at hs
            · cases hs
            · rename_i res hres
              simp only [pure, Except.pure, Except.ok.injEq] at hs
              rw [← hs]
              intro o ho
              rcases List.mem_append.mp ho with ho | ho
              · exact ha o ho
              · exact resolveValues_noRef vars fuel _ res hres o ho
    · have hi' : isInfixB tokOpen input = false := by simpa using hi
      simp only [hi', Bool.not_false, if_true, Except.ok.injEq] at h
      rw [← h]
      intro o ho
      simp only [List.mem_singleton] at ho
      rw [ho]; exact hi'

/-- the same for a list of values (variable values, attachments) -/
theorem resolveList_noRef (vars : List Rule) (fuel : Nat) (l out : List (List Char))
    (h : resolveList vars fuel l = .ok out) : ∀ o ∈ out, NoRef o := by
  unfold resolveList at h
  refine foldlM_inv _ (fun acc => ∀ o ∈ acc, NoRef o) _ [] out ?_ (by simp) h
  intro acc v acc' _ hacc hs
  simp only [bind, Except.bind] at hs
  split at hs
  · cases hs
  · rename_i res hres
    simp only [pure, Except.pure, Except.ok.injEq] at hs
    rw [← hs]
    intro o ho
    rcases List.mem_append.mp ho with ho | ho
    · exact hacc o ho
    · exact resolveValues_noRef vars fuel _ res hres o ho

end Aa

namespace Aa

/-- variable rules carry their three fields (what the parser and the harness build) -/
def VarShaped (r : Rule) : Prop := isVar r = true → 1 < r.flds.length

theorem vValues_setFld (r : Rule) (vals : List (List Char)) (h : 1 < r.flds.length) :
    vValues (r.setFld 1 (.l vals)) = vals := by
  simp [vValues, Rule.fld, Rule.setFld, List.getD_eq_getElem?_getD, h, Fld.list]

theorem isVar_setFld' (r : Rule) (i : Nat) (f : Fld) : isVar (r.setFld i f) = isVar r := rfl

def VarsResolved (l : List Rule) : Prop := ∀ r ∈ l, isVar r = true → ∀ v ∈ vValues r, NoRef v

theorem resolveVars_noRef (fuel : Nat) : ∀ (rs done res : List Rule), (∀ r ∈ rs, VarShaped r) →
    VarsResolved done → resolveVars fuel done rs = .ok res → VarsResolved res
  | [], done, res, _, hd, h => by
    simp only [resolveVars, Except.ok.injEq] at h
    rw [← h]; exact hd
  | r :: rs, done, res, hs, hd, h => by
    have hs' : ∀ x ∈ rs, VarShaped x := fun x hx => hs x (by simp [hx])
    unfold resolveVars at h
    by_cases hv : isVar r = true
    · simp only [hv, if_true, bind, Except.bind] at h
      split at h
      · cases h
      · rename_i vals hvals
        refine resolveVars_noRef fuel rs _ res hs' ?_ h
        intro x hx hxv v hvv
        rcases List.mem_append.mp hx with hx | hx
        · exact hd x hx hxv v hvv
        · simp only [List.mem_singleton] at hx
          subst hx
          rw [vValues_setFld r vals (hs r (by simp) hv)] at hvv
          exact resolveList_noRef _ fuel _ vals hvals v hvv
    · have hv' : isVar r = false := by simpa using hv
      simp only [hv', Bool.false_eq_true, if_false] at h
      refine resolveVars_noRef fuel rs _ res hs' ?_ h
      intro x hx hxv v hvv
      rcases List.mem_append.mp hx with hx | hx
      · exact hd x hx hxv v hvv
      · simp only [List.mem_singleton] at hx
        subst hx
        rw [hv'] at hxv; cases hxv

end Aa

namespace Aa

theorem varShaped_setFld {r : Rule} (h : VarShaped r) (i : Nat) (f : Fld) : VarShaped (r.setFld i f) := by
  intro hv
  have := h hv
  simpa [Rule.setFld] using this

theorem appendTo_shaped (name : List Char) (vals : List (List Char)) :
    ∀ (l : List Rule), (∀ r ∈ l, VarShaped r) → ∀ r ∈ appendTo name vals l, VarShaped r
  | [], _, r, hr => by simp [appendTo] at hr
  | x :: xs, h, r, hr => by
    unfold appendTo at hr
    split at hr
    · simp only [List.mem_cons] at hr
      rcases hr with rfl | hr
      · exact varShaped_setFld (h x (by simp)) _ _
      · exact h r (by simp [hr])
    · simp only [List.mem_cons] at hr
      rcases hr with rfl | hr
      · exact h r (by simp)
      · exact appendTo_shaped name vals xs (fun y hy => h y (by simp [hy])) r hr

theorem foldAppends_shaped : ∀ (rs : List Rule) (seen : List (List Char)) (out res : List Rule),
    (∀ r ∈ rs, VarShaped r) → (∀ r ∈ out, VarShaped r) → foldAppends rs seen out = .ok res →
    ∀ r ∈ res, VarShaped r
  | [], _, out, res, _, ho, h => by
    simp only [foldAppends, Except.ok.injEq] at h
    rw [← h]; exact ho
  | x :: xs, seen, out, res, hr, ho, h => by
    have hxs : ∀ r ∈ xs, VarShaped r := fun r hr' => hr r (by simp [hr'])
    have hx := hr x (by simp)
    have hsnoc : ∀ r ∈ out ++ [x], VarShaped r := by
      intro r hr'
      rcases List.mem_append.mp hr' with h1 | h1
      · exact ho r h1
      · simp only [List.mem_singleton] at h1; rw [h1]; exact hx
    unfold foldAppends at h
    split at h
    · split at h
      · split at h
        · cases h
        · exact foldAppends_shaped xs seen _ res hxs (appendTo_shaped _ _ out ho) h
      · split at h
        · exact foldAppends_shaped xs _ _ res hxs hsnoc h
        · exact foldAppends_shaped xs _ _ res hxs hsnoc h
    · exact foldAppends_shaped xs _ _ res hxs hsnoc h

/-- **After `Resolve` no variable reference is left**: neither in the value of any variable of the
preamble nor in any attachment — for every preamble of well-shaped rules, every attachment list,
every fuel.  (With the theorems of `Props/C13`: no other preamble rule is touched, and the error
cases are errors.) -/
theorem resolveCore_noRef (fuel : Nat) (pre : List Rule) (att : List (List Char)) (pre' : List Rule)
    (att' : List (List Char)) (hs : ∀ r ∈ pre, VarShaped r) (h : resolveCore fuel pre att = .ok (pre', att')) :
    VarsResolved pre' ∧ ∀ a ∈ att', NoRef a := by
  unfold resolveCore at h
  simp only [bind, Except.bind] at h
  split at h
  · cases h
  · rename_i folded hf
    split at h
    · cases h
    · rename_i p2 hp
      split at h
      · cases h
      · rename_i a2 ha
        simp only [pure, Except.pure, Except.ok.injEq, Prod.mk.injEq] at h
        obtain ⟨e1, e2⟩ := h
        subst e1; subst e2
        have hsh := foldAppends_shaped pre [] [] folded hs (by simp) hf
        exact ⟨resolveVars_noRef fuel folded [] p2 hsh (by intro r hr; cases hr) hp,
               resolveList_noRef p2 fuel att a2 ha⟩

end Aa

namespace Aa

/-! ### the fuel is not part of the answer -/

theorem foldlM_congr_ok {ε α β : Type} (f g : β → α → Except ε β) :
    ∀ (l : List α) (b res : β), (∀ b a r, a ∈ l → f b a = .ok r → g b a = .ok r) →
      l.foldlM f b = .ok res → l.foldlM g b = .ok res
  | [], b, res, _, h => h
  | a :: as, b, res, hfg, h => by
    simp only [List.foldlM_cons, bind, Except.bind] at h ⊢
    cases hfa : f b a with
    | error e => rw [hfa] at h; cases h
    | ok b' =>
      rw [hfa] at h
      rw [hfg b a b' (by simp) hfa]
      exact foldlM_congr_ok f g as b' res (fun b a r ha => hfg b a r (by simp [ha])) h

/-- **More fuel never changes a successful answer**: the fuel only bounds the recursion of the model;
once `resolveValues` succeeds, every larger amount gives the same list. -/
theorem resolveValues_fuel_mono (vars : List Rule) : ∀ (fuel : Nat) (input : List Char) (out : List (List Char)),
    resolveValues vars fuel input = .ok out → resolveValues vars (fuel + 1) input = .ok out
  | 0, _, _, h => by simp [resolveValues] at h
  | fuel + 1, input, out, h => by
    unfold resolveValues at h ⊢
    by_cases hi : isInfixB tokOpen input = true
    · simp only [hi, Bool.not_true, Bool.false_eq_true, if_false] at h ⊢
      cases hr : firstRef input with
      | none => rw [hr] at h; cases h
      | some nm =>
        rw [hr] at h
        simp only at h ⊢
        split at h
        · cases h
        · rename_i hd
          rw [if_neg hd]
          refine foldlM_congr_ok _ _ _ [] out ?_ h
          intro acc v r _ hstep
          refine foldlM_congr_ok _ _ _ acc r ?_ hstep
          intro a val r' _ hs
          split at hs
          · cases hs
          · rename_i hrec
            rw [if_neg hrec]
            simp only [bind, Except.bind] at hs ⊢
            split at hs
            · cases hs
            · rename_i res hres
              rw [resolveValues_fuel_mono vars fuel _ res hres]
              exact hs
    · have hi' : isInfixB tokOpen input = false := by simpa using hi
      simp only [hi', Bool.not_false, if_true] at h ⊢
      exact h

theorem resolveValues_fuel_le (vars : List Rule) (input : List Char) (out : List (List Char)) (n : Nat)
    (h : resolveValues vars n input = .ok out) : ∀ m, n ≤ m → resolveValues vars m input = .ok out := by
  intro m hm
  induction hm with
  | refl => exact h
  | step _ ih => exact resolveValues_fuel_mono vars _ input out ih

end Aa

namespace Aa

theorem resolveList_fuel_mono (vars : List Rule) (fuel : Nat) (l out : List (List Char))
    (h : resolveList vars fuel l = .ok out) : resolveList vars (fuel + 1) l = .ok out := by
  unfold resolveList at h ⊢
  refine foldlM_congr_ok _ _ l [] out ?_ h
  intro acc v r _ hs
  simp only [bind, Except.bind] at hs ⊢
  split at hs
  · cases hs
  · rename_i res hres
    rw [resolveValues_fuel_mono vars fuel v res hres]
    exact hs

theorem resolveVars_fuel_mono (fuel : Nat) : ∀ (rs done res : List Rule),
    resolveVars fuel done rs = .ok res → resolveVars (fuel + 1) done rs = .ok res
  | [], done, res, h => by simpa [resolveVars] using h
  | r :: rs, done, res, h => by
    unfold resolveVars at h ⊢
    by_cases hv : isVar r = true
    · simp only [hv, if_true, bind, Except.bind] at h ⊢
      split at h
      · cases h
      · rename_i vals hvals
        rw [resolveList_fuel_mono _ fuel _ vals hvals]
        exact resolveVars_fuel_mono fuel rs _ res h
    · have hv' : isVar r = false := by simpa using hv
      simp only [hv', Bool.false_eq_true, if_false] at h ⊢
      exact resolveVars_fuel_mono fuel rs _ res h

/-- **The answer of `Resolve` does not depend on the fuel** once it is enough: the fuel is an artefact of
the model (the Go function recurses without a bound), not part of the behaviour. -/
theorem resolveCore_fuel_mono (fuel : Nat) (pre : List Rule) (att : List (List Char)) (res : List Rule × List (List Char))
    (h : resolveCore fuel pre att = .ok res) : resolveCore (fuel + 1) pre att = .ok res := by
  unfold resolveCore at h ⊢
  simp only [bind, Except.bind] at h ⊢
  split at h
  · cases h
  · rename_i folded hf
    split at h
    · cases h
    · rename_i p2 hp
      rw [resolveVars_fuel_mono fuel folded [] p2 hp]
      simp only
      split at h
      · cases h
      · rename_i a2 ha
        rw [resolveList_fuel_mono p2 fuel att a2 ha]
        exact h

/-- a successful `Resolve` is a successful run of its core on a preamble without a cycle -/
theorem resolve_ok {fuel : Nat} {pre : List Rule} {att : List (List Char)} {res : List Rule × List (List Char)}
    (h : resolve fuel pre att = .ok res) : resolveCore fuel pre att = .ok res := by
  unfold resolve at h
  split at h
  · cases h
  · split at h
    · cases h
    · exact h

theorem resolve_noRef (fuel : Nat) (pre : List Rule) (att : List (List Char)) (pre' : List Rule)
    (att' : List (List Char)) (hs : ∀ r ∈ pre, VarShaped r) (h : resolve fuel pre att = .ok (pre', att')) :
    VarsResolved pre' ∧ ∀ a ∈ att', NoRef a := resolveCore_noRef fuel pre att pre' att' hs (resolve_ok h)

theorem resolve_fuel_mono (fuel : Nat) (pre : List Rule) (att : List (List Char)) (res : List Rule × List (List Char))
    (h : resolve fuel pre att = .ok res) : resolve (fuel + 1) pre att = .ok res := by
  have hc := resolveCore_fuel_mono fuel pre att res (resolve_ok h)
  unfold resolve at h ⊢
  split at h
  · cases h
  · next folded hf =>
    split at h
    · cases h
    · next hcy =>
      simp only [hcy, Bool.false_eq_true, if_false]
      exact hc

end Aa
