/-!
# Aa.Rule — generic representation of the rules of `pkg/aa`

Every Go rule struct is a kind, a qualifier (audit, access type), the `Base` bookkeeping
(comment and three flags) and a list of fields in declaration order; a field is a string, a
list of strings or a boolean.  The per-kind behaviour of `Compare` and `Merge` is a *schema*
(`AaVerif.Aa.Schema`), so that one set of theorems covers all kinds.
-/
namespace Aa

inductive Fld where
  | s (v : List Char)
  | l (v : List (List Char))
  | b (v : Bool)
deriving Repr, DecidableEq, Inhabited

structure Rule where
  kind : String
  audit : Bool := false
  accessType : List Char := []
  comment : List Char := []
  noNewPrivs : Bool := false
  fileInherit : Bool := false
  optional : Bool := false
  flds : List Fld := []
deriving Repr, DecidableEq, Inhabited

def Fld.str : Fld → List Char
  | .s v => v
  | _ => []
def Fld.list : Fld → List (List Char)
  | .l v => v
  | _ => []
def Fld.bool : Fld → Bool
  | .b v => v
  | _ => false

def Rule.fld (r : Rule) (i : Nat) : Fld := r.flds.getD i (.s [])

def Rule.setFld (r : Rule) (i : Nat) (f : Fld) : Rule := { r with flds := r.flds.set i f }

end Aa
