import AaVerif.Aa.Cmp
/-! # Aa.Sort — the reference sort is sorted, a permutation, and input-order independent -/
namespace Aa

theorem insertBy_perm {α : Type} (cmp : α → α → Int) (x : α) : ∀ l, (insertBy cmp x l).Perm (x :: l)
  | [] => List.Perm.refl _
  | y :: ys => by
    simp only [insertBy]
    split
    · exact List.Perm.refl _
    · exact ((insertBy_perm cmp x ys).cons y).trans (List.Perm.swap x y ys)

theorem sortBy_perm {α : Type} (cmp : α → α → Int) : ∀ l, (sortBy cmp l).Perm l
  | [] => List.Perm.refl _
  | x :: xs => (insertBy_perm cmp x (sortBy cmp xs)).trans ((sortBy_perm cmp xs).cons x)

theorem insertBy_sorted {α : Type} {D : α → Prop} {c : α → α → Int} (h : IsOrd D c) (x : α) (hx : D x) :
    ∀ l, (∀ a ∈ l, D a) → l.Pairwise (fun a b => c a b ≤ 0) →
      (insertBy c x l).Pairwise (fun a b => c a b ≤ 0)
  | [], _, _ => by simp [insertBy]
  | y :: ys, hD, hs => by
    have hy := hD y (by simp)
    have hys : ∀ a ∈ ys, D a := fun a ha => hD a (by simp [ha])
    rw [List.pairwise_cons] at hs
    simp only [insertBy]
    split
    · rename_i hxy
      rw [List.pairwise_cons]
      refine ⟨?_, List.pairwise_cons.mpr hs⟩
      intro z hz
      simp only [List.mem_cons] at hz
      rcases hz with rfl | hz
      · exact hxy
      · exact h.trans x y z hx hy (hys z hz) hxy (hs.1 z hz)
    · rename_i hxy
      rw [List.pairwise_cons]
      refine ⟨?_, insertBy_sorted h x hx ys hys hs.2⟩
      intro z hz
      have := (insertBy_perm c x ys).subset hz
      simp only [List.mem_cons] at this
      rcases this with rfl | hz'
      · have := h.antisymm z y; omega
      · exact hs.1 z hz'

theorem sortBy_sorted {α : Type} {D : α → Prop} {c : α → α → Int} (h : IsOrd D c) :
    ∀ l, (∀ a ∈ l, D a) → (sortBy c l).Pairwise (fun a b => c a b ≤ 0)
  | [], _ => by simp [sortBy]
  | x :: xs, hD => by
    simp only [sortBy]
    apply insertBy_sorted h x (hD x (by simp))
    · intro a ha
      exact hD a (by simp [(sortBy_perm c xs).subset ha])
    · exact sortBy_sorted h xs (fun a ha => hD a (by simp [ha]))

/-- **Sorting does not depend on the order in which the elements are supplied** (e.g. on the
iteration order of a Go map), for a comparator that is a total preorder with identity. -/
theorem sortBy_perm_invariant {α : Type} {D : α → Prop} {c : α → α → Int} (h : IsOrd D c)
    {l₁ l₂ : List α} (hp : l₁.Perm l₂) (hD : ∀ a ∈ l₁, D a) : sortBy c l₁ = sortBy c l₂ := by
  have hD2 : ∀ a ∈ l₂, D a := fun a ha => hD a (hp.symm.subset ha)
  have p : (sortBy c l₁).Perm (sortBy c l₂) := (sortBy_perm c l₁).trans (hp.trans (sortBy_perm c l₂).symm)
  apply p.eq_of_pairwise _ (sortBy_sorted h l₁ hD) (sortBy_sorted h l₂ hD2)
  intro a b ha hb hab hba
  have ha' : a ∈ l₁ := (sortBy_perm c l₁).subset ha
  have hb' : b ∈ l₂ := (sortBy_perm c l₂).subset hb
  have : c a b = 0 := by have := h.antisymm a b; omega
  exact h.eq_of_zero a b (hD a ha') (hD2 b hb') this

end Aa
