import AaVerif.Proto
import AaVerif.Aa.Merge
/-! # Aa.Wire — the wire form of rules (see harness/cmd/vharness/rules.go) -/
namespace Aa
open Proto

/-- field types per kind, in declaration order: 0 string, 1 list, 2 bool -/
def fldTypes : String → List Nat
  | "capability" => [1]
  | "network" => [0, 0, 0, 0, 0, 0]
  | "mount" => [0, 1, 0, 0]
  | "umount" => [0, 1, 0]
  | "remount" => [0, 1, 0]
  | "pivot_root" => [0, 0, 0]
  | "change_profile" => [0, 0, 0]
  | "mqueue" => [1, 0, 0, 0]
  | "io_uring" => [1, 0]
  | "signal" => [1, 1, 0]
  | "ptrace" => [1, 0]
  | "unix" => [1, 0, 0, 0, 0, 0, 0, 0, 0]
  | "dbus" => [1, 0, 0, 0, 0, 0, 0, 0]
  | "rlimit" => [0, 0, 0]
  | "userns" => [2]
  | "all" => []
  | "file" => [2, 0, 1, 0]
  | "link" => [2, 2, 0, 0]
  | "comment" => []
  | "abi" => [0, 2]
  | "alias" => [0, 0]
  | "include" => [2, 0, 2]
  | "variable" => [0, 1, 2]
  | "hat" => [0]
  | "profile" => [0, 1, 1, 1]
  | _ => []

def decFld (ty : Nat) (w : List Char) : Fld :=
  match ty with
  | 0 => .s (unescChars w)
  | 1 => .l (unescList (String.ofList w))
  | _ => .b (w == ['1'])

def encFld : Fld → String
  | .s v => esc v
  | .l v => escList v
  | .b v => b2s v

def decodeRule (w : String) : Option Rule :=
  if w == "nil" then none else
  let p := splitOnChar '|' w.toList
  let kind := String.ofList (p.headD [])
  let g (i : Nat) : List Char := p.getD i []
  let tys := fldTypes kind
  some { kind := kind, audit := g 1 == ['1'], accessType := unescChars (g 2), comment := unescChars (g 3),
         noNewPrivs := g 4 == ['1'], fileInherit := g 5 == ['1'], optional := g 6 == ['1'],
         flds := (List.range tys.length).map (fun i => decFld (tys.getD i 0) (g (7 + i))) }

def encodeRule : Option Rule → String
  | none => "nil"
  | some r =>
    String.intercalate "|" ([r.kind, b2s r.audit, esc r.accessType, esc r.comment, b2s r.noNewPrivs,
      b2s r.fileInherit, b2s r.optional] ++ r.flds.map encFld)

def encodeRules (l : List (Option Rule)) : String := String.intercalate "\t" (l.map encodeRule)

end Aa
