import AaVerif.Aa.Sort
/-!
# Directive — what the generating directives document (`dbus`, `exec`, `stack`), as rule
structures / line filters.  The dbus families transcribe pkg/prebuild/directive/dbus.go and are
compared, on every run, with what the library's own parser reads back from the text the real
directive produced.
-/
namespace Directive
open Aa

structure DbusArgs where
  bus : List Char
  name : List Char              -- as written in the directive
  path : Option (List Char)
  iface : Option (List Char)
  ifacePlus : Option (List Char)
  label : List Char

def replaceDots (s : List Char) : List Char := s.map (fun c => if c == '.' then '/' else c)

def DbusArgs.pathV (a : DbusArgs) : List Char :=
  match a.path with
  | some p => p
  | none => '/' :: replaceDots a.name ++ "{,/**}".toList

def DbusArgs.nameV (a : DbusArgs) : List Char := a.name ++ "{,.*}".toList

def DbusArgs.interfaces (a : DbusArgs) : List (List Char) :=
  (match a.iface with | some i => [i] | none => [a.nameV]) ++ (match a.ifacePlus with | some i => [i] | none => [])

def s (x : String) : List Char := x.toList

/-- a dbus rule: Access, Bus, Name, Path, Interface, Member, PeerName, PeerLabel -/
def dbusRule (acc : List String) (bus name path iface member peerName peerLabel : List Char) : Rule :=
  { kind := "dbus", flds := [.l (acc.map String.toList), .s bus, .s name, .s path, .s iface, .s member, .s peerName, .s peerLabel] }

def busname : List Char := s "\"@{busname}\""
def busOrDaemon : List Char := s "\"{@{busname},org.freedesktop.DBus}\""
def busOr (n : List Char) : List Char := s "\"{@{busname}," ++ n ++ s "}\""

def own (a : DbusArgs) : List Rule :=
  let p := a.pathV
  [{ kind := "include", flds := [.b false, .s (s "abstractions/bus/own-" ++ a.bus), .b true] },
   dbusRule ["bind"] a.bus a.nameV [] [] [] [] []] ++
  a.interfaces.flatMap (fun i =>
    [dbusRule ["receive"] a.bus [] p i [] busname [], dbusRule ["send"] a.bus [] p i [] busOrDaemon []]) ++
  [dbusRule ["send", "receive"] a.bus [] p (s "org.freedesktop.DBus.Properties") (s "{Get,GetAll,Set,PropertiesChanged}") busOrDaemon [],
   dbusRule ["receive"] a.bus [] p (s "org.freedesktop.DBus.Introspectable") (s "Introspect") busname [],
   dbusRule ["receive"] a.bus [] p (s "org.freedesktop.DBus.ObjectManager") (s "GetManagedObjects") (busOr a.nameV) [],
   dbusRule ["send"] a.bus [] p (s "org.freedesktop.DBus.ObjectManager") (s "{InterfacesAdded,InterfacesRemoved}") busOrDaemon []]

def talk (a : DbusArgs) : List Rule :=
  let p := a.pathV
  let pn := busOr a.nameV
  a.interfaces.map (fun i => dbusRule ["send", "receive"] a.bus [] p i [] pn a.label) ++
  [dbusRule ["send", "receive"] a.bus [] p (s "org.freedesktop.DBus.Properties") (s "{Get,GetAll,Set,PropertiesChanged}") pn a.label,
   dbusRule ["send"] a.bus [] p (s "org.freedesktop.DBus.Introspectable") (s "Introspect") pn a.label,
   dbusRule ["send"] a.bus [] p (s "org.freedesktop.DBus.ObjectManager") (s "GetManagedObjects") pn a.label,
   dbusRule ["receive"] a.bus [] p (s "org.freedesktop.DBus.ObjectManager") (s "{InterfacesAdded,InterfacesRemoved}") pn a.label]

def common (a : DbusArgs) : List Rule :=
  let p := a.pathV
  let pn := busOr a.nameV
  [dbusRule ["send"] a.bus [] p (s "org.freedesktop.DBus.Properties") (s "{Get,GetAll}") pn a.label,
   dbusRule ["receive"] a.bus [] p (s "org.freedesktop.DBus.Properties") (s "PropertiesChanged") pn a.label,
   dbusRule ["send"] a.bus [] p (s "org.freedesktop.DBus.Introspectable") (s "Introspect") pn a.label]

def isDbus (r : Rule) : Bool := r.kind == "dbus"
def busOf (r : Rule) : List Char := (r.fld 1).str
def labelOf (r : Rule) : List Char := (r.fld 7).str

/-- `exec`: one file rule with the requested transition per executable, sorted -/
def execRules (cmp : Rule → Rule → Int) (transition : List Char) (paths : List (List Char)) : List Rule :=
  sortBy cmp (paths.map (fun p => { kind := "file", flds := [.b false, .s p, .l [transition], .s []] }))

/-- `stack`: which lines of a stacked profile's body are dropped -/
def isInfixB (p t : List Char) : Bool :=
  match t with
  | [] => p.isEmpty
  | c :: cs => p.isPrefixOf (c :: cs) || isInfixB p cs

/-- `(|P|p)(|U|u)(|i)x,` somewhere in the line -/
def hasExecTransition : List Char → Bool
  | [] => false
  | c :: cs =>
    let t := c :: cs
    let t1 := match t with | 'P' :: r => [r, t] | 'p' :: r => [r, t] | _ => [t]
    let t2 := t1.flatMap (fun u => match u with | 'U' :: r => [r, u] | 'u' :: r => [r, u] | _ => [u])
    let t3 := t2.flatMap (fun u => match u with | 'i' :: r => [r, u] | _ => [u])
    t3.any (fun u => ['x', ','].isPrefixOf u) || hasExecTransition cs

def dropLine (x : Bool) (l : List Char) : Bool :=
  isInfixB (s "include <abstractions/base>") l || isInfixB (s "@{exec_path}") l ||
  (!x && hasExecTransition l) || l.all (fun c => c == ' ' || c == '\t')

def stackClean (x : Bool) (body : List (List Char)) : List (List Char) := body.filter (fun l => !dropLine x l)

end Directive
