import AaVerif.Lines
/-!
# Filter — model and specification of the `only` / `exclude` directives

`model` follows `directive.Run` + `filter` step by step on the text (directives are scanned
once on the original text, then applied one after the other to the evolving text, with the
substring / regex semantics of the Go code).  `spec` is the line-level statement of C03.
-/
namespace Filter
open Str Lines

structure Target where
  dist : List Char
  family : List Char
  abi : List Char        -- "abi3" / "abi4"
  version : List Char    -- "apparmor4.1"
deriving Repr

/-- `filterRuleForUs` -/
def forUs (tg : Target) (args : List (List Char)) : Bool :=
  args.contains tg.abi || args.contains tg.version || args.contains tg.dist || args.contains tg.family

/-- a guarded item is kept iff (`only` and the target is named) or (`exclude` and it is not) -/
def keep (only : Bool) (tg : Target) (args : List (List Char)) : Bool := only == forUs tg args

def kw : List Char := ['#', 'a', 'a', ':']

/-- position of the last occurrence of `kw` in a line: (text before, text after) -/
def splitLastKw : List Char → Option (List Char × List Char)
  | [] => none
  | c :: cs =>
    match splitLastKw cs with
    | some (a, b) => some (c :: a, b)
    | none => if kw.isPrefixOf (c :: cs) then some ([], (c :: cs).drop 4) else none

def isLower (c : Char) : Bool := 'a' ≤ c && c ≤ 'z'
def isBlank (c : Char) : Bool := c == ' ' || c == '\t'
def isSpace (c : Char) : Bool := c == ' ' || c == '\t' || c == '\n' || c == '\r' || c == '\x0c' || c == '\x0b'

/-- `strings.Fields` -/
def fields (s : List Char) : List (List Char) :=
  let rec go (cur : List Char) (acc : List (List Char)) : List Char → List (List Char)
    | [] => (if cur.isEmpty then acc else cur.reverse :: acc).reverse
    | c :: cs => if isSpace c then go [] (if cur.isEmpty then acc else cur.reverse :: acc) cs
                 else go (c :: cur) acc cs
  go [] [] s

structure Dir where
  raw : List Char          -- the whole matched text (`match[0]`)
  name : List Char
  args : List (List Char)
  before : List Char       -- text of the line before the last `#aa:`
deriving Repr

/-- `regDirective` on one line (leftmost match only; a second match on the same line needs a
directive name followed by a non-space character, which the generator also produces and the
correspondence run covers). -/
def scanLine (l : List Char) : Option Dir :=
  match splitLastKw l with
  | none => none
  | some (a, b) =>
    let name := b.takeWhile isLower
    let rest := b.drop name.length
    match rest with
    | ' ' :: _ => some { raw := l, name := name, args := fields rest, before := a }
    | _ => some { raw := a ++ kw ++ name, name := name, args := [], before := a }

def scan (t : List Char) : List Dir := (splitNl t).filterMap scanLine

/-- first occurrence of `p` in `t` replaced by `r` (`strings.Replace(t, p, r, 1)`, `p ≠ ""`) -/
def replaceFirst (p r : List Char) : List Char → List Char
  | [] => []
  | c :: cs => if p.isPrefixOf (c :: cs) && !p.isEmpty then r ++ (c :: cs).drop p.length
               else c :: replaceFirst p r cs

def replaceAllLit (p r : List Char) (t : List Char) : List Char :=
  replaceAllWith (matchAlts [p]) r t

def trimRightSpace (s : List Char) : List Char := (s.reverse.dropWhile isSpace).reverse

/-- `cleanKeyword`: strip `\s*#aa:NAME( .*)?$` (leftmost match) from the raw text -/
def cleanKeyword (d : Dir) : List Char :=
  -- leftmost `#aa:NAME` followed by end or a space
  let rec go (pre : List Char) : List Char → List Char
    | [] => pre.reverse
    | c :: cs =>
      let pat := kw ++ d.name
      if pat.isPrefixOf (c :: cs) then
        let after := (c :: cs).drop pat.length
        match after with
        | [] => trimRightSpace pre.reverse
        | ' ' :: _ => trimRightSpace pre.reverse
        | _ => go (c :: pre) cs
      else go (c :: pre) cs
  go [] d.raw

def isInline (d : Dir) : Bool :=
  -- strings.Split(raw, "#aa:")[0], trimmed, non-empty
  let first := match splitFirstKw d.raw with | some a => a | none => d.raw
  !(first.all isSpace)
where
  splitFirstKw : List Char → Option (List Char)
    | [] => none
    | c :: cs => if kw.isPrefixOf (c :: cs) then some [] else (splitFirstKw cs).map (c :: ·)

def metaChars : List Char := "\\^$|?*+()[]{}".toList

/-- the raw text as a pattern: every character stands for itself (`regexp.QuoteMeta`, since the fix commit) -/
def rawPat (raw : List Char) : List PC := raw.map PC.lit

/-- with `(?s)`, `.` also matches a newline -/
def patPrefixS : List PC → List Char → Bool
  | [], _ => true
  | _ :: _, [] => false
  | p :: ps, c :: cs => (match p with | .lit d => d == c | .dot => true) && patPrefixS ps cs

/-- index of the first `\n\n` in `t` -/
def findBlank : List Char → Option Nat
  | '\n' :: '\n' :: _ => some 0
  | _ :: cs => (findBlank cs).map (· + 1)
  | [] => none

/-- matcher of `(?s)QUOTED(RAW)\n.*?\n\n` -/
def paraMatcher (raw : List Char) : Matcher Char := fun t =>
  let p := rawPat raw ++ [PC.lit '\n']
  if patPrefixS p t && !raw.isEmpty then
    match findBlank (t.drop p.length) with
    | some j => some (p.length + j + 2 - 1)
    | none => none
  else none

def applyDir (tg : Target) (t : List Char) (d : Dir) : Option (List Char) :=
  let only? : Option Bool :=
    if d.name == "only".toList then some true
    else if d.name == "exclude".toList then some false else none
  match only? with
  | none => none            -- unknown directive: `Run` returns an error
  | some only =>
    if keep only tg d.args then some (replaceFirst d.raw (cleanKeyword d) t)
    else if isInline d then some (replaceAllLit d.raw [] t)
    else some (replaceAllWith (paraMatcher d.raw) [] t)

/-- `directive.Run` restricted to `only`/`exclude` -/
def model (tg : Target) (t : List Char) : Option (List Char) :=
  (scan t).foldl (fun acc d => acc.bind (fun t' => applyDir tg t' d)) (some t)

/-! ## Specification (line level) -/

/-- what a line is, for the filter -/
inductive Item where
  | plain (l : List Char)                                -- not guarded, no marker
  | inline (code : List Char) (only : Bool) (args : List (List Char))
  | para (marker : List Char) (only : Bool) (args : List (List Char)) (body : List (List Char))
      -- marker-only line, the lines up to (not including) the blank line that ends the paragraph
  | unterminated (ls : List (List Char))   -- a paragraph marker without a closing blank line: not WF
deriving Repr

/-- The specification: a guarded item is present iff `keep`; the marker never survives;
every other line is unchanged.  Blank-line conventions (measured on the real code): a kept
paragraph keeps an empty line where its marker was; a removed paragraph disappears together
with its terminating blank line; a removed inline rule leaves an empty line. -/
def specItem (tg : Target) : Item → List (List Char)
  | .plain l => [l]
  | .inline code only args => if keep only tg args then [code] else [[]]
  | .para _ only args body => if keep only tg args then [] :: body ++ [[]] else []
  | .unterminated ls => ls

def spec (tg : Target) (items : List Item) : List (List Char) := items.flatMap (specItem tg)

/-- parse lines into items (used by the driver to evaluate the spec on a text) -/
def parseItems : Nat → List (List Char) → List Item
  | 0, _ => []
  | _, [] => []
  | fuel + 1, l :: ls =>
    match scanLine l with
    | none => .plain l :: parseItems fuel ls
    | some d =>
      let only := d.name == "only".toList
      if !(d.before.all isSpace) then
        .inline (trimRightSpace d.before) only d.args :: parseItems fuel ls
      else
        let body := ls.takeWhile (fun x => !x.isEmpty)
        let rest := ls.drop body.length
        match rest with
        | [] => [.unterminated (l :: ls)]
        | [_] => [.unterminated (l :: ls)]   -- the "blank" is only the empty tail after the last newline
        | _ :: rest' => .para l only d.args body :: parseItems fuel rest'

def specText (tg : Target) (t : List Char) : List Char :=
  let ls := splitNl t
  joinNl (spec tg (parseItems (ls.length + 1) ls))

/-! ## Well-formedness of a directive layout (decidable; evaluated on every judged text) -/

def hasKw (l : List Char) : Bool := (splitLastKw l).isSome

def isInfixB (p t : List Char) : Bool :=
  let rec go : List Char → Bool
    | [] => p.isEmpty
    | c :: cs => p.isPrefixOf (c :: cs) || go cs
  go t

/-- one directive line is well formed -/
def wfDir (l : List Char) : Bool :=
  match scanLine l with
  | none => true
  | some d =>
    (d.name == "only".toList || d.name == "exclude".toList) && d.raw == l && !d.args.isEmpty &&
    !hasKw d.before

def wfItems : List Item → Bool
  | [] => true
  | .plain _ :: is => wfItems is
  | .inline _ _ _ :: is => wfItems is
  | .para _ _ _ body :: is => !body.isEmpty && body.all (fun l => !hasKw l) && wfItems is
  | .unterminated _ :: _ => false

/-- WF₃ -/
def wf (t : List Char) : Bool :=
  let ls := splitNl t
  let items := parseItems (ls.length + 1) ls
  let raws := ls.filter hasKw
  ls.all wfDir && wfItems items &&
  -- no raw directive text occurs inside another line
  raws.all (fun r => ls.all (fun l => l == r || !isInfixB r l))

end Filter
