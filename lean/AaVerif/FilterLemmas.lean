import AaVerif.Filter
import AaVerif.Flags
/-!
# FilterLemmas — from the text-level semantics of `only` / `exclude` to lines

`Filter.model` follows the Go code: every directive is applied to the *whole text* with substring
semantics (`strings.Replace(text, raw, clean, 1)`, `strings.ReplaceAll(text, raw, "")`).  The lemmas here
show that, for directives written after a rule on the same line (the inline form) in a text whose
directive lines do not occur inside other lines, this is the line-by-line rewriting the property
speaks about — for any number of directives.
-/
namespace Filter
open Str Lines Flags

/-! ### `strings.Replace(_, p, r, 1)` and lines -/

/-- `p` (not empty) occurs somewhere in `a` -/
def hasOcc (p : List Char) : List Char → Bool
  | [] => false
  | c :: cs => (p.isPrefixOf (c :: cs) && !p.isEmpty) || hasOcc p cs

theorem replaceFirst_no_occ (p r : List Char) : ∀ (a : List Char), hasOcc p a = false → replaceFirst p r a = a
  | [], _ => rfl
  | c :: cs, h => by
    simp only [hasOcc, Bool.or_eq_false_iff] at h
    simp only [replaceFirst, h.1, Bool.false_eq_true, if_false]
    rw [replaceFirst_no_occ p r cs h.2]

theorem isPrefixOf_append_nl {p a b : List Char} (hp : nl ∉ p) :
    p.isPrefixOf (a ++ nl :: b) = p.isPrefixOf a := by
  cases h : p.isPrefixOf a with
  | true =>
    rw [List.isPrefixOf_iff_prefix] at h ⊢
    exact h.trans (List.prefix_append _ _)
  | false =>
    cases h2 : p.isPrefixOf (a ++ nl :: b) with
    | false => rfl
    | true =>
      rw [List.isPrefixOf_iff_prefix] at h2
      have := prefix_append_sep hp h2
      rw [← List.isPrefixOf_iff_prefix] at this
      rw [this] at h; cases h

/-- the first occurrence of a newline-free word is looked for line by line -/
theorem replaceFirst_cut (p r : List Char) (hp : nl ∉ p) (b : List Char) :
    ∀ (a : List Char), nl ∉ a → replaceFirst p r (a ++ nl :: b) =
      if hasOcc p a then replaceFirst p r a ++ nl :: b else a ++ nl :: replaceFirst p r b
  | [], _ => by
    have h1 : (p.isPrefixOf (nl :: b) && !p.isEmpty) = false := by
      cases p with
      | nil => rfl
      | cons c cs =>
        have : c ≠ nl := fun e => hp (by simp [e])
        simp [List.isPrefixOf, this]
    simp only [List.nil_append, hasOcc, Bool.false_eq_true, if_false]
    rw [replaceFirst]
    simp only [h1, Bool.false_eq_true, if_false]
  | c :: cs, ha => by
    have hcs : nl ∉ cs := fun h => ha (List.mem_cons_of_mem _ h)
    have ih := replaceFirst_cut p r hp b cs hcs
    have hpre : p.isPrefixOf ((c :: cs) ++ nl :: b) = p.isPrefixOf (c :: cs) := isPrefixOf_append_nl hp
    simp only [List.cons_append] at hpre ⊢
    rw [replaceFirst]
    simp only [hpre, hasOcc]
    by_cases h1 : (p.isPrefixOf (c :: cs) && !p.isEmpty) = true
    · simp only [h1, if_true, Bool.true_or, replaceFirst]
      simp only [Bool.and_eq_true] at h1
      have hpx : p <+: c :: cs := List.isPrefixOf_iff_prefix.mp h1.1
      have hlen : p.length ≤ (c :: cs).length := hpx.length_le
      rw [show c :: (cs ++ nl :: b) = (c :: cs) ++ nl :: b from rfl, List.drop_append_of_le_length hlen]
      simp
    · have h1' : (p.isPrefixOf (c :: cs) && !p.isEmpty) = false := by simpa using h1
      simp only [h1', Bool.false_eq_true, if_false, Bool.false_or, ih]
      by_cases h2 : hasOcc p cs = true
      · simp [h2, replaceFirst, h1']
      · have h2' : hasOcc p cs = false := by simpa using h2
        simp [h2']

/-- the first line that holds `p` is the one rewritten -/
def rfLines (p r : List Char) : List (List Char) → List (List Char)
  | [] => []
  | l :: ls => if hasOcc p l then replaceFirst p r l :: ls else l :: rfLines p r ls

theorem replaceFirst_join (p r : List Char) (hp : nl ∉ p) : ∀ (ls : List (List Char)), (∀ l ∈ ls, nl ∉ l) →
    replaceFirst p r (joinNl ls) = joinNl (rfLines p r ls)
  | [], _ => rfl
  | [a], _ => by
    simp only [joinNl, rfLines]
    by_cases h : hasOcc p a = true
    · simp [h, joinNl]
    · have h' : hasOcc p a = false := by simpa using h
      simp [h', joinNl, replaceFirst_no_occ p r a h']
  | a :: b :: l, h => by
    have ha := h a (by simp)
    have ih := replaceFirst_join p r hp (b :: l) (fun x hx => h x (by simp [hx]))
    simp only [joinNl] at ih ⊢
    rw [replaceFirst_cut p r hp _ a ha]
    rw [show rfLines p r (a :: b :: l) = (if hasOcc p a then replaceFirst p r a :: b :: l else a :: rfLines p r (b :: l)) from rfl]
    by_cases h1 : hasOcc p a = true
    · simp [h1, joinNl]
    · have h1' : hasOcc p a = false := by simpa using h1
      simp only [h1', Bool.false_eq_true, if_false]
      rw [ih]
      cases hr : rfLines p r (b :: l) with
      | nil =>
        -- rfLines keeps the number of lines
        simp only [rfLines] at hr
        split at hr <;> simp at hr
      | cons x xs => rfl

/-! ### occurrences -/

theorem hasOcc_iff (p : List Char) : ∀ (a : List Char), hasOcc p a = true ↔ (p ≠ [] ∧ p <:+: a)
  | [] => by
    simp only [hasOcc, Bool.false_eq_true, false_iff, not_and]
    intro hne hin
    exact hne (List.eq_nil_of_infix_nil hin)
  | c :: cs => by
    have ih := hasOcc_iff p cs
    simp only [hasOcc, Bool.or_eq_true, Bool.and_eq_true, ih, List.isPrefixOf_iff_prefix, Bool.not_eq_true',
      List.isEmpty_eq_false_iff]
    constructor
    · rintro (⟨h1, h2⟩ | ⟨h1, h2⟩)
      · exact ⟨h2, h1.isInfix⟩
      · exact ⟨h1, h2.trans (List.suffix_cons c cs).isInfix⟩
    · rintro ⟨hne, hin⟩
      rcases List.infix_cons_iff.mp hin with h | h
      · exact Or.inl ⟨h, hne⟩
      · exact Or.inr ⟨hne, h⟩

theorem hasOcc_self (p : List Char) (h : p ≠ []) : hasOcc p p = true :=
  (hasOcc_iff p p).mpr ⟨h, List.infix_refl p⟩

theorem hasOcc_of_prefix {p a b : List Char} (hab : a <+: b) (h : hasOcc p a = true) : hasOcc p b = true := by
  rw [hasOcc_iff] at h ⊢
  exact ⟨h.1, h.2.trans hab.isInfix⟩

theorem hasOcc_nil_right (p : List Char) : hasOcc p [] = false := rfl

/-! ### `strings.ReplaceAll(_, p, "")` and lines -/

theorem matchAlts_single (p s : List Char) :
    matchAlts [p] s = if (p.isPrefixOf s && !p.isEmpty) = true then some (p.length - 1) else none := by
  unfold matchAlts
  simp only [List.find?_cons, List.find?_nil]
  cases (p.isPrefixOf s && !p.isEmpty) <;> rfl

theorem matchAlts_single_lineLocal (p : List Char) (hp : nl ∉ p) : LineLocal (matchAlts [p]) where
  nil := by
    rw [matchAlts_single]
    cases p with
    | nil => simp
    | cons c cs => simp [List.isPrefixOf]
  inLine := by
    intro s n h
    rw [matchAlts_single] at h
    by_cases hh : (p.isPrefixOf s && !p.isEmpty) = true
    · rw [if_pos hh] at h
      simp only [Bool.and_eq_true, Bool.not_eq_true', List.isEmpty_eq_false_iff] at hh
      simp only [Option.some.injEq] at h
      have hpx : p <+: s := List.isPrefixOf_iff_prefix.mp hh.1
      have hlen : 0 < p.length := List.length_pos_iff.mpr hh.2
      have : n + 1 = p.length := by omega
      rw [this, ← List.prefix_iff_eq_take.mp hpx]
      exact hp
    · rw [if_neg hh] at h; cases h
  cut := by
    intro a b ha
    rw [matchAlts_single, matchAlts_single, isPrefixOf_append_nl hp]

theorem replaceAllLit_no_occ (p : List Char) (x : List Char) (h : hasOcc p x = false) : replaceAllLit p [] x = x := by
  unfold replaceAllLit
  apply replace_id_of_no_match
  intro s hs
  rw [matchAlts_single]
  by_cases hh : (p.isPrefixOf s && !p.isEmpty) = true
  · exfalso
    simp only [Bool.and_eq_true, Bool.not_eq_true', List.isEmpty_eq_false_iff] at hh
    have : hasOcc p x = true := by
      rw [hasOcc_iff]
      exact ⟨hh.2, (List.isPrefixOf_iff_prefix.mp hh.1).isInfix.trans hs.isInfix⟩
    rw [h] at this; cases this
  · rw [if_neg hh]

theorem replaceAllLit_self (p : List Char) (h : p ≠ []) : replaceAllLit p [] p = [] := by
  unfold replaceAllLit
  cases p with
  | nil => exact absurd rfl h
  | cons c cs =>
    have hm : matchAlts [c :: cs] (c :: cs) = some ((c :: cs).length - 1) := by
      rw [matchAlts_single, if_pos]
      simp
    rw [replaceAllWith_cons_some hm]
    simp [replaceAllWith_nil]

/-! ### what a kept directive line becomes -/

theorem trimRightSpace_prefix (x : List Char) : trimRightSpace x <+: x := by
  unfold trimRightSpace
  have h : x.reverse.dropWhile isSpace <:+ x.reverse := List.dropWhile_suffix _
  have := List.reverse_prefix.mpr h
  simpa using this

theorem cleanKeyword_go_prefix (d : Dir) : ∀ (rest pre : List Char), cleanKeyword.go d pre rest <+: pre.reverse ++ rest
  | [], pre => by simp [cleanKeyword.go]
  | c :: cs, pre => by
    have ih := cleanKeyword_go_prefix d cs (c :: pre)
    have e : (c :: pre).reverse ++ cs = pre.reverse ++ c :: cs := by simp
    rw [e] at ih
    have htr : trimRightSpace pre.reverse <+: pre.reverse ++ c :: cs :=
      (trimRightSpace_prefix _).trans (List.prefix_append _ _)
    rw [cleanKeyword.go]
    simp only
    split
    · split
      · exact htr
      · exact htr
      · exact ih
    · exact ih

theorem cleanKeyword_prefix (d : Dir) : cleanKeyword d <+: d.raw := by
  have := cleanKeyword_go_prefix d d.raw []
  simpa [cleanKeyword] using this

/-- the line-level meaning of the two directives on one line: a line without a marker is itself; a guarded
line is its code without the marker when the target is selected, and empty otherwise -/
def lineSpec (tg : Target) (l : List Char) : List Char :=
  match scanLine l with
  | none => l
  | some d => if keep (d.name == "only".toList) tg d.args then cleanKeyword d else []

/-- a directive line in the inline form: `only` or `exclude`, the matched text is the whole line, and there
is code before the marker -/
def goodDir (l : List Char) (d : Dir) : Bool :=
  (d.name == "only".toList || d.name == "exclude".toList) && d.raw == l && isInline d && !l.isEmpty

/-- Well-formed layout, inline form only: every directive line is `goodDir`, and its text occurs in no other line
of the file (neither before nor after it) -/
def wfFrom (seen : List (List Char)) : List (List Char) → Bool
  | [] => true
  | l :: rest =>
    (match scanLine l with
     | none => true
     | some d => goodDir l d && seen.all (fun x => !hasOcc l x) && rest.all (fun x => !hasOcc l x))
    && wfFrom (seen ++ [l]) rest

def wfInline (ls : List (List Char)) : Bool := ls.all (fun l => !l.contains nl) && wfFrom [] ls

theorem lineSpec_prefix (tg : Target) (l : List Char) (h : ∀ d, scanLine l = some d → d.raw = l) :
    lineSpec tg l <+: l := by
  unfold lineSpec
  cases hs : scanLine l with
  | none => exact List.prefix_refl l
  | some d =>
    simp only
    split
    · have := cleanKeyword_prefix d
      rw [h d hs] at this
      exact this
    · exact List.nil_prefix

theorem rfLines_skip (p r : List Char) : ∀ (pre : List (List Char)) (rest : List (List Char)),
    (∀ x ∈ pre, hasOcc p x = false) → rfLines p r (pre ++ rest) = pre ++ rfLines p r rest
  | [], _, _ => rfl
  | x :: xs, rest, h => by
    have hx := h x (by simp)
    simp only [List.cons_append, rfLines, hx, Bool.false_eq_true, if_false]
    rw [rfLines_skip p r xs rest (fun y hy => h y (by simp [hy]))]

theorem map_no_occ (p : List Char) : ∀ (xs : List (List Char)), (∀ x ∈ xs, hasOcc p x = false) →
    xs.map (replaceAllLit p []) = xs
  | [], _ => rfl
  | x :: xs, h => by
    rw [List.map_cons, replaceAllLit_no_occ p x (h x (by simp)), map_no_occ p xs (fun y hy => h y (by simp [hy]))]

/-! ### one directive, then all of them -/

theorem replaceFirst_self (p r : List Char) (h : p ≠ []) : replaceFirst p r p = r := by
  cases p with
  | nil => exact absurd rfl h
  | cons c cs =>
    rw [replaceFirst]
    have : ((c :: cs).isPrefixOf (c :: cs) && !(c :: cs).isEmpty) = true := by
      simp [List.isPrefixOf_iff_prefix]
    rw [if_pos this]
    simp

/-- applying one inline directive to the whole text rewrites exactly its own line -/
theorem applyDir_line (tg : Target) (l : List Char) (d : Dir) (hs : scanLine l = some d) (hg : goodDir l d = true)
    (seen rest : List (List Char)) (hnl : ∀ x ∈ seen ++ l :: rest, nl ∉ x)
    (h1 : ∀ x ∈ seen, hasOcc l x = false) (h2 : ∀ x ∈ rest, hasOcc l x = false) :
    applyDir tg (joinNl (seen ++ l :: rest)) d = some (joinNl (seen ++ lineSpec tg l :: rest)) := by
  simp only [goodDir, Bool.and_eq_true, Bool.or_eq_true, beq_iff_eq, Bool.not_eq_true', List.isEmpty_eq_false_iff] at hg
  obtain ⟨⟨⟨hname, hraw⟩, hinl⟩, hne⟩ := hg
  have hl : nl ∉ l := hnl l (by simp)
  have hspec : lineSpec tg l = if keep (d.name == "only".toList) tg d.args then cleanKeyword d else [] := by
    unfold lineSpec; rw [hs]
  have honly : (if d.name == "only".toList then some true
      else if d.name == "exclude".toList then some false else none) = some (d.name == "only".toList) := by
    rcases hname with hn | hn
    · simp [hn]
    · have : ("exclude".toList == "only".toList) = false := by decide
      simp [hn, this]
  unfold applyDir
  simp only [honly, hraw]
  by_cases hk : keep (d.name == "only".toList) tg d.args = true
  · rw [if_pos hk, hspec, if_pos hk]
    rw [replaceFirst_join l _ hl _ hnl, rfLines_skip l _ seen _ h1]
    simp only [rfLines, hasOcc_self l hne, if_true, replaceFirst_self l _ hne]
  · rw [if_neg hk, if_pos hinl, hspec, if_neg hk]
    unfold replaceAllLit
    rw [replace_join (matchAlts_single_lineLocal l hl) _ hnl]
    have e1 := map_no_occ l seen h1
    have e2 := map_no_occ l rest h2
    have e3 := replaceAllLit_self l hne
    unfold replaceAllLit at e1 e2 e3
    rw [List.map_append, List.map_cons, e1, e2, e3]

theorem nl_not_mem_lineSpec (tg : Target) (l : List Char) (h : ∀ d, scanLine l = some d → d.raw = l) (hl : nl ∉ l) :
    nl ∉ lineSpec tg l := fun hm => hl ((lineSpec_prefix tg l h).subset hm)

/-- **All the directives of a text, one after the other.**  `seen` are the lines already gone through (in
their original form), `todo` the lines still to come. -/
theorem model_lines (tg : Target) : ∀ (todo seen : List (List Char)),
    wfFrom seen todo = true → (∀ x ∈ seen ++ todo, nl ∉ x) →
    (∀ x ∈ seen, ∀ d, scanLine x = some d → d.raw = x) →
    (todo.filterMap scanLine).foldl (fun acc d => acc.bind (fun t' => applyDir tg t' d))
        (some (joinNl (seen.map (lineSpec tg) ++ todo))) =
      some (joinNl ((seen ++ todo).map (lineSpec tg)))
  | [], seen, _, _, _ => by simp
  | l :: rest, seen, hwf, hnl, hseen => by
    simp only [wfFrom, Bool.and_eq_true] at hwf
    obtain ⟨hhead, htail⟩ := hwf
    have hnl' : ∀ x ∈ (seen ++ [l]) ++ rest, nl ∉ x := by simpa using hnl
    cases hs : scanLine l with
    | none =>
      have hsp : lineSpec tg l = l := by unfold lineSpec; rw [hs]
      have hseen' : ∀ x ∈ seen ++ [l], ∀ d, scanLine x = some d → d.raw = x := by
        intro x hx d hd
        simp only [List.mem_append, List.mem_singleton] at hx
        rcases hx with hx | rfl
        · exact hseen x hx d hd
        · rw [hs] at hd; cases hd
      have ih := model_lines tg rest (seen ++ [l]) htail hnl' hseen'
      simp only [List.filterMap_cons, hs]
      simp only [List.map_append, List.map_cons, List.map_nil, hsp, List.append_assoc, List.singleton_append] at ih
      simpa [hsp] using ih
    | some d =>
      rw [hs] at hhead
      simp only [Bool.and_eq_true, List.all_eq_true, Bool.not_eq_true'] at hhead
      obtain ⟨⟨hg, ho1⟩, ho2⟩ := hhead
      have hraw : d.raw = l := by
        simp only [goodDir, Bool.and_eq_true, beq_iff_eq] at hg
        exact hg.1.1.2
      have hseen' : ∀ x ∈ seen ++ [l], ∀ d', scanLine x = some d' → d'.raw = x := by
        intro x hx d' hd
        simp only [List.mem_append, List.mem_singleton] at hx
        rcases hx with hx | rfl
        · exact hseen x hx d' hd
        · rw [hs] at hd; cases hd; exact hraw
      -- the processed lines do not hold the directive text either: each is a prefix of its original
      have ho1' : ∀ x ∈ seen.map (lineSpec tg), hasOcc l x = false := by
        intro x hx
        simp only [List.mem_map] at hx
        obtain ⟨y, hy, rfl⟩ := hx
        cases hc : hasOcc l (lineSpec tg y) with
        | false => rfl
        | true =>
          have := hasOcc_of_prefix (lineSpec_prefix tg y (hseen y hy)) hc
          rw [ho1 y hy] at this; cases this
      have hnl2 : ∀ x ∈ seen.map (lineSpec tg) ++ l :: rest, nl ∉ x := by
        intro x hx
        simp only [List.mem_append, List.mem_map, List.mem_cons] at hx
        rcases hx with ⟨y, hy, rfl⟩ | rfl | hx
        · exact nl_not_mem_lineSpec tg y (hseen y hy) (hnl y (by simp [hy]))
        · exact hnl _ (by simp)
        · exact hnl x (by simp [hx])
      have hstep := applyDir_line tg l d hs hg (seen.map (lineSpec tg)) rest hnl2 ho1' ho2
      have ih := model_lines tg rest (seen ++ [l]) htail hnl' hseen'
      simp only [List.filterMap_cons, hs, List.foldl_cons, Option.bind_some, hstep]
      simp only [List.map_append, List.map_cons, List.map_nil, List.append_assoc, List.singleton_append] at ih
      simpa using ih

/-- **Refinement, inline form** (any number of directives): on a text whose directives are all written after
a rule on the same line, each directive line occurring in no other line, the text-level model of `directive.Run`
(substring replacement on the whole text, one directive after the other) is the line-by-line rewriting. -/
theorem model_inline (tg : Target) (t : List Char) (h : wfInline (splitNl t) = true) :
    model tg t = some (joinNl ((splitNl t).map (lineSpec tg))) := by
  unfold wfInline at h
  simp only [Bool.and_eq_true, List.all_eq_true, Bool.not_eq_true'] at h
  have hnl : ∀ x ∈ [] ++ splitNl t, nl ∉ x := by
    intro x hx
    exact split_lines_no_nl t x (by simpa using hx)
  have := model_lines tg (splitNl t) [] h.2 hnl (by simp)
  unfold model scan
  simp only [List.map_nil, List.nil_append, join_split] at this
  exact this

/-! ### the same, as the item-level specification of `Filter.spec` -/

/-- in addition to `goodDir`: what is left of a kept line is the code before the marker, as the specification says -/
def goodDirSpec (l : List Char) (d : Dir) : Bool :=
  goodDir l d && !(d.before.all isSpace) && cleanKeyword d == trimRightSpace d.before

def wfInlineSpec (ls : List (List Char)) : Bool :=
  wfInline ls && ls.all (fun l => match scanLine l with | none => true | some d => goodDirSpec l d)

theorem parseItems_inline (tg : Target) : ∀ (ls : List (List Char)) (fuel : Nat), ls.length ≤ fuel →
    (∀ l ∈ ls, match scanLine l with | none => True | some d => goodDirSpec l d = true) →
    spec tg (parseItems fuel ls) = ls.map (lineSpec tg)
  | [], fuel, _, _ => by cases fuel <;> rfl
  | l :: rest, 0, h, _ => by simp at h
  | l :: rest, fuel + 1, h, hg => by
    have ih := parseItems_inline tg rest fuel (by simpa using h) (fun x hx => hg x (by simp [hx]))
    have hl := hg l (by simp)
    rw [parseItems]
    cases hs : scanLine l with
    | none =>
      simp only [spec] at ih
      simp only [spec, List.flatMap_cons, specItem, List.map_cons]
      rw [show lineSpec tg l = l from by unfold lineSpec; rw [hs]]
      rw [ih]; rfl
    | some d =>
      rw [hs] at hl
      simp only [goodDirSpec, Bool.and_eq_true, Bool.not_eq_true', beq_iff_eq] at hl
      obtain ⟨⟨_, hb⟩, hck⟩ := hl
      simp only [hb, Bool.not_false, if_true, spec, List.flatMap_cons, specItem, List.map_cons]
      simp only [spec] at ih
      rw [ih]
      have : lineSpec tg l = if keep (d.name == "only".toList) tg d.args then cleanKeyword d else [] := by
        unfold lineSpec; rw [hs]
      rw [this, hck]
      split <;> rfl

/-- **`Filter.model = Filter.specText` on the inline form.** -/
theorem model_eq_spec_inline (tg : Target) (t : List Char) (h : wfInlineSpec (splitNl t) = true) :
    model tg t = some (specText tg t) := by
  unfold wfInlineSpec at h
  simp only [Bool.and_eq_true, List.all_eq_true] at h
  rw [model_inline tg t h.1]
  unfold specText
  simp only
  rw [parseItems_inline tg (splitNl t) _ (Nat.le_succ _) (fun l hl => by
    have := h.2 l hl
    cases hs : scanLine l with
    | none => trivial
    | some d => rw [hs] at this; exact this)]

end Filter
