import AaVerif.FilterPara
/-!
# FilterMarker — no directive marker is left in the output

On the layouts of `wfText`, with no second marker hidden in the code in front of an inline directive, every line of the
specification's output (which is the model's output, `model_eq_spec`) is free of `#aa:`.
-/
namespace Filter
open Str Lines Flags

/-- `splitLastKw` finds nothing exactly when `#aa:` does not occur -/
theorem splitLastKw_none_iff : ∀ (l : List Char), splitLastKw l = none ↔ ¬ kw <:+: l
  | [] => by
    simp only [splitLastKw, true_iff]
    intro h
    have := List.eq_nil_of_infix_nil h
    exact absurd this (by decide)
  | c :: cs => by
    have ih := splitLastKw_none_iff cs
    rw [splitLastKw]
    cases hs : splitLastKw cs with
    | some p =>
      obtain ⟨a, b⟩ := p
      simp only [reduceCtorEq, false_iff]
      refine fun hn => hn ?_
      have : kw <:+: cs := by
        apply Classical.byContradiction
        intro hn
        have := ih.mpr hn
        rw [hs] at this; cases this
      exact this.trans (List.suffix_cons c cs).isInfix
    | none =>
      have hno : ¬ kw <:+: cs := ih.mp hs
      simp only
      by_cases hp : kw.isPrefixOf (c :: cs) = true
      · simp only [hp, if_true, reduceCtorEq, false_iff]
        exact fun hn => hn (List.isPrefixOf_iff_prefix.mp hp).isInfix
      · simp only [hp, Bool.false_eq_true, if_false, true_iff]
        intro hin
        rcases List.infix_cons_iff.mp hin with h | h
        · exact hp (List.isPrefixOf_iff_prefix.mpr h)
        · exact hno h

theorem noKw_of_hasKw_false {l : List Char} (h : hasKw l = false) : ¬ kw <:+: l := by
  unfold hasKw at h
  apply (splitLastKw_none_iff l).mp
  cases hs : splitLastKw l with
  | none => rfl
  | some p => rw [hs] at h; cases h

theorem noKw_of_scanLine_none {l : List Char} (h : scanLine l = none) : ¬ kw <:+: l := by
  apply (splitLastKw_none_iff l).mp
  unfold scanLine at h
  cases hs : splitLastKw l with
  | none => rfl
  | some p =>
    rw [hs] at h
    obtain ⟨a, b⟩ := p
    simp only at h
    split at h <;> cases h

/-- items whose own text holds no marker -/
def cleanItem : Item → Prop
  | .plain l => ¬ kw <:+: l
  | .inline code _ _ => ¬ kw <:+: code
  | .para _ _ _ body => ∀ l ∈ body, ¬ kw <:+: l
  | .unterminated _ => False

/-- no second marker hidden in the text in front of a directive -/
def noHiddenKw (ls : List (List Char)) : Bool :=
  ls.all (fun l => match scanLine l with | some d => !hasKw d.before | none => true)

theorem items_clean : ∀ (fuel : Nat) (todo seen : List (List Char)),
    wfP fuel seen todo = true → noHiddenKw todo = true → ∀ i ∈ parseItems fuel todo, cleanItem i
  | 0, todo, seen, _, _ => by simp [parseItems]
  | fuel + 1, [], seen, _, _ => by simp [parseItems]
  | fuel + 1, l :: ls, seen, hwf, hh => by
    have hhl : (match scanLine l with | some d => !hasKw d.before | none => true) = true := by
      simp only [noHiddenKw, List.all_cons, Bool.and_eq_true] at hh; exact hh.1
    have hhls : noHiddenKw ls = true := by
      simp only [noHiddenKw, List.all_cons, Bool.and_eq_true] at hh ⊢; exact hh.2
    rw [wfP] at hwf
    rw [parseItems]
    cases hs : scanLine l with
    | none =>
      rw [hs] at hwf
      simp only at hwf
      intro i hi
      simp only [List.mem_cons] at hi
      rcases hi with rfl | hi
      · exact noKw_of_scanLine_none hs
      · exact items_clean fuel ls (seen ++ [l]) hwf hhls i hi
    | some d =>
      rw [hs] at hwf hhl
      simp only at hwf hhl
      have hbef : ¬ kw <:+: d.before := noKw_of_hasKw_false (by simpa using hhl)
      by_cases hb : (!(d.before.all isSpace)) = true
      · rw [if_pos hb] at hwf
        simp only [Bool.and_eq_true] at hwf
        simp only [hb, if_true]
        intro i hi
        simp only [List.mem_cons] at hi
        rcases hi with rfl | hi
        · exact fun hin => hbef (hin.trans (trimRightSpace_prefix _).isInfix)
        · exact items_clean fuel ls (seen ++ [l]) hwf.2 hhls i hi
      · rw [if_neg hb] at hwf
        simp only [hb, Bool.false_eq_true, if_false]
        cases hdrop : ls.drop (ls.takeWhile (fun x => !x.isEmpty)).length with
        | nil => rw [hdrop] at hwf; simp at hwf
        | cons x r =>
          cases r with
          | nil => rw [hdrop] at hwf; simp at hwf
          | cons r1 rest'' =>
            rw [hdrop] at hwf
            simp only [Bool.and_eq_true, List.all_eq_true, Bool.not_eq_true'] at hwf
            obtain ⟨⟨⟨⟨⟨_, _⟩, _⟩, _⟩, hbkw⟩, htail⟩ := hwf
            obtain ⟨_, hlseq⟩ := takeWhile_drop_head ls x (r1 :: rest'') hdrop
            have hhr : noHiddenKw (r1 :: rest'') = true := by
              rw [hlseq] at hhls
              simp only [noHiddenKw, List.all_append, List.all_cons, Bool.and_eq_true] at hhls ⊢
              exact hhls.2.2
            intro i hi
            simp only [List.mem_cons] at hi
            rcases hi with rfl | hi
            · intro b hbm
              exact noKw_of_hasKw_false (hbkw b hbm)
            · exact items_clean fuel (r1 :: rest'') _ htail hhr i hi

/-- the specification writes no marker when the items hold none -/
theorem spec_noKw (tg : Target) (items : List Item) (h : ∀ i ∈ items, cleanItem i) :
    ∀ l ∈ spec tg items, ¬ kw <:+: l := by
  have nil_no : ¬ kw <:+: ([] : List Char) := by decide
  intro l hl
  simp only [spec, List.mem_flatMap] at hl
  obtain ⟨i, hi, hl⟩ := hl
  have hc := h i hi
  cases i with
  | plain x => simp only [specItem, List.mem_singleton] at hl; subst hl; exact hc
  | inline code only args =>
    simp only [specItem] at hl
    split at hl
    · simp only [List.mem_singleton] at hl; subst hl; exact hc
    · simp only [List.mem_singleton] at hl; subst hl; exact nil_no
  | para m only args body =>
    simp only [specItem] at hl
    split at hl
    · simp only [List.mem_cons, List.mem_append] at hl
      rcases hl with (rfl | hl) | hl
      · exact nil_no
      · exact hc l hl
      · rcases hl with rfl | hl
        · exact nil_no
        · cases hl
    · cases hl
  | unterminated ls => exact hc.elim

/-- **No marker survives**: on the layouts of `wfText` without a hidden second marker, the output of the model is the join of
lines none of which holds `#aa:` -/
theorem model_no_marker (tg : Target) (t : List Char) (h : wfText t = true) (hh : noHiddenKw (splitNl t) = true) :
    ∃ out : List (List Char), model tg t = some (joinNl out) ∧ ∀ l ∈ out, ¬ kw <:+: l := by
  refine ⟨spec tg (parseItems ((splitNl t).length + 1) (splitNl t)), ?_, ?_⟩
  · rw [model_eq_spec tg t h]; rfl
  · unfold wfText at h
    exact spec_noKw tg _ (items_clean _ _ [] h hh)

end Filter
