import AaVerif.FilterLemmas
/-!
# FilterPara — guarded paragraphs: the lazily matched regex `(?s)RAW\n.*?\n\n` and lines

When a paragraph directive does not select the target, the Go code removes every match of a regular
expression built from the (quoted) marker text.  In a text where the marker text occurs in no other line,
that removes exactly the marker line, the lines of the paragraph and the blank line that ends it.
-/
namespace Filter
open Str Lines Flags

/-! ### the matcher, for a marker without a dot -/

theorem patPrefixS_lit (raw : List Char) : ∀ (s : List Char),
    patPrefixS (rawPat raw ++ [PC.lit nl]) s = (raw ++ [nl]).isPrefixOf s := by
  induction raw with
  | nil =>
    intro s
    cases s with
    | nil => rfl
    | cons c cs => simp [rawPat, patPrefixS, List.isPrefixOf]
  | cons a as ih =>
    intro s
    cases s with
    | nil => rfl
    | cons c cs =>
      have := ih cs
      simp only [rawPat, List.map_cons, List.cons_append, patPrefixS, List.isPrefixOf] at this ⊢
      rw [this]

/-- the matcher, spelled out -/
theorem paraMatcher_lit (raw : List Char) (s : List Char) :
    paraMatcher raw s =
      if ((raw ++ [nl]).isPrefixOf s && !raw.isEmpty) = true then
        (match findBlank (s.drop (raw.length + 1)) with
         | some j => some (raw.length + 1 + j + 2 - 1)
         | none => none)
      else none := by
  have e := patPrefixS_lit raw s
  have hl : (rawPat raw ++ [PC.lit nl]).length = raw.length + 1 := by simp [rawPat]
  unfold paraMatcher
  show (if (patPrefixS (rawPat raw ++ [PC.lit nl]) s && !raw.isEmpty) = true then
      (match findBlank (s.drop (rawPat raw ++ [PC.lit nl]).length) with
       | some j => some ((rawPat raw ++ [PC.lit nl]).length + j + 2 - 1)
       | none => none) else none) = _
  rw [e, hl]

/-- the pattern cannot start inside a line that does not hold the marker text -/
theorem paraMatcher_none_in_line (raw : List Char) (hnl : nl ∉ raw) (s b : List Char)
    (_hs : nl ∉ s) (hocc : hasOcc raw s = false) : paraMatcher raw (s ++ nl :: b) = none := by
  rw [paraMatcher_lit raw]
  by_cases hne : raw = []
  · simp [hne]
  · have : (raw ++ [nl]).isPrefixOf (s ++ nl :: b) = false := by
      cases hp : (raw ++ [nl]).isPrefixOf (s ++ nl :: b) with
      | false => rfl
      | true =>
        exfalso
        rw [List.isPrefixOf_iff_prefix] at hp
        -- raw is a prefix of s ++ nl :: b and holds no newline: it is a prefix of s
        have h1 : raw <+: s ++ nl :: b := (List.prefix_append raw [nl]).trans hp
        have h2 : raw <+: s := prefix_append_sep hnl h1
        have : hasOcc raw s = true := (hasOcc_iff raw s).mpr ⟨hne, h2.isInfix⟩
        rw [hocc] at this; cases this
    simp [this]

/-- lines that do not hold the marker text are copied -/
theorem replacePara_cut (raw : List Char) (hnl : nl ∉ raw) (b : List Char) :
    ∀ (a : List Char), nl ∉ a → hasOcc raw a = false →
      replaceAllWith (paraMatcher raw) [] (a ++ nl :: b) = a ++ nl :: replaceAllWith (paraMatcher raw) [] b
  | [], _, _ => by
    have := paraMatcher_none_in_line raw hnl [] b (by simp) rfl
    simp only [List.nil_append] at this ⊢
    rw [replaceAllWith_cons_none this]
  | c :: cs, ha, ho => by
    have hcs : nl ∉ cs := fun h => ha (List.mem_cons_of_mem _ h)
    have hocs : hasOcc raw cs = false := by
      simp only [hasOcc, Bool.or_eq_false_iff] at ho
      exact ho.2
    have := paraMatcher_none_in_line raw hnl (c :: cs) b ha ho
    simp only [List.cons_append] at this ⊢
    rw [replaceAllWith_cons_none this, replacePara_cut raw hnl b cs hcs hocs]

theorem replacePara_skip (raw : List Char) (hnl : nl ∉ raw) :
    ∀ (pre : List (List Char)) (rest : List (List Char)), rest ≠ [] → (∀ x ∈ pre, nl ∉ x) →
      (∀ x ∈ pre, hasOcc raw x = false) →
      replaceAllWith (paraMatcher raw) [] (joinNl (pre ++ rest)) =
        joinNl (pre ++ splitNl (replaceAllWith (paraMatcher raw) [] (joinNl rest)))
  | [], rest, _, _, _ => by simp [join_split]
  | x :: xs, rest, hr, h1, h2 => by
    have hne : xs ++ rest ≠ [] := by simp [hr]
    have ih := replacePara_skip raw hnl xs rest hr (fun y hy => h1 y (by simp [hy])) (fun y hy => h2 y (by simp [hy]))
    rw [List.cons_append, joinNl_cons_cons x (xs ++ rest) hne,
      replacePara_cut raw hnl _ x (h1 x (by simp)) (h2 x (by simp)), ih]
    have hne2 : xs ++ splitNl (replaceAllWith (paraMatcher raw) [] (joinNl rest)) ≠ [] := by
      simp [splitNl_ne_nil]
    rw [List.cons_append, joinNl_cons_cons x _ hne2]

/-- a text whose lines do not hold the marker is left alone -/
theorem replacePara_id (raw : List Char) (hnl : nl ∉ raw) :
    ∀ (ls : List (List Char)), (∀ x ∈ ls, nl ∉ x) → (∀ x ∈ ls, hasOcc raw x = false) →
      replaceAllWith (paraMatcher raw) [] (joinNl ls) = joinNl ls
  | [], _, _ => rfl
  | [a], h1, _ => by
    simp only [joinNl]
    apply replace_id_of_no_match
    intro s hs
    rw [paraMatcher_lit raw]
    have : (raw ++ [nl]).isPrefixOf s = false := by
      cases hp : (raw ++ [nl]).isPrefixOf s with
      | false => rfl
      | true =>
        exfalso
        rw [List.isPrefixOf_iff_prefix] at hp
        have : nl ∈ s := hp.subset (by simp)
        exact h1 a (by simp) (hs.subset this)
    simp [this]
  | a :: b :: l, h1, h2 => by
    rw [joinNl_cons_cons a (b :: l) (by simp), replacePara_cut raw hnl _ a (h1 a (by simp)) (h2 a (by simp)),
      replacePara_id raw hnl (b :: l) (fun x hx => h1 x (by simp [hx])) (fun x hx => h2 x (by simp [hx]))]

/-! ### the end of the paragraph: the first blank line -/

theorem findBlank_line (R : List Char) : ∀ (b : List Char), b ≠ [] → nl ∉ b →
    findBlank (b ++ nl :: nl :: R) = some b.length
  | [], h, _ => absurd rfl h
  | [c], _, hn => by
    have hc : c ≠ '\n' := fun e => hn (by simp [e, nl])
    show findBlank (c :: '\n' :: '\n' :: R) = some 1
    rw [findBlank]
    · simp [findBlank]
    · intro x h; exact absurd h hc
  | c :: d :: cs, _, hn => by
    have hc : c ≠ '\n' := fun e => hn (by simp [e, nl])
    have ih := findBlank_line R (d :: cs) (by simp) (fun h => hn (List.mem_cons_of_mem _ h))
    show findBlank (c :: ((d :: cs) ++ nl :: nl :: R)) = some ((d :: cs).length + 1)
    rw [findBlank]
    · rw [ih]; rfl
    · intro x h; exact absurd h hc

/-- a non-empty line followed by something that is not a blank line: the search goes on behind it -/
theorem findBlank_skip (Y : List Char) (y : Char) (ys : List Char) (hY : Y = y :: ys) (hy : y ≠ '\n') :
    ∀ (b : List Char), b ≠ [] → nl ∉ b → findBlank (b ++ nl :: Y) = (findBlank Y).map (· + (b.length + 1))
  | [], h, _ => absurd rfl h
  | [c], _, hn => by
    have hc : c ≠ '\n' := fun e => hn (by simp [e, nl])
    subst hY
    show findBlank (c :: '\n' :: y :: ys) = _
    rw [findBlank]
    · rw [findBlank]
      · cases findBlank (y :: ys) <;> simp
      · intro x _ h; cases h; exact hy rfl
    · intro x h; exact absurd h hc
  | c :: d :: cs, _, hn => by
    have hc : c ≠ '\n' := fun e => hn (by simp [e, nl])
    have ih := findBlank_skip Y y ys hY hy (d :: cs) (by simp) (fun h => hn (List.mem_cons_of_mem _ h))
    show findBlank (c :: ((d :: cs) ++ nl :: Y)) = _
    rw [findBlank]
    · rw [ih]
      cases findBlank Y <;> simp [Nat.add_assoc]
    · intro x h; exact absurd h hc

theorem findBlank_body (R : List Char) : ∀ (body : List (List Char)), body ≠ [] → (∀ b ∈ body, b ≠ [] ∧ nl ∉ b) →
    findBlank (joinNl body ++ nl :: nl :: R) = some (joinNl body).length
  | [], h, _ => absurd rfl h
  | [b], _, hb => by
    simp only [joinNl]
    exact findBlank_line R b (hb b (by simp)).1 (hb b (by simp)).2
  | b :: b' :: l, _, hb => by
    have ih := findBlank_body R (b' :: l) (by simp) (fun x hx => hb x (by simp [hx]))
    obtain ⟨hbne, hbnl⟩ := hb b (by simp)
    obtain ⟨hb'ne, hb'nl⟩ := hb b' (by simp)
    rw [joinNl_cons_cons b (b' :: l) (by simp), List.append_assoc, List.cons_append]
    -- the text behind `b\n` starts with the first character of b'
    cases hb' : b' with
    | nil => exact absurd hb' hb'ne
    | cons y ys =>
      have hy : y ≠ '\n' := fun e => hb'nl (by simp [hb', e, nl])
      have hY : joinNl (b' :: l) ++ nl :: nl :: R = y :: (ys ++ (match l with | [] => [] | _ => nl :: joinNl l) ++ nl :: nl :: R) := by
        subst hb'
        cases l with
        | nil => simp [joinNl]
        | cons z zs => simp [joinNl]
      rw [← hb', findBlank_skip _ y _ hY hy b hbne hbnl, ih]
      simp [Nat.add_comm, Nat.add_left_comm, Nat.add_assoc]

theorem joinNl_append : ∀ (xs ys : List (List Char)), xs ≠ [] → ys ≠ [] →
    joinNl (xs ++ ys) = joinNl xs ++ nl :: joinNl ys
  | [], _, h, _ => absurd rfl h
  | [a], ys, _, hy => by simp [joinNl_cons_cons a ys hy, joinNl]
  | a :: b :: l, ys, _, hy => by
    have ih := joinNl_append (b :: l) ys (by simp) hy
    rw [List.cons_append, joinNl_cons_cons a _ (by simp), ih, joinNl_cons_cons a (b :: l) (by simp)]
    simp

/-- at the marker line: the match runs to the blank line that ends the paragraph -/
theorem replacePara_marker (raw : List Char) (hne : raw ≠ [])
    (body rest' : List (List Char)) (hb : body ≠ []) (hr : rest' ≠ []) (hbody : ∀ b ∈ body, b ≠ [] ∧ nl ∉ b) :
    replaceAllWith (paraMatcher raw) [] (joinNl (raw :: (body ++ [] :: rest'))) =
      replaceAllWith (paraMatcher raw) [] (joinNl rest') := by
  have e1 : joinNl (raw :: (body ++ [] :: rest')) = (raw ++ nl :: (joinNl body ++ [nl, nl])) ++ joinNl rest' := by
    rw [joinNl_cons_cons raw _ (by simp), joinNl_append body ([] :: rest') hb (by simp),
      joinNl_cons_cons [] rest' hr]
    simp
  have hJ := findBlank_body (joinNl rest') body hb hbody
  have hm : paraMatcher raw ((raw ++ nl :: (joinNl body ++ [nl, nl])) ++ joinNl rest') =
      some (raw.length + 1 + (joinNl body).length + 2 - 1) := by
    rw [paraMatcher_lit raw]
    have hp : ((raw ++ [nl]).isPrefixOf ((raw ++ nl :: (joinNl body ++ [nl, nl])) ++ joinNl rest') && !raw.isEmpty) = true := by
      have : (raw ++ [nl]) <+: (raw ++ nl :: (joinNl body ++ [nl, nl])) ++ joinNl rest' := by
        refine ⟨(joinNl body ++ [nl, nl]) ++ joinNl rest', by simp⟩
      have hne' : raw.isEmpty = false := by cases raw <;> simp_all
      simp [List.isPrefixOf_iff_prefix.mpr this, hne']
    rw [if_pos hp]
    have hdrop : ((raw ++ nl :: (joinNl body ++ [nl, nl])) ++ joinNl rest').drop (raw.length + 1) =
        joinNl body ++ nl :: nl :: joinNl rest' := by
      have : (raw ++ nl :: (joinNl body ++ [nl, nl])) ++ joinNl rest' = (raw ++ [nl]) ++ (joinNl body ++ nl :: nl :: joinNl rest') := by
        simp
      rw [this, show raw.length + 1 = (raw ++ [nl]).length from by simp, List.drop_left]
    rw [hdrop, hJ]
  rw [e1]
  cases hraw : raw with
  | nil => exact absurd hraw hne
  | cons c cs =>
    rw [hraw] at hm
    simp only [List.cons_append] at hm ⊢
    rw [replaceAllWith_cons_some hm]
    simp only [List.nil_append]
    congr 1
    -- what is left behind the match
    have hlen : (c :: cs).length + 1 + (joinNl body).length + 2 - 1 = (cs ++ nl :: (joinNl body ++ [nl, nl])).length := by
      simp; omega
    rw [hlen, List.drop_left]

/-- **A guarded paragraph that is not for the target**: the lazily matched regex removes exactly the marker line, the
lines of the paragraph and the blank line that ends it -/
theorem replacePara_paragraph (raw : List Char) (hnl : nl ∉ raw) (hne : raw ≠ [])
    (out body rest' : List (List Char)) (hb : body ≠ []) (hr : rest' ≠ [])
    (hbody : ∀ b ∈ body, b ≠ [] ∧ nl ∉ b)
    (hout : ∀ x ∈ out, nl ∉ x ∧ hasOcc raw x = false) (hrest : ∀ x ∈ rest', nl ∉ x ∧ hasOcc raw x = false) :
    replaceAllWith (paraMatcher raw) [] (joinNl (out ++ raw :: (body ++ [] :: rest'))) = joinNl (out ++ rest') := by
  rw [replacePara_skip raw hnl out _ (by simp) (fun x hx => (hout x hx).1) (fun x hx => (hout x hx).2),
    replacePara_marker raw hne body rest' hb hr hbody,
    replacePara_id raw hnl rest' (fun x hx => (hrest x hx).1) (fun x hx => (hrest x hx).2),
    split_join rest' hr (fun x hx => (hrest x hx).1)]

/-! ### directives one after the other, inline rules and paragraphs -/

/-- a paragraph marker: `only` or `exclude`, alone on its line -/
def goodPara (l : List Char) (d : Dir) : Bool :=
  (d.name == "only".toList || d.name == "exclude".toList) && d.raw == l && !l.isEmpty && !isInline d &&
  cleanKeyword d == []

theorem scanLine_none_of_noKw (l : List Char) (h : hasKw l = false) : scanLine l = none := by
  unfold hasKw at h
  unfold scanLine
  cases hs : splitLastKw l with
  | none => rfl
  | some p => rw [hs] at h; cases h

theorem onlyOf (d : Dir) (hname : d.name = "only".toList ∨ d.name = "exclude".toList) :
    (if d.name == "only".toList then some true
      else if d.name == "exclude".toList then some false else none) = some (d.name == "only".toList) := by
  rcases hname with hn | hn
  · simp [hn]
  · have : ("exclude".toList == "only".toList) = false := by decide
    simp [hn, this]

/-- a kept directive (inline or marker): its line is replaced by what `cleanKeyword` leaves -/
theorem applyDir_keep (tg : Target) (l : List Char) (d : Dir)
    (hname : d.name = "only".toList ∨ d.name = "exclude".toList) (hraw : d.raw = l) (hne : l ≠ [])
    (hk : keep (d.name == "only".toList) tg d.args = true)
    (out rest : List (List Char)) (hnl : ∀ x ∈ out ++ l :: rest, nl ∉ x) (h1 : ∀ x ∈ out, hasOcc l x = false) :
    applyDir tg (joinNl (out ++ l :: rest)) d = some (joinNl (out ++ cleanKeyword d :: rest)) := by
  have hl : nl ∉ l := hnl l (by simp)
  unfold applyDir
  simp only [onlyOf d hname, hraw]
  rw [if_pos hk, replaceFirst_join l _ hl _ hnl, rfLines_skip l _ out _ h1]
  simp only [rfLines, hasOcc_self l hne, if_true, replaceFirst_self l _ hne]

/-- a paragraph whose marker does not select the target is removed with its blank line -/
theorem applyDir_drop_para (tg : Target) (l : List Char) (d : Dir) (hg : goodPara l d = true)
    (hk : keep (d.name == "only".toList) tg d.args = false)
    (out body rest' : List (List Char)) (hb : body ≠ []) (hr : rest' ≠ [])
    (hbody : ∀ b ∈ body, b ≠ [] ∧ nl ∉ b) (hl : nl ∉ l)
    (hout : ∀ x ∈ out, nl ∉ x ∧ hasOcc l x = false) (hrest : ∀ x ∈ rest', nl ∉ x ∧ hasOcc l x = false) :
    applyDir tg (joinNl (out ++ l :: (body ++ [] :: rest'))) d = some (joinNl (out ++ rest')) := by
  simp only [goodPara, Bool.and_eq_true, Bool.or_eq_true, beq_iff_eq, Bool.not_eq_true', List.isEmpty_eq_false_iff] at hg
  obtain ⟨⟨⟨⟨hname, hraw⟩, hne⟩, hinl⟩, _⟩ := hg
  unfold applyDir
  simp only [onlyOf d hname, hraw]
  rw [if_neg (by rw [hk]; exact Bool.false_ne_true), if_neg (by rw [hinl]; exact Bool.false_ne_true)]
  rw [replacePara_paragraph l hl hne out body rest' hb hr hbody hout hrest]

/-- Well-formed layout: inline directives as in `wfInlineSpec`; a paragraph marker is `goodPara`, is followed by a non-empty
paragraph of lines without a marker, a blank line and at least one more line; the text of a directive line occurs in
no other line -/
def wfP : Nat → List (List Char) → List (List Char) → Bool
  | 0, _, todo => todo.isEmpty
  | _ + 1, _, [] => true
  | f + 1, seen, l :: ls =>
    match scanLine l with
    | none => wfP f (seen ++ [l]) ls
    | some d =>
      if !(d.before.all isSpace) then
        goodDirSpec l d && seen.all (fun x => !hasOcc l x) && ls.all (fun x => !hasOcc l x) && wfP f (seen ++ [l]) ls
      else
        let body := ls.takeWhile (fun x => !x.isEmpty)
        match ls.drop body.length with
        | _ :: r1 :: rest'' =>
          goodPara l d && seen.all (fun x => !hasOcc l x) && ls.all (fun x => !hasOcc l x) && !body.isEmpty &&
          body.all (fun x => !hasKw x) && wfP f (seen ++ l :: (body ++ [[]])) (r1 :: rest'')
        | _ => false

def wfText (t : List Char) : Bool := wfP ((splitNl t).length + 1) [] (splitNl t)

theorem drop_takeWhile_length {α : Type} (p : α → Bool) : ∀ (ls : List α),
    ls.drop (ls.takeWhile p).length = ls.dropWhile p
  | [] => rfl
  | a :: as => by
    by_cases ha : p a = true
    · simp only [List.takeWhile_cons, List.dropWhile_cons, ha, if_true, List.length_cons, List.drop_succ_cons]
      exact drop_takeWhile_length p as
    · simp [List.takeWhile_cons, List.dropWhile_cons, ha]

theorem dropWhile_head_false {α : Type} (p : α → Bool) : ∀ (ls : List α) (x : α) (rest : List α),
    ls.dropWhile p = x :: rest → p x = false
  | [], _, _, h => by simp at h
  | a :: as, x, rest, h => by
    by_cases ha : p a = true
    · simp only [List.dropWhile_cons, ha, if_true] at h
      exact dropWhile_head_false p as x rest h
    · simp only [List.dropWhile_cons, ha, Bool.false_eq_true, if_false, List.cons.injEq] at h
      rw [← h.1]; simpa using ha

theorem takeWhile_drop_head (ls : List (List Char)) (x : List Char) (rest : List (List Char))
    (h : ls.drop (ls.takeWhile (fun x => !x.isEmpty)).length = x :: rest) :
    x = [] ∧ ls = ls.takeWhile (fun x => !x.isEmpty) ++ [] :: rest := by
  rw [drop_takeWhile_length] at h
  have hx := dropWhile_head_false _ ls x rest h
  have hx' : x = [] := by cases x <;> simp_all
  refine ⟨hx', ?_⟩
  have := List.takeWhile_append_dropWhile (p := fun (x : List Char) => !x.isEmpty) (l := ls)
  rw [h, hx'] at this
  exact this.symm

theorem filterMap_noKw : ∀ (body : List (List Char)), (∀ b ∈ body, hasKw b = false) → body.filterMap scanLine = []
  | [], _ => rfl
  | b :: bs, h => by
    rw [List.filterMap_cons, scanLine_none_of_noKw b (h b (by simp))]
    exact filterMap_noKw bs (fun x hx => h x (by simp [hx]))

theorem no_occ_of_prefix_seen (l : List Char) (seen out : List (List Char))
    (hs : ∀ x ∈ seen, hasOcc l x = false) (hp : ∀ x ∈ out, ∃ y ∈ seen, x <+: y) : ∀ x ∈ out, hasOcc l x = false := by
  intro x hx
  obtain ⟨y, hy, hxy⟩ := hp x hx
  cases hc : hasOcc l x with
  | false => rfl
  | true =>
    have := hasOcc_of_prefix hxy hc
    rw [hs y hy] at this; cases this

theorem no_nl_of_prefix_seen (seen out : List (List Char)) (hs : ∀ x ∈ seen, nl ∉ x)
    (hp : ∀ x ∈ out, ∃ y ∈ seen, x <+: y) : ∀ x ∈ out, nl ∉ x := by
  intro x hx hm
  obtain ⟨y, hy, hxy⟩ := hp x hx
  exact hs y hy (hxy.subset hm)

/-- **All the directives of a text, inline rules and paragraphs, one after the other.**  `seen` are the source lines
already gone through, `out` what they have become (each a prefix of a source line), `todo` the lines still to come. -/
theorem model_items (tg : Target) : ∀ (fuel : Nat) (todo seen out : List (List Char)),
    wfP fuel seen todo = true → (∀ x ∈ seen ++ todo, nl ∉ x) → (∀ x ∈ out, ∃ y ∈ seen, x <+: y) →
    (todo.filterMap scanLine).foldl (fun acc d => acc.bind (fun t' => applyDir tg t' d)) (some (joinNl (out ++ todo))) =
      some (joinNl (out ++ spec tg (parseItems fuel todo)))
  | 0, todo, seen, out, hwf, _, _ => by
    simp only [wfP, List.isEmpty_iff] at hwf
    subst hwf
    simp [parseItems, spec]
  | fuel + 1, [], seen, out, _, _, _ => by simp [parseItems, spec]
  | fuel + 1, l :: ls, seen, out, hwf, hnl, hpre => by
    have hnlseen : ∀ x ∈ seen, nl ∉ x := fun x hx => hnl x (by simp [hx])
    have hnll : nl ∉ l := hnl l (by simp)
    have hnlls : ∀ x ∈ ls, nl ∉ x := fun x hx => hnl x (by simp [hx])
    have hnlout := no_nl_of_prefix_seen seen out hnlseen hpre
    rw [wfP] at hwf
    rw [parseItems]
    cases hs : scanLine l with
    | none =>
      rw [hs] at hwf
      simp only at hwf
      have ih := model_items tg fuel ls (seen ++ [l]) (out ++ [l]) hwf (by
          intro x hx; exact hnl x (by simpa using hx)) (by
          intro x hx
          simp only [List.mem_append, List.mem_singleton] at hx
          rcases hx with hx | rfl
          · obtain ⟨y, hy, hxy⟩ := hpre x hx
            exact ⟨y, by simp [hy], hxy⟩
          · exact ⟨x, by simp, List.prefix_refl x⟩)
      simp only [List.filterMap_cons, hs, spec, List.flatMap_cons, specItem]
      simp only [spec, List.append_assoc, List.singleton_append] at ih
      exact ih
    | some d =>
      rw [hs] at hwf
      simp only at hwf
      by_cases hb : (!(d.before.all isSpace)) = true
      · -- an inline directive
        rw [if_pos hb] at hwf
        simp only [Bool.and_eq_true, List.all_eq_true, Bool.not_eq_true'] at hwf
        obtain ⟨⟨⟨hg, ho1⟩, ho2⟩, htail⟩ := hwf
        have hg' : goodDir l d = true := by
          simp only [goodDirSpec, Bool.and_eq_true] at hg
          exact hg.1.1
        have hck : cleanKeyword d = trimRightSpace d.before := by
          simp only [goodDirSpec, Bool.and_eq_true, beq_iff_eq] at hg
          exact hg.2
        have hraw : d.raw = l := by
          simp only [goodDir, Bool.and_eq_true, beq_iff_eq] at hg'
          exact hg'.1.1.2
        have h1 := no_occ_of_prefix_seen l seen out ho1 hpre
        have hstep := applyDir_line tg l d hs hg' out ls (by
          intro x hx
          simp only [List.mem_append, List.mem_cons] at hx
          rcases hx with hx | rfl | hx
          · exact hnlout x hx
          · exact hnll
          · exact hnlls x hx) h1 ho2
        have hls : lineSpec tg l = if keep (d.name == "only".toList) tg d.args then trimRightSpace d.before else [] := by
          unfold lineSpec; rw [hs]; simp only [hck]
        have ih := model_items tg fuel ls (seen ++ [l]) (out ++ [lineSpec tg l]) htail (by
          intro x hx; exact hnl x (by simpa using hx)) (by
          intro x hx
          simp only [List.mem_append, List.mem_singleton] at hx
          rcases hx with hx | rfl
          · obtain ⟨y, hy, hxy⟩ := hpre x hx
            exact ⟨y, by simp [hy], hxy⟩
          · refine ⟨l, by simp, lineSpec_prefix tg l (fun d' hd' => ?_)⟩
            rw [hs] at hd'; cases hd'; exact hraw)
        simp only [List.filterMap_cons, hs, List.foldl_cons, Option.bind_some, hstep, hb, if_true, spec,
          List.flatMap_cons, specItem]
        simp only [spec, List.append_assoc, List.singleton_append] at ih
        rw [ih, hls]
        split <;> rfl
      · -- a paragraph marker
        rw [if_neg hb] at hwf
        simp only [hb, Bool.false_eq_true, if_false]
        cases hdrop : ls.drop (ls.takeWhile (fun x => !x.isEmpty)).length with
        | nil => rw [hdrop] at hwf; simp at hwf
        | cons x r =>
          cases r with
          | nil => rw [hdrop] at hwf; simp at hwf
          | cons r1 rest'' =>
            rw [hdrop] at hwf
            simp only [Bool.and_eq_true, List.all_eq_true, Bool.not_eq_true', List.isEmpty_eq_false_iff] at hwf
            obtain ⟨⟨⟨⟨⟨hg, ho1⟩, ho2⟩, hbne⟩, hbkw⟩, htail⟩ := hwf
            obtain ⟨hx, hlseq⟩ := takeWhile_drop_head ls x (r1 :: rest'') hdrop
            generalize hbody : ls.takeWhile (fun x => !x.isEmpty) = body at *
            have hgp := hg
            simp only [goodPara, Bool.and_eq_true, Bool.or_eq_true, beq_iff_eq, Bool.not_eq_true',
              List.isEmpty_eq_false_iff] at hgp
            obtain ⟨⟨⟨⟨hname, hraw⟩, hne⟩, _⟩, hclean⟩ := hgp
            have h1 := no_occ_of_prefix_seen l seen out ho1 hpre
            have hbody' : ∀ b ∈ body, b ≠ [] ∧ nl ∉ b := by
              intro b hbm
              have hin : b ∈ ls := by rw [hlseq]; simp [hbm]
              have hne' : (!b.isEmpty) = true := by
                rw [← hbody] at hbm
                have hall : (ls.takeWhile (fun x => !x.isEmpty)).all (fun x => !x.isEmpty) = true := List.all_takeWhile
                exact List.all_eq_true.mp hall b hbm
              exact ⟨by cases b <;> simp_all, hnlls b hin⟩
            have hfm : (l :: ls).filterMap scanLine = d :: (r1 :: rest'').filterMap scanLine := by
              rw [List.filterMap_cons, hs, hlseq, List.filterMap_append, filterMap_noKw body hbkw, List.filterMap_cons,
                scanLine_none_of_noKw [] (by decide)]
              simp
            rw [hfm, List.foldl_cons, Option.bind_some]
            by_cases hk : keep (d.name == "only".toList) tg d.args = true
            · -- kept: the marker line becomes empty, the paragraph and its blank line stay
              have hstep := applyDir_keep tg l d hname hraw hne hk out ls (by
                intro y hy
                simp only [List.mem_append, List.mem_cons] at hy
                rcases hy with hy | rfl | hy
                · exact hnlout y hy
                · exact hnll
                · exact hnlls y hy) h1
              rw [hstep, hclean]
              have ih := model_items tg fuel (r1 :: rest'') (seen ++ l :: (body ++ [[]])) (out ++ [] :: (body ++ [[]])) htail (by
                intro y hy
                have e2 : (seen ++ l :: (body ++ [[]])) ++ (r1 :: rest'') = seen ++ l :: ls := by rw [hlseq]; simp
                exact hnl y (e2 ▸ hy)) (by
                intro y hy
                simp only [List.mem_append, List.mem_cons, List.mem_singleton, List.not_mem_nil, or_false] at hy
                rcases hy with hy | rfl | hy | rfl
                · obtain ⟨z, hz, hyz⟩ := hpre y hy
                  exact ⟨z, by simp [hz], hyz⟩
                · exact ⟨l, by simp, List.nil_prefix⟩
                · exact ⟨y, by simp [hy], List.prefix_refl y⟩
                · exact ⟨l, by simp, List.nil_prefix⟩)
              have e : out ++ [] :: ls = (out ++ [] :: (body ++ [[]])) ++ (r1 :: rest'') := by
                rw [hlseq]; simp
              rw [e, ih]
              simp only [spec, List.flatMap_cons, specItem, hk, if_true]
              simp
            · -- dropped: marker, paragraph and blank line go
              have hk' : keep (d.name == "only".toList) tg d.args = false := by simpa using hk
              have hstep := applyDir_drop_para tg l d hg hk' out body (r1 :: rest'') hbne (by simp) hbody' hnll
                (fun y hy => ⟨hnlout y hy, h1 y hy⟩)
                (fun y hy => ⟨hnlls y (by rw [hlseq]; exact List.mem_append_right _ (List.mem_cons_of_mem _ hy)),
                  ho2 y (by rw [hlseq]; exact List.mem_append_right _ (List.mem_cons_of_mem _ hy))⟩)
              rw [hlseq, hstep]
              have ih := model_items tg fuel (r1 :: rest'') (seen ++ l :: (body ++ [[]])) out htail (by
                intro y hy
                have e2 : (seen ++ l :: (body ++ [[]])) ++ (r1 :: rest'') = seen ++ l :: ls := by rw [hlseq]; simp
                exact hnl y (e2 ▸ hy)) (by
                intro y hy
                obtain ⟨z, hz, hyz⟩ := hpre y hy
                exact ⟨z, by simp [hz], hyz⟩)
              rw [ih]
              simp only [spec, List.flatMap_cons, specItem, hk', Bool.false_eq_true, if_false, List.nil_append]

/-- **`Filter.model = Filter.specText`**: inline rules and guarded paragraphs, any number of directives. -/
theorem model_eq_spec (tg : Target) (t : List Char) (h : wfText t = true) : model tg t = some (specText tg t) := by
  unfold wfText at h
  have := model_items tg ((splitNl t).length + 1) (splitNl t) [] [] h
    (fun x hx => split_lines_no_nl t x (by simpa using hx)) (by simp)
  unfold model scan specText
  simp only [List.nil_append, join_split] at this
  exact this

end Filter
