import AaVerif.Lines
/-!
# Flags — model of the header-rewriting tasks (`complain`, `enforce` builders, `setflags`)

`regFlags = flags=\(([^)]+)\)`, `regHeaderLine = (?m)^.* {\n`, `regProfileHeader = " {\n"`.
The builders work on every block-header line (a line that ends in ` {` and is followed by a
newline) on its own; `setflags` rewrites every ` {\n` of the file with the manifest flags.
-/
namespace Flags
open Str Lines

def flagsOpen : List Char := ['f', 'l', 'a', 'g', 's', '=', '(']
def complainW : List Char := "complain".toList

/-- `regFlags` anchored at the head of `t`: the captured group, when it matches -/
def matchFlagsAt (t : List Char) : Option (List Char) :=
  if flagsOpen.isPrefixOf t then
    let r := t.drop 7
    let g := r.takeWhile (· != ')')
    if g.isEmpty then none
    else if (r.drop g.length).isEmpty then none
    else some g
  else none

def flagsMatcher : Matcher Char := fun t => (matchFlagsAt t).map (fun g => 7 + g.length)

/-- leftmost match of `regFlags`: the captured group -/
def findFlags : List Char → Option (List Char)
  | [] => none
  | c :: cs => match matchFlagsAt (c :: cs) with
    | some g => some g
    | none => findFlags cs

/-- `regFlags.ReplaceAllLiteralString(t, "")` -/
def eraseFlags (t : List Char) : List Char := replaceAllWith flagsMatcher [] t

/-- `strings.Split(s, ",")` -/
def splitComma (s : List Char) : List (List Char) :=
  let rec go (cur : List Char) : List Char → List (List Char)
    | [] => [cur.reverse]
    | c :: cs => if c = ',' then cur.reverse :: go [] cs else go (c :: cur) cs
  go [] s

def joinComma : List (List Char) → List Char
  | [] => []
  | [a] => a
  | a :: b :: l => a ++ ',' :: joinComma (b :: l)

/-- flags of a header line (empty list when there is no flags clause) -/
def flagsOf (l : List Char) : List (List Char) :=
  match findFlags l with
  | some g => splitComma g
  | none => []

def braceSuffix : List Char := [' ', '{']
def endsBrace (l : List Char) : Bool := braceSuffix.isSuffixOf l

def flagsClause (fl : List (List Char)) : List Char :=
  ' ' :: (flagsOpen ++ joinComma fl ++ ')' :: braceSuffix)

/-- `setComplain` on one header line (without its newline) -/
def complainLine (l : List Char) : List Char :=
  let fl := flagsOf l
  if fl.contains complainW then l
  else (eraseFlags l).dropLast.dropLast ++ flagsClause (fl ++ [complainW])

/-- `unsetComplain` on one header line (without its newline) -/
def enforceLine (l : List Char) : List Char :=
  match findFlags l with
  | none => l
  | some g =>
    let fl := splitComma g
    if !fl.contains complainW then l
    else
      let fl' := fl.filter (fun f => f != complainW)
      (eraseFlags l).dropLast.dropLast ++ (if fl'.isEmpty then ['{'] else flagsClause fl')

/-- apply `f` to every header line: a line ending in ` {` that is followed by a newline -/
def mapHeaderLines (f : List Char → List Char) : List (List Char) → List (List Char)
  | [] => []
  | [l] => [l]
  | l :: l' :: ls => (if endsBrace l then f l else l) :: mapHeaderLines f (l' :: ls)

def complain (t : List Char) : List Char := joinNl (mapHeaderLines complainLine (splitNl t))
def enforce (t : List Char) : List Char := joinNl (mapHeaderLines enforceLine (splitNl t))

def braceNl : List Char := " {\n".toList

/-- `setflags` with manifest flags `fl` (non-empty): every ` {\n` of the file is rewritten -/
def setFlags (fl : List (List Char)) (t : List Char) : List Char :=
  replaceAllWith (matchAlts [braceNl]) (" flags=(".toList ++ joinComma fl ++ ") {\n".toList) (eraseFlags t)

end Flags

/-! ## Lemmas -/
namespace Flags
open Str Lines

theorem mapHeaderLines_rel (f : List Char → List Char) :
    ∀ ls, Rel2 (fun l l' => l' = l ∨ (endsBrace l = true ∧ l' = f l)) ls (mapHeaderLines f ls)
  | [] => trivial
  | [l] => ⟨Or.inl rfl, trivial⟩
  | l :: l' :: ls => by
    refine ⟨?_, mapHeaderLines_rel f (l' :: ls)⟩
    by_cases h : endsBrace l = true
    · simp [h]
    · simp [h]

/-- if `p` is a prefix of `s ++ c :: rest` and `c` does not occur in `p`, then `p` is a prefix of `s` -/
theorem prefix_append_sep {p s rest : List Char} {c : Char} (hc : c ∉ p)
    (h : p <+: s ++ c :: rest) : p <+: s := by
  rcases List.prefix_or_prefix_of_prefix h (List.prefix_append s (c :: rest)) with h1 | h1
  · exact h1
  · obtain ⟨p', hp'⟩ := h1
    rw [← hp', List.prefix_append_right_inj] at h
    cases p' with
    | nil => rw [← hp']; simp
    | cons d ds =>
      have : d = c := by
        have := h; rw [List.cons_prefix_cons] at this; exact this.1
      exact absurd (by rw [← hp', this]; simp) hc

theorem matchFlagsAt_none_of_not_prefix {t : List Char} (h : ¬ flagsOpen <+: t) :
    matchFlagsAt t = none := by
  unfold matchFlagsAt
  have : flagsOpen.isPrefixOf t = false := by
    rw [Bool.eq_false_iff]; intro hh; exact h (List.isPrefixOf_iff_prefix.mp hh)
  simp [this]

theorem findFlags_none {s : List Char} (h : ¬ flagsOpen <:+: s) : findFlags s = none := by
  induction s with
  | nil => rfl
  | cons c cs ih =>
    have h1 : ¬ flagsOpen <+: c :: cs := fun hp => h hp.isInfix
    have h2 : ¬ flagsOpen <:+: cs := fun hp => h (List.IsInfix.trans hp (List.suffix_cons c cs).isInfix)
    simp only [findFlags, matchFlagsAt_none_of_not_prefix h1, ih h2]

theorem takeWhile_stop {J rest : List Char} (hJ : ')' ∉ J) :
    (J ++ ')' :: rest).takeWhile (· != ')') = J := by
  induction J with
  | nil => simp
  | cons c cs ih =>
    have hc : c ≠ ')' := fun e => hJ (by simp [e])
    have hcs : ')' ∉ cs := fun hh => hJ (List.mem_cons_of_mem _ hh)
    simp [List.takeWhile_cons, hc, ih hcs]

theorem matchFlagsAt_clause {J rest : List Char} (hne : J ≠ []) (hJ : ')' ∉ J) :
    matchFlagsAt (flagsOpen ++ J ++ ')' :: rest) = some J := by
  unfold matchFlagsAt
  have h1 : flagsOpen.isPrefixOf (flagsOpen ++ J ++ ')' :: rest) = true := by
    rw [List.isPrefixOf_iff_prefix, List.append_assoc]; exact List.prefix_append _ _
  have h2 : (flagsOpen ++ J ++ ')' :: rest).drop 7 = J ++ ')' :: rest := by
    rw [List.append_assoc]; rfl
  simp only [h1, if_true, h2, takeWhile_stop hJ]
  have h3 : J.isEmpty = false := by cases J <;> simp_all
  simp [h3]

/-- scanning a header that was cleaned of flags and given a fresh clause finds that clause -/
theorem findFlags_clause {e J rest : List Char} (he : ¬ flagsOpen <:+: e) (hne : J ≠ []) (hJ : ')' ∉ J) :
    findFlags (e ++ ' ' :: (flagsOpen ++ J ++ ')' :: rest)) = some J := by
  induction e with
  | nil =>
    have h0 : matchFlagsAt (' ' :: (flagsOpen ++ J ++ ')' :: rest)) = none :=
      matchFlagsAt_none_of_not_prefix (by intro h; have := h; simp [flagsOpen] at this)
    have h1 : flagsOpen ++ J ++ ')' :: rest = 'f' :: (['l', 'a', 'g', 's', '=', '('] ++ J ++ ')' :: rest) := rfl
    simp only [List.nil_append, findFlags, h0]
    rw [h1, findFlags, ← h1, matchFlagsAt_clause hne hJ]
  | cons c cs ih =>
    have h1 : ¬ flagsOpen <+: (c :: cs) ++ ' ' :: (flagsOpen ++ J ++ ')' :: rest) := by
      intro hp
      have := prefix_append_sep (c := ' ') (by decide) hp
      exact he this.isInfix
    have h2 : ¬ flagsOpen <:+: cs := fun hp => he (List.IsInfix.trans hp (List.suffix_cons c cs).isInfix)
    simp only [List.cons_append] at h1 ⊢
    simp only [findFlags, matchFlagsAt_none_of_not_prefix h1, ih h2]

theorem splitComma_go_append (cur : List Char) :
    ∀ (a rest : List Char), ',' ∉ a →
      splitComma.go cur (a ++ ',' :: rest) = (cur.reverse ++ a) :: splitComma.go [] rest
  | [], rest, _ => by simp [splitComma.go]
  | c :: cs, rest, h => by
    have hc : c ≠ ',' := fun e => h (by simp [e])
    have hcs : ',' ∉ cs := fun hh => h (List.mem_cons_of_mem _ hh)
    simp only [List.cons_append, splitComma.go, hc, if_false]
    rw [splitComma_go_append (c :: cur) cs rest hcs]
    simp

theorem splitComma_go_last (cur : List Char) :
    ∀ (a : List Char), ',' ∉ a → splitComma.go cur a = [cur.reverse ++ a]
  | [], _ => by simp [splitComma.go]
  | c :: cs, h => by
    have hc : c ≠ ',' := fun e => h (by simp [e])
    have hcs : ',' ∉ cs := fun hh => h (List.mem_cons_of_mem _ hh)
    simp only [splitComma.go, hc, if_false]
    rw [splitComma_go_last (c :: cur) cs hcs]
    simp

theorem split_join_comma : ∀ (xs : List (List Char)), xs ≠ [] → (∀ x ∈ xs, ',' ∉ x) →
    splitComma (joinComma xs) = xs
  | [], h, _ => absurd rfl h
  | [a], _, h => by
    have := splitComma_go_last [] a (h a (by simp))
    simpa [splitComma, joinComma] using this
  | a :: b :: l, _, h => by
    have ha := h a (by simp)
    have ih := split_join_comma (b :: l) (by simp) (fun x hx => h x (by simp [hx]))
    simp only [splitComma] at ih ⊢
    simp only [joinComma]
    rw [splitComma_go_append [] a _ ha, ih]
    simp

theorem splitComma_go_no_comma (cur : List Char) (hcur : ',' ∉ cur) :
    ∀ (s : List Char), ∀ x ∈ splitComma.go cur s, ',' ∉ x
  | [] => by simp [splitComma.go, hcur]
  | c :: cs => by
    simp only [splitComma.go]
    split
    · intro x hx
      simp only [List.mem_cons] at hx
      rcases hx with rfl | hx
      · simpa using hcur
      · exact splitComma_go_no_comma [] (by simp) cs x hx
    · rename_i hc
      exact splitComma_go_no_comma (c :: cur) (by simp [hcur]; exact fun e => hc e.symm) cs

theorem splitComma_no_comma (s : List Char) : ∀ x ∈ splitComma s, ',' ∉ x :=
  splitComma_go_no_comma [] (by simp) s

theorem splitComma_go_ne_nil (cur s : List Char) : splitComma.go cur s ≠ [] := by
  induction s generalizing cur with
  | nil => simp [splitComma.go]
  | cons c cs ih => simp only [splitComma.go]; split <;> simp [ih]

theorem splitComma_go_sub (cur : List Char) (P : Char → Prop) (hcur : ∀ c ∈ cur, P c) :
    ∀ (s : List Char), (∀ c ∈ s, P c) → ∀ x ∈ splitComma.go cur s, ∀ c ∈ x, P c
  | [], _ => by simpa [splitComma.go] using hcur
  | d :: ds, hs => by
    have hd := hs d (by simp)
    have hds : ∀ c ∈ ds, P c := fun c hc => hs c (by simp [hc])
    simp only [splitComma.go]
    split
    · intro x hx
      simp only [List.mem_cons] at hx
      rcases hx with rfl | hx
      · simpa using hcur
      · exact splitComma_go_sub [] P (by simp) ds hds x hx
    · exact splitComma_go_sub (d :: cur) P (by
        intro c hc; simp only [List.mem_cons] at hc; rcases hc with rfl | hc
        · exact hd
        · exact hcur c hc) ds hds

theorem joinComma_sub (P : Char → Prop) (hP : P ',') :
    ∀ (xs : List (List Char)), (∀ x ∈ xs, ∀ c ∈ x, P c) → ∀ c ∈ joinComma xs, P c
  | [], _ => by simp [joinComma]
  | [a], h => by simpa [joinComma] using h a (by simp)
  | a :: b :: l, h => by
    intro c hc
    simp only [joinComma, List.mem_append, List.mem_cons] at hc
    rcases hc with hc | rfl | hc
    · exact h a (by simp) c hc
    · exact hP
    · exact joinComma_sub P hP (b :: l) (fun x hx => h x (by simp [hx])) c hc

theorem joinComma_ne_nil : ∀ (xs : List (List Char)), (∃ x ∈ xs, x ≠ []) → joinComma xs ≠ []
  | [], h => by obtain ⟨_, hx, _⟩ := h; simp at hx
  | [a], h => by obtain ⟨x, hx, hne⟩ := h; simp at hx; subst hx; simpa [joinComma] using hne
  | a :: b :: l, _ => by simp [joinComma]

/-- the group captured by `regFlags` holds no closing parenthesis -/
theorem matchFlagsAt_group {t g : List Char} (h : matchFlagsAt t = some g) : ')' ∉ g ∧ g ≠ [] := by
  unfold matchFlagsAt at h
  split at h
  · simp only at h
    split at h
    · cases h
    · split at h
      · cases h
      · rename_i h1 _
        have : g = (t.drop 7).takeWhile (· != ')') := by simpa using h.symm
        subst this
        refine ⟨?_, by simpa using h1⟩
        intro hm
        have hall := List.all_takeWhile (l := t.drop 7) (p := (· != ')'))
        rw [List.all_eq_true] at hall
        have := hall _ hm
        simp at this
  · cases h

theorem findFlags_group : ∀ {s g : List Char}, findFlags s = some g → ')' ∉ g ∧ g ≠ []
  | [], g, h => by simp [findFlags] at h
  | c :: cs, g, h => by
    simp only [findFlags] at h
    split at h
    · rename_i g' hg
      cases h
      exact matchFlagsAt_group hg
    · exact findFlags_group h

theorem flagsOf_no_paren (l : List Char) : ∀ f ∈ flagsOf l, ')' ∉ f := by
  unfold flagsOf
  split
  · rename_i g hg
    have := (findFlags_group hg).1
    intro f hf
    exact fun hm => this (splitComma_go_sub [] (· ∈ g) (by simp) g (fun c hc => hc) f hf ')' hm)
  · simp

/-- `p` occurs in `s ++ [c]` but does not end with `c`: it occurs in `s` -/
theorem infix_snoc {p s : List Char} {c : Char} (hne : p ≠ []) (hl : p.getLast? ≠ some c)
    (h : p <:+: s ++ [c]) : p <:+: s := by
  obtain ⟨a, b, hab⟩ := h
  cases hb : b.reverse with
  | nil =>
    have hb' : b = [] := by simpa using hb
    subst hb'
    simp only [List.append_nil] at hab
    have : (a ++ p).getLast? = (s ++ [c]).getLast? := by rw [hab]
    rw [List.getLast?_append, List.getLast?_append] at this
    cases hp : p.getLast? with
    | none => exact absurd (List.getLast?_eq_none_iff.mp hp) hne
    | some x =>
      rw [hp] at this hl
      simp at this
      exact absurd (by rw [this]) hl
  | cons d ds =>
    have hb' : b = ds.reverse ++ [d] := by
      have := congrArg List.reverse hb; simpa using this
    subst hb'
    have : a ++ p ++ ds.reverse ++ [d] = s ++ [c] := by simpa [List.append_assoc] using hab
    have h2 := List.append_inj_left' this (by simp)
    exact ⟨a, ds.reverse, h2⟩

end Flags
