import AaVerif.FlagsText
import AaVerif.FilterLemmas
/-!
# FlagsSet — the `setflags` task on one block header

`setflags` removes every `flags=(…)` clause of the file and rewrites every ` {\n` into ` flags=(MANIFEST) {\n`.  On a header
line followed by its newline that puts exactly the manifest flags into the header.
-/
namespace Flags
open Str Lines

/-- the part of `matchFlagsAt` behind `flags=(` -/
def groupOf (r : List Char) : Option (List Char) :=
  let g := r.takeWhile (· != ')')
  if g.isEmpty then none else if (r.drop g.length).isEmpty then none else some g

theorem matchFlagsAt_eq (t : List Char) :
    matchFlagsAt t = if flagsOpen.isPrefixOf t then groupOf (t.drop 7) else none := rfl

theorem takeWhile_no_paren : ∀ (r : List Char), ')' ∉ r → r.takeWhile (· != ')') = r
  | [], _ => rfl
  | c :: cs, h => by
    have hc : (c != ')') = true := by
      have : c ≠ ')' := fun e => h (by simp [e])
      simpa using this
    simp only [List.takeWhile_cons, hc, if_true]
    rw [takeWhile_no_paren cs (fun hm => h (List.mem_cons_of_mem _ hm))]

theorem takeWhile_paren : ∀ (r x : List Char), ')' ∈ r →
    (r ++ x).takeWhile (· != ')') = r.takeWhile (· != ')') ∧ r.drop (r.takeWhile (· != ')')).length ≠ []
  | [], _, h => by simp at h
  | c :: cs, x, h => by
    by_cases hc : c = ')'
    · subst hc; simp
    · have hc' : (c != ')') = true := by simpa using hc
      have hcs : ')' ∈ cs := by
        rcases List.mem_cons.mp h with h | h
        · exact absurd h.symm hc
        · exact h
      obtain ⟨h1, h2⟩ := takeWhile_paren cs x hcs
      simp only [List.cons_append, List.takeWhile_cons, hc', if_true, h1, List.length_cons, List.drop_succ_cons]
      exact ⟨trivial, h2⟩

/-- a newline behind the text does not change what the clause pattern finds -/
theorem groupOf_snoc_nl (r : List Char) (hr : nl ∉ r) : groupOf (r ++ [nl]) = groupOf r := by
  unfold groupOf
  by_cases hp : ')' ∈ r
  · obtain ⟨h1, h2⟩ := takeWhile_paren r [nl] hp
    simp only [h1]
    have h3 : (r ++ [nl]).drop (r.takeWhile (· != ')')).length ≠ [] := by
      rw [List.drop_append_of_le_length (by
        have := List.takeWhile_prefix (l := r) (· != ')')
        exact this.length_le)]
      simp
    have e1 : ((r ++ [nl]).drop (r.takeWhile (· != ')')).length).isEmpty = false := by
      cases hh : (r ++ [nl]).drop (r.takeWhile (· != ')')).length with
      | nil => exact absurd hh h3
      | cons _ _ => rfl
    have e2 : (r.drop (r.takeWhile (· != ')')).length).isEmpty = false := by
      cases hh : r.drop (r.takeWhile (· != ')')).length with
      | nil => exact absurd hh h2
      | cons _ _ => rfl
    simp only [e1, e2]
  · have hp' : ')' ∉ r ++ [nl] := by
      intro hm
      rcases List.mem_append.mp hm with hm | hm
      · exact hp hm
      · simp [nl] at hm
    rw [takeWhile_no_paren r hp, takeWhile_no_paren (r ++ [nl]) hp']
    simp

theorem flagsMatcher_snoc_nl (s : List Char) (hs : nl ∉ s) : flagsMatcher (s ++ [nl]) = flagsMatcher s := by
  unfold flagsMatcher
  rw [matchFlagsAt_eq, matchFlagsAt_eq]
  have hpre : flagsOpen.isPrefixOf (s ++ [nl]) = flagsOpen.isPrefixOf s :=
    Filter.isPrefixOf_append_nl (p := flagsOpen) (a := s) (b := []) (by decide)
  rw [hpre]
  by_cases hp : flagsOpen.isPrefixOf s = true
  · simp only [hp, if_true]
    have hlen : 7 ≤ s.length := by
      have := (List.isPrefixOf_iff_prefix.mp hp).length_le
      simpa [flagsOpen] using this
    rw [List.drop_append_of_le_length hlen, groupOf_snoc_nl _ (fun hm => hs (List.mem_of_mem_drop hm))]
  · simp [hp]

theorem flagsMatcher_lt (t : List Char) (k : Nat) (h : flagsMatcher t = some k) : k < t.length := by
  unfold flagsMatcher at h
  rw [matchFlagsAt_eq] at h
  by_cases hp : flagsOpen.isPrefixOf t = true
  · simp only [hp, if_true, groupOf] at h
    have hlen : 7 ≤ t.length := by
      have := (List.isPrefixOf_iff_prefix.mp hp).length_le
      simpa [flagsOpen] using this
    split at h
    · simp at h
    · split at h
      · simp at h
      · next _ hne =>
        simp only [Option.map_some, Option.some.injEq] at h
        have hd : ((t.drop 7).takeWhile (· != ')')).length < (t.drop 7).length := by
          apply Classical.byContradiction
          intro hc
          apply hne
          have : (t.drop 7).drop ((t.drop 7).takeWhile (· != ')')).length = [] := by
            apply List.drop_eq_nil_of_le; omega
          simp [this]
        have : (t.drop 7).length = t.length - 7 := List.length_drop
        omega
  · simp [hp] at h

/-- erasing the flags clauses of a line does not care about the newline behind it -/
theorem eraseFlags_snoc_nl : ∀ (l : List Char), nl ∉ l → eraseFlags (l ++ [nl]) = eraseFlags l ++ [nl] := by
  intro l
  induction hn : l.length using Nat.strongRecOn generalizing l with
  | _ n ih =>
    intro hl
    unfold eraseFlags
    cases l with
    | nil =>
      have h1 : flagsMatcher [nl] = none := by decide
      simp only [List.nil_append]
      rw [replaceAllWith_cons_none h1, replaceAllWith_nil]
      rfl
    | cons c cs =>
      have hcs : nl ∉ cs := fun hh => hl (List.mem_cons_of_mem _ hh)
      have hcut := flagsMatcher_snoc_nl (c :: cs) hl
      simp only [List.cons_append] at hcut ⊢
      cases hmm : flagsMatcher (c :: cs) with
      | none =>
        rw [hmm] at hcut
        rw [replaceAllWith_cons_none hcut, replaceAllWith_cons_none hmm]
        have := ih cs.length (by simp at hn; omega) cs rfl hcs
        unfold eraseFlags at this
        rw [this]; rfl
      | some k =>
        rw [hmm] at hcut
        have hk : k ≤ cs.length := by
          have := flagsMatcher_lt _ _ hmm
          simp at this; omega
        rw [replaceAllWith_cons_some hcut, replaceAllWith_cons_some hmm]
        rw [List.drop_append_of_le_length hk]
        have hlen : (cs.drop k).length < n := by
          have := List.length_drop (i := k) (l := cs); simp at hn; omega
        have hno : nl ∉ cs.drop k := fun hh => hcs (List.mem_of_mem_drop hh)
        have := ih _ hlen (cs.drop k) rfl hno
        unfold eraseFlags at this
        rw [this]
        simp

/-- ` {\n` does not start inside a line -/
theorem braceNl_not_prefix (s : List Char) (hne : s ≠ []) (hs : nl ∉ s) : braceNl.isPrefixOf (s ++ braceNl) = false := by
  have hb : braceNl = [' ', '{', '\n'] := by decide
  rw [hb]
  match s, hne, hs with
  | [a], _, _ => simp [List.isPrefixOf]
  | [a, b], _, _ => simp [List.isPrefixOf]
  | a :: b :: c :: rest, _, hs =>
    have hc : c ≠ '\n' := fun e => hs (by simp [e, nl])
    have hc' : ¬ '\n' = c := fun e => hc e.symm
    simp [List.isPrefixOf, hc']

theorem replaceBrace_tail (R : List Char) : ∀ (e : List Char), nl ∉ e →
    replaceAllWith (matchAlts [braceNl]) R (e ++ braceNl) = e ++ R
  | [], _ => by
    have hm : matchAlts [braceNl] braceNl = some 2 := by decide
    have hb : braceNl = ' ' :: ['{', '\n'] := by decide
    simp only [List.nil_append]
    rw [hb] at hm ⊢
    rw [replaceAllWith_cons_some hm]
    simp [replaceAllWith_nil]
  | c :: cs, h => by
    have hcs : nl ∉ cs := fun hh => h (List.mem_cons_of_mem _ hh)
    have hnone : matchAlts [braceNl] ((c :: cs) ++ braceNl) = none := by
      rw [Filter.matchAlts_single, braceNl_not_prefix (c :: cs) (by simp) h]
      simp
    simp only [List.cons_append] at hnone ⊢
    rw [replaceAllWith_cons_none hnone, replaceBrace_tail R cs hcs]

/-- **`setflags` on one block header**: the clauses of the line are erased and the manifest's clause is written in front of
the brace -/
theorem setFlags_header (fl : List (List Char)) (l e : List Char) (hl : nl ∉ l) (he : eraseFlags l = e ++ braceSuffix) :
    setFlags fl (l ++ [nl]) = e ++ flagsClause fl ++ [nl] := by
  unfold setFlags
  rw [eraseFlags_snoc_nl l hl, he]
  have hen : nl ∉ e := by
    intro hm
    have : nl ∈ eraseFlags l := by rw [he]; exact List.mem_append_left _ hm
    exact eraseFlags_no_nl hl this
  have hb : e ++ braceSuffix ++ [nl] = e ++ braceNl := by
    rw [List.append_assoc]; rfl
  rw [hb, replaceBrace_tail _ e hen]
  simp [flagsClause, flagsOpen, braceSuffix, nl]

end Flags
