import AaVerif.Flags
/-!
# FlagsText — the complain / enforce builders on a whole text

`Flags.complain` / `Flags.enforce` rewrite every block header of a text.  The lemmas here lift the
statements about one header line (`Props/C05`) to every block of every text: the rewritten text has
the same lines in the same positions, a header line is the rewritten header, every other line is
the line itself.
-/
namespace Flags
open Str Lines

theorem matchFlagsAt_sub {t g : List Char} (h : matchFlagsAt t = some g) : ∀ c ∈ g, c ∈ t := by
  unfold matchFlagsAt at h
  split at h
  · simp only at h
    split at h
    · simp at h
    · split at h
      · simp at h
      · simp only [Option.some.injEq] at h
        subst h
        intro c hc
        exact List.mem_of_mem_drop ((List.takeWhile_prefix _).subset hc)
  · simp at h

theorem findFlags_sub : ∀ {s g : List Char}, findFlags s = some g → ∀ c ∈ g, c ∈ s
  | [], g, h => by simp [findFlags] at h
  | d :: ds, g, h => by
    unfold findFlags at h
    split at h
    · next g' hm =>
      simp only [Option.some.injEq] at h
      subst h
      exact matchFlagsAt_sub hm
    · intro c hc
      exact List.mem_cons_of_mem _ (findFlags_sub h c hc)

theorem flagsOf_sub (l : List Char) : ∀ f ∈ flagsOf l, ∀ c ∈ f, c ∈ l := by
  unfold flagsOf
  split
  · next g hg =>
    exact splitComma_go_sub [] (· ∈ l) (by simp) g (findFlags_sub hg)
  · simp

theorem eraseFlags_no_nl {l : List Char} (h : nl ∉ l) : nl ∉ eraseFlags l :=
  replace_no_nl flagsMatcher (by simp) l h

theorem flagsClause_no_nl {fl : List (List Char)} (h : ∀ f ∈ fl, nl ∉ f) : nl ∉ flagsClause fl := by
  have hj : nl ∉ joinComma fl := by
    intro hm
    exact joinComma_sub (· ≠ nl) (by decide) fl (fun x hx c hc e => h x hx (e ▸ hc)) nl hm rfl
  unfold flagsClause
  simp only [List.mem_cons, List.mem_append, not_or]
  refine ⟨by decide, ⟨by decide, hj⟩, by decide, by decide⟩

theorem complainLine_no_nl {l : List Char} (h : nl ∉ l) : nl ∉ complainLine l := by
  unfold complainLine
  simp only
  split
  · exact h
  · simp only [List.mem_append, not_or]
    refine ⟨fun hm => eraseFlags_no_nl h (List.dropLast_subset _ (List.dropLast_subset _ hm)), ?_⟩
    apply flagsClause_no_nl
    intro f hf
    simp only [List.mem_append, List.mem_singleton] at hf
    rcases hf with hf | rfl
    · exact fun hm => h (flagsOf_sub l f hf nl hm)
    · decide

theorem enforceLine_no_nl {l : List Char} (h : nl ∉ l) : nl ∉ enforceLine l := by
  unfold enforceLine
  split
  · exact h
  · next g hg =>
    simp only
    split
    · exact h
    · simp only [List.mem_append, not_or]
      refine ⟨fun hm => eraseFlags_no_nl h (List.dropLast_subset _ (List.dropLast_subset _ hm)), ?_⟩
      split
      · decide
      · apply flagsClause_no_nl
        intro f hf
        have hf' : f ∈ splitComma g := (List.mem_filter.mp hf).1
        have : f ∈ flagsOf l := by unfold flagsOf; rw [hg]; exact hf'
        exact fun hm => h (flagsOf_sub l f this nl hm)

/-! ### `mapHeaderLines` position by position -/

theorem mapHeaderLines_length (f : List Char → List Char) : ∀ ls, (mapHeaderLines f ls).length = ls.length
  | [] => rfl
  | [_] => rfl
  | l :: l' :: ls => by simp [mapHeaderLines, mapHeaderLines_length f (l' :: ls)]

/-- a line that is followed by another one: rewritten when it ends in ` {`, kept otherwise; the last line
(no newline after it) is kept -/
theorem mapHeaderLines_get (f : List Char → List Char) : ∀ (ls : List (List Char)) (i : Nat) (h : i < ls.length),
    (mapHeaderLines f ls)[i]'(by rw [mapHeaderLines_length]; exact h) =
      if i + 1 < ls.length ∧ endsBrace ls[i] = true then f ls[i] else ls[i]
  | [], i, h => by simp at h
  | [l], i, h => by
    have : i = 0 := by simp at h; omega
    subst this; simp [mapHeaderLines]
  | l :: l' :: ls, 0, _ => by
    simp only [mapHeaderLines, List.getElem_cons_zero, List.length_cons]
    by_cases hb : endsBrace l = true <;> simp [hb]
  | l :: l' :: ls, i + 1, h => by
    have hi : i < (l' :: ls).length := by simpa using h
    have := mapHeaderLines_get f (l' :: ls) i hi
    simp only [mapHeaderLines, List.getElem_cons_succ, List.length_cons] at this ⊢
    rw [this]
    by_cases hb : endsBrace ((l' :: ls)[i]'hi) = true <;> simp [hb]

theorem mapHeaderLines_no_nl {f : List Char → List Char} (hf : ∀ {l}, nl ∉ l → nl ∉ f l) :
    ∀ (ls : List (List Char)), (∀ l ∈ ls, nl ∉ l) → ∀ l ∈ mapHeaderLines f ls, nl ∉ l
  | [], _ => by simp [mapHeaderLines]
  | [a], h => by simpa [mapHeaderLines] using h
  | a :: b :: ls, h => by
    intro l hl
    simp only [mapHeaderLines, List.mem_cons] at hl
    rcases hl with rfl | hl
    · split
      · exact hf (h a (by simp))
      · exact h a (by simp)
    · exact mapHeaderLines_no_nl hf (b :: ls) (fun x hx => h x (by simp [hx])) l (by simpa [mapHeaderLines] using hl)

theorem mapHeaderLines_ne_nil (f : List Char → List Char) {ls : List (List Char)} (h : ls ≠ []) :
    mapHeaderLines f ls ≠ [] := by
  intro h0
  have := mapHeaderLines_length f ls
  rw [h0] at this
  cases ls with
  | nil => exact h rfl
  | cons _ _ => simp at this

/-- the lines of the rewritten text are the rewritten lines -/
theorem lines_complain (t : List Char) : splitNl (complain t) = mapHeaderLines complainLine (splitNl t) :=
  split_join _ (mapHeaderLines_ne_nil _ (splitNl_ne_nil t))
    (mapHeaderLines_no_nl (fun h => complainLine_no_nl h) _ (split_lines_no_nl t))

theorem lines_enforce (t : List Char) : splitNl (enforce t) = mapHeaderLines enforceLine (splitNl t) :=
  split_join _ (mapHeaderLines_ne_nil _ (splitNl_ne_nil t))
    (mapHeaderLines_no_nl (fun h => enforceLine_no_nl h) _ (split_lines_no_nl t))

end Flags
