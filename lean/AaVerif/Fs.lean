/-!
# Fs — an abstract file system for the prepare stage

A file system is an association list from paths (lists of components) to entries.  Only the
operations the prepare tasks use are modelled; no permissions, no I/O errors, no concurrency.
-/
namespace Fs

abbrev Path := List String

inductive Entry where
  | file (content : String)
  | link (target : String)
deriving Repr, DecidableEq

abbrev FS := List (Path × Entry)

/-- `RemoveAll dir` -/
def removeAll (dir : Path) (fs : FS) : FS := fs.filter (fun p => !(dir.isPrefixOf p.1))

/-- `CopyFS`/`CopyTo`: every entry of `src` under `from` is written below `to` (overwriting) -/
def copyTree (src : FS) (frm to : Path) (fs : FS) : FS :=
  let add := (src.filter (fun p => frm.isPrefixOf p.1)).map (fun p => (to ++ p.1.drop frm.length, p.2))
  (fs.filter (fun p => !(add.any (fun q => q.1 == p.1)))) ++ add

/-- entries below one of the managed directories -/
def under (dirs : List Path) (fs : FS) : FS := fs.filter (fun p => dirs.any (fun d => d.isPrefixOf p.1))

/-- `Synchronise.Apply`: remove `root/systemd`, `root/apparmor.d` and `root/p` for every
synchronised path `p`, then copy `p` from the source tree to `root/p`. -/
def synchronise (root : Path) (paths : List Path) (src : FS) (old : FS) : FS :=
  let fs := removeAll (root ++ ["systemd"]) old
  let fs := removeAll (root ++ ["apparmor.d"]) fs
  paths.foldl (fun fs p => copyTree src p (root ++ p) (removeAll (root ++ p) fs)) fs

end Fs

namespace Fs

theorem filter_filter_nil {α : Type} (l : List α) (P Q : α → Bool) (h : ∀ x, P x = true → Q x = false) :
    (l.filter P).filter Q = [] := by
  induction l with
  | nil => rfl
  | cons a as ih =>
    simp only [List.filter_cons]
    by_cases hp : P a = true
    · simp [hp, h a hp, ih]
    · simp [hp, ih]

theorem under_removeAll_nil (d : Path) (fs : FS) : under [d] (removeAll d fs) = [] := by
  unfold under removeAll
  apply filter_filter_nil
  intro x hx
  simp only [List.any_cons, List.any_nil, Bool.or_false]
  simpa using hx

/-- **One synchronised directory is rebuilt from the source alone**: what lies under `root/p`
after the step does not depend on what the build directory held before. -/
theorem sync_step_independent (src : FS) (root p : Path) (fs₁ fs₂ : FS) :
    under [root ++ p] (copyTree src p (root ++ p) (removeAll (root ++ p) fs₁)) =
    under [root ++ p] (copyTree src p (root ++ p) (removeAll (root ++ p) fs₂)) := by
  have key : ∀ fs : FS, under [root ++ p] (copyTree src p (root ++ p) (removeAll (root ++ p) fs)) =
      under [root ++ p] ((src.filter (fun q => p.isPrefixOf q.1)).map
        (fun q => ((root ++ p) ++ q.1.drop p.length, q.2))) := by
    intro fs
    unfold copyTree
    simp only
    unfold under
    rw [List.filter_append]
    have h0 : ((removeAll (root ++ p) fs).filter (fun q => !(((src.filter (fun q => p.isPrefixOf q.1)).map
        (fun q => ((root ++ p) ++ q.1.drop p.length, q.2))).any (fun r => r.1 == q.1)))).filter
        (fun q => [root ++ p].any (fun d => d.isPrefixOf q.1)) = [] := by
      have h1 := under_removeAll_nil (root ++ p) fs
      unfold under at h1
      -- a sublist of a list whose filter is empty has an empty filter
      have hsub : List.Sublist ((removeAll (root ++ p) fs).filter (fun q => !(((src.filter (fun q => p.isPrefixOf q.1)).map
        (fun q => ((root ++ p) ++ q.1.drop p.length, q.2))).any (fun r => r.1 == q.1)))) (removeAll (root ++ p) fs) :=
        List.filter_sublist
      have := List.Sublist.filter (fun q : Path × Entry => [root ++ p].any (fun d => d.isPrefixOf q.1)) hsub
      rw [h1] at this
      exact List.sublist_nil.mp this
    rw [h0, List.nil_append]
  rw [key fs₁, key fs₂]

end Fs
