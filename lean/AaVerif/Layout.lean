import AaVerif.Flags
import AaVerif.Proto
/-!
# Layout — the layout contract of shipped profile files (C19), as a decidable predicate on the
lines of a file.  Evaluated by the driver on every shipped file on every run.
-/
namespace Layout
open Lines

def dropSpaces (l : List Char) : List Char := l.dropWhile (· == ' ')
def indented (l : List Char) : Bool := match l with | ' ' :: _ => true | _ => false

def startsWithWord (w l : List Char) : Bool :=
  w.isPrefixOf l && (match l.drop w.length with | [] => true | c :: _ => c == ' ')

def hasAbi (ls : List (List Char)) : Bool :=
  ls.any (fun l => "abi <abi/4.0>,".toList.isPrefixOf (dropSpaces l))

def headerPrefix (name : List Char) : List Char := "profile ".toList ++ name

/-- index of the column-0 header `profile NAME` -/
def headerIdx (name : List Char) (ls : List (List Char)) : Option Nat :=
  let rec go (i : Nat) : List (List Char) → Option Nat
    | [] => none
    | l :: rest => if startsWithWord (headerPrefix name) l then some i else go (i + 1) rest
  go 0 ls

def words (l : List Char) : List (List Char) := (Proto.splitOnChar ' ' l).filter (fun w => !w.isEmpty)

def execPath : List Char := "@{exec_path}".toList

/-- `@{exec_path} = …` (a definition, not `+=`) -/
def definesExecPath (l : List Char) : Bool :=
  execPath.isPrefixOf l && (match dropSpaces (l.drop execPath.length) with | '=' :: _ => true | _ => false)

/-- attachment absent, or `@{exec_path}` defined in the file's own preamble -/
def attachOk (name : List Char) (ls : List (List Char)) : Bool :=
  match headerIdx name ls with
  | none => false
  | some i =>
    match (words (ls.getD i [])).drop 2 with
    | [] => true
    | t :: _ =>
      if t == ['{'] || "flags=".toList.isPrefixOf t || "xattrs=".toList.isPrefixOf t then true
      else t == execPath && (ls.take i).any definesExecPath

def localInclude (n : List Char) : List Char := "include if exists <local/".toList ++ n ++ ['>']

def hasIndentedLine (ls : List (List Char)) (x : List Char) : Bool :=
  ls.any (fun l => indented l && dropSpaces l == x)

def subProfiles (ls : List (List Char)) : List (List Char) :=
  ls.filterMap (fun l =>
    if indented l && "profile ".toList.isPrefixOf (dropSpaces l) then (words l)[1]? else none)

def indentOf (l : List Char) : Nat := (l.takeWhile (· == ' ')).length

/-- the lines of the block opened at the head of `ls` (whose header is indented by `k`): up to the first line that
closes it (`}` at the same indentation) -/
def blockBody (k : Nat) : List (List Char) → List (List Char)
  | [] => []
  | l :: rest => if indentOf l == k && dropSpaces l == ['}'] then [] else l :: blockBody k rest

/-- every sub-profile holds, inside its own block, the local include named after it -/
def subIncludesIn (name : List Char) : List (List Char) → Bool
  | [] => true
  | l :: rest =>
    (if indented l && "profile ".toList.isPrefixOf (dropSpaces l) then
      match (words l)[1]? with
      | some s => (blockBody (indentOf l) rest).any (fun x => dropSpaces x == localInclude (name ++ '_' :: s))
      | none => true
     else true) && subIncludesIn name rest

def subIncludesOk (name : List Char) (ls : List (List Char)) : Bool :=
  (subProfiles ls).all (fun s => hasIndentedLine ls (localInclude (name ++ '_' :: s))) && subIncludesIn name ls

/-- the contract for one profile file; `name` is the file name minus `.apparmor.d` -/
def ok (name : List Char) (ls : List (List Char)) : Bool :=
  hasAbi ls && (headerIdx name ls).isSome && attachOk name ls &&
  hasIndentedLine ls (localInclude name) && subIncludesOk name ls

/-- the contract for an abstraction: it includes its own `.d` directory -/
def absOk (rel : List Char) (ls : List (List Char)) : Bool :=
  hasAbi ls && hasIndentedLine ls ("include if exists <abstractions/".toList ++ rel ++ ".d>".toList)

/-- which part fails (for the replay) -/
def report (name : List Char) (ls : List (List Char)) : List String :=
  (if hasAbi ls then [] else ["abi"]) ++
  (if (headerIdx name ls).isSome then [] else ["header"]) ++
  (if attachOk name ls then [] else ["attachment"]) ++
  (if hasIndentedLine ls (localInclude name) then [] else ["local-include"]) ++
  (if subIncludesOk name ls then [] else ["sub-profile-local-include"])

def stripSuffix (s : List Char) : List Char :=
  let suf := ".apparmor.d".toList
  if suf.isSuffixOf s then s.take (s.length - suf.length) else s

end Layout
