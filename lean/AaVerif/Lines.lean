import AaVerif.Str
/-!
# Lines — texts as lists of lines, and line-locality of newline-free replacements

`splitNl`/`joinNl` are inverse to each other; a replacement whose matcher never looks at or
across a newline and whose replacement text has no newline acts on every line separately.
-/
set_option linter.unusedSectionVars false
namespace Lines
open Str

def nl : Char := '\n'

/-- split on newlines; always returns at least one line -/
def splitNl : List Char → List (List Char)
  | [] => [[]]
  | c :: cs =>
    if c = nl then [] :: splitNl cs
    else match splitNl cs with
      | [] => [[c]]
      | l :: ls => (c :: l) :: ls

def joinNl : List (List Char) → List Char
  | [] => []
  | [l] => l
  | l :: l' :: ls => l ++ nl :: joinNl (l' :: ls)

theorem splitNl_ne_nil (t : List Char) : splitNl t ≠ [] := by
  induction t with
  | nil => simp [splitNl]
  | cons c cs ih =>
    simp only [splitNl]
    split
    · simp
    · split <;> simp

theorem joinNl_cons_cons (l : List Char) (ls : List (List Char)) (h : ls ≠ []) :
    joinNl (l :: ls) = l ++ nl :: joinNl ls := by
  cases ls with
  | nil => exact absurd rfl h
  | cons l' ls => rfl

theorem join_split (t : List Char) : joinNl (splitNl t) = t := by
  induction t with
  | nil => rfl
  | cons c cs ih =>
    simp only [splitNl]
    split
    · rename_i h
      rw [joinNl_cons_cons _ _ (splitNl_ne_nil cs), ih, h]; rfl
    · rename_i h
      have hne := splitNl_ne_nil cs
      cases hs : splitNl cs with
      | nil => exact absurd hs hne
      | cons l ls =>
        simp only
        rw [hs] at ih
        cases ls with
        | nil => simp only [joinNl] at ih ⊢; rw [ih]
        | cons l' ls =>
          simp only [joinNl] at ih ⊢
          rw [← ih]; simp

theorem split_lines_no_nl (t : List Char) : ∀ l ∈ splitNl t, nl ∉ l := by
  induction t with
  | nil => simp [splitNl]
  | cons c cs ih =>
    simp only [splitNl]
    split
    · intro l hl
      simp only [List.mem_cons] at hl
      rcases hl with rfl | hl
      · simp
      · exact ih l hl
    · rename_i h
      have hne := splitNl_ne_nil cs
      cases hs : splitNl cs with
      | nil => exact absurd hs hne
      | cons l ls =>
        rw [hs] at ih
        intro x hx
        simp only [List.mem_cons] at hx
        rcases hx with rfl | hx
        · have := ih l (by simp)
          simp only [List.mem_cons, not_or]
          exact ⟨fun e => h e.symm, this⟩
        · exact ih x (by simp [hx])

/-- every line of a text occurs in the text -/
theorem line_infix (ls : List (List Char)) : ∀ l ∈ ls, l <:+: joinNl ls := by
  induction ls with
  | nil => simp
  | cons a as ih =>
    intro l hl
    cases as with
    | nil =>
      simp only [List.mem_cons, List.not_mem_nil, or_false] at hl
      subst hl; exact List.infix_refl _
    | cons b bs =>
      simp only [joinNl]
      simp only [List.mem_cons] at hl
      rcases hl with rfl | hl
      · exact (List.prefix_append _ _).isInfix
      · have := ih l (by simpa using hl)
        exact List.IsInfix.trans this (List.suffix_append_of_suffix
          (List.suffix_cons _ _) |>.isInfix)

/-- a matcher that never looks at or beyond a newline -/
structure LineLocal (m : Matcher Char) : Prop where
  nil : m [] = none
  inLine : ∀ s n, m s = some n → nl ∉ s.take (n + 1)
  cut : ∀ a b, nl ∉ a → m (a ++ nl :: b) = m a

theorem take_no_nl_le {a b : List Char} {k : Nat} (ha : nl ∉ a)
    (h : nl ∉ (a ++ nl :: b).take k) : k ≤ a.length := by
  apply Classical.byContradiction
  intro hk
  have hk : a.length < k := by omega
  apply h
  rw [List.take_append]
  apply List.mem_append_right
  have : k - a.length = (k - a.length - 1) + 1 := by omega
  rw [this, List.take_succ_cons]
  simp

/-- **Line locality.** -/
theorem replace_cut {m : Matcher Char} (hm : LineLocal m) {r : List Char} :
    ∀ (a b : List Char), nl ∉ a →
      replaceAllWith m r (a ++ nl :: b) = replaceAllWith m r a ++ nl :: replaceAllWith m r b := by
  intro a
  induction h : a.length using Nat.strongRecOn generalizing a with
  | _ n ih =>
    intro b ha
    cases a with
    | nil =>
      have h1 : m (nl :: b) = none := by
        have := hm.cut [] b (by simp); simpa [hm.nil] using this
      simp only [List.nil_append]
      rw [replaceAllWith_cons_none h1, replaceAllWith_nil]; rfl
    | cons c cs =>
      have hcs : nl ∉ cs := fun hh => ha (List.mem_cons_of_mem _ hh)
      have hcut := hm.cut (c :: cs) b ha
      simp only [List.cons_append] at hcut ⊢
      cases hmm : m (c :: cs) with
      | none =>
        rw [hmm] at hcut
        rw [replaceAllWith_cons_none hcut, replaceAllWith_cons_none hmm,
          ih cs.length (by simp at h; omega) cs rfl b hcs]
        rfl
      | some k =>
        rw [hmm] at hcut
        have hin := hm.inLine _ _ hcut
        have hle : k + 1 ≤ (c :: cs).length :=
          take_no_nl_le (a := c :: cs) (b := b) ha (by simpa using hin)
        have hk : k ≤ cs.length := by simp at hle; omega
        rw [replaceAllWith_cons_some hcut, replaceAllWith_cons_some hmm]
        have hdrop : (cs ++ nl :: b).drop k = cs.drop k ++ nl :: b := by
          rw [List.drop_append_of_le_length hk]
        rw [hdrop]
        have hlen : (cs.drop k).length < n := by
          have := List.length_drop (i := k) (l := cs); simp at h; omega
        have hno : nl ∉ cs.drop k := fun hh => hcs (List.mem_of_mem_drop hh)
        rw [ih _ hlen (cs.drop k) rfl b hno]
        simp

theorem replace_join {m : Matcher Char} (hm : LineLocal m) {r : List Char} :
    ∀ (ls : List (List Char)), (∀ l ∈ ls, nl ∉ l) →
      replaceAllWith m r (joinNl ls) = joinNl (ls.map (replaceAllWith m r)) := by
  intro ls
  induction ls with
  | nil => intro _; rfl
  | cons a as ih =>
    intro h
    cases as with
    | nil => rfl
    | cons b bs =>
      simp only [joinNl, List.map_cons]
      rw [replace_cut hm a _ (h a (by simp))]
      have := ih (fun l hl => h l (by simp [hl]))
      simp only [List.map_cons] at this
      rw [this]

/-- a replacement by a newline-free word with a line-local matcher is a map over the lines -/
theorem replace_lines {m : Matcher Char} (hm : LineLocal m) (r : List Char) (t : List Char) :
    replaceAllWith m r t = joinNl ((splitNl t).map (replaceAllWith m r)) := by
  have := replace_join hm (r := r) (splitNl t) (split_lines_no_nl t)
  rw [join_split] at this
  exact this

/-! ### `matchPats` is line-local when no alternative mentions a newline -/

def pcNoNl : PC → Bool
  | .lit c => c != nl
  | .dot => true

def altsNoNl (ps : List (List PC)) : Bool := ps.all (fun p => p.all pcNoNl)

theorem patPrefix_take {p : List PC} (hp : p.all pcNoNl = true) :
    ∀ s, patPrefix p s = true → nl ∉ s.take p.length := by
  induction p with
  | nil => intro s _; simp
  | cons x xs ih =>
    intro s hs
    cases s with
    | nil => simp [patPrefix] at hs
    | cons c cs =>
      simp only [patPrefix, Bool.and_eq_true] at hs
      simp only [List.all_cons, Bool.and_eq_true] at hp
      simp only [List.length_cons, List.take_succ_cons, List.mem_cons, not_or]
      refine ⟨?_, ih hp.2 cs hs.2⟩
      intro e
      cases x with
      | lit d =>
        simp only [PC.matches, beq_iff_eq] at hs
        simp only [pcNoNl, bne_iff_ne, ne_eq] at hp
        exact hp.1 (hs.1.trans e.symm)
      | dot =>
        simp only [PC.matches, bne_iff_ne, ne_eq] at hs
        exact hs.1 e.symm

theorem patPrefix_cut {p : List PC} (hp : p.all pcNoNl = true) :
    ∀ a b, nl ∉ a → patPrefix p (a ++ nl :: b) = patPrefix p a := by
  induction p with
  | nil => intro a b _; simp [patPrefix]
  | cons x xs ih =>
    intro a b ha
    simp only [List.all_cons, Bool.and_eq_true] at hp
    cases a with
    | nil =>
      simp only [List.nil_append, patPrefix]
      cases x with
      | lit d =>
        simp only [pcNoNl, bne_iff_ne, ne_eq] at hp
        simp [PC.matches, hp.1]
      | dot => simp [PC.matches, nl]
    | cons c cs =>
      simp only [List.cons_append, patPrefix]
      rw [ih hp.2 cs b (fun hh => ha (List.mem_cons_of_mem _ hh))]

theorem find?_congr' {α : Type} {p q : α → Bool} :
    ∀ l : List α, (∀ x ∈ l, p x = q x) → l.find? p = l.find? q := by
  intro l
  induction l with
  | nil => intro _; rfl
  | cons a as ih =>
    intro h
    simp only [List.find?_cons, h a (by simp)]
    rw [ih (fun x hx => h x (by simp [hx]))]

theorem matchPats_lineLocal {ps : List (List PC)} (h : altsNoNl ps = true) :
    LineLocal (matchPats ps) := by
  unfold altsNoNl at h
  rw [List.all_eq_true] at h
  refine ⟨?_, ?_, ?_⟩
  · unfold matchPats
    have : ps.find? (fun p => patPrefix p [] && !p.isEmpty) = none := by
      rw [List.find?_eq_none]
      intro p _
      cases p <;> simp [patPrefix]
    rw [this]
  · intro s n hs
    unfold matchPats at hs
    cases hf : ps.find? (fun p => patPrefix p s && !p.isEmpty) with
    | none => simp [hf] at hs
    | some p =>
      simp only [hf, Option.some.injEq] at hs
      have hp := List.find?_some hf
      have hmem := List.mem_of_find?_eq_some hf
      simp only [Bool.and_eq_true, Bool.not_eq_true', List.isEmpty_eq_false_iff] at hp
      have hlen : n + 1 = p.length := by
        have : 0 < p.length := List.length_pos_iff.mpr hp.2
        omega
      rw [hlen]
      exact patPrefix_take (h p hmem) s hp.1
  · intro a b ha
    unfold matchPats
    have : ps.find? (fun p => patPrefix p (a ++ nl :: b) && !p.isEmpty)
        = ps.find? (fun p => patPrefix p a && !p.isEmpty) := by
      apply find?_congr'
      intro p hp
      rw [patPrefix_cut (h p hp) a b ha]
    rw [this]

def stepNoNl (s : Step) : Bool := altsNoNl s.alts && !s.repl.contains nl

theorem step_lines {s : Step} (h : stepNoNl s = true) (t : List Char) :
    s.run t = joinNl ((splitNl t).map s.run) := by
  unfold stepNoNl at h
  simp only [Bool.and_eq_true] at h
  exact replace_lines (matchPats_lineLocal h.1) s.repl t

theorem replace_no_nl (m : Matcher Char) {r : List Char} (hr : nl ∉ r) :
    ∀ t, nl ∉ t → nl ∉ replaceAllWith m r t := by
  intro t
  induction h : t.length using Nat.strongRecOn generalizing t with
  | _ n ih =>
    intro ht
    cases t with
    | nil => simp [replaceAllWith_nil]
    | cons c cs =>
      have hcs : nl ∉ cs := fun hh => ht (List.mem_cons_of_mem _ hh)
      cases hm : m (c :: cs) with
      | none =>
        rw [replaceAllWith_cons_none hm]
        simp only [List.mem_cons, not_or]
        exact ⟨fun e => ht (by simp [e]), ih cs.length (by simp at h; omega) cs rfl hcs⟩
      | some k =>
        rw [replaceAllWith_cons_some hm]
        simp only [List.mem_append, not_or]
        refine ⟨hr, ih _ ?_ (cs.drop k) rfl (fun hh => hcs (List.mem_of_mem_drop hh))⟩
        have := List.length_drop (i := k) (l := cs); simp at h; omega

theorem step_run_no_nl {s : Step} (h : stepNoNl s = true) {l : List Char} (hl : nl ∉ l) :
    nl ∉ s.run l := by
  unfold stepNoNl at h
  simp only [Bool.and_eq_true, Bool.not_eq_true', List.contains_eq_mem, decide_eq_false_iff_not] at h
  exact replace_no_nl _ h.2 l hl

def stepsNoNl (ss : List Step) : Bool := ss.all stepNoNl

theorem runSteps_no_nl {ss : List Step} (h : stepsNoNl ss = true) :
    ∀ {l : List Char}, nl ∉ l → nl ∉ runSteps ss l := by
  induction ss with
  | nil => intro l hl; simpa [runSteps] using hl
  | cons s ss ih =>
    intro l hl
    unfold stepsNoNl at h
    simp only [List.all_cons, Bool.and_eq_true] at h
    have := ih (by unfold stepsNoNl; exact h.2) (step_run_no_nl h.1 hl)
    simpa [runSteps] using this

theorem map_lines_no_nl {f : List Char → List Char} (hf : ∀ {l}, nl ∉ l → nl ∉ f l)
    {ls : List (List Char)} (h : ∀ l ∈ ls, nl ∉ l) : ∀ l ∈ ls.map f, nl ∉ l := by
  intro l hl
  simp only [List.mem_map] at hl
  obtain ⟨x, hx, rfl⟩ := hl
  exact hf (h x hx)

/-- a chain of newline-free steps acts on every line separately -/
theorem runSteps_join {ss : List Step} (h : stepsNoNl ss = true) :
    ∀ (ls : List (List Char)), (∀ l ∈ ls, nl ∉ l) →
      runSteps ss (joinNl ls) = joinNl (ls.map (runSteps ss)) := by
  induction ss with
  | nil =>
    intro ls _
    have : runSteps ([] : List Step) = id := by funext l; simp [runSteps]
    rw [this]; simp
  | cons s ss ih =>
    intro ls hls
    unfold stepsNoNl at h
    simp only [List.all_cons, Bool.and_eq_true] at h
    have h2 : stepsNoNl ss = true := by unfold stepsNoNl; exact h.2
    have hs : s.run (joinNl ls) = joinNl (ls.map s.run) := by
      have h1 := h.1
      unfold stepNoNl at h1
      simp only [Bool.and_eq_true] at h1
      exact replace_join (matchPats_lineLocal h1.1) ls hls
    have hrec := ih h2 (ls.map s.run) (map_lines_no_nl (fun hl => step_run_no_nl h.1 hl) hls)
    have e1 : ∀ x, runSteps (s :: ss) x = runSteps ss (s.run x) := fun x => by simp [runSteps]
    rw [e1, hs, hrec, List.map_map]
    congr 1

theorem runSteps_lines {ss : List Step} (h : stepsNoNl ss = true) (t : List Char) :
    runSteps ss t = joinNl ((splitNl t).map (runSteps ss)) := by
  have := runSteps_join h (splitNl t) (split_lines_no_nl t)
  rw [join_split] at this
  exact this

theorem splitNl_no_nl : ∀ (a : List Char), nl ∉ a → splitNl a = [a]
  | [], _ => rfl
  | c :: cs, ha => by
    have hc : c ≠ nl := fun e => ha (by simp [e])
    have hcs : nl ∉ cs := fun hh => ha (List.mem_cons_of_mem _ hh)
    simp only [splitNl, hc, if_false, splitNl_no_nl cs hcs]

theorem splitNl_append_nl : ∀ (a t : List Char), nl ∉ a → splitNl (a ++ nl :: t) = a :: splitNl t
  | [], t, _ => by simp [splitNl]
  | c :: cs, t, ha => by
    have hc : c ≠ nl := fun e => ha (by simp [e])
    have hcs : nl ∉ cs := fun hh => ha (List.mem_cons_of_mem _ hh)
    simp only [List.cons_append, splitNl, hc, if_false, splitNl_append_nl cs t hcs]

/-- `splitNl` inverts `joinNl` on newline-free lines -/
theorem split_join : ∀ (ls : List (List Char)), ls ≠ [] → (∀ l ∈ ls, nl ∉ l) →
    splitNl (joinNl ls) = ls := by
  intro ls
  induction ls with
  | nil => intro h; exact absurd rfl h
  | cons a as ih =>
    intro _ h
    have ha : nl ∉ a := h a (by simp)
    cases as with
    | nil => simp only [joinNl]; exact splitNl_no_nl a ha
    | cons b bs =>
      have hrec := ih (by simp) (fun l hl => h l (by simp [hl]))
      simp only [joinNl]
      rw [splitNl_append_nl a _ ha, hrec]

/-! ### pointwise relation between two lists of lines -/

def Rel2 {α β : Type} (R : α → β → Prop) : List α → List β → Prop
  | [], [] => True
  | a :: as, b :: bs => R a b ∧ Rel2 R as bs
  | _, _ => False

instance Rel2.dec {α β : Type} {R : α → β → Prop} [∀ a b, Decidable (R a b)] :
    ∀ (l₁ : List α) (l₂ : List β), Decidable (Rel2 R l₁ l₂)
  | [], [] => isTrue trivial
  | a :: as, b :: bs =>
    have := Rel2.dec (R := R) as bs
    inferInstanceAs (Decidable (R a b ∧ Rel2 R as bs))
  | [], _ :: _ => isFalse (fun h => h)
  | _ :: _, [] => isFalse (fun h => h)

theorem Rel2.mono {α β : Type} {R S : α → β → Prop} (h : ∀ a b, R a b → S a b) :
    ∀ {l₁ : List α} {l₂ : List β}, Rel2 R l₁ l₂ → Rel2 S l₁ l₂
  | [], [], _ => trivial
  | _ :: _, _ :: _, hr => ⟨h _ _ hr.1, Rel2.mono h hr.2⟩
  | [], _ :: _, hr => hr.elim
  | _ :: _, [], hr => hr.elim

theorem Rel2.map_left {α β γ : Type} {R : γ → β → Prop} (f : α → γ) :
    ∀ {l₁ : List α} {l₂ : List β}, Rel2 R (l₁.map f) l₂ ↔ Rel2 (fun a b => R (f a) b) l₁ l₂
  | [], [] => Iff.rfl
  | a :: as, b :: bs => by simp only [List.map_cons, Rel2]; rw [Rel2.map_left f]
  | [], _ :: _ => Iff.rfl
  | _ :: _, [] => Iff.rfl

theorem Rel2.map_right {α β γ : Type} {R : α → γ → Prop} (f : β → γ) :
    ∀ {l₁ : List α} {l₂ : List β}, Rel2 R l₁ (l₂.map f) ↔ Rel2 (fun a b => R a (f b)) l₁ l₂
  | [], [] => Iff.rfl
  | a :: as, b :: bs => by simp only [List.map_cons, Rel2]; rw [Rel2.map_right f]
  | [], _ :: _ => Iff.rfl
  | _ :: _, [] => Iff.rfl

theorem Rel2.right_all {α β : Type} {R : α → β → Prop} {P : β → Prop} (h : ∀ a b, R a b → P b) :
    ∀ {l₁ : List α} {l₂ : List β}, Rel2 R l₁ l₂ → ∀ b ∈ l₂, P b
  | [], [], _ => by simp
  | a :: as, b :: bs, hr => by
    intro x hx
    simp only [List.mem_cons] at hx
    rcases hx with rfl | hx
    · exact h _ _ hr.1
    · exact Rel2.right_all h hr.2 x hx
  | [], _ :: _, hr => hr.elim
  | _ :: _, [], hr => hr.elim

theorem Rel2.ne_nil {α β : Type} {R : α → β → Prop} :
    ∀ {l₁ : List α} {l₂ : List β}, Rel2 R l₁ l₂ → l₁ ≠ [] → l₂ ≠ []
  | [], _, _, h => absurd rfl h
  | _ :: _, _ :: _, _, _ => by simp
  | _ :: _, [], hr, _ => hr.elim

end Lines

namespace Lines
open Str

/-- a replacement whose matcher fires nowhere in the text leaves it unchanged -/
theorem replace_id_of_no_match (m : Matcher Char) (r : List Char) :
    ∀ t : List Char, (∀ s, s <:+ t → m s = none) → replaceAllWith m r t = t := by
  intro t
  induction t with
  | nil => intro _; exact replaceAllWith_nil m r
  | cons c cs ih =>
    intro h
    rw [replaceAllWith_cons_none (h (c :: cs) (List.suffix_refl _))]
    rw [ih (fun s hs => h s (List.IsSuffix.trans hs (List.suffix_cons c cs)))]

/-- no alternative of any step of the chain occurs anywhere in the line -/
def untouchedBy (ss : List Step) (l : List Char) : Prop :=
  ∀ st ∈ ss, ∀ s, s <:+ l → matchPats st.alts s = none

theorem runSteps_id_of_untouched : ∀ (ss : List Step) (l : List Char), untouchedBy ss l → runSteps ss l = l
  | [], l, _ => by simp [runSteps]
  | st :: ss, l, h => by
    have h1 : st.run l = l := replace_id_of_no_match _ _ l (h st (by simp))
    have h2 := runSteps_id_of_untouched ss l (fun s' hs' => h s' (by simp [hs']))
    simp only [runSteps, List.foldl_cons] at h2 ⊢
    rw [h1]; exact h2

end Lines
