import AaVerif.Rx
import AaVerif.Lines
/-!
# Logs — model of pkg/logs (GetApparmorLogs, New) and util (DecodeHexInString, RemoveDuplicate)

The pipeline is parametric in the record test `isLog` and the cleaning function `clean`, so
that the theorems of C14 hold for every regex list; the driver instantiates them with the
regenerated lists run by the `Rx` engine.
-/
namespace Logs
open Lines

/-- `bufio.ScanLines`: split on `\n`, drop one trailing `\r`, no final empty token -/
def dropCR (l : List Char) : List Char :=
  match l.reverse with
  | '\r' :: r => r.reverse
  | _ => l

def scanLines (t : List Char) : List (List Char) :=
  let ls := splitNl t
  let ls := if ls.getLast? == some [] then ls.dropLast else ls
  ls.map dropCR

/-- `util.RemoveDuplicate`: first occurrences, in order; the empty string is dropped -/
def removeDup {α : Type} [DecidableEq α] (empty : α) : List α → List α → List α
  | _, [] => []
  | seen, x :: xs =>
    if x = empty ∨ x ∈ seen then removeDup empty seen xs
    else x :: removeDup empty (x :: seen) xs

def removeDuplicate (l : List (List Char)) : List (List Char) := removeDup [] [] l

/-- `GetApparmorLogs` on already split lines -/
def getLogs (isLog : List Char → Bool) (clean : List Char → List Char) (lines : List (List Char)) :
    List (List Char) :=
  removeDuplicate ((lines.filter isLog).map clean)

/-! ### hex decoding -/

def isHexU (c : Char) : Bool := ('0' ≤ c && c ≤ '9') || ('A' ≤ c && c ≤ 'F')
def hexVal (c : Char) : Nat := if '0' ≤ c && c ≤ '9' then c.toNat - 48 else c.toNat - 55

def decodePairs : List Char → List Char
  | a :: b :: rest => Char.ofNat (hexVal a * 16 + hexVal b) :: decodePairs rest
  | _ => []

/-- `regHex[key].ReplaceAllStringFunc`: `key=[0-9A-F]+` becomes `key="<decoded>"` -/
def decodeKey (key : List Char) : Nat → List Char → List Char
  | 0, t => t
  | _, [] => []
  | fuel + 1, c :: cs =>
    let pat := key ++ ['=']
    if pat.isPrefixOf (c :: cs) then
      let rest := (c :: cs).drop pat.length
      let hx := rest.takeWhile isHexU
      if hx.isEmpty then c :: decodeKey key fuel cs
      else pat ++ '"' :: decodePairs hx ++ '"' :: decodeKey key fuel (rest.drop hx.length)
    else c :: decodeKey key fuel cs

/-- `util.DecodeHexInString` (the three keys are independent on kernel records) -/
def decodeHex (t : List Char) : List Char :=
  let t := decodeKey "name".toList (t.length + 1) t
  let t := decodeKey "comm".toList (t.length + 1) t
  decodeKey "profile".toList (t.length + 1) t

/-! ### `logs.New`: splitting a record into fields -/

/-- `strings.FieldsFunc` with the shared `quoted` toggle: split at `sep` outside quotes -/
def fieldsQ (sep : Char) : Bool → List Char → List Char → List (List Char) → Bool × List (List Char)
  | q, cur, [], acc => (q, (if cur.isEmpty then acc else cur.reverse :: acc).reverse)
  | q, cur, c :: cs, acc =>
    let q' := if c == '"' then !q else q
    if !q' && c == sep then fieldsQ sep q' [] cs (if cur.isEmpty then acc else cur.reverse :: acc)
    else fieldsQ sep q' (c :: cur) cs acc

def trimQuotes (s : List Char) : List Char :=
  ((s.dropWhile (· == '"')).reverse.dropWhile (· == '"')).reverse

def toClean : List (List Char) := ["profile".toList, "name".toList, "target".toList]

/-- one record -> association list key ↦ value (later keys overwrite earlier ones) -/
def parseRecord (resolve : List Char → List Char) (line : List Char) : Bool × List (List Char × List Char) :=
  let (q, items) := fieldsQ ' ' false [] line []
  items.foldl (fun (st : Bool × List (List Char × List Char)) item =>
    let (q', kv) := fieldsQ '=' st.1 [] item []
    match kv with
    | k :: v :: _ =>
      let v' := if toClean.contains k then resolve v else v
      (q', (st.2.filter (fun p => p.1 != k)) ++ [(k, trimQuotes v')])
    | _ => (q', st.2)) (q, [])

end Logs

namespace Logs

theorem mem_removeDup {α : Type} [DecidableEq α] (e : α) (x : α) :
    ∀ (l seen : List α), x ∈ removeDup e seen l ↔ (x ∈ l ∧ x ≠ e ∧ x ∉ seen) := by
  intro l
  induction l with
  | nil => intro seen; simp [removeDup]
  | cons y ys ih =>
    intro seen
    simp only [removeDup]
    split
    · rename_i h
      rw [ih seen]
      constructor
      · rintro ⟨h1, h2, h3⟩; exact ⟨by simp [h1], h2, h3⟩
      · rintro ⟨h1, h2, h3⟩
        simp only [List.mem_cons] at h1
        rcases h1 with rfl | h1
        · rcases h with h | h
          · exact absurd h h2
          · exact absurd h h3
        · exact ⟨h1, h2, h3⟩
    · rename_i h
      simp only [not_or] at h
      simp only [List.mem_cons, ih (y :: seen)]
      constructor
      · rintro (rfl | ⟨h1, h2, h3⟩)
        · exact ⟨Or.inl rfl, h.1, h.2⟩
        · exact ⟨Or.inr h1, h2, fun hh => h3 (by simp [hh])⟩
      · rintro ⟨h1, h2, h3⟩
        by_cases hxy : x = y
        · exact Or.inl hxy
        · rcases h1 with h1 | h1
          · exact absurd h1 hxy
          · exact Or.inr ⟨h1, h2, by simp [hxy, h3]⟩

theorem nodup_removeDup {α : Type} [DecidableEq α] (e : α) :
    ∀ (l seen : List α), (removeDup e seen l).Nodup := by
  intro l
  induction l with
  | nil => intro seen; simp [removeDup]
  | cons y ys ih =>
    intro seen
    simp only [removeDup]
    split
    · exact ih seen
    · rw [List.nodup_cons]
      refine ⟨?_, ih (y :: seen)⟩
      intro hm
      have := (mem_removeDup e y ys (y :: seen)).mp hm
      exact this.2.2 (by simp)

theorem sublist_removeDup {α : Type} [DecidableEq α] (e : α) :
    ∀ (l seen : List α), List.Sublist (removeDup e seen l) l := by
  intro l
  induction l with
  | nil => intro seen; simp [removeDup]
  | cons y ys ih =>
    intro seen
    simp only [removeDup]
    split
    · exact List.Sublist.cons _ (ih seen)
    · exact List.Sublist.cons₂ _ (ih (y :: seen))

/-- processing is online: the report after one more line -/
theorem removeDup_snoc {α : Type} [DecidableEq α] (e : α) (x : α) :
    ∀ (l seen : List α), removeDup e seen (l ++ [x]) =
      if x = e ∨ x ∈ seen ∨ x ∈ l then removeDup e seen l else removeDup e seen l ++ [x] := by
  intro l
  induction l with
  | nil =>
    intro seen
    simp only [List.nil_append, removeDup, List.not_mem_nil, or_false]
  | cons y ys ih =>
    intro seen
    simp only [List.cons_append, removeDup]
    by_cases h : y = e ∨ y ∈ seen
    · rw [if_pos h, if_pos h, ih seen]
      by_cases hc : x = e ∨ x ∈ seen ∨ x ∈ ys
      · have h2 : x = e ∨ x ∈ seen ∨ x ∈ y :: ys := by
          rcases hc with h1 | h1 | h1
          · exact Or.inl h1
          · exact Or.inr (Or.inl h1)
          · exact Or.inr (Or.inr (by simp [h1]))
        rw [if_pos hc, if_pos h2]
      · have h2 : ¬ (x = e ∨ x ∈ seen ∨ x ∈ y :: ys) := by
          simp only [not_or] at hc
          simp only [List.mem_cons, not_or]
          refine ⟨hc.1, hc.2.1, ?_, hc.2.2⟩
          intro hxy
          subst hxy
          rcases h with h | h
          · exact hc.1 h
          · exact hc.2.1 h
        rw [if_neg hc, if_neg h2]
    · rw [if_neg h, if_neg h, ih (y :: seen)]
      have e1 : (x = e ∨ x ∈ y :: seen ∨ x ∈ ys) ↔ (x = e ∨ x ∈ seen ∨ x ∈ y :: ys) := by
        simp only [List.mem_cons]
        constructor
        · rintro (h1 | (h1 | h1) | h1)
          · exact Or.inl h1
          · exact Or.inr (Or.inr (Or.inl h1))
          · exact Or.inr (Or.inl h1)
          · exact Or.inr (Or.inr (Or.inr h1))
        · rintro (h1 | h1 | h1 | h1)
          · exact Or.inl h1
          · exact Or.inr (Or.inl (Or.inr h1))
          · exact Or.inr (Or.inl (Or.inl h1))
          · exact Or.inr (Or.inr h1)
      by_cases hc : x = e ∨ x ∈ y :: seen ∨ x ∈ ys
      · rw [if_pos hc, if_pos (e1.mp hc)]
      · rw [if_neg hc, if_neg (fun hh => hc (e1.mpr hh))]; rfl

end Logs

namespace Logs

/-- a run of characters without quote (and, outside quotes, without separator) is appended to
the current field -/
theorem fieldsQ_run (sep : Char) (q : Bool) :
    ∀ (s cur rest : List Char) (acc : List (List Char)),
      (∀ c ∈ s, c ≠ '"') → (q = false → ∀ c ∈ s, c ≠ sep) →
      fieldsQ sep q cur (s ++ rest) acc = fieldsQ sep q (s.reverse ++ cur) rest acc := by
  intro s
  induction s with
  | nil => intro cur rest acc _ _; rfl
  | cons c cs ih =>
    intro cur rest acc h1 h2
    have hc : c ≠ '"' := h1 c (by simp)
    have hq : (if (c == '"') = true then !q else q) = q := by simp [hc]
    have hsplit : (!q && c == sep) = false := by
      cases q with
      | true => simp
      | false => have := h2 rfl c (by simp); simp [this]
    simp only [List.cons_append, fieldsQ, hq, hsplit, Bool.false_eq_true, if_false]
    rw [ih (c :: cur) rest acc (fun x hx => h1 x (by simp [hx])) (fun hq' x hx => h2 hq' x (by simp [hx]))]
    simp

/-- **A quoted value is kept whole.** Splitting `key="value"` at `=` gives exactly the key and
the quoted value, whatever the value holds besides a double quote (spaces, `=`, `#`, `,`, any
byte), and leaves the toggle where it found it. -/
theorem fieldsQ_kv (k v : List Char) (hk1 : ∀ c ∈ k, c ≠ '"') (hk2 : ∀ c ∈ k, c ≠ '=') (hkne : k ≠ [])
    (hv : ∀ c ∈ v, c ≠ '"') :
    fieldsQ '=' false [] (k ++ '=' :: '"' :: (v ++ ['"'])) [] = (false, [k, '"' :: (v ++ ['"'])]) := by
  rw [fieldsQ_run '=' false k [] _ [] hk1 (fun _ => hk2)]
  have hk' : (k.reverse ++ []).isEmpty = false := by cases k <;> simp_all
  simp only [fieldsQ, hk']
  simp only [beq_self_eq_true, Bool.not_false, Bool.true_and, show (('=' : Char) == '"') = false from by decide,
    Bool.false_eq_true, if_false, if_true]
  simp only [Bool.not_true, Bool.false_and, Bool.false_eq_true, if_false]
  rw [fieldsQ_run '=' true v ['"'] ['"'] _ hv (fun h => by cases h)]
  simp [fieldsQ]

theorem trimQuotes_quoted (v : List Char) (hv : ∀ c ∈ v, c ≠ '"') :
    trimQuotes ('"' :: (v ++ ['"'])) = v := by
  unfold trimQuotes
  have h1 : ('"' :: (v ++ ['"'])).dropWhile (· == '"') = (v ++ ['"']).dropWhile (· == '"') := by simp
  rw [h1]
  cases v with
  | nil => simp
  | cons c cs =>
    have hc : c ≠ '"' := hv c (by simp)
    have h2 : ((c :: cs) ++ ['"']).dropWhile (· == '"') = (c :: cs) ++ ['"'] := by simp [hc]
    rw [h2]
    have h3 : ((c :: cs) ++ ['"']).reverse = '"' :: (c :: cs).reverse := by simp
    rw [h3]
    have h4 : ('"' :: (c :: cs).reverse).dropWhile (· == '"') = (c :: cs).reverse.dropWhile (· == '"') := by simp
    rw [h4]
    -- the last character of the value is not a quote
    have hlast : ∀ (l : List Char), (∀ x ∈ l, x ≠ '"') → l.reverse.dropWhile (· == '"') = l.reverse := by
      intro l hl
      cases hr : l.reverse with
      | nil => rfl
      | cons d ds =>
        have : d ∈ l := by
          have : d ∈ l.reverse := by rw [hr]; simp
          simpa using this
        simp [hl d this]
    rw [hlast (c :: cs) hv]
    simp

end Logs

namespace Logs

def hexDigitU (n : Nat) : Char := if n < 10 then Char.ofNat (48 + n) else Char.ofNat (55 + n)

/-- the kernel's encoding of a byte string -/
def hexEncode : List Char → List Char
  | [] => []
  | c :: cs => hexDigitU (c.toNat / 16) :: hexDigitU (c.toNat % 16) :: hexEncode cs

theorem byte_roundtrip : ∀ n : Fin 256,
    hexVal (hexDigitU (n.val / 16)) * 16 + hexVal (hexDigitU (n.val % 16)) = n.val := by decide +kernel

theorem hexEncode_isHex : ∀ n : Fin 256,
    isHexU (hexDigitU (n.val / 16)) = true ∧ isHexU (hexDigitU (n.val % 16)) = true := by decide +kernel

/-- hex-encoded bytes decode to the original bytes -/
theorem decode_encode : ∀ (bs : List Char), (∀ c ∈ bs, c.toNat < 256) → decodePairs (hexEncode bs) = bs
  | [], _ => rfl
  | c :: cs, h => by
    have hc : c.toNat < 256 := h c (by simp)
    have := byte_roundtrip ⟨c.toNat, hc⟩
    simp only [hexEncode, decodePairs]
    rw [decode_encode cs (fun x hx => h x (by simp [hx]))]
    simp only at this
    rw [this]
    simp [Char.ofNat_toNat]

end Logs
