import AaVerif.Logs
/-!
# LogsRecord — a whole well-formed record comes back as exactly its fields

A field is `key=value` with the value written the way the kernel does: quoted (`"…"`, anything but a
double quote inside) or bare (no quote, blank or `=`).  For every list of such fields with pairwise
different keys, joined by single blanks, `parseRecord` returns exactly the association list of the
record — each value taken from its own field, the quotes removed, the path generalisation applied to
`profile`, `name`, `target` only — and the quote toggle is back to "outside" at the end, so nothing
carries over to the next record.
-/
namespace Logs

inductive Val where
  | quoted (v : List Char)
  | bare (v : List Char)

def Val.enc : Val → List Char
  | .quoted v => '"' :: (v ++ ['"'])
  | .bare v => v

def Val.ok : Val → Prop
  | .quoted v => ∀ c ∈ v, c ≠ '"'
  | .bare v => v ≠ [] ∧ ∀ c ∈ v, c ≠ '"' ∧ c ≠ ' ' ∧ c ≠ '='

def KeyOk (k : List Char) : Prop := k ≠ [] ∧ ∀ c ∈ k, c ≠ '"' ∧ c ≠ ' ' ∧ c ≠ '='

def fieldText (f : List Char × Val) : List Char := f.1 ++ '=' :: f.2.enc

def joinSpc : List (List Char) → List Char
  | [] => []
  | [a] => a
  | a :: l => a ++ ' ' :: joinSpc l

/-- scanning one field with the blank as separator: it is appended whole and the toggle returns to `false` -/
theorem fieldsQ_field (f : List Char × Val) (hk : KeyOk f.1) (hv : f.2.ok) (cur rest : List Char) (acc : List (List Char)) :
    fieldsQ ' ' false cur (fieldText f ++ rest) acc = fieldsQ ' ' false ((fieldText f).reverse ++ cur) rest acc := by
  obtain ⟨k, v⟩ := f
  unfold fieldText
  simp only
  rw [List.append_assoc, fieldsQ_run ' ' false k cur _ acc (fun c hc => (hk.2 c hc).1) (fun _ c hc => (hk.2 c hc).2.1)]
  cases v with
  | bare b =>
    simp only [Val.enc, List.cons_append]
    have step : fieldsQ ' ' false (k.reverse ++ cur) ('=' :: (b ++ rest)) acc
        = fieldsQ ' ' false ('=' :: (k.reverse ++ cur)) (b ++ rest) acc := by
      rw [fieldsQ]; simp
    rw [step, fieldsQ_run ' ' false b _ rest acc (fun c hc => (hv.2 c hc).1) (fun _ c hc => (hv.2 c hc).2.1)]
    simp
  | quoted q =>
    simp only [Val.enc, List.cons_append]
    have step : fieldsQ ' ' false (k.reverse ++ cur) ('=' :: '"' :: (q ++ '"' :: rest)) acc
        = fieldsQ ' ' true ('"' :: '=' :: (k.reverse ++ cur)) (q ++ '"' :: rest) acc := by
      rw [fieldsQ]; simp
      rw [fieldsQ]; simp
    have e : q ++ ['"'] ++ rest = q ++ '"' :: rest := by simp
    rw [e, step, fieldsQ_run ' ' true q _ _ acc hv (fun h => by cases h)]
    rw [fieldsQ]; simp

theorem fieldText_ne (f : List Char × Val) (hk : KeyOk f.1) : fieldText f ≠ [] := by
  unfold fieldText
  obtain ⟨k, v⟩ := f
  cases k with
  | nil => exact absurd rfl hk.1
  | cons c cs => simp

/-- **the record is split into exactly its fields** -/
theorem fieldsQ_record : ∀ (fs : List (List Char × Val)) (acc : List (List Char)), fs ≠ [] →
    (∀ f ∈ fs, KeyOk f.1 ∧ f.2.ok) →
    fieldsQ ' ' false [] (joinSpc (fs.map fieldText)) acc = (false, acc.reverse ++ fs.map fieldText)
  | [], _, h, _ => absurd rfl h
  | [f], acc, _, hs => by
    have hf := hs f (by simp)
    have := fieldsQ_field f hf.1 hf.2 [] [] acc
    simp only [List.append_nil] at this
    simp only [List.map_cons, List.map_nil, joinSpc]
    rw [this, fieldsQ]
    simp [fieldText_ne f hf.1]
  | f :: g :: l, acc, _, hs => by
    have hf := hs f (by simp)
    simp only [List.map_cons, joinSpc]
    rw [fieldsQ_field f hf.1 hf.2 [] _ acc]
    rw [fieldsQ]
    have hne : ((fieldText f).reverse ++ []).isEmpty = false := by simpa using fieldText_ne f hf.1
    simp only [show ((' ' : Char) == '"') = false from by decide, Bool.false_eq_true, if_false, Bool.not_false,
      beq_self_eq_true, Bool.and_self, if_true, hne]
    have ih := fieldsQ_record (g :: l) (((fieldText f).reverse ++ []).reverse :: acc) (by simp)
      (fun x hx => hs x (by simp [hx]))
    simp only [List.map_cons] at ih
    rw [ih]
    simp

/-- one field split at `=`: the key and the encoded value; the toggle is back to `false` -/
theorem fieldsQ_item (f : List Char × Val) (hk : KeyOk f.1) (hv : f.2.ok) :
    fieldsQ '=' false [] (fieldText f) [] = (false, [f.1, f.2.enc]) := by
  obtain ⟨k, v⟩ := f
  cases v with
  | quoted q =>
    exact fieldsQ_kv k q (fun c hc => (hk.2 c hc).1) (fun c hc => (hk.2 c hc).2.2) hk.1 hv
  | bare b =>
    unfold fieldText
    simp only [Val.enc]
    rw [fieldsQ_run '=' false k [] _ [] (fun c hc => (hk.2 c hc).1) (fun _ c hc => (hk.2 c hc).2.2)]
    have hk' : (k.reverse ++ []).isEmpty = false := by
      have := hk.1
      cases k <;> simp_all
    rw [fieldsQ]
    simp only [show (('=' : Char) == '"') = false from by decide, Bool.false_eq_true, if_false, Bool.not_false,
      beq_self_eq_true, Bool.and_self, if_true, hk']
    have := fieldsQ_run '=' false b [] [] [(k.reverse ++ []).reverse] (fun c hc => (hv.2 c hc).1) (fun _ c hc => (hv.2 c hc).2.2)
    rw [List.append_nil b, List.append_nil b.reverse] at this
    rw [this, fieldsQ]
    have hb : b.reverse.isEmpty = false := by
      have := hv.1
      cases b <;> simp_all
    simp [hb]

/-- what the record says for one field -/
def fieldValue (resolve : List Char → List Char) (f : List Char × Val) : List Char × List Char :=
  (f.1, trimQuotes (if toClean.contains f.1 then resolve f.2.enc else f.2.enc))

def recStep (resolve : List Char → List Char) (st : Bool × List (List Char × List Char)) (item : List Char) :
    Bool × List (List Char × List Char) :=
  let (q', kv) := fieldsQ '=' st.1 [] item []
  match kv with
  | k :: v :: _ =>
    let v' := if toClean.contains k then resolve v else v
    (q', (st.2.filter (fun p => p.1 != k)) ++ [(k, trimQuotes v')])
  | _ => (q', st.2)

theorem parseRecord_eq (resolve : List Char → List Char) (line : List Char) :
    parseRecord resolve line =
      (fieldsQ ' ' false [] line []).2.foldl (recStep resolve) ((fieldsQ ' ' false [] line []).1, []) := rfl

theorem recStep_field (resolve : List Char → List Char) (done : List (List Char × List Char)) (f : List Char × Val)
    (hk : KeyOk f.1) (hv : f.2.ok) (hnew : ∀ p ∈ done, p.1 ≠ f.1) :
    recStep resolve (false, done) (fieldText f) = (false, done ++ [fieldValue resolve f]) := by
  unfold recStep
  simp only [fieldsQ_item f hk hv]
  have hf : done.filter (fun p => p.1 != f.1) = done := by
    rw [List.filter_eq_self]
    intro p hp
    simpa using hnew p hp
  simp only [hf, fieldValue]

theorem fold_fields (resolve : List Char → List Char) :
    ∀ (fs : List (List Char × Val)) (done : List (List Char × List Char)),
      (∀ f ∈ fs, KeyOk f.1 ∧ f.2.ok) → (fs.map (·.1)).Nodup → (∀ p ∈ done, ∀ f ∈ fs, p.1 ≠ f.1) →
      (fs.map fieldText).foldl (recStep resolve) (false, done) = (false, done ++ fs.map (fieldValue resolve))
  | [], done, _, _, _ => by simp
  | f :: fs, done, hs, hnd, hdone => by
    have hf := hs f (by simp)
    simp only [List.map_cons, List.nodup_cons] at hnd
    simp only [List.map_cons, List.foldl_cons]
    rw [recStep_field resolve done f hf.1 hf.2 (fun p hp => hdone p hp f (by simp))]
    rw [fold_fields resolve fs _ (fun x hx => hs x (by simp [hx])) hnd.2]
    · simp
    · intro p hp g hg
      rw [List.mem_append] at hp
      rcases hp with hp | hp
      · exact hdone p hp g (by simp [hg])
      · simp only [List.mem_singleton] at hp
        subst hp
        intro e
        exact hnd.1 (List.mem_map.mpr ⟨g, hg, e.symm⟩)

/-- **A whole well-formed record comes back as exactly its fields**, the toggle ends outside quotes. -/
theorem parseRecord_fields (resolve : List Char → List Char) (fs : List (List Char × Val)) (hne : fs ≠ [])
    (hs : ∀ f ∈ fs, KeyOk f.1 ∧ f.2.ok) (hnd : (fs.map (·.1)).Nodup) :
    parseRecord resolve (joinSpc (fs.map fieldText)) = (false, fs.map (fieldValue resolve)) := by
  rw [parseRecord_eq, fieldsQ_record fs [] hne hs]
  simp only [List.reverse_nil, List.nil_append]
  have := fold_fields resolve fs [] hs hnd (fun p hp => by cases hp)
  simpa using this

end Logs
