import AaVerif.Fs
import AaVerif.Proto
/-!
# Prep — specification of the prepare stage on an abstract file system

Paths are relative to the build root (`apparmor.d/...`, `share/...`, `systemd/...`); a file is
identified by a content id (a hash computed by the orchestrator), so "content equals the
source" is equality of ids.  `spec` is evaluated by the driver on the listing of the working
tree and compared with what the real `prebuild` leaves in `.build`.
-/
namespace Prep
open Fs

abbrev Listing := List (Path × String)     -- path ↦ content id, or "L:<target>" for a symlink

structure Input where
  src : Listing                 -- apparmor.d/** and share/** of the source tree
  ignore : List String          -- main.ignore ++ <dist>.ignore, in order
  ubuntuAbs : Listing           -- dists/ubuntu/** re-rooted at apparmor.d/
  copyUbuntu : Bool             -- debian/whonix below 4.1 (ubuntu below 3.0)
  removed41 : List String       -- names removed for version 4.1 ([] otherwise)
  overwrite : List String       -- dists/overwrite when ABI 4 ([] otherwise)
  full : Listing                -- apparmor.d/groups/_full/** re-rooted at apparmor.d/ when --full ([] otherwise)
  flagged : List String         -- profiles named by a flags manifest with at least one flag
  edited : List String          -- relative paths edited in place by the fsp task when --full
  systemd : Listing := []       -- systemd/default/** then systemd/early/** (or systemd/full/** when --full), re-rooted at systemd/, in copy order

def splitPath (s : String) : Path :=
  ((Proto.splitOnChar '/' s.toList).filter (fun c => !c.isEmpty)).map String.ofList

/-- lexicographic order on character lists / paths (byte order, as `filepath.Glob` sorts) -/
def ltChars : List Char → List Char → Bool
  | [], [] => false
  | [], _ :: _ => true
  | _ :: _, [] => false
  | a :: as, b :: bs => if a.toNat < b.toNat then true else if b.toNat < a.toNat then false else ltChars as bs

def ltPath : Path → Path → Bool
  | [], [] => false
  | [], _ :: _ => true
  | _ :: _, [] => false
  | a :: as, b :: bs =>
    if ltChars a.toList b.toList then true else if ltChars b.toList a.toList then false else ltPath as bs

def insertP (x : Path × String) : Listing → Listing
  | [] => [x]
  | y :: ys => if ltPath y.1 x.1 then y :: insertP x ys else x :: y :: ys

def sortP : Listing → Listing
  | [] => []
  | x :: xs => insertP x (sortP xs)

def aa : String := "apparmor.d"

/-- one entry of an ignore list, applied to the current listing -/
def ignoreOne (fs : Listing) (e : String) : Listing :=
  let comps := splitPath e
  if fs.any (fun p => comps.isPrefixOf p.1) then fs.filter (fun p => !(comps.isPrefixOf p.1))
  else fs.filter (fun p => !(p.1.head? == some aa && (p.1.drop 1).contains e))

def setEntry (fs : Listing) (p : Path) (v : String) : Listing :=
  (fs.filter (fun q => q.1 != p)) ++ [(p, v)]

/-- move `apparmor.d/<dir>/<sub>/<name>` to `apparmor.d/<name>` for every directory `dir` accepted by `isDir`,
in sorted order (a later file silently replaces an earlier one), then drop what is left under those directories -/
def flatten (isDir : String → Bool) (depth : Nat) (fs : Listing) : Listing :=
  let under := fun (p : Path × String) => match p.1 with | a :: d :: _ :: _ => a == aa && isDir d | _ => false
  let moved := fs.filter (fun p => under p && p.1.length == depth)
  let sorted := sortP moved
  let rest := fs.filter (fun p => !under p)
  sorted.foldl (fun acc p => setEntry acc [aa, p.1.getLastD ""] p.2) rest

def isGroups (d : String) : Bool := d == "groups"
def isProfilesDir (d : String) : Bool := "profiles-".toList.isPrefixOf d.toList

def overwriteOne (fs : Listing) (name : String) : Listing :=
  let fs := match fs.find? (fun p => p.1 == [aa, name]) with
    | some (_, v) => setEntry (fs.filter (fun p => p.1 != [aa, name])) [aa, name ++ ".apparmor.d"] v
    | none => fs
  setEntry fs [aa, "disable", name] ("L:" ++ name)

def mark (fs : Listing) (names : List Path) (tag : String) : Listing :=
  fs.map (fun p => if names.contains p.1 then (p.1, tag) else p)

/-- what `.build` holds after the prepare stage (apparmor.d, share and the systemd drop-ins).  Whatever an
earlier run left in the build directory is not an input: the result depends on the source tree only. -/
def spec (i : Input) : Listing :=
  let fs := i.src
  let fs := i.ignore.foldl ignoreOne fs
  let fs := flatten isGroups 4 fs
  let fs := flatten isProfilesDir 3 fs
  let fs := if i.copyUbuntu then i.ubuntuAbs.foldl (fun acc p => setEntry acc p.1 p.2) fs else fs
  let fs := fs.filter (fun p => !(i.removed41.any (fun n => (aa :: splitPath n).isPrefixOf p.1)))
  let fs := mark fs (i.flagged.map (fun n => [aa, n])) "FLAGGED"
  let fs := i.overwrite.foldl overwriteOne fs
  let fs := i.full.foldl (fun acc p => setEntry acc p.1 p.2) fs
  let fs := mark fs (i.edited.map splitPath) "EDITED"
  i.systemd.foldl (fun acc p => setEntry acc p.1 p.2) fs

/-- base names of the source profiles are unique (C19) -/
def uniqueBase (fs : Listing) : Bool :=
  let names := (fs.filter (fun p => match p.1 with
    | [a, d, _, _] => a == aa && isGroups d
    | [a, d, _] => a == aa && isProfilesDir d
    | _ => false)).map (fun p => p.1.getLastD "")
  decide names.Nodup

end Prep
