import AaVerif.Prep
/-!
# PrepLemmas — what flattening and the ignore lists do to a listing, for every listing

`flatten` moves every file found at the given depth under an accepted directory to
`apparmor.d/<base name>`, in sorted order, a later file silently replacing an earlier one.
* nothing is invented: every entry of the result is an entry that was outside those directories, or a
  moved file with its content (`mem_flatten_sub`);
* nothing is lost when the base names of the moved files are pairwise different and differ from the
  names already at the top level (`mem_flatten_of_moved`, `mem_flatten_of_rest`).
-/
namespace Prep
open Fs

theorem mem_setEntry (fs : Listing) (p : Path) (v : String) (x : Path × String) :
    x ∈ setEntry fs p v ↔ (x ∈ fs ∧ x.1 ≠ p) ∨ x = (p, v) := by
  unfold setEntry
  simp only [List.mem_append, List.mem_filter, List.mem_singleton, bne_iff_ne, ne_eq]

/-- entries after a sequence of `setEntry`s: old entries or written ones -/
theorem mem_foldl_set_sub {α : Type} (tgt : α → Path) (val : α → String) :
    ∀ (ms : List α) (fs : Listing) (x : Path × String),
      x ∈ ms.foldl (fun acc m => setEntry acc (tgt m) (val m)) fs →
      x ∈ fs ∨ ∃ m ∈ ms, x = (tgt m, val m)
  | [], fs, x, h => Or.inl h
  | m :: ms, fs, x, h => by
    simp only [List.foldl_cons] at h
    rcases mem_foldl_set_sub tgt val ms _ x h with h1 | ⟨m', hm', e⟩
    · rcases (mem_setEntry fs _ _ x).mp h1 with h2 | h2
      · exact Or.inl h2.1
      · exact Or.inr ⟨m, by simp, h2⟩
    · exact Or.inr ⟨m', by simp [hm'], e⟩

/-- an old entry whose path is never written survives -/
theorem mem_foldl_set_old {α : Type} (tgt : α → Path) (val : α → String) :
    ∀ (ms : List α) (fs : Listing) (x : Path × String), x ∈ fs → (∀ m ∈ ms, x.1 ≠ tgt m) →
      x ∈ ms.foldl (fun acc m => setEntry acc (tgt m) (val m)) fs
  | [], _, _, h, _ => h
  | m :: ms, fs, x, h, hn => by
    simp only [List.foldl_cons]
    apply mem_foldl_set_old tgt val ms _ x
    · exact (mem_setEntry fs _ _ x).mpr (Or.inl ⟨h, hn m (by simp)⟩)
    · exact fun m' hm' => hn m' (by simp [hm'])

/-- a written entry survives when no later write goes to the same path -/
theorem mem_foldl_set_new {α : Type} (tgt : α → Path) (val : α → String) :
    ∀ (ms : List α) (fs : Listing) (m : α), m ∈ ms → (ms.map tgt).Nodup →
      (tgt m, val m) ∈ ms.foldl (fun acc m => setEntry acc (tgt m) (val m)) fs
  | [], _, _, h, _ => by cases h
  | a :: ms, fs, m, h, hnd => by
    simp only [List.map_cons, List.nodup_cons] at hnd
    simp only [List.foldl_cons]
    simp only [List.mem_cons] at h
    rcases h with rfl | h
    · apply mem_foldl_set_old tgt val ms _ _ ((mem_setEntry fs _ _ _).mpr (Or.inr rfl))
      intro m' hm' e
      exact hnd.1 (List.mem_map.mpr ⟨m', hm', e.symm⟩)
    · exact mem_foldl_set_new tgt val ms _ m h hnd.2

theorem insertP_perm (x : Path × String) : ∀ l, (insertP x l).Perm (x :: l)
  | [] => List.Perm.refl _
  | y :: ys => by
    simp only [insertP]
    split
    · exact ((insertP_perm x ys).cons y).trans (List.Perm.swap x y ys)
    · exact List.Perm.refl _

theorem sortP_perm : ∀ l, (sortP l).Perm l
  | [] => List.Perm.refl _
  | x :: xs => (insertP_perm x (sortP xs)).trans ((sortP_perm xs).cons x)

/-- is the entry under an accepted directory (`apparmor.d/<dir>/x/...`)? -/
def underDir (isDir : String → Bool) (p : Path × String) : Bool :=
  match p.1 with | a :: d :: _ :: _ => a == aa && isDir d | _ => false

def moved (isDir : String → Bool) (depth : Nat) (fs : Listing) : Listing :=
  fs.filter (fun p => underDir isDir p && p.1.length == depth)

def flatTarget (p : Path × String) : Path := [aa, p.1.getLastD ""]

theorem flatten_eq (isDir : String → Bool) (depth : Nat) (fs : Listing) :
    flatten isDir depth fs = (sortP (moved isDir depth fs)).foldl (fun acc p => setEntry acc (flatTarget p) p.2)
      (fs.filter (fun p => !underDir isDir p)) := rfl

/-- **Nothing is invented by flattening**: an entry of the result was outside the flattened
directories, or is a moved file with its content at `apparmor.d/<base name>`. -/
theorem mem_flatten_sub (isDir : String → Bool) (depth : Nat) (fs : Listing) (x : Path × String)
    (h : x ∈ flatten isDir depth fs) :
    (x ∈ fs ∧ underDir isDir x = false) ∨ ∃ m ∈ fs, underDir isDir m = true ∧ m.1.length = depth ∧ x = (flatTarget m, m.2) := by
  rw [flatten_eq] at h
  rcases mem_foldl_set_sub flatTarget (fun p => p.2) _ _ x h with h1 | ⟨m, hm, e⟩
  · left
    rw [List.mem_filter] at h1
    exact ⟨h1.1, by simpa using h1.2⟩
  · right
    have hm' : m ∈ moved isDir depth fs := (sortP_perm _).subset hm
    unfold moved at hm'
    rw [List.mem_filter] at hm'
    simp only [Bool.and_eq_true, beq_iff_eq] at hm'
    exact ⟨m, hm'.1, hm'.2.1, hm'.2.2, e⟩

/-- **Nothing is lost by flattening when the base names are unique**: a file at the given depth under
an accepted directory is in the result, at `apparmor.d/<base name>`, with its content. -/
theorem mem_flatten_of_moved (isDir : String → Bool) (depth : Nat) (fs : Listing) (m : Path × String)
    (hm : m ∈ fs) (hu : underDir isDir m = true) (hd : m.1.length = depth)
    (hnd : ((moved isDir depth fs).map flatTarget).Nodup) :
    (flatTarget m, m.2) ∈ flatten isDir depth fs := by
  rw [flatten_eq]
  have hmm : m ∈ moved isDir depth fs := by
    unfold moved
    rw [List.mem_filter]
    simp [hm, hu, hd]
  apply mem_foldl_set_new flatTarget (fun p => p.2) _ _ m ((sortP_perm _).symm.subset hmm)
  exact ((sortP_perm _).map flatTarget).nodup_iff.mpr hnd

/-- an entry outside the flattened directories survives unless a moved file takes its path -/
theorem mem_flatten_of_rest (isDir : String → Bool) (depth : Nat) (fs : Listing) (x : Path × String)
    (hx : x ∈ fs) (hu : underDir isDir x = false)
    (hn : ∀ m ∈ moved isDir depth fs, x.1 ≠ flatTarget m) : x ∈ flatten isDir depth fs := by
  rw [flatten_eq]
  apply mem_foldl_set_old flatTarget (fun p => p.2)
  · rw [List.mem_filter]; simp [hx, hu]
  · intro m hm; exact hn m ((sortP_perm _).subset hm)

/-! ### the ignore lists -/

theorem ignoreOne_sub (fs : Listing) (e : String) (x : Path × String) (h : x ∈ ignoreOne fs e) : x ∈ fs := by
  unfold ignoreOne at h
  simp only at h
  split at h <;> exact (List.mem_filter.mp h).1

/-- the ignore lists only ever remove entries -/
theorem ignore_fold_sub : ∀ (es : List String) (fs : Listing) (x : Path × String),
    x ∈ es.foldl ignoreOne fs → x ∈ fs
  | [], _, _, h => h
  | e :: es, fs, x, h => ignoreOne_sub fs e x (ignore_fold_sub es _ x h)

theorem ignoreOne_sublist (fs : Listing) (e : String) : (ignoreOne fs e).Sublist fs := by
  unfold ignoreOne
  simp only
  split <;> exact List.filter_sublist

theorem ignore_fold_sublist : ∀ (es : List String) (fs : Listing), (es.foldl ignoreOne fs).Sublist fs
  | [], _ => List.Sublist.refl _
  | e :: es, fs => (ignore_fold_sublist es _).trans (ignoreOne_sublist fs e)

/-! ### the two flattening steps together -/

theorem filter_setEntry_of_untouched (P : Path × String → Bool) (acc : Listing) (p : Path) (v : String)
    (h1 : P (p, v) = false) (h2 : ∀ x ∈ acc, P x = true → x.1 ≠ p) :
    (setEntry acc p v).filter P = acc.filter P := by
  unfold setEntry
  rw [List.filter_append, List.filter_filter]
  simp only [List.filter_cons, h1, Bool.false_eq_true, if_false, List.filter_nil, List.append_nil]
  apply List.filter_congr
  intro x hx
  by_cases hp : P x = true
  · simp [hp, h2 x hx hp]
  · simp [hp]

theorem filter_foldl_set_of_untouched {α : Type} (tgt : α → Path) (val : α → String) (P : Path × String → Bool) :
    ∀ (ms : List α) (fs : Listing), (∀ m ∈ ms, P (tgt m, val m) = false) →
      (∀ x, P x = true → ∀ m ∈ ms, x.1 ≠ tgt m) →
      (ms.foldl (fun acc m => setEntry acc (tgt m) (val m)) fs).filter P = fs.filter P
  | [], _, _, _ => rfl
  | m :: ms, fs, h1, h2 => by
    simp only [List.foldl_cons]
    rw [filter_foldl_set_of_untouched tgt val P ms _ (fun m' hm' => h1 m' (by simp [hm']))
      (fun x hx m' hm' => h2 x hx m' (by simp [hm']))]
    exact filter_setEntry_of_untouched P fs _ _ (h1 m (by simp)) (fun x _ hp => h2 x hp m (by simp))

theorem underDir_len {isDir : String → Bool} {p : Path × String} (h : underDir isDir p = true) : 3 ≤ p.1.length := by
  unfold underDir at h
  split at h
  · rename_i e; rw [e]; simp only [List.length_cons]; omega
  · cases h

theorem flatTarget_len (p : Path × String) : (flatTarget p).length = 2 := rfl

theorem profilesDir_not_groups {d : String} (h : isProfilesDir d = true) : isGroups d = false := by
  unfold isGroups
  cases e : (d == "groups") with
  | false => rfl
  | true =>
    have : d = "groups" := by simpa using e
    rw [this] at h
    revert h; decide

theorem underProfiles_not_underGroups {p : Path × String} (h : underDir isProfilesDir p = true) :
    underDir isGroups p = false := by
  unfold underDir at h ⊢
  split at h
  · rename_i a d x r e
    simp only [Bool.and_eq_true] at h
    simp only [profilesDir_not_groups h.2, Bool.and_false]
  · cases h

/-- after the groups are flattened, the files under `profiles-*` are exactly those of before, in order -/
theorem moved_profiles_after_groups (fs : Listing) :
    moved isProfilesDir 3 (flatten isGroups 4 fs) = moved isProfilesDir 3 fs := by
  unfold moved
  rw [flatten_eq]
  rw [filter_foldl_set_of_untouched flatTarget (fun p => p.2)]
  · rw [List.filter_filter]
    apply List.filter_congr
    intro x _
    cases hu : underDir isProfilesDir x with
    | false => simp
    | true => simp [underProfiles_not_underGroups hu]
  · intro m _
    have : underDir isProfilesDir (flatTarget m, m.2) = false := by
      unfold underDir flatTarget; rfl
    simp [this]
  · intro x hx m _ e
    simp only [Bool.and_eq_true, beq_iff_eq] at hx
    have := underDir_len hx.1
    rw [e, flatTarget_len] at this
    omega

/-- the prepare core: ignore lists, then groups, then `profiles-*` -/
def core (src : Listing) (ignore : List String) : Listing :=
  flatten isProfilesDir 3 (flatten isGroups 4 (ignore.foldl ignoreOne src))

/-- same content, same base name -/
def From (x y : Path × String) : Prop := x.2 = y.2 ∧ x.1.getLastD "" = y.1.getLastD ""

theorem from_flatTarget (m : Path × String) : From (flatTarget m, m.2) m := ⟨rfl, rfl⟩

/-- **No leak**: every entry the core leaves comes from an entry of the source listing that the ignore
lists kept, with the same content and the same base name. -/
theorem core_no_leak (src : Listing) (ignore : List String) (x : Path × String) (h : x ∈ core src ignore) :
    ∃ y ∈ ignore.foldl ignoreOne src, From x y := by
  unfold core at h
  rcases mem_flatten_sub _ _ _ x h with ⟨h1, _⟩ | ⟨m, hm, _, _, e⟩
  · rcases mem_flatten_sub _ _ _ x h1 with ⟨h2, _⟩ | ⟨m, hm, _, _, e⟩
    · exact ⟨x, h2, rfl, rfl⟩
    · exact ⟨m, hm, e ▸ from_flatTarget m⟩
  · rcases mem_flatten_sub _ _ _ m hm with ⟨h2, _⟩ | ⟨m', hm', _, _, e'⟩
    · exact ⟨m, h2, e ▸ from_flatTarget m⟩
    · refine ⟨m', hm', ?_⟩
      rw [e]
      have a := from_flatTarget m
      have b : From m m' := e' ▸ from_flatTarget m'
      exact ⟨a.1.trans b.1, a.2.trans b.2⟩

/-- base names unique among the profiles that are flattened, and not already taken at the top level -/
def UniqueTargets (fs : Listing) : Prop :=
  ((moved isGroups 4 fs ++ moved isProfilesDir 3 fs).map flatTarget).Nodup

theorem mem_moved {isDir : String → Bool} {d : Nat} {fs : Listing} {m : Path × String} :
    m ∈ moved isDir d fs ↔ m ∈ fs ∧ underDir isDir m = true ∧ m.1.length = d := by
  unfold moved
  rw [List.mem_filter]
  simp [Bool.and_eq_true]

/-- **No loss**: with unique base names, every profile of `groups/*/` and of `profiles-*/` that the
ignore lists kept is in the result, at `apparmor.d/<base name>`, with its content. -/
theorem core_no_loss (src : Listing) (ignore : List String) (q : Path × String)
    (hq : q ∈ ignore.foldl ignoreOne src)
    (hk : (underDir isGroups q = true ∧ q.1.length = 4) ∨ (underDir isProfilesDir q = true ∧ q.1.length = 3))
    (hu : UniqueTargets (ignore.foldl ignoreOne src)) :
    (flatTarget q, q.2) ∈ core src ignore := by
  unfold core
  generalize hfs : ignore.foldl ignoreOne src = fs at hq hu
  have hnd := hu
  unfold UniqueTargets at hnd
  rw [List.map_append, List.nodup_append] at hnd
  obtain ⟨nd1, nd2, ndx⟩ := hnd
  rcases hk with ⟨hg, hl⟩ | ⟨hp, hl⟩
  · -- moved by the first step, untouched by the second
    have h1 := mem_flatten_of_moved isGroups 4 fs q hq hg hl nd1
    apply mem_flatten_of_rest isProfilesDir 3 _ _ h1
    · unfold underDir flatTarget; rfl
    · intro m hm
      rw [moved_profiles_after_groups] at hm
      have hqm : q ∈ moved isGroups 4 fs := mem_moved.mpr ⟨hq, hg, hl⟩
      exact ndx _ (List.mem_map.mpr ⟨q, hqm, rfl⟩) _ (List.mem_map.mpr ⟨m, hm, rfl⟩)
  · -- untouched by the first step, moved by the second
    have h1 : q ∈ flatten isGroups 4 fs := by
      apply mem_flatten_of_rest isGroups 4 fs q hq (underProfiles_not_underGroups hp)
      intro m _ e
      have := congrArg List.length e
      rw [hl, flatTarget_len] at this
      omega
    apply mem_flatten_of_moved isProfilesDir 3 _ q h1 hp hl
    rw [moved_profiles_after_groups]
    exact nd2

/-- **Everything else is carried through**: an entry outside `groups/` and `profiles-*/` (abstractions,
tunables, mappings, …) that the ignore lists kept stays where it is, unless a flattened profile takes
its very path. -/
theorem core_keeps_rest (src : Listing) (ignore : List String) (x : Path × String)
    (hx : x ∈ ignore.foldl ignoreOne src) (h1 : underDir isGroups x = false) (h2 : underDir isProfilesDir x = false)
    (hn : ∀ m ∈ moved isGroups 4 (ignore.foldl ignoreOne src) ++ moved isProfilesDir 3 (ignore.foldl ignoreOne src),
      x.1 ≠ flatTarget m) : x ∈ core src ignore := by
  unfold core
  apply mem_flatten_of_rest isProfilesDir 3 _ x _ h2
  · intro m hm
    rw [moved_profiles_after_groups] at hm
    exact hn m (List.mem_append.mpr (Or.inr hm))
  · exact mem_flatten_of_rest isGroups 4 _ x hx h1 (fun m hm => hn m (List.mem_append.mpr (Or.inl hm)))

end Prep
