import AaVerif.Generated.Chains
import AaVerif.Lines
/-!
# C01 — every built policy file loads in the AppArmor parser (structural part)

What is proved here is structural and holds for every text: the rewriting tasks of the build
neither merge nor split lines, and after the `abi3` task no AppArmor-4-only rule start
(`  userns,`, `  mqueue`) is left, so an ABI-3 parser is never
handed one.  Acceptance itself — includes and variables resolve, rules merge without conflict —
is decided by running the reference parser on every file of every real build of the tier.
-/
namespace C01
open Str Lines Generated

/-- the literal build tasks keep the line structure: same number of lines, each rewritten alone -/
theorem C01_line_structure_kept (ss : List Step) (h : stepsNoNl ss = true) (t : List Char) :
    splitNl (runSteps ss t) = (splitNl t).map (runSteps ss) := by
  rw [runSteps_lines h t]
  apply split_join
  · simpa using splitNl_ne_nil t
  · exact map_lines_no_nl (fun hl => runSteps_no_nl h hl) (split_lines_no_nl t)

theorem C01_chain_is_line_structured : stepsNoNl (hotfix ++ fsp ++ abi3) = true := by decide

/-- **ABI 3 builds set the AppArmor-4-only rules aside**: after `abi3`, whatever the text, no
`  userns,` rule start and no `  mqueue` rule start is left (the `abi/4.0` declaration is
checked on the example and on every real ABI-3 build). -/
theorem C01_abi3_sets_aside (t : List Char) :
    ¬ "  userns,".toList <:+: runSteps abi3 t ∧ ¬ "  mqueue".toList <:+: runSteps abi3 t := by
  refine ⟨?_, ?_⟩ <;> apply killedB_sound <;> decide +kernel

/-- … also when `hotfix` (and `fsp`) ran before it -/
theorem C01_abi3_sets_aside_in_chain (t : List Char) :
    ¬ "  userns,".toList <:+: runSteps (hotfix ++ fsp ++ abi3) t ∧
    ¬ "  mqueue".toList <:+: runSteps (hotfix ++ fsp ++ abi3) t := by
  refine ⟨?_, ?_⟩ <;> apply killedB_sound <;> decide +kernel

example : runSteps abi3 "abi <abi/4.0>,\n  userns,\n  mqueue r type=posix /,\n".toList
    = "abi <abi/3.0>,\n  # userns,\n  # mqueue r type=posix /,\n".toList := by decide +kernel

end C01
