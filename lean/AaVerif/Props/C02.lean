import AaVerif.Fs
import AaVerif.Aa.Sort
/-!
# C02 — prebuild output is reproducible

Three mechanisms could make a build depend on something other than the tree and the
configuration: what an earlier run left in the build directory, the iteration order of Go
maps, and package-level state that survives from one profile to the next.  The first two are
settled by the theorems below for all prior contents / all iteration orders; the third is
covered by histories run on the real code (the `regCleanStakedRules` growth was removed by a
`fix:` commit, after which no directive or builder writes package-level state).
-/
namespace C02
open Fs Aa

/-- **An earlier run leaves no trace** in a synchronised directory: after `RemoveAll` + copy, what
lies under `root/p` is the same for any two prior contents of the build directory. -/
theorem C02_sync_erases_history (src : FS) (root p : Path) (old₁ old₂ : FS) :
    under [root ++ p] (copyTree src p (root ++ p) (removeAll (root ++ p) old₁)) =
    under [root ++ p] (copyTree src p (root ++ p) (removeAll (root ++ p) old₂)) :=
  sync_step_independent src root p old₁ old₂

/-- the removal itself leaves nothing behind under the directory -/
theorem C02_remove_all_clean (d : Path) (fs : FS) : under [d] (removeAll d fs) = [] :=
  under_removeAll_nil d fs

/-- **Map iteration order does not matter once the output is sorted**: two runs that collect the
same rules in different orders (ranging over a Go map) and sort them with a comparator that is
a total preorder with identity produce the same list. (`exec` directive, `Flagger.Read`.) -/
theorem C02_sorted_output_order_independent {α : Type} {D : α → Prop} {c : α → α → Int} (h : IsOrd D c)
    {run₁ run₂ : List α} (hp : run₁.Perm run₂) (hD : ∀ a ∈ run₁, D a) :
    sortBy c run₁ = sortBy c run₂ :=
  sortBy_perm_invariant h hp hD

/-- the reference sort really sorts and keeps every element (so the statement above is about the
sorted list of the same rules) -/
theorem C02_sort_is_sorted_perm {α : Type} {D : α → Prop} {c : α → α → Int} (h : IsOrd D c)
    (l : List α) (hD : ∀ a ∈ l, D a) :
    (sortBy c l).Pairwise (fun a b => c a b ≤ 0) ∧ (sortBy c l).Perm l :=
  ⟨sortBy_sorted h l hD, sortBy_perm c l⟩

/-- non-vacuity: stale entries under the synchronised directory disappear, others stay -/
example : under [["b", "apparmor.d"]]
    (copyTree [(["apparmor.d", "x"], .file "new")] ["apparmor.d"] ["b", "apparmor.d"]
      (removeAll ["b", "apparmor.d"] [(["b", "apparmor.d", "stale"], .file "old"), (["b", "junk"], .file "j")]))
    = [(["b", "apparmor.d", "x"], .file "new")] := by decide +kernel

end C02
