import AaVerif.Filter
import AaVerif.Generated.Dists
/-!
# C03 — only/exclude directives keep exactly the rules meant for the build target

`Filter.model` (the step-by-step model of `directive.Run`) is run against the real code on
every check; `Filter.spec` is the line-level statement of the property, and the real code is
judged against it on every well-formed text (`Filter.wf`).  The theorems below are about the
specification and the decision logic; the refinement `model = spec` on `wf` texts is validated
by evaluation, not proved (stated in DESIGN.md).
-/
namespace C03
open Str Lines Filter

/-- the target is named by one of the filters -/
def named (tg : Target) (args : List (List Char)) : Prop :=
  tg.abi ∈ args ∨ tg.version ∈ args ∨ tg.dist ∈ args ∨ tg.family ∈ args

theorem forUs_iff (tg : Target) (args : List (List Char)) : forUs tg args = true ↔ named tg args := by
  simp [forUs, named, or_assoc]

/-- **C03 decision.** A guarded item is kept exactly when: `only` and one filter names the
target, or `exclude` and none does. -/
theorem C03_kept_iff (only : Bool) (tg : Target) (args : List (List Char)) :
    keep only tg args = true ↔ (only = true ∧ named tg args) ∨ (only = false ∧ ¬ named tg args) := by
  rw [← forUs_iff]
  unfold keep
  cases only <;> cases forUs tg args <;> simp

/-- items whose own text holds no marker -/
def clean : Item → Prop
  | .plain l => ¬ kw <:+: l
  | .inline code _ _ => ¬ kw <:+: code
  | .para _ _ _ body => ∀ l ∈ body, ¬ kw <:+: l
  | .unterminated _ => False

theorem nil_no_kw : ¬ kw <:+: ([] : List Char) := by decide

/-- **The marker never survives.** -/
theorem C03_marker_gone (tg : Target) (items : List Item) (h : ∀ i ∈ items, clean i) :
    ∀ l ∈ spec tg items, ¬ kw <:+: l := by
  intro l hl
  simp only [spec, List.mem_flatMap] at hl
  obtain ⟨i, hi, hl⟩ := hl
  have hc := h i hi
  cases i with
  | plain x => simp only [specItem, List.mem_singleton] at hl; subst hl; exact hc
  | inline code only args =>
    simp only [specItem] at hl
    split at hl
    · simp only [List.mem_singleton] at hl; subst hl; exact hc
    · simp only [List.mem_singleton] at hl; subst hl; exact nil_no_kw
  | para m only args body =>
    simp only [specItem] at hl
    split at hl
    · simp only [List.mem_cons, List.mem_append] at hl
      rcases hl with (rfl | hl) | hl
      · exact nil_no_kw
      · exact hc l hl
      · rcases hl with rfl | hl
        · exact nil_no_kw
        · cases hl
    · cases hl
  | unterminated ls => exact hc.elim

/-- **Unguarded lines are carried through unchanged**, in order: a text without any guarded
item is its own specification, and a plain item contributes exactly its line. -/
theorem C03_unguarded_unchanged (tg : Target) (ls : List (List Char)) :
    spec tg (ls.map Item.plain) = ls := by
  induction ls with
  | nil => rfl
  | cons l ls ih => simp only [spec, List.map_cons, List.flatMap_cons, specItem] at ih ⊢; rw [ih]; rfl

theorem C03_spec_append (tg : Target) (a b : List Item) : spec tg (a ++ b) = spec tg a ++ spec tg b := by
  simp [spec]

/-- kept / removed, stated on the output lines of one guarded item -/
theorem C03_inline_present (tg : Target) (code : List Char) (only : Bool) (args : List (List Char)) :
    specItem tg (.inline code only args) = if keep only tg args then [code] else [[]] := rfl

theorem C03_para_present (tg : Target) (m : List Char) (only : Bool) (args : List (List Char))
    (body : List (List Char)) :
    (keep only tg args = true → ∀ l ∈ body, l ∈ specItem tg (.para m only args body)) ∧
    (keep only tg args = false → specItem tg (.para m only args body) = []) := by
  constructor
  · intro h l hl; simp [specItem, h, hl]
  · intro h; simp [specItem, h]

/-- **Target table.** Every supported distribution is listed by exactly one package family
(regenerated `supportedDists` / `famillyDists`), so "the family of the target" is well defined
whatever the iteration order of the Go map. -/
theorem C03_target_table :
    ∀ d ∈ Generated.dists, ((Generated.families.filter (fun f => f.2.contains d)).length = 1) := by
  decide

/-- non-vacuity: a concrete layout with an inline rule and a paragraph, evaluated -/
example : spec ⟨"arch".toList, "pacman".toList, "abi4".toList, "apparmor4.1".toList⟩
    [.plain "  /a r,".toList, .inline "  /b r,".toList true ["debian".toList],
     .para "  #aa:exclude arch".toList false ["arch".toList] ["  /c r,".toList]]
    = ["  /a r,".toList, []] := by decide +kernel

end C03
