import AaVerif.Filter
import AaVerif.FilterLemmas
import AaVerif.FilterPara
import AaVerif.FilterMarker
import AaVerif.Generated.Dists
/-!
# C03 — only/exclude directives keep exactly the rules meant for the build target

`Filter.model` (the step-by-step model of `directive.Run`) is run against the real code on
every check; `Filter.spec` is the line-level statement of the property, and the real code is
judged against it on every well-formed text (`Filter.wf`).  The theorems below are about the
specification and the decision logic, and the refinement `model = spec` (`C03_refines_partial`:
inline rules and guarded paragraphs, any number of directives; `FilterLemmas.lean`, `FilterPara.lean`).
-/
namespace C03
open Str Lines Filter

/-- the target is named by one of the filters -/
def named (tg : Target) (args : List (List Char)) : Prop :=
  tg.abi ∈ args ∨ tg.version ∈ args ∨ tg.dist ∈ args ∨ tg.family ∈ args

theorem forUs_iff (tg : Target) (args : List (List Char)) : forUs tg args = true ↔ named tg args := by
  simp [forUs, named, or_assoc]

/-- **C03 decision.** A guarded item is kept exactly when: `only` and one filter names the
target, or `exclude` and none does. -/
theorem C03_kept_iff (only : Bool) (tg : Target) (args : List (List Char)) :
    keep only tg args = true ↔ (only = true ∧ named tg args) ∨ (only = false ∧ ¬ named tg args) := by
  rw [← forUs_iff]
  unfold keep
  cases only <;> cases forUs tg args <;> simp

/-- items whose own text holds no marker -/
def clean : Item → Prop
  | .plain l => ¬ kw <:+: l
  | .inline code _ _ => ¬ kw <:+: code
  | .para _ _ _ body => ∀ l ∈ body, ¬ kw <:+: l
  | .unterminated _ => False

theorem nil_no_kw : ¬ kw <:+: ([] : List Char) := by decide

/-- **The marker never survives.** -/
theorem C03_marker_gone (tg : Target) (items : List Item) (h : ∀ i ∈ items, clean i) :
    ∀ l ∈ spec tg items, ¬ kw <:+: l := by
  intro l hl
  simp only [spec, List.mem_flatMap] at hl
  obtain ⟨i, hi, hl⟩ := hl
  have hc := h i hi
  cases i with
  | plain x => simp only [specItem, List.mem_singleton] at hl; subst hl; exact hc
  | inline code only args =>
    simp only [specItem] at hl
    split at hl
    · simp only [List.mem_singleton] at hl; subst hl; exact hc
    · simp only [List.mem_singleton] at hl; subst hl; exact nil_no_kw
  | para m only args body =>
    simp only [specItem] at hl
    split at hl
    · simp only [List.mem_cons, List.mem_append] at hl
      rcases hl with (rfl | hl) | hl
      · exact nil_no_kw
      · exact hc l hl
      · rcases hl with rfl | hl
        · exact nil_no_kw
        · cases hl
    · cases hl
  | unterminated ls => exact hc.elim

/-- **Unguarded lines are carried through unchanged**, in order: a text without any guarded
item is its own specification, and a plain item contributes exactly its line. -/
theorem C03_unguarded_unchanged (tg : Target) (ls : List (List Char)) :
    spec tg (ls.map Item.plain) = ls := by
  induction ls with
  | nil => rfl
  | cons l ls ih => simp only [spec, List.map_cons, List.flatMap_cons, specItem] at ih ⊢; rw [ih]; rfl

theorem C03_spec_append (tg : Target) (a b : List Item) : spec tg (a ++ b) = spec tg a ++ spec tg b := by
  simp [spec]

/-- kept / removed, stated on the output lines of one guarded item -/
theorem C03_inline_present (tg : Target) (code : List Char) (only : Bool) (args : List (List Char)) :
    specItem tg (.inline code only args) = if keep only tg args then [code] else [[]] := rfl

theorem C03_para_present (tg : Target) (m : List Char) (only : Bool) (args : List (List Char))
    (body : List (List Char)) :
    (keep only tg args = true → ∀ l ∈ body, l ∈ specItem tg (.para m only args body)) ∧
    (keep only tg args = false → specItem tg (.para m only args body) = []) := by
  constructor
  · intro h l hl; simp [specItem, h, hl]
  · intro h; simp [specItem, h]

/-- **Target table.** Every supported distribution is listed by exactly one package family
(regenerated `supportedDists` / `famillyDists`), so "the family of the target" is well defined
whatever the iteration order of the Go map. -/
theorem C03_target_table :
    ∀ d ∈ Generated.dists, ((Generated.families.filter (fun f => f.2.contains d)).length = 1) := by
  decide

/-- non-vacuity: a concrete layout with an inline rule and a paragraph, evaluated -/
example : spec ⟨"arch".toList, "pacman".toList, "abi4".toList, "apparmor4.1".toList⟩
    [.plain "  /a r,".toList, .inline "  /b r,".toList true ["debian".toList],
     .para "  #aa:exclude arch".toList false ["arch".toList] ["  /c r,".toList]]
    = ["  /a r,".toList, []] := by decide +kernel

/-! ## Refinement: the text-level model of `directive.Run` is the line-level specification

`Filter.model` does what the Go code does: it scans the text once for directives and then applies them one
after the other to the *whole evolving text* with substring semantics (`strings.Replace(text, raw, clean, 1)`,
`strings.ReplaceAll(text, raw, "")`).  The specification speaks about lines.  For the inline form the two agree,
for every text and any number of directives. -/

/-- **`model = spec`, inline form** (partial: guarded paragraphs are outside the class).  For EVERY text in which every
directive stands after a rule on its own line (`only` or `exclude`, matched text = the whole line, code before the marker)
and the text of a directive line occurs in no other line, the model of `directive.Run` returns exactly the text of
the line-level specification: each guarded line is its code without the marker when the target is selected and an
empty line otherwise, every other line is unchanged, in place. -/
theorem C03_refines_inline_partial (tg : Target) (t : List Char) (h : wfInlineSpec (splitNl t) = true) :
    model tg t = some (specText tg t) := model_eq_spec_inline tg t h

/-- … stated on lines: the result has the same number of lines, line by line `lineSpec` -/
theorem C03_model_line_by_line (tg : Target) (t : List Char) (h : wfInline (splitNl t) = true) :
    model tg t = some (joinNl ((splitNl t).map (lineSpec tg))) := model_inline tg t h

/-- the class is inhabited by ordinary profile text: two inline directives (one kept, one dropped on this target),
unguarded lines around them, a tab before a marker -/
def inlineSample : List Char :=
  "profile foo {\n  @{bin}/apt rPx, #aa:only apt\n  /etc/a r,\n  @{bin}/zypper rPx,\t#aa:exclude debian ubuntu\n\n  /etc/b r,   #aa:only abi4 whonix\n}\n".toList

example : wfInlineSpec (splitNl inlineSample) = true := by decide +kernel

example : model ⟨"debian".toList, "apt".toList, "abi4".toList, "apparmor4.1".toList⟩ inlineSample =
    some "profile foo {\n  @{bin}/apt rPx,\n  /etc/a r,\n\n\n  /etc/b r,\n}\n".toList := by
  rw [C03_refines_inline_partial _ _ (by decide +kernel)]
  decide +kernel

/-- what the class excludes, and why: a directive line whose text also occurs inside another line is rewritten there
too by the substring replacement (the shipped `packagekitd` has such a pair; known finding K_rawSubstring) -/
example : wfInline (splitNl "  /a r, #aa:only apt\n  x  /a r, #aa:only apt\n".toList) = false := by decide +kernel

/-- … and a guarded paragraph (marker alone on its line) is outside the inline class -/
example : wfInline (splitNl "  #aa:only apt\n  /a r,\n\n".toList) = false := by decide +kernel

/-! ## Refinement with guarded paragraphs

When a paragraph directive does not select the target, the Go code removes every match of the regular expression
`(?s)` + quoted marker text + `\n.*?\n\n` from the whole text.  In a well-formed layout that is exactly the marker line,
the lines of the paragraph and the blank line that ends it.  (Before the fix commit the marker text was not quoted: a dot in
`apparmor4.1` matched any character, so a paragraph guarded by a different marker could be removed with it — found when the
proof asked for the hypothesis "no dot in the marker"; replayed on every run, see `gen/c03.py`.) -/

/-- **`model = spec`** (partial: the layouts outside `wfText`).  For EVERY text in which each directive is either after a
rule on its own line or a marker alone on its line followed by a non-empty paragraph of marker-free lines, a blank line
and at least one more line, and in which the text of a directive line occurs in no other line — any number of
directives, in any order — the step-by-step model of `directive.Run` returns exactly the text of the line-level
specification. -/
theorem C03_refines_partial (tg : Target) (t : List Char) (h : wfText t = true) :
    model tg t = some (specText tg t) := model_eq_spec tg t h

/-- inline rules, a kept paragraph and a dropped one in one text (debian, ABI 4, version 4.1) -/
def mixedSample : List Char :=
  "profile foo {\n  @{bin}/apt rPx, #aa:only apt\n\n  #aa:only apparmor4.1\n  userns,\n  mqueue r type=posix /,\n\n  /etc/a r,\n\n  #aa:exclude debian (test.) [x]\n  /etc/b r,\n\n  /etc/c r,   #aa:exclude abi4\n}\n".toList

example : wfText mixedSample = true := by decide +kernel

example : model ⟨"debian".toList, "apt".toList, "abi4".toList, "apparmor4.1".toList⟩ mixedSample =
    some "profile foo {\n  @{bin}/apt rPx,\n\n\n  userns,\n  mqueue r type=posix /,\n\n  /etc/a r,\n\n\n}\n".toList := by
  rw [C03_refines_partial _ _ (by decide +kernel)]
  decide +kernel

/-- what stays outside: a paragraph that is not closed by a blank line followed by more text -/
example : wfText "  #aa:only apt\n  /a r,\n".toList = false := by decide +kernel

/-- the two markers of the regression: after the fix the second paragraph stays on a 4.1 target -/
example : model ⟨"arch".toList, "pacman".toList, "abi4".toList, "apparmor4.1".toList⟩
    "p {\n  #aa:exclude apparmor4.1\n  /a r,\n\n  #aa:exclude apparmor4x1\n  /b r,\n\n  /c r,\n}\n".toList =
    some "p {\n\n  /b r,\n\n  /c r,\n}\n".toList := by
  rw [C03_refines_partial _ _ (by decide +kernel)]
  decide +kernel

/-- **The marker never survives, at text level**: for every text in the layouts of `wfText` in which no second marker hides in
the code in front of a directive, the output of `directive.Run` (its model) is the join of lines none of which holds `#aa:`. -/
theorem C03_marker_gone_text (tg : Target) (t : List Char) (h : wfText t = true) (hh : noHiddenKw (splitNl t) = true) :
    ∃ out : List (List Char), model tg t = some (joinNl out) ∧ ∀ l ∈ out, ¬ kw <:+: l :=
  model_no_marker tg t h hh

example : noHiddenKw (splitNl mixedSample) = true := by decide +kernel

end C03
