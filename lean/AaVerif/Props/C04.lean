import AaVerif.PrepLemmas
/-!
# C04 — the prepare stage conserves the policy set

`Prep.spec` is the specification of what `.build` holds after the prepare stage; it is evaluated
by the driver on the real tree for every configuration and compared with what the real
`prebuild` produced (over a build directory that holds stale files).
-/
namespace C04
open Prep Fs

/-- **Ignore is exact**: after an ignore entry that names an existing path, nothing under that
path is left and every other entry is untouched. -/
theorem C04_ignore_exact (fs : Listing) (e : String)
    (h : fs.any (fun p => (splitPath e).isPrefixOf p.1) = true) (p : Path × String) :
    p ∈ ignoreOne fs e ↔ (p ∈ fs ∧ ¬ (splitPath e) <+: p.1) := by
  unfold ignoreOne
  simp only [h, if_true, List.mem_filter, Bool.not_eq_true', ← Bool.not_eq_true, List.isPrefixOf_iff_prefix]

/-- **Flattening is lossless when base names are unique**: two different source paths never
land on the same output name. -/
theorem C04_flat_lossless {α β : Type} (base : α → β) (paths : List α) (h : (paths.map base).Nodup)
    (hp : paths.Nodup) : ∀ p ∈ paths, ∀ q ∈ paths, base p = base q → p = q := by
  induction paths with
  | nil => intro p hp'; cases hp'
  | cons a as ih =>
    intro p hp' q hq hb
    simp only [List.map_cons, List.nodup_cons, List.mem_map, not_exists, not_and] at h
    simp only [List.nodup_cons] at hp
    simp only [List.mem_cons] at hp' hq
    rcases hp' with rfl | hp' <;> rcases hq with rfl | hq
    · rfl
    · exact absurd hb.symm (h.1 q hq)
    · exact absurd hb (h.1 p hp')
    · exact ih h.2 hp.2 p hp' q hq hb

/-- the specification starts with the core (ignore lists, groups, `profiles-*`); a configuration without
version removals, ubuntu abstractions, flags, overwrite, full-system-policy files and drop-ins is the core -/
theorem C04_spec_is_core (src : Listing) (ignore : List String) :
    spec { src := src, ignore := ignore, ubuntuAbs := [], copyUbuntu := false, removed41 := [], overwrite := [],
           full := [], flagged := [], edited := [] } = core src ignore := by
  unfold spec core mark
  simp

/-- **Nothing leaks** (every listing, every ignore list): each entry left by ignore + flatten comes
from a source entry that the ignore lists kept, with the same content and the same base name. -/
theorem C04_no_leak (src : Listing) (ignore : List String) (x : Path × String) (h : x ∈ core src ignore) :
    ∃ y ∈ src, x.2 = y.2 ∧ x.1.getLastD "" = y.1.getLastD "" := by
  obtain ⟨y, hy, hf⟩ := core_no_leak src ignore x h
  exact ⟨y, ignore_fold_sub ignore src y hy, hf⟩

/-- **Nothing is lost** (every listing, every ignore list): when the base names of the profiles that
survive the ignore lists are pairwise different, each of them is in the flat output directory under
its base name, with the content of the source file. -/
theorem C04_no_loss (src : Listing) (ignore : List String) (q : Path × String)
    (hq : q ∈ ignore.foldl ignoreOne src)
    (hk : (underDir isGroups q = true ∧ q.1.length = 4) ∨ (underDir isProfilesDir q = true ∧ q.1.length = 3))
    (hu : UniqueTargets (ignore.foldl ignoreOne src)) :
    ([aa, q.1.getLastD ""], q.2) ∈ core src ignore :=
  core_no_loss src ignore q hq hk hu

/-- abstractions, tunables and mappings are carried through -/
theorem C04_rest_kept (src : Listing) (ignore : List String) (x : Path × String)
    (hx : x ∈ ignore.foldl ignoreOne src) (h1 : underDir isGroups x = false) (h2 : underDir isProfilesDir x = false)
    (hn : ∀ m ∈ moved isGroups 4 (ignore.foldl ignoreOne src) ++ moved isProfilesDir 3 (ignore.foldl ignoreOne src),
      x.1 ≠ [aa, m.1.getLastD ""]) : x ∈ core src ignore :=
  core_keeps_rest src ignore x hx h1 h2 hn

/-- the hypothesis of `C04_no_loss` on a small tree, and what the theorem gives there -/
example : UniqueTargets [(["apparmor.d", "groups", "a", "x"], "1"), (["apparmor.d", "profiles-s-z", "y"], "2"),
    (["apparmor.d", "abstractions", "base"], "3")] := by unfold UniqueTargets; decide +kernel

def twoGroups : Listing := [(["apparmor.d", "groups", "a", "x"], "1"), (["apparmor.d", "profiles-s-z", "x"], "2")]

/-- **Without unique base names a profile is lost silently** (why the hypothesis is needed):
the generic profile replaces the group profile of the same name. -/
theorem C04_collision_loses :
    flatten isProfilesDir 3 (flatten isGroups 4 twoGroups) = [(["apparmor.d", "x"], "2")] := by decide +kernel

/-- every profile of the overwrite list gets the package suffix and a `disable/` link to the
upstream name -/
theorem C04_overwrite_links :
    overwriteOne [(["apparmor.d", "firefox"], "c"), (["apparmor.d", "foo"], "d")] "firefox"
      = [(["apparmor.d", "foo"], "d"), (["apparmor.d", "firefox.apparmor.d"], "c"),
         (["apparmor.d", "disable", "firefox"], "L:firefox")] := by decide +kernel

/-- a small tree through the whole specification (ignore by path and by name, flatten, 4.1
removals, flags, overwrite) -/
theorem C04_spec_example :
    spec { src := [(["apparmor.d", "groups", "gnome", "nautilus"], "n"), (["apparmor.d", "groups", "whonix", "w"], "w"),
                   (["apparmor.d", "profiles-m-r", "man"], "m"), (["apparmor.d", "profiles-s-z", "wg"], "g"),
                   (["apparmor.d", "abstractions", "base"], "b")],
           ignore := ["apparmor.d/groups/whonix", "man"], ubuntuAbs := [], copyUbuntu := false, removed41 := ["wg"],
           overwrite := ["nautilus"], full := [], flagged := ["nautilus"], edited := [] }
      = [(["apparmor.d", "abstractions", "base"], "b"), (["apparmor.d", "nautilus.apparmor.d"], "FLAGGED"),
         (["apparmor.d", "disable", "nautilus"], "L:nautilus")] := by decide +kernel

end C04
