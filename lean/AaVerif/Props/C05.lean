import AaVerif.Flags
import AaVerif.FlagsText
import AaVerif.FlagsSet
/-!
# C05 — build mode and flags manifests, and nothing else, determine profile flags

The model (`Flags.complain`, `Flags.enforce`, `Flags.setFlags`) is run against the real
builders and the real `setflags` task on every check.  The theorems are about one block
header line `l` (the builders treat every header on its own) and hold for every `l` that
satisfies the decidable well-formedness predicate `WF`.
-/
namespace C05
open Str Lines Flags

/-- Well-formed header line: once its `flags=(…)` clauses are erased it still ends in ` {`,
no `flags=(` is left (erasing did not splice a new clause together), and no flag is empty. -/
def WF (l : List Char) : Prop :=
  endsBrace (eraseFlags l) = true ∧ ¬ flagsOpen <:+: eraseFlags l ∧ ∀ f ∈ flagsOf l, f ≠ []

instance (l : List Char) : Decidable (WF l) := by unfold WF; infer_instance

/-- the header without its flags and without the final ` {` -/
def stem (l : List Char) : List Char := (eraseFlags l).dropLast.dropLast

theorem stem_spec {l : List Char} (h : endsBrace (eraseFlags l) = true) :
    eraseFlags l = stem l ++ braceSuffix := by
  unfold endsBrace at h
  rw [List.isSuffixOf_iff_suffix] at h
  obtain ⟨a, ha⟩ := h
  unfold stem
  rw [← ha]
  have : a ++ braceSuffix = (a ++ [' ']) ++ ['{'] := by simp [braceSuffix]
  rw [this, List.dropLast_concat, List.dropLast_concat]
  simp [braceSuffix]

theorem stem_clean {l : List Char} (h : WF l) : ¬ flagsOpen <:+: stem l := by
  intro hp
  apply h.2.1
  rw [stem_spec h.1]
  exact List.IsInfix.trans hp (List.prefix_append _ _).isInfix

theorem clause_flags {e : List Char} {fl : List (List Char)} (he : ¬ flagsOpen <:+: e)
    (hne : fl ≠ []) (h1 : ∀ f ∈ fl, ',' ∉ f) (h2 : ∀ f ∈ fl, ')' ∉ f) (h3 : ∃ f ∈ fl, f ≠ []) :
    flagsOf (e ++ flagsClause fl) = fl := by
  have hJ : ')' ∉ joinComma fl := by
    intro hm
    exact joinComma_sub (· ≠ ')') (by decide) fl (fun x hx c hc e => h2 x hx (e ▸ hc)) ')' hm rfl
  unfold flagsOf flagsClause
  rw [findFlags_clause he (joinComma_ne_nil fl h3) hJ]
  exact split_join_comma fl hne h1

theorem flagsOf_no_comma (l : List Char) : ∀ f ∈ flagsOf l, ',' ∉ f := by
  unfold flagsOf
  split
  · exact splitComma_no_comma _
  · simp

/-- **complain build.** The flags of the rewritten header are the old flags, plus `complain`
when it was missing. -/
theorem C05_complain_flags (l : List Char) (h : WF l) :
    flagsOf (complainLine l) =
      if complainW ∈ flagsOf l then flagsOf l else flagsOf l ++ [complainW] := by
  unfold complainLine
  simp only [List.contains_eq_mem, decide_eq_true_eq]
  by_cases hc : complainW ∈ flagsOf l
  · simp only [hc, if_true]
  · simp only [hc, if_false]
    apply clause_flags (stem_clean h)
    · simp
    · intro f hf
      simp only [List.mem_append, List.mem_singleton] at hf
      rcases hf with hf | rfl
      · exact flagsOf_no_comma l f hf
      · decide
    · intro f hf
      simp only [List.mem_append, List.mem_singleton] at hf
      rcases hf with hf | rfl
      · exact flagsOf_no_paren l f hf
      · decide
    · exact ⟨complainW, by simp, by decide⟩

/-- every block is in complain mode after the complain builder -/
theorem C05_complain_sets (l : List Char) (h : WF l) : complainW ∈ flagsOf (complainLine l) := by
  rw [C05_complain_flags l h]
  by_cases hc : complainW ∈ flagsOf l
  · simp only [hc, if_true]
  · simp [hc]

/-- … and it keeps exactly its other flags, in order -/
theorem C05_complain_keeps_other_flags (l : List Char) (h : WF l) :
    (flagsOf (complainLine l)).erase complainW = (flagsOf l).erase complainW := by
  rw [C05_complain_flags l h]
  by_cases hc : complainW ∈ flagsOf l
  · simp only [hc, if_true]
  · simp only [hc, if_false]
    rw [List.erase_append_right _ hc, List.erase_of_not_mem hc]
    simp

/-- **enforce build.** The flags of the rewritten header are the old flags without `complain`, in order. -/
theorem C05_enforce_flags (l : List Char) (h : WF l) :
    flagsOf (enforceLine l) = (flagsOf l).filter (fun f => f != complainW) := by
  unfold enforceLine
  cases hf : findFlags l with
  | none => simp [flagsOf, hf]
  | some g =>
    have hfl : flagsOf l = splitComma g := by simp [flagsOf, hf]
    simp only
    by_cases hc : (splitComma g).contains complainW = true
    · simp only [hc, Bool.not_true, Bool.false_eq_true, if_false]
      rw [hfl]
      by_cases hemp : ((splitComma g).filter (fun f => f != complainW)).isEmpty = true
      · simp only [hemp, if_true]
        have : (splitComma g).filter (fun f => f != complainW) = [] := by simpa using hemp
        rw [this]
        have hcl : ¬ flagsOpen <:+: stem l ++ ['{'] := by
          intro hp
          exact stem_clean h (infix_snoc (by decide) (by decide) hp)
        unfold flagsOf
        change (match findFlags (stem l ++ ['{']) with | some g => splitComma g | none => []) = []
        rw [findFlags_none hcl]
      · simp only [hemp, if_false, Bool.false_eq_true]
        have hsub : ∀ f ∈ (splitComma g).filter (fun f => f != complainW), f ∈ flagsOf l := by
          intro f hf'; rw [hfl]; exact (List.mem_filter.mp hf').1
        apply clause_flags (stem_clean h)
        · simpa using hemp
        · exact fun f hf' => flagsOf_no_comma l f (hsub f hf')
        · exact fun f hf' => flagsOf_no_paren l f (hsub f hf')
        · cases hx : (splitComma g).filter (fun f => f != complainW) with
          | nil => simp [hx] at hemp
          | cons x xs => exact ⟨x, by simp, h.2.2 x (hsub x (by simp [hx]))⟩
    · simp only [hc, Bool.not_false, if_true]
      rw [hfl]
      have hn : complainW ∉ splitComma g := by simpa using hc
      symm
      apply List.filter_eq_self.mpr
      intro f hfm
      have : f ≠ complainW := fun e => hn (e ▸ hfm)
      simpa using this

/-- no block is in complain mode after the enforce builder -/
theorem C05_enforce_unsets (l : List Char) (h : WF l) : complainW ∉ flagsOf (enforceLine l) := by
  rw [C05_enforce_flags l h]
  intro hm
  have := (List.mem_filter.mp hm).2
  simp at this

/-- … and it keeps exactly its other flags, in order -/
theorem C05_enforce_keeps_other_flags (l : List Char) (h : WF l) :
    flagsOf (enforceLine l) = (flagsOf l).filter (fun f => f != complainW) := C05_enforce_flags l h

/-- a header that lists `complain` twice is out of complain mode as well (before the fix commit only the first one was
removed: the theorem then needed "flags written once each", and the real builder was run on this header) -/
theorem C05_enforce_listed_twice :
    flagsOf (enforceLine "profile x flags=(complain,audit,complain) {".toList) = ["audit".toList] := by decide +kernel

/-- Lines that are not block headers are carried through unchanged, by both builders. -/
theorem C05_rule_lines_untouched_complain (t : List Char) :
    Rel2 (fun l l' => l' = l ∨ (endsBrace l = true ∧ l' = complainLine l))
      (splitNl t) (mapHeaderLines complainLine (splitNl t)) :=
  mapHeaderLines_rel complainLine (splitNl t)

theorem C05_rule_lines_untouched_enforce (t : List Char) :
    Rel2 (fun l l' => l' = l ∨ (endsBrace l = true ∧ l' = enforceLine l))
      (splitNl t) (mapHeaderLines enforceLine (splitNl t)) :=
  mapHeaderLines_rel enforceLine (splitNl t)

/-- the hypotheses are satisfiable by ordinary headers -/
example : WF "profile foo @{exec_path} flags=(attach_disconnected,complain) {".toList := by decide +kernel
example : WF "  profile bar {".toList := by decide +kernel

/-! ## Flags manifests -/

/-- **`setflags` on a block header**: for every well-formed header line `l` (followed by its newline) and every manifest entry
`fl` (not empty, its flags free of `,` and `)`, one of them not empty), the task erases the clauses of the line and writes
` flags=(fl)` in front of the brace: the header then carries exactly the manifest's flags, in the manifest's order, whatever
it carried before; name, attachment and extended attributes (the rest of the line) stay. -/
theorem C05_setflags_header (l : List Char) (hl : nl ∉ l) (h : WF l) (fl : List (List Char)) (hne : fl ≠ [])
    (h1 : ∀ f ∈ fl, ',' ∉ f) (h2 : ∀ f ∈ fl, ')' ∉ f) (h3 : ∃ f ∈ fl, f ≠ []) :
    setFlags fl (l ++ [nl]) = stem l ++ flagsClause fl ++ [nl] ∧ flagsOf (stem l ++ flagsClause fl) = fl :=
  ⟨setFlags_header fl l (stem l) hl (stem_spec h.1), clause_flags (stem_clean h) hne h1 h2 h3⟩

example : setFlags ["attach_disconnected".toList, "complain".toList] "profile foo @{exec_path} flags=(audit) {\n".toList
    = "profile foo @{exec_path}  flags=(attach_disconnected,complain) {\n".toList := by decide +kernel

/-! ## Every block of every text -/

/-- what one of the two builders does to the line at position `i` of a text -/
theorem builder_line (f : List Char → List Char) (hf : ∀ {l}, nl ∉ l → nl ∉ f l) (t : List Char) :
    let src := splitNl t
    let out := splitNl (joinNl (mapHeaderLines f src))
    out.length = src.length ∧
    ∀ (i : Nat) (h : i < src.length) (h' : i < out.length),
      out[i] = if i + 1 < src.length ∧ endsBrace src[i] = true then f src[i] else src[i] := by
  intro src out
  have e : out = mapHeaderLines f src :=
    split_join _ (mapHeaderLines_ne_nil _ (splitNl_ne_nil t)) (mapHeaderLines_no_nl hf _ (split_lines_no_nl t))
  refine ⟨by rw [e, mapHeaderLines_length], fun i h h' => ?_⟩
  have := mapHeaderLines_get f src i h
  simp only [e]
  exact this

/-- **complain build, every block of every text.**  The built text has the same lines at the same
positions.  A block header (a line ending in ` {` that is followed by a newline) is in complain mode
afterwards and keeps exactly its other flags, in order; every other line is the source line. -/
theorem C05_complain_every_block (t : List Char) :
    (splitNl (complain t)).length = (splitNl t).length ∧
    ∀ (i : Nat) (h : i < (splitNl t).length) (h' : i < (splitNl (complain t)).length),
      ((i + 1 < (splitNl t).length ∧ endsBrace (splitNl t)[i] = true) → WF (splitNl t)[i] →
          complainW ∈ flagsOf (splitNl (complain t))[i] ∧
          (flagsOf (splitNl (complain t))[i]).erase complainW = (flagsOf (splitNl t)[i]).erase complainW) ∧
      (¬ (i + 1 < (splitNl t).length ∧ endsBrace (splitNl t)[i] = true) → (splitNl (complain t))[i] = (splitNl t)[i]) := by
  obtain ⟨hl, hg⟩ := builder_line complainLine (fun h => complainLine_no_nl h) t
  refine ⟨hl, fun i h h' => ⟨fun hh hwf => ?_, fun hn => ?_⟩⟩
  · have := hg i h h'
    rw [if_pos hh] at this
    unfold complain
    rw [this]
    exact ⟨C05_complain_sets _ hwf, C05_complain_keeps_other_flags _ hwf⟩
  · have := hg i h h'
    rw [if_neg hn] at this
    exact this

/-- **enforce build, every block of every text.** -/
theorem C05_enforce_every_block (t : List Char) :
    (splitNl (enforce t)).length = (splitNl t).length ∧
    ∀ (i : Nat) (h : i < (splitNl t).length) (h' : i < (splitNl (enforce t)).length),
      ((i + 1 < (splitNl t).length ∧ endsBrace (splitNl t)[i] = true) → WF (splitNl t)[i] →
          complainW ∉ flagsOf (splitNl (enforce t))[i] ∧
          flagsOf (splitNl (enforce t))[i] = (flagsOf (splitNl t)[i]).filter (fun f => f != complainW)) ∧
      (¬ (i + 1 < (splitNl t).length ∧ endsBrace (splitNl t)[i] = true) → (splitNl (enforce t))[i] = (splitNl t)[i]) := by
  obtain ⟨hl, hg⟩ := builder_line enforceLine (fun h => enforceLine_no_nl h) t
  refine ⟨hl, fun i h h' => ⟨fun hh hwf => ?_, fun hn => ?_⟩⟩
  · have := hg i h h'
    rw [if_pos hh] at this
    unfold enforce
    rw [this]
    exact ⟨C05_enforce_unsets _ hwf, C05_enforce_keeps_other_flags _ hwf⟩
  · have := hg i h h'
    rw [if_neg hn] at this
    exact this

/-- a text with a main profile, a sub-profile and a hat whose flags differ: all three blocks -/
example : splitNl (complain "profile a flags=(attach_disconnected) {\n  profile b {\n  }\n  ^hat flags=(complain) {\n  }\n}\n".toList)
    = ["profile a  flags=(attach_disconnected,complain) {".toList, "  profile b flags=(complain) {".toList, "  }".toList,
       "  ^hat flags=(complain) {".toList, "  }".toList, "}".toList, []] := by decide +kernel

end C05
