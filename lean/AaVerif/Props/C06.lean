import AaVerif.Aa.Resolve
/-!
# C06 — resolved attachments match the same executables as @{exec_path}

`Aa.resolve` / `Aa.getAttachments` are the model of `Resolve` and `Profile.GetAttachments` (tied by
the differential run shared with C13).  The theorems are about the nesting `/{a,b,…}` the build
writes into the header: as a pattern it denotes exactly the union of the resolved values.
Whether the built-in variable table agrees with the shipped tunables is decided on every built
profile with the reference parser's own expansion of `@{exec_path}`.
-/
namespace C06
open Aa

/-- patterns with alternation; `expand` is the set of alternation-free patterns they stand for
(globbing characters are ordinary characters at this level) -/
inductive Pat where
  | lit (s : List Char)
  | seq (a b : Pat)
  | alt (a b : Pat)
  | none                       -- the empty alternation (no pattern)

def Pat.expand : Pat → List (List Char)
  | .lit s => [s]
  | .seq a b => (a.expand).flatMap (fun x => (b.expand).map (fun y => x ++ y))
  | .alt a b => a.expand ++ b.expand
  | .none => []

/-- n-ary alternation -/
def altN : List Pat → Pat
  | [] => .none
  | p :: ps => .alt p (altN ps)

theorem expand_altN (ps : List Pat) : (altN ps).expand = ps.flatMap Pat.expand := by
  induction ps with
  | nil => rfl
  | cons p ps ih => simp [altN, Pat.expand, ih]

def slash : Pat := .lit ['/']

/-- the nested attachment `/{r₁,…,rₙ}` for attachments `/r₁ … /rₙ` -/
def nest (rs : List Pat) : Pat := .seq slash (altN rs)

/-- **The nested attachment denotes the union of the attachments**: no path lost, none added. -/
theorem C06_expand_nest (rs : List Pat) :
    (nest rs).expand = rs.flatMap (fun r => (Pat.seq slash r).expand) := by
  simp only [nest, Pat.expand, slash, expand_altN, List.flatMap_cons, List.flatMap_nil, List.append_nil]
  induction rs with
  | nil => rfl
  | cons r rs ih =>
    simp only [List.flatMap_cons, List.map_append]
    rw [ih]

/-- a single attachment is written as it is -/
theorem C06_single_attachment (a : List Char) : getAttachments [a] = a := rfl

def stripSlash (a : List Char) : List Char := match a with | '/' :: r => r | _ => a

/-- with several attachments the header holds `/{…}` around their slash-less forms, comma separated -/
theorem C06_nest_shape (a b : List Char) (l : List (List Char)) :
    getAttachments (a :: b :: l) = ['/', '{'] ++ getAttachments.joinC ((a :: b :: l).map stripSlash) ++ ['}'] := by
  unfold getAttachments
  simp only [stripSlash]
  rfl

/-- text of a pattern (alternatives between braces, comma separated) -/
def render : Pat → List Char
  | .lit s => s
  | .seq a b => render a ++ render b
  | .alt a .none => render a
  | .alt a b => render a ++ ',' :: render b
  | .none => []

/-- **Text and meaning agree**: for two or more attachments `/rᵢ`, the text the build writes is the
text of `nest`, whose expansion is the union of the expansions. -/
theorem C06_nest_language (r₁ r₂ : Pat) (rs : List Pat) :
    getAttachments ((r₁ :: r₂ :: rs).map (fun r => '/' :: render r)) = ['/', '{'] ++ getAttachments.joinC ((r₁ :: r₂ :: rs).map render) ++ ['}'] ∧
    (nest (r₁ :: r₂ :: rs)).expand = (r₁ :: r₂ :: rs).flatMap (fun r => (Pat.seq slash r).expand) := by
  constructor
  · simp only [List.map_cons]
    rw [C06_nest_shape]
    simp [stripSlash, List.map_map, Function.comp_def]
  · exact C06_expand_nest _

/-- non-vacuity: the baloo header of the builder's own test -/
example : getAttachments ["/{,usr/}{,s}bin/baloo_file".toList, "/{,usr/}lib{,exec,32,64}/{,kf6/}baloo_file".toList]
    = "/{{,usr/}{,s}bin/baloo_file,{,usr/}lib{,exec,32,64}/{,kf6/}baloo_file}".toList := by decide +kernel

example : (nest [.lit "a".toList, .seq (.alt (.lit "b".toList) (.alt (.lit "c".toList) .none)) (.lit "d".toList)]).expand
    = ["/a".toList, "/bd".toList, "/cd".toList] := by decide +kernel

end C06
