import AaVerif.Directive
/-!
# C07 — generating directives are fully consumed and expand to what they document

`Directive.own/talk/common` are the documented rule families; on every run the text produced by
the real `dbus` directive is read back by the library's parser and compared with them.  `exec`
and `stack` are checked on generated profiles through the real `directive.Run`.
-/
namespace C07
open Directive Aa

theorem mem_own_bus (a : DbusArgs) : ∀ r ∈ own a, isDbus r = true → busOf r = a.bus := by
  intro r hr _
  simp only [own, List.mem_append, List.mem_cons, List.mem_flatMap, List.not_mem_nil, or_false] at hr
  rcases hr with ((hr | hr) | ⟨i, _, hr | hr⟩) | hr | hr | hr | hr
  all_goals first | (subst hr; rfl) | (subst hr; simp [isDbus] at *)

/-- **Named bus only**: every dbus rule of the three families is on the bus given in the directive. -/
theorem C07_dbus_named_bus_only (a : DbusArgs) :
    (∀ r ∈ own a, isDbus r = true → busOf r = a.bus) ∧
    (∀ r ∈ talk a, busOf r = a.bus) ∧ (∀ r ∈ common a, busOf r = a.bus) := by
  refine ⟨mem_own_bus a, ?_, ?_⟩
  · intro r hr
    simp only [talk, List.mem_append, List.mem_map, List.mem_cons, List.not_mem_nil, or_false] at hr
    rcases hr with ⟨i, _, rfl⟩ | rfl | rfl | rfl | rfl <;> rfl
  · intro r hr
    simp only [common, List.mem_cons, List.not_mem_nil, or_false] at hr
    rcases hr with rfl | rfl | rfl <;> rfl

/-- **own binds the name** (with its sub-names) on that bus -/
theorem C07_own_binds (a : DbusArgs) : dbusRule ["bind"] a.bus a.nameV [] [] [] [] [] ∈ own a := by
  simp [own]

/-- **talk / common are peer-labelled**: every rule carries the label given in the directive -/
theorem C07_talk_common_peer_labelled (a : DbusArgs) :
    (∀ r ∈ talk a, labelOf r = a.label) ∧ (∀ r ∈ common a, labelOf r = a.label) := by
  constructor
  · intro r hr
    simp only [talk, List.mem_append, List.mem_map, List.mem_cons, List.not_mem_nil, or_false] at hr
    rcases hr with ⟨i, _, rfl⟩ | rfl | rfl | rfl | rfl <;> rfl
  · intro r hr
    simp only [common, List.mem_cons, List.not_mem_nil, or_false] at hr
    rcases hr with rfl | rfl | rfl <;> rfl

/-- **exec: one rule per executable**, whatever the sort comparator -/
theorem C07_exec_one_rule_per_executable (cmp : Rule → Rule → Int) (t : List Char) (paths : List (List Char)) :
    (execRules cmp t paths).Perm (paths.map (fun p => { kind := "file", flds := [.b false, .s p, .l [t], .s []] })) ∧
    (execRules cmp t paths).length = paths.length := by
  have h := sortBy_perm cmp (paths.map (fun p => ({ kind := "file", flds := [.b false, .s p, .l [t], .s []] } : Rule)))
  exact ⟨h, by rw [execRules, h.length_eq, List.length_map]⟩

/-- **stack keeps every other rule, in order**: the stacked lines are exactly the body lines that
are not the base include, not the entry point, not (unless `X`) an exec transition, not blank. -/
theorem C07_stack_lines (x : Bool) (body : List (List Char)) :
    List.Sublist (stackClean x body) body ∧ (∀ l ∈ body, (l ∈ stackClean x body ↔ dropLine x l = false)) := by
  constructor
  · exact List.filter_sublist
  · intro l hl
    simp [stackClean, hl]

/-- non-vacuity -/
example : stackClean false (["  include <abstractions/base>", "  @{exec_path} mr,", "  @{bin}/a rPx,", "  /etc/x r,", "",
    "  include if exists <local/p>"].map String.toList)
    = ["  /etc/x r,", "  include if exists <local/p>"].map String.toList := by decide +kernel

end C07
