/-!
# C08 — everything a built policy refers to exists in that same build

`Closed defs refs` is evaluated by the driver on the definitions and references scanned from
every real build of the tier.  The theorems state why the build steps that only rewrite rule
text cannot break closure, and what exactly can (removing a definition, adding a reference).
-/
namespace C08

def Closed (defs refs : List String) : Prop := ∀ r ∈ refs, r ∈ defs

instance (defs refs : List String) : Decidable (Closed defs refs) := by unfold Closed; infer_instance

/-- the dangling references (what the check reports) -/
def missing (defs refs : List String) : List String := refs.filter (fun r => !defs.contains r)

theorem C08_missing_iff (defs refs : List String) : missing defs refs = [] ↔ Closed defs refs := by
  unfold missing Closed
  rw [List.filter_eq_nil_iff]
  simp

/-- **Closure is monotone**: a step that keeps every definition and adds no reference preserves it
(builders rewrite modes and flags, `only`/`exclude` remove lines, `dbus` adds rules without named
targets). -/
theorem C08_closed_preserved {defs refs defs' refs' : List String} (h : Closed defs refs)
    (hd : ∀ d ∈ defs, d ∈ defs') (hr : ∀ r ∈ refs', r ∈ refs) : Closed defs' refs' :=
  fun r hr' => hd r (h r (hr r hr'))

/-- **What breaks it**: dropping the file that defines a target which a kept file still names
(an ignore list that differs per distribution) leaves exactly that name dangling. -/
theorem C08_ignore_can_break (defs refs : List String) (t : String) (h : Closed defs refs) (ht : t ∈ refs) :
    ¬ Closed (defs.filter (· != t)) refs := by
  intro hc
  have := hc t ht
  simp at this

/-- stacking a profile imports its references together with its rules: closure of the union -/
theorem C08_stack_union {defs refs₁ refs₂ : List String} (h₁ : Closed defs refs₁) (h₂ : Closed defs refs₂) :
    Closed defs (refs₁ ++ refs₂) := by
  intro r hr
  rcases List.mem_append.mp hr with h | h
  · exact h₁ r h
  · exact h₂ r h

example : Closed ["a", "a//b", "c"] ["a//b", "c"] := by decide
example : missing ["a"] ["a", "child-open-email"] = ["child-open-email"] := by decide

end C08
