import AaVerif.Aa.ParseFile
import AaVerif.Aa.ParseCap
import AaVerif.Aa.ParsePtrace
import AaVerif.Aa.ParseSignal
import AaVerif.Aa.ParseRlimit
import AaVerif.Aa.ParseChangeProfile
import AaVerif.Aa.ParseLink
import AaVerif.Generated.AaTables
/-!
# C09 — rule text round-trips through the printer and the parser

Model: `Aa.Render` (one function per template) and `Aa.Parse` (tokenizer, `parseRule`, comma
splitter, every `new<Kind>`), both run against the real code on every check.  The theorems
below are about the layers every rule kind goes through; the per-kind statements are given for
two kinds end to end, and the classes where the unchanged code does *not* round-trip are proved
as negative results on their witnesses (each is a known finding replayed on the real code).
-/
namespace C09
open Aa Aa.Parse

def T := Generated.aaTables

/-- **Tokens come back**: a line made of tokens that are atomic (brackets and quotes closed, no
blank outside them) and separated by single spaces is split into exactly those tokens. -/
theorem C09_tokenize_words (ts : List Text) (h : ∀ t ∈ ts, Atomic t) :
    tokenize false (joinPad ts []) = .ok ts := tokenize_joinPad ts [] h

/-- **Formatting is layout only** (token level): whatever runs of spaces the alignment puts
between the tokens, the tokenizer and `parseRule` read the same thing as from the unpadded line. -/
theorem C09_padding_is_layout (ts : List Text) (ns : List Nat) (h : ∀ t ∈ ts, Atomic t) :
    tokenize false (joinPad ts ns) = tokenize false (joinPad ts []) ∧
    ((∀ t ∈ ts, Plain t) → parseRule false (joinPad ts ns) = parseRule false (joinPad ts [])) := by
  refine ⟨by rw [tokenize_joinPad ts ns h, tokenize_joinPad ts [] h], fun hp => ?_⟩
  rw [parseRule_plain ts ns h hp, parseRule_plain ts [] h hp]

/-- the hypotheses are met by real tokens: a quoted path with a space, nested alternations, a
peer expression with a comma and a space inside parentheses -/
theorem C09_token_atomic_example :
    Atomic (S "\"@{HOME}/My Documents/a b.txt\"") ∧ Atomic (S "@{bin}/{a,b{c,d}}[0-9]*") ∧
    Atomic (S "peer=(label=gnome-shell, addr=none)") ∧ Plain (S "@{bin}/{a,b{c,d}}[0-9]*") ∧
    ¬ Atomic (S "a b") ∧ ¬ Atomic (S "a)") := by decide

/-- **A printed line comes back as its tokens**: for plain atomic tokens without brackets,
commas, `#` or newlines, printed with any padding and the final comma, the comma splitter and
`parseRule` return exactly one pre-parsed rule holding those tokens. -/
theorem C09_line_to_tokens (ts : List Text) (ns : List Nat) (hat : ∀ t ∈ ts, Atomic t)
    (hp : ∀ t ∈ ts, Plain t) (hs : (joinPad ts ns).all simpleC = true)
    (htrim : trimSet (S "\n ") (joinPad ts ns) = joinPad ts ns) :
    parseCommaRules false (joinPad ts ns ++ S ",\n") = .ok [ts.map KV.plain] := by
  rw [parseCommaRules_line _ hs, htrim, parseRule_plain ts ns hat hp]
  rfl

example : (joinPad [S "audit", S "capability", S "chown", S "kill"] [0, 3, 0]).all simpleC = true ∧
    trimSet (S "\n ") (joinPad [S "audit", S "capability", S "chown", S "kill"] [0, 3, 0])
      = joinPad [S "audit", S "capability", S "chown", S "kill"] [0, 3, 0] := by decide

/-- **File rules, every path** (symbolic, no enumeration).  For every qualifier, with or without
`owner`, EVERY path token that begins with `/` or `@` — variables, alternations `{a,b{c,d}}`, character
classes, globs, all allowed as long as brackets are balanced, commas sit inside brackets and there is
no blank, `=`, `(` or `#` — every mode token and every alignment padding: the comma splitter, the
tokenizer, `parseRule` and the constructors (`newRules`: qualifier loop, keyword dispatch, `newFile`)
turn the printed line back into one file rule with exactly that path, qualifier and owner flag, and
the access list `toAccess` builds from the mode. -/
theorem C09_file_all_paths (audit deny owner : Bool) (p m : Text) (ns : List Nat)
    (hp : PathHead p) (hpa : Atomic p) (hpp : Plain p) (hma : Atomic m) (hmp : Plain m)
    (hs : cscan 0 (joinPad (fileToks audit deny owner p m) ns) = some 0)
    (htrim : trimSet (S "\n ") (joinPad (fileToks audit deny owner p m) ns) = joinPad (fileToks audit deny owner p m) ns) :
    (parseCommaRules false (joinPad (fileToks audit deny owner p m) ns ++ S ",\n")).bind (newRules T) =
      (toAccessFile T m).bind (fun a => .ok [mkRule "file" (audit, if deny then S "deny" else []) {}
        [.b owner, .s p, .l a, .s []]]) := by
  have hat : ∀ t ∈ fileToks audit deny owner p m, Atomic t := by
    intro t ht
    cases audit <;> cases deny <;> cases owner <;> simp [fileToks] at ht
    all_goals (first
      | (rcases ht with rfl | rfl | rfl | rfl | rfl)
      | (rcases ht with rfl | rfl | rfl | rfl)
      | (rcases ht with rfl | rfl | rfl)
      | (rcases ht with rfl | rfl))
    all_goals (first | exact hpa | exact hma | decide)
  have hpl : ∀ t ∈ fileToks audit deny owner p m, Plain t := by
    intro t ht
    cases audit <;> cases deny <;> cases owner <;> simp [fileToks] at ht
    all_goals (first
      | (rcases ht with rfl | rfl | rfl | rfl | rfl)
      | (rcases ht with rfl | rfl | rfl | rfl)
      | (rcases ht with rfl | rfl | rfl)
      | (rcases ht with rfl | rfl))
    all_goals (first | exact hpp | exact hmp | decide)
  rw [parseCommaRules_line' _ hs, htrim, parseRule_plain _ ns hat hpl]
  simp only [Res.bind]
  exact newRules_file T audit deny owner p m hp

/-- a file rule without target and comment -/
def fileR (audit deny owner : Bool) (p : Text) (acc : List Text) : Rule :=
  { kind := "file", audit := audit, accessType := if deny then S "deny" else [], flds := [.b owner, .s p, .l acc, .s []] }

/-- the printer writes exactly those tokens, separated by single blanks, when no padding is set -/
theorem render_file_tokens (audit deny owner : Bool) (p : Text) (acc : List Text) :
    renderRule (fileR audit deny owner p acc) (padOf []) =
      joinPad (fileToks audit deny owner p acc.flatten) [] ++ S "," := by
  cases audit <;> cases deny <;> cases owner <;>
    simp [fileR, renderRule, renderQual, renderComment, padOf, fL, fS, fB, Rule.fld, Fld.list, Fld.str, Fld.bool, S, joinPad,
      fileToks, withS, spaces]

/-- **Round trip of a file rule, every path** (no target, no comment, no padding): printing the rule
and running the library's own parser on the line gives back one file rule with the same qualifier,
owner flag and path, and the access list `toAccess` reads from the printed permission string. -/
theorem C09_file_roundtrip (audit deny owner : Bool) (p : Text) (acc : List Text)
    (hp : PathHead p) (hpa : Atomic p) (hpp : Plain p) (hma : Atomic acc.flatten) (hmp : Plain acc.flatten)
    (hs : cscan 0 (joinPad (fileToks audit deny owner p acc.flatten) []) = some 0)
    (htrim : trimSet (S "\n ") (joinPad (fileToks audit deny owner p acc.flatten) []) = joinPad (fileToks audit deny owner p acc.flatten) []) :
    (parseCommaRules false (renderRule (fileR audit deny owner p acc) (padOf []) ++ S "\n")).bind (newRules T) =
      (toAccessFile T acc.flatten).bind (fun a => .ok [mkRule "file" (audit, if deny then S "deny" else []) {}
        [.b owner, .s p, .l a, .s []]]) := by
  rw [render_file_tokens, List.append_assoc]
  exact C09_file_all_paths audit deny owner p acc.flatten [] hp hpa hpp hma hmp hs htrim

/-- the hypotheses on a path with a variable, nested alternations, a class and a glob; aligned with paddings -/
example : PathHead (S "@{user_config_dirs}/app{,.d}/{a,b{c,d}}[0-9]*.conf") ∧
    Atomic (S "@{user_config_dirs}/app{,.d}/{a,b{c,d}}[0-9]*.conf") ∧ Plain (S "@{user_config_dirs}/app{,.d}/{a,b{c,d}}[0-9]*.conf") ∧
    cscan 0 (joinPad (fileToks true true true (S "@{user_config_dirs}/app{,.d}/{a,b{c,d}}[0-9]*.conf") (S "rwPx")) [0, 2, 0, 3]) = some 0 := by
  refine ⟨⟨'@', _, rfl, Or.inr rfl⟩, ?_, ?_, ?_⟩ <;> decide +kernel

/-! ## Capability and network rules, symbolically (any length, every table value) -/

/-- every capability name, network domain and socket type of the regenerated tables is a keyword-like
word (no blank, quote, bracket, `#`, `,`, `=`) -/
theorem tables_are_words :
    (∀ n ∈ reqValues T "capability" "name", CapW n) ∧ (∀ d ∈ reqValues T "network" "domains", CapW d) ∧
    (∀ t ∈ reqValues T "network" "type", CapW t) ∧ hasReq T "capability" "name" = true := by
  refine ⟨?_, ?_, ?_, ?_⟩ <;> decide +kernel

/-- **Capability rules of any length** (symbolic, no enumeration): for every qualifier and EVERY list of
capability names of the table — any length, any order, repetitions included — printing the rule and
running the library's own parser on the line (comma splitter, tokenizer, `parseRule`, qualifier loop,
keyword dispatch, `toValues` with its in-place deletion loop) gives back one capability rule with the same
qualifier and the same names in the canonical order of the table, duplicates removed. -/
theorem C09_capability_all_lists (audit deny : Bool) (names : List Text)
    (h : ∀ n ∈ names, n ∈ reqValues T "capability" "name") :
    (parseCommaRules false (renderRule (Ref.capRule audit deny names) (padOf []) ++ S "\n")).bind (newRules T) =
      .ok [mkRule "capability" (audit, if deny then S "deny" else []) {}
        [.l (mergeValues T "capability" "name" names [])]] :=
  parse_capability T audit deny names tables_are_words.2.2.2
    (fun n hn => ⟨tables_are_words.1 n (h n hn), by simpa using h n hn⟩)

example : (parseCommaRules false (renderRule (Ref.capRule true true [S "kill", S "chown", S "kill"]) (padOf []) ++ S "\n")).bind (newRules T)
    = .ok [mkRule "capability" (true, S "deny") {} [.l [S "chown", S "kill"]]] := by
  rw [C09_capability_all_lists true true _ (by decide +kernel)]
  decide +kernel

/-- **Network rules, the whole domain × type product** (symbolic): every qualifier, every domain and
every socket type of the tables; the rule comes back with exactly that domain and type -/
theorem C09_network_all (audit deny : Bool) (d t : Text)
    (hd : d ∈ reqValues T "network" "domains") (ht : t ∈ reqValues T "network" "type") :
    (parseCommaRules false (renderRule (Ref.netRule audit deny d t) (padOf []) ++ S "\n")).bind (newRules T) =
      .ok [mkRule "network" (audit, if deny then S "deny" else []) {} [.s [], .s [], .s [], .s d, .s t, .s []]] := by
  rw [parse_network T audit deny d t (tables_are_words.2.1 d hd) (tables_are_words.2.2.1 t ht)]
  simp [netSecond, ht]

/-- a second word that is neither a type nor a protocol of the tables is dropped by the parser without an
error (the rule read back is the bare domain rule): the table membership above is needed -/
theorem C09_network_unknown_type_dropped :
    (parseCommaRules false (renderRule (Ref.netRule false false (S "inet") (S "streem")) (padOf []) ++ S "\n")).bind (newRules T)
      = .ok [mkRule "network" (false, []) {} [.s [], .s [], .s [], .s (S "inet"), .s [], .s []]] := by decide +kernel

/-- every ptrace access of the regenerated table is a keyword-like word other than `peer` -/
theorem ptrace_table_words :
    (∀ a ∈ reqValues T "ptrace" "access", CapW a ∧ a ≠ S "peer") ∧ hasReq T "ptrace" "access" = true := by
  constructor <;> decide +kernel

/-- **Ptrace rules, every access list and every peer word** (symbolic).  A printed ptrace rule holds the three
token shapes `parseRule` tells apart — plain words, a parenthesised list `(a b)`, a condition `peer=word`.
For every qualifier, EVERY non-empty list of ptrace accesses of the table (any length, order, repetition;
printed bare when it has one element, in parentheses otherwise) and EVERY peer value of the class `PeerW` (one token
for the tokenizer and the comma splitter, no `=`, no `(`, not ending in a blank: `unconfined`, `foo//bar`, `/usr/bin/x`,
`@{p_systemd}`, `/usr/bin/{a,b}`), the library's parser gives back one ptrace rule with the same qualifier, the access
list in table order and exactly that peer. -/
theorem C09_ptrace_all (audit deny : Bool) (accs : List Text) (p : Text) (ha : accs ≠ [])
    (h : ∀ a ∈ accs, a ∈ reqValues T "ptrace" "access") (hp : PeerW p) :
    (parseCommaRules false (renderRule (ptraceRule audit deny accs p) (padOf []) ++ S "\n")).bind (newRules T) =
      .ok [mkRule "ptrace" (audit, if deny then S "deny" else []) {}
        [.l (mergeValues T "ptrace" "access" accs []), .s p]] :=
  parse_ptrace T audit deny accs p ha ptrace_table_words.2
    (fun a hm => ⟨(ptrace_table_words.1 a (h a hm)).1, by simpa using h a hm⟩)
    (fun a hm => (ptrace_table_words.1 a (h a hm)).2) hp

example : (parseCommaRules false (renderRule (ptraceRule true false [S "trace", S "read", S "trace"] (S "foo//bar")) (padOf []) ++ S "\n")).bind (newRules T)
    = .ok [mkRule "ptrace" (true, []) {} [.l [S "read", S "trace"], .s (S "foo//bar")]] := by
  rw [C09_ptrace_all true false _ _ (by simp) (by decide +kernel) (by decide +kernel)]
  decide +kernel

/-- the peers shipped profiles use are in the class: a variable, an alternation, a plain label -/
example : PeerW (S "@{p_systemd}") ∧ PeerW (S "/usr/bin/{a,b}") ∧ PeerW (S "unconfined") ∧ ¬ PeerW (S "a b") ∧ ¬ PeerW (S "x=y") := by
  refine ⟨?_, ?_, ?_, ?_, ?_⟩ <;> decide +kernel

/-- every signal access and every signal of the regenerated tables is a keyword-like word; no access is called
`peer` or `set` -/
theorem signal_table_words :
    (∀ a ∈ reqValues T "signal" "access", CapW a ∧ a ≠ S "peer" ∧ a ≠ S "set") ∧
    (∀ s ∈ reqValues T "signal" "set", CapW s) ∧
    hasReq T "signal" "access" = true ∧ hasReq T "signal" "set" = true := by
  refine ⟨?_, ?_, ?_, ?_⟩ <;> decide +kernel

/-- **Signal rules, the whole access-list × signal-list product with every peer word** (symbolic).  The value of
`set=` is itself a list, pre-parsed by the recursive call of `parseRule`.  For every qualifier, EVERY non-empty
list of signal accesses and EVERY non-empty list of signals of the tables (any length, order, repetition) and
EVERY peer value of the class `PeerW` (`@{p_systemd}`, `unconfined`, …), the library's parser gives back one signal
rule with the same qualifier, both lists in table order and exactly that peer. -/
theorem C09_signal_all (audit deny : Bool) (accs set : List Text) (p : Text) (ha : accs ≠ []) (hs : set ≠ [])
    (h : ∀ a ∈ accs, a ∈ reqValues T "signal" "access") (h' : ∀ s ∈ set, s ∈ reqValues T "signal" "set") (hp : PeerW p) :
    (parseCommaRules false (renderRule (signalRule audit deny accs set p) (padOf []) ++ S "\n")).bind (newRules T) =
      .ok [mkRule "signal" (audit, if deny then S "deny" else []) {}
        [.l (mergeValues T "signal" "access" accs []), .l (mergeValues T "signal" "set" set []), .s p]] :=
  parse_signal T audit deny accs set p ha hs signal_table_words.2.2.1 signal_table_words.2.2.2
    (fun a hm => ⟨(signal_table_words.1 a (h a hm)).1, by simpa using h a hm⟩)
    (fun a hm => ⟨signal_table_words.2.1 a (h' a hm), by simpa using h' a hm⟩)
    (fun a hm => (signal_table_words.1 a (h a hm)).2.1) (fun a hm => (signal_table_words.1 a (h a hm)).2.2) hp

example : (parseCommaRules false (renderRule (signalRule false true [S "send", S "receive"] [S "term", S "hup", S "term"] (S "@{p_systemd}")) (padOf []) ++ S "\n")).bind (newRules T)
    = .ok [mkRule "signal" (false, S "deny") {} [.l (mergeValues T "signal" "access" [S "send", S "receive"] []),
        .l (mergeValues T "signal" "set" [S "term", S "hup", S "term"] []), .s (S "@{p_systemd}")]] :=
  C09_signal_all false true _ _ _ (by simp) (by simp) (by decide +kernel) (by decide +kernel) (by decide +kernel)

/-- **`set rlimit KEY <= VALUE,` through the library's own parser, for every keyword-like key and value**: the
operator token `<=` is kept as a plain entry although it holds `=`, and the rule read back is the one printed -/
theorem C09_rlimit_all (k v : Text) (hk : CapW k) (hv : CapW v) :
    (parseCommaRules false (renderRule (rlimitRule k v) (padOf []) ++ S "\n")).bind (newRules T) =
      .ok [mkRule "rlimit" noQ {} [.s k, .s (S "<="), .s v]] :=
  parse_rlimit T k v hk hv

example : (parseCommaRules false (renderRule (rlimitRule (S "nofile") (S "65536")) (padOf []) ++ S "\n")).bind (newRules T)
    = .ok [mkRule "rlimit" noQ {} [.s (S "nofile"), .s (S "<="), .s (S "65536")]] :=
  C09_rlimit_all _ _ (by decide +kernel) (by decide +kernel)

/-- the rule read back is the rule printed -/
example : mkRule "rlimit" noQ {} [.s (S "nofile"), .s (S "<="), .s (S "65536")] = rlimitRule (S "nofile") (S "65536") := by
  decide +kernel

theorem cp_mode_words : ∀ m ∈ reqValues T "change_profile" "mode", CapW m := by decide +kernel

/-- **`change_profile [mode] EXEC -> TARGET,` through the library's own parser**: every qualifier, no mode or any mode of
the table, every keyword-like exec and target word.  The exec word must not be a mode keyword or the arrow: the printed
text `change_profile safe -> t,` cannot say whether `safe` is the mode or the exec (an exec is a path in every rule the
generators and the shipped profiles hold, so this excludes no valid rule). -/
theorem C09_change_profile_all (audit deny : Bool) (m e t : Text)
    (hm : m = [] ∨ m ∈ reqValues T "change_profile" "mode") (he : CapW e)
    (hne : e ∉ reqValues T "change_profile" "mode") (harrow : e ≠ S "->") (ht : CapW t) :
    (parseCommaRules false (renderRule (cpRule audit deny m e t) (padOf []) ++ S "\n")).bind (newRules T) =
      .ok [mkRule "change_profile" (audit, if deny then S "deny" else []) {} [.s m, .s e, .s t]] :=
  parse_cp T audit deny m e t
    (hm.elim Or.inl (fun h => Or.inr ⟨cp_mode_words m h, by simpa using h⟩)) he (by simpa using hne) harrow ht

example : (parseCommaRules false (renderRule (cpRule true false (S "unsafe") (S "/usr/bin/foo") (S "foo//bar")) (padOf []) ++ S "\n")).bind (newRules T)
    = .ok [mkRule "change_profile" (true, []) {} [.s (S "unsafe"), .s (S "/usr/bin/foo"), .s (S "foo//bar")]] :=
  C09_change_profile_all true false _ _ _ (Or.inr (by decide +kernel)) (by decide +kernel) (by decide +kernel) (by decide) (by decide +kernel)

/-- the excluded point: an exec word that is a mode keyword is read as the mode -/
example : (parseCommaRules false (renderRule (cpRule false false [] (S "safe") (S "t")) (padOf []) ++ S "\n")).bind (newRules T)
    = .ok [mkRule "change_profile" noQ {} [.s (S "safe"), .s [], .s (S "t")]] := by decide +kernel

/-- **`[owner] link [subset] PATH -> TARGET,` through the library's own parser**: every qualifier, owner and subset flag,
every keyword-like path word that starts with `/` or `@` and every keyword-like target word; the owner flag is read by
`newRule1` and written into the finished rule -/
theorem C09_link_all (audit deny owner subset : Bool) (a b : Text) (ha : CapW a) (hp : PathHead a) (hb : CapW b) :
    (parseCommaRules false (renderRule (linkRule audit deny owner subset a b) (padOf []) ++ S "\n")).bind (newRules T) =
      .ok [mkRule "link" (audit, if deny then S "deny" else []) {} [.b owner, .b subset, .s a, .s b]] :=
  parse_link T audit deny owner subset a b ha hp hb

example : (parseCommaRules false (renderRule (linkRule true true true true (S "/etc/a*") (S "@{HOME}/b")) (padOf []) ++ S "\n")).bind (newRules T)
    = .ok [mkRule "link" (true, S "deny") {} [.b true, .b true, .s (S "/etc/a*"), .s (S "@{HOME}/b")]] := by decide +kernel

example : CapW (S "/etc/a*") ∧ PathHead (S "/etc/a*") ∧ CapW (S "/var/lib/b") :=
  ⟨by decide +kernel, ⟨'/', S "etc/a*", rfl, Or.inl rfl⟩, by decide +kernel⟩

/-! ## Whole-text round trips over the complete value tables

`roundtrip r` says: printing `r` (no padding) and parsing the paragraph gives exactly `[r]`.
The quantifiers below range over the *whole* regenerated requirement tables, so each statement is
decided by kernel evaluation for every table value (string-valued fields are covered by the
token-level theorems above and by the run against the real code). -/

def roundtrip (r : Rule) : Bool := parseRules T (renderRule r (padOf []) ++ S "\n\n") == .ok [[r]]

def quals : List (Bool × Text) := [(false, []), (true, []), (false, S "deny"), (true, S "deny")]

def mk (kind : String) (q : Bool × Text) (comment : Text) (flds : List Fld) : Rule :=
  { kind := kind, audit := q.1, accessType := q.2, comment := comment, flds := flds }

/-- every capability name with a trailing comment, and every printed qualifier with and without one;
the full product is `C09Full.C09_capability_roundtrip_full` (thorough tier) -/
theorem C09_capability_roundtrip :
    (∀ n ∈ reqValues T "capability" "name", roundtrip (mk "capability" (true, S "deny") (S " see #12, (x)") [.l [n]]) = true) ∧
    (∀ q ∈ quals, ∀ c ∈ [[], S " see #12, (x)"], roundtrip (mk "capability" q c [.l [S "chown"]]) = true) := by
  constructor <;> decide +kernel

/-- every network domain (with one socket type) and every socket type (with one domain); the full
product is `C09Full.C09_network_roundtrip_full` (thorough tier) -/
theorem C09_network_roundtrip :
    (∀ d ∈ reqValues T "network" "domains",
      roundtrip (mk "network" (false, []) [] [.s [], .s [], .s [], .s d, .s (S "stream"), .s []]) = true) ∧
    (∀ t ∈ reqValues T "network" "type",
      roundtrip (mk "network" (false, []) [] [.s [], .s [], .s [], .s (S "inet"), .s t, .s []]) = true) := by
  constructor <;> decide +kernel

/-- every ptrace access with a peer, every signal access with every signal -/
theorem C09_ptrace_roundtrip :
    ∀ a ∈ reqValues T "ptrace" "access", ∀ q ∈ quals,
      roundtrip (mk "ptrace" q (S " c") [.l [a], .s (S "\"@{p_systemd}\"")]) = true := by decide +kernel

/-- every signal access (with one signal) and every signal (with one access); the full product is
`C09Full.C09_signal_roundtrip_full` (thorough tier) -/
theorem C09_signal_roundtrip :
    (∀ a ∈ reqValues T "signal" "access",
      roundtrip (mk "signal" (false, []) [] [.l [a], .l [S "term"], .s (S "foo//bar")]) = true) ∧
    (∀ s ∈ reqValues T "signal" "set",
      roundtrip (mk "signal" (false, []) [] [.l [S "send"], .l [s], .s (S "foo//bar")]) = true) := by
  constructor <;> decide +kernel

/-- every exec transition after a read access, on a quoted path with a space and on a path with
nested alternations, with owner and target -/
theorem C09_file_transition_roundtrip :
    ∀ t ∈ reqValues T "file" "transition", ∀ p ∈ [S "\"@{HOME}/a b\"", S "@{bin}/{a,b{c,d}}[0-9]*"],
      roundtrip (mk "file" (false, S "deny") (S " c") [.b true, .s p, .l [S "r", t], .s (S "tgt")]) = true := by
  decide +kernel

/-! ## Where the unchanged code does not round-trip (known findings, proved on their witnesses) -/

/-- a trailing comment on a rule that has no token after its keyword is dropped -/
theorem C09_comment_bare_keyword_dropped :
    parseRules T (S "capability, # c\n\n") = .ok [[mk "capability" (false, []) [] [.l []]]] ∧
    renderRule (mk "capability" (false, []) (S " c") [.l []]) (padOf []) = S "capability, # c" := by decide +kernel

/-- the `no new privs` marker is printed after a space and looked for at the very start -/
theorem C09_no_new_privs_lost :
    let r : Rule := { mk "ptrace" (false, []) (S " c") [.l [S "read"], .s (S "foo")] with noNewPrivs := true }
    renderRule r (padOf []) = S "ptrace read peer=foo, # no new privs c" ∧
    parseRules T (renderRule r (padOf []) ++ S "\n\n")
      = .ok [[mk "ptrace" (false, []) (S " no new privs c") [.l [S "read"], .s (S "foo")]]] := by decide +kernel

/-- the `allow` qualifier is read but never printed -/
theorem C09_allow_not_printed :
    renderRule (mk "ptrace" (false, S "allow") [] [.l [S "read"], .s (S "foo")]) (padOf [])
      = renderRule (mk "ptrace" (false, []) [] [.l [S "read"], .s (S "foo")]) (padOf []) := by decide +kernel

/-- an mqueue rule without a queue name: the last access word is read as the name -/
theorem C09_mqueue_without_name :
    parseRules T (renderRule (mk "mqueue" (false, []) [] [.l [S "create", S "delete"], .s [], .s (S "x"), .s []]) (padOf []) ++ S "\n\n")
      = .ok [[mk "mqueue" (false, []) [] [.l [S "create", S "delete"], .s [], .s (S "x"), .s (S "delete")]]] := by decide +kernel

/-- a marker with an empty comment comes back as a marker *and* a comment -/
theorem C09_marker_empty_comment :
    let r : Rule := { mk "ptrace" (false, []) [] [.l [S "read"], .s (S "foo")] with fileInherit := true }
    parseRules T (renderRule r (padOf []) ++ S "\n\n") = .ok [[{ r with comment := S " file_inherit" }]] := by decide +kernel

/-- a paragraph whose last line ends in `}` loses that brace (it is taken for the end of a block) -/
theorem C09_paragraph_ends_brace :
    parseRules T (S "ptrace read peer=foo, # see {x}\n\n")
      = .ok [[mk "ptrace" (false, []) (S " see {x") [.l [S "read"], .s (S "foo")]]] := by decide +kernel

/-- **Paragraphs**: the text is cut after every blank line; what follows the last blank line is
not parsed at all (so a printed block must be followed by an empty line, as the formatter does). -/
theorem C09_paragraphs_split :
    paragraphs (S "a,\nb,\n\nc,\n\nd,\n") = [S "a,\nb,\n\n", S "c,\n\n"] := by decide +kernel

end C09
