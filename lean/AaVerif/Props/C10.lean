import AaVerif.Aa.Idem
import AaVerif.Generated.AaTables
/-!
# C10 — merging rules never changes what the rules grant or deny

`Aa.mergeRules` is the model of `Rules.Merge` (nested loop with in-place deletion and mutation
of `r[i]`), `Aa.mergeRule` of every `Rule.Merge`, `Aa.mergeValues` of `merge` in util.go; all
three are run against the real code on generated near-duplicate lists on every check.
-/
namespace C10
open Aa

abbrev T := Generated.aaTables

/-- **Meaning preservation (list level), for any notion of meaning.**  If, on a domain `D` of
rules, merging two rules yields a rule that means their union (`MergeContract`) and a rule that
compares equal to an earlier one adds no meaning (`DupContract`), then `Rules.Merge` preserves
the meaning of every list over `D` — of any length, in any order, `nil` entries included.
The two contracts are discharged below for the concrete meaning `Aa.den` (facts = kind,
qualifier, subject, permission) on the domain `Aa.Dom10`. -/
theorem C10_merge_preserves_meaning {Fact : Type} (den : Rule → Fact → Prop) (D : Rule → Prop)
    (hm : MergeContract T den D) (hd : DupContract T den D)
    (l : List (Option Rule)) (hdom : ∀ o ∈ l, DomO D o) (f : Fact) :
    Den den (mergeRules T l) f ↔ Den den l f :=
  mergeRules_den T den D hm hd l hdom f

theorem alphabet_lower : ∀ c ∈ T.stringAlphabet, lowerC c = c := by decide +kernel

/-- **C10, meaning preservation** (partial: on `Dom10`, i.e. outside the known classes). For every
list — any length, any order, `nil` entries included — of rules of the 19 meaningful kinds whose
strings are over the sort alphabet and whose permission lists are not empty, the set of
(kind, qualifier, subject, permission) facts of `Rules.Merge`'s result equals that of the input:
no access dropped, none widened, none moved between allow, deny and audit.
Not covered (each with a proved witness below, replayed on the real code): upper-case letters and
bytes outside the alphabet (`K_case`), empty permission lists (`K_emptyAccess`), the mount kinds
(`K_mountOptions`). -/
theorem C10_den_preserved_partial (l : List (Option Rule))
    (hdom : ∀ o ∈ l, DomO (Dom10 T.stringAlphabet) o) (f : Fact) :
    Den den (mergeRules T l) f ↔ Den den l f :=
  mergeRules_meaning T alphabet_lower l hdom f

/-- **Duplicates only when identical** (partial: on `Dom10`): a rule dropped by the duplicate test
has the same kind, qualifier and fields as the rule it was compared with. -/
theorem C10_dup_only_identical_partial {r o : Rule} (hr : Dom10 T.stringAlphabet r)
    (ho : Dom10 T.stringAlphabet o) (hk : r.kind = o.kind) (hc : compareRule T r o = 0) :
    r.audit = o.audit ∧ r.accessType = o.accessType ∧ r.flds = o.flds :=
  compare_zero_identical T alphabet_lower hr ho hk hc

/-- **Merging an already merged list changes nothing** (partial: lists over `Dom10` without signal
rules). Any length, any order, `nil` entries included. Signal rules are outside for a reason: their
merge has two keys, and the witness `C10_signal_not_idempotent` below shows a list that needs two
passes (`K_signalIdempotence`). -/
theorem C10_idempotent_partial (l : List (Option Rule))
    (hdom : ∀ o ∈ l, DomO (DomI T.stringAlphabet) o) :
    mergeRules T (mergeRules T l) = mergeRules T l :=
  mergeRules_idempotent T alphabet_lower l hdom

/-- what the proof rests on: after a merge, no two entries have the same kind, qualifier and subject -/
theorem C10_merged_keys_distinct (l : List (Option Rule))
    (hdom : ∀ o ∈ l, DomO (DomI T.stringAlphabet) o) : ((mergeRules T l).map kO).Nodup :=
  (mergeAux_nodup T alphabet_lower l.length l (Nat.le_refl _) hdom).1

/-- the per-rule contracts themselves, for reference -/
theorem C10_merge_contract : MergeContract T den (Dom10 T.stringAlphabet) := mergeContract T alphabet_lower
theorem C10_dup_contract : DupContract T den (Dom10 T.stringAlphabet) := dupContract T alphabet_lower

/-- **Permission lists are united**: `merge(kind, key, a, b)` holds exactly the values of `a`
and of `b`, for every kind and every weight table (so a changed table cannot lose a value). -/
theorem C10_merge_values_union (kind key : String) (a b : List (List Char)) (y : List Char) :
    y ∈ mergeValues T kind key a b ↔ (y ∈ a ∨ y ∈ b) :=
  mem_mergeValues T kind key a b y

/-- the inner loop never lengthens the list (termination of `Rules.Merge`) -/
theorem C10_absorb_shrinks (r : Option Rule) (os : List (Option Rule)) :
    (absorb T r os).2.length ≤ os.length := absorb_length T r os

/-! ### Known classes: proved witnesses on the model (each is replayed on the real code) -/

def file (p : String) (acc : List String) : Rule :=
  { kind := "file", flds := [.b false, .s p.toList, .l (acc.map String.toList), .s []] }
def signal (acc set : List String) (peer : String) : Rule :=
  { kind := "signal", flds := [.l (acc.map String.toList), .l (set.map String.toList), .s peer.toList] }
def mount (opts : List String) (src mp : String) : Rule :=
  { kind := "mount", flds := [.s [], .l (opts.map String.toList), .s src.toList, .s mp.toList] }

/-- `/Foo r,` and `/foo r,` are "identical" for `Compare`: one of them is dropped -/
theorem C10_case_drop :
    mergeRules T [some (file "/Foo" ["r"]), some (file "/foo" ["r"])] = [some (file "/Foo" ["r"])] := by
  decide +kernel

/-- an empty access list means *all* accesses; uniting it with `send` narrows the rule -/
theorem C10_empty_access_narrowed :
    mergeRules T [some (signal [] [] "foo"), some (signal ["send"] [] "foo")]
      = [some (signal ["send"] [] "foo")] := by
  decide +kernel

/-- mount options are one conjunctive set; merging unites the options of two rules -/
theorem C10_mount_options_fused :
    mergeRules T [some (mount ["ro"] "/a" "/b"), some (mount ["bind"] "/a" "/b")]
      = [some (mount ["ro", "bind"] "/a" "/b")] := by
  decide +kernel

/-- two exec modes are fused into one access list (`rixPx` after rendering) -/
theorem C10_exec_modes_fused :
    mergeRules T [some (file "/a" ["r"]), some (file "/a" ["r", "Px"]), some (file "/a" ["ix"])]
      = [some (file "/a" ["r", "ix", "Px"])] := by
  decide +kernel

/-- merging is not idempotent on signal rules: a second pass merges further -/
theorem C10_signal_not_idempotent :
    let l := [some (signal ["send"] ["term"] ""), some (signal ["send", "receive"] ["kill", "term"] ""),
              some (signal ["receive"] ["term"] "")]
    mergeRules T (mergeRules T l) ≠ mergeRules T l := by
  decide +kernel

/-- the domain of `C10_den_preserved_partial` is inhabited by ordinary rules, and the theorem says
something about them: the merged list of `/a r,` `/a w,` means both accesses -/
example : Dom10 T.stringAlphabet (file "/a" ["r"]) ∧ Dom10 T.stringAlphabet (signal ["send"] ["term"] "foo") := by
  refine ⟨⟨?_, ?_, ?_, ?_, ?_⟩, ⟨?_, ?_, ?_, ?_, ?_⟩⟩ <;> decide +kernel

example : mergeRules T [some (file "/a" ["r"]), some (file "/a" ["w"])] = [some (file "/a" ["r", "w"])] := by
  decide +kernel

end C10
