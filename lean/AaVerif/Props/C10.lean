import AaVerif.Aa.Wire
import AaVerif.Generated.AaTables
/-!
# C10 — merging rules never changes what the rules grant or deny

`Aa.mergeRules` is the model of `Rules.Merge` (nested loop with in-place deletion and mutation
of `r[i]`), `Aa.mergeRule` of every `Rule.Merge`, `Aa.mergeValues` of `merge` in util.go; all
three are run against the real code on generated near-duplicate lists on every check.
-/
namespace C10
open Aa

abbrev T := Generated.aaTables

/-- **Meaning preservation (list level), for any notion of meaning.**  If, on a domain `D` of
rules, merging two rules yields a rule that means their union (`MergeContract`) and a rule that
compares equal to an earlier one adds no meaning (`DupContract`), then `Rules.Merge` preserves
the meaning of every list over `D` — of any length, in any order, `nil` entries included.
The per-kind contracts are validated on the real code by the search (meaning computed on the
real output) and hold outside the known classes below; discharging them in Lean kind by kind
is listed as open work in DESIGN.md. -/
theorem C10_merge_preserves_meaning {Fact : Type} (den : Rule → Fact → Prop) (D : Rule → Prop)
    (hm : MergeContract T den D) (hd : DupContract T den D)
    (l : List (Option Rule)) (hdom : ∀ o ∈ l, DomO D o) (f : Fact) :
    Den den (mergeRules T l) f ↔ Den den l f :=
  mergeRules_den T den D hm hd l hdom f

/-- **Permission lists are united**: `merge(kind, key, a, b)` holds exactly the values of `a`
and of `b`, for every kind and every weight table (so a changed table cannot lose a value). -/
theorem C10_merge_values_union (kind key : String) (a b : List (List Char)) (y : List Char) :
    y ∈ mergeValues T kind key a b ↔ (y ∈ a ∨ y ∈ b) :=
  mem_mergeValues T kind key a b y

/-- the inner loop never lengthens the list (termination of `Rules.Merge`) -/
theorem C10_absorb_shrinks (r : Option Rule) (os : List (Option Rule)) :
    (absorb T r os).2.length ≤ os.length := absorb_length T r os

/-! ### Known classes: proved witnesses on the model (each is replayed on the real code) -/

def file (p : String) (acc : List String) : Rule :=
  { kind := "file", flds := [.b false, .s p.toList, .l (acc.map String.toList), .s []] }
def signal (acc set : List String) (peer : String) : Rule :=
  { kind := "signal", flds := [.l (acc.map String.toList), .l (set.map String.toList), .s peer.toList] }
def mount (opts : List String) (src mp : String) : Rule :=
  { kind := "mount", flds := [.s [], .l (opts.map String.toList), .s src.toList, .s mp.toList] }

/-- `/Foo r,` and `/foo r,` are "identical" for `Compare`: one of them is dropped -/
theorem C10_case_drop :
    mergeRules T [some (file "/Foo" ["r"]), some (file "/foo" ["r"])] = [some (file "/Foo" ["r"])] := by
  decide +kernel

/-- an empty access list means *all* accesses; uniting it with `send` narrows the rule -/
theorem C10_empty_access_narrowed :
    mergeRules T [some (signal [] [] "foo"), some (signal ["send"] [] "foo")]
      = [some (signal ["send"] [] "foo")] := by
  decide +kernel

/-- mount options are one conjunctive set; merging unites the options of two rules -/
theorem C10_mount_options_fused :
    mergeRules T [some (mount ["ro"] "/a" "/b"), some (mount ["bind"] "/a" "/b")]
      = [some (mount ["ro", "bind"] "/a" "/b")] := by
  decide +kernel

/-- two exec modes are fused into one access list (`rixPx` after rendering) -/
theorem C10_exec_modes_fused :
    mergeRules T [some (file "/a" ["r"]), some (file "/a" ["r", "Px"]), some (file "/a" ["ix"])]
      = [some (file "/a" ["r", "ix", "Px"])] := by
  decide +kernel

/-- merging is not idempotent on signal rules: a second pass merges further -/
theorem C10_signal_not_idempotent :
    let l := [some (signal ["send"] ["term"] ""), some (signal ["send", "receive"] ["kill", "term"] ""),
              some (signal ["receive"] ["term"] "")]
    mergeRules T (mergeRules T l) ≠ mergeRules T l := by
  decide +kernel

end C10
