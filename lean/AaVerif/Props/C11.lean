import AaVerif.Aa.Order
import AaVerif.Generated.AaTables
/-!
# C11 — rule ordering is a consistent total preorder, so sorting is canonical

`Generated.aaTables` is regenerated from the running Go code on every check
(`stringAlphabet`, `fileAlphabet`, `ruleAlphabet`, requirement tables).
The model `Aa.compareRule` / `Aa.sortCmp` is run against every `Rule.Compare` and against
`Rules.Sort` on generated pairs and lists.
-/
namespace C11
open Aa

abbrev al := Generated.stringAlphabet
abbrev T := Generated.aaTables

/-- instance obligations on the regenerated tables -/
theorem C11_alphabet_nodup :
    Generated.stringAlphabet.Nodup ∧ Generated.fileAlphabet.Nodup ∧ Generated.ruleAlphabet.Nodup := by
  refine ⟨?_, ?_, ?_⟩ <;> decide +kernel

theorem C11_alphabet_lower : ∀ c ∈ Generated.stringAlphabet, lowerC c = c := by decide +kernel

/-- **String order.** On strings over the sort alphabet, `compare` is antisymmetric, transitive,
and only identical strings compare equal. -/
theorem C11_string_order : IsOrd (Canon al) (cmpStr al) := cmpStr_isOrd C11_alphabet_lower

/-- **Key lists.** The lexicographic comparison of the fields `Compare` reads is a total
preorder with identity on canonical key lists of one shape. -/
theorem C11_keys_order (sh : List Nat) : IsOrd (CanonKeys al sh) (cmpFlds al) :=
  cmpFlds_isOrd C11_alphabet_lower sh

theorem compareRule_plain {k : String} (hf : k ≠ "file") (hi : k ≠ "include") {r o : Rule} (hr : r.kind = k) :
    compareRule T r o = cmpFlds al (keyList r) (keyList o) := by
  unfold compareRule
  have h1 : (r.kind == "file") = false := by rw [hr]; simpa using hf
  have h2 : (r.kind == "include") = false := by rw [hr]; simpa using hi
  simp [h1, h2]
  rfl

/-- the domain of the per-kind theorems: rules of kind `k` whose key list is canonical, of shape `sh` -/
def Dom (k : String) (sh : List Nat) (r : Rule) : Prop := r.kind = k ∧ CanonKeys al sh (keyList r)

/-- **Per-kind order** (every kind except `file` and `include`, which have a special case):
antisymmetric and transitive. -/
theorem C11_compare_order (k : String) (hf : k ≠ "file") (hi : k ≠ "include") (sh : List Nat) :
    (∀ r o, r.kind = k → o.kind = k → compareRule T r o = - compareRule T o r) ∧
    (∀ a b c, Dom k sh a → Dom k sh b → Dom k sh c →
      compareRule T a b ≤ 0 → compareRule T b c ≤ 0 → compareRule T a c ≤ 0) := by
  have O := C11_keys_order sh
  constructor
  · intro r o hr ho
    rw [compareRule_plain hf hi hr, compareRule_plain hf hi ho]
    exact O.antisymm _ _
  · intro a b c ha hb hc
    rw [compareRule_plain hf hi ha.1, compareRule_plain hf hi hb.1, compareRule_plain hf hi ha.1]
    exact O.trans _ _ _ ha.2 hb.2 hc.2

/-- **Identity.** Two rules of such a kind compare equal only if every field `Compare` reads,
and the qualifier, are identical. -/
theorem C11_compare_identity (k : String) (hf : k ≠ "file") (hi : k ≠ "include") (sh : List Nat)
    (r o : Rule) (hr : Dom k sh r) (ho : Dom k sh o) (h : compareRule T r o = 0) : keyList r = keyList o := by
  rw [compareRule_plain hf hi hr.1] at h
  exact (C11_keys_order sh).eq_of_zero _ _ hr.2 ho.2 h

/-- which kinds' `Compare` reads every field of the rule (so "identical keys" is "identical
rule up to the comment"): instance over the schema table -/
def readsAll (k : String) : Bool :=
  let o := (cmpSchema k).order
  o.length == (fldTypes k).length && (List.range (fldTypes k).length).all (fun i => o.contains i)

theorem C11_compare_reads_all_fields :
    ∀ k ∈ ["capability", "network", "mount", "umount", "remount", "pivot_root", "change_profile", "mqueue",
      "io_uring", "signal", "ptrace", "unix", "dbus", "rlimit", "userns", "file", "link", "abi", "alias",
      "include", "variable"], readsAll k = true := by decide

/-- **Sorting is canonical.** For a comparator that is a total preorder with identity on `D`,
two sorted lists with the same elements are equal: whatever `slices.SortFunc` does internally,
its result on such a list is determined by the multiset of rules (idempotent, input-order
independent). -/
theorem C11_sorted_perm_unique {α : Type} {D : α → Prop} {c : α → α → Int} (h : IsOrd D c)
    {l₁ l₂ : List α} (hD : ∀ a ∈ l₁, D a) (hp : l₁.Perm l₂)
    (h₁ : l₁.Pairwise (fun a b => c a b ≤ 0)) (h₂ : l₂.Pairwise (fun a b => c a b ≤ 0)) : l₁ = l₂ := by
  apply hp.eq_of_pairwise _ h₁ h₂
  intro a b ha hb hab hba
  have hb' : b ∈ l₁ := hp.symm.subset hb
  have : c a b = 0 := by have := h.antisymm a b; omega
  exact h.eq_of_zero a b (hD a ha) (hD b hb') this

/-! ### The comparator of `Rules.Sort` on its consistent domain -/

/-- **C11 for `Rules.Sort`'s comparator** (partial: on `DomS T b`). Kind weight first, then the kind's
`Compare` — with the prefix rule of `file` and the `abstractions/base` rule of `include` — is
antisymmetric, transitive, and zero only on identical rules, for rules of the 16 weighted kinds over
the sort alphabet, without comment, not `include if exists`, file paths all with (`b = true`) or all
without (`b = false`) a known prefix. Each excluded class is a known finding with a proved witness. -/
theorem C11_sort_order_partial (b : Bool) : IsOrd (DomS T b) (sortCmp T) :=
  sortCmp_isOrd T C11_alphabet_lower b

/-- **Sorting is idempotent and input-order independent** (partial, same domain), for *any* sort
algorithm that returns a sorted permutation of its input (the contract of `slices.SortFunc`): two such
results for two arrangements of the same rules are the same list. -/
theorem C11_sort_canonical_partial (b : Bool) (srt : List Rule → List Rule)
    (hsrt : ∀ l, (srt l).Perm l ∧ (srt l).Pairwise (fun x y => sortCmp T x y ≤ 0))
    {l₁ l₂ : List Rule} (hp : l₁.Perm l₂) (hD : ∀ r ∈ l₁, DomS T b r) :
    srt l₁ = srt l₂ ∧ srt (srt l₁) = srt l₁ := by
  have O := C11_sort_order_partial b
  have D1 : ∀ r ∈ srt l₁, DomS T b r := fun r hr => hD r ((hsrt l₁).1.subset hr)
  constructor
  · exact C11_sorted_perm_unique O D1 ((hsrt l₁).1.trans (hp.trans (hsrt l₂).1.symm)) (hsrt l₁).2 (hsrt l₂).2
  · have D2 : ∀ r ∈ srt (srt l₁), DomS T b r := fun r hr => D1 r ((hsrt (srt l₁)).1.subset hr)
    exact C11_sorted_perm_unique O D2 (hsrt (srt l₁)).1 (hsrt (srt l₁)).2 (hsrt l₁).2

/-- the reference sort meets that contract on the domain, so the statement is not vacuous -/
theorem C11_reference_sort (b : Bool) {l₁ l₂ : List Rule} (hp : l₁.Perm l₂) (hD : ∀ r ∈ l₁, DomS T b r) :
    sortBy (sortCmp T) l₁ = sortBy (sortCmp T) l₂ ∧
    sortBy (sortCmp T) (sortBy (sortCmp T) l₁) = sortBy (sortCmp T) l₁ :=
  ⟨sort_canonical T C11_alphabet_lower b hp hD, sort_idempotent T C11_alphabet_lower b l₁ hD⟩

/-! ### Where the property fails on the unchanged code (proved witnesses, replayed on the real code) -/

/-- letter case is ignored: two different paths compare equal -/
theorem C11_case_counterexample :
    cmpStr al "/Foo".toList "/foo".toList = 0 ∧ "/Foo".toList ≠ "/foo".toList := by
  constructor <;> decide +kernel

/-- bytes outside the alphabet all weigh 0 -/
theorem C11_zero_weight_counterexample :
    cmpStr al "/a b".toList "/a\tb".toList = 0 ∧ "/a b".toList ≠ "/a\tb".toList := by
  constructor <;> decide +kernel

def fileRule (p : String) : Rule := { kind := "file", flds := [.b false, .s p.toList, .l ["r".toList], .s []] }

/-- file rules whose paths mix known and unknown prefixes are not ordered consistently -/
theorem C11_file_cycle_counterexample :
    compareRule T (fileRule "/etc/a") (fileRule "@{run}/a") < 0 ∧
    compareRule T (fileRule "@{run}/a") (fileRule "@{x}") < 0 ∧
    compareRule T (fileRule "@{x}") (fileRule "/etc/a") < 0 := by
  refine ⟨?_, ?_, ?_⟩ <;> decide +kernel

/-- the hypotheses of the order theorems are met by ordinary rules -/
example : Dom "signal" [1, 1, 0, 2, 0]
    { kind := "signal", flds := [.l ["send".toList], .l ["term".toList], .s "foo".toList] } := by
  refine ⟨rfl, ?_, ?_⟩
  · decide +kernel
  · decide +kernel

/-- the domain of the sort theorems is inhabited by ordinary rules of several kinds -/
example : DomS T true (fileRule "/etc/a") ∧ DomS T true (fileRule "@{bin}/a") ∧
    DomS T true { kind := "signal", flds := [.l ["send".toList], .l ["term".toList], .s "foo".toList] } ∧
    DomS T true { kind := "include", flds := [.b false, .s "abstractions/base".toList, .b true] } := by
  refine ⟨⟨⟨?_, ?_, ?_, ?_, ?_⟩, ?_, ?_, ?_, ?_⟩, ⟨⟨?_, ?_, ?_, ?_, ?_⟩, ?_, ?_, ?_, ?_⟩,
    ⟨⟨?_, ?_, ?_, ?_, ?_⟩, ?_, ?_, ?_, ?_⟩, ⟨⟨?_, ?_, ?_, ?_, ?_⟩, ?_, ?_, ?_, ?_⟩⟩ <;> decide +kernel

example : sortBy (sortCmp T) [fileRule "/etc/b", fileRule "@{bin}/a", fileRule "/etc/a"]
    = [fileRule "@{bin}/a", fileRule "/etc/a", fileRule "/etc/b"] := by decide +kernel

end C11
