import AaVerif.Ref.GrammarLemmas
import AaVerif.Ref.GrammarPtrace
import AaVerif.Ref.GrammarSignal
import AaVerif.Ref.GrammarRlimit
import AaVerif.Ref.GrammarChangeProfile
import AaVerif.Ref.GrammarLink
import AaVerif.Aa.Parse
import AaVerif.Aa.Sort
import AaVerif.Generated.AaTables
/-!
# C12 — what the library prints means the same to the reference parser

`Ref.read` is a reader of the AppArmor 3 rule syntax written from apparmor.d(5), independent of
the library's parser and compared with `apparmor_parser` on every run.  The theorems say that the
text the printer model produces is accepted by that reader and that the reader finds in it
exactly the fields of the rule — decided by kernel evaluation over the COMPLETE regenerated
value tables for the table-valued fields — and prove the structural fact behind "one exec mode
per rule" for every input.  The classes where the printed text is not accepted are proved on
their witnesses (known findings, replayed against the real parser).
-/
namespace C12
open Aa Ref

def T := Generated.aaTables

/-- the reader gets back what the rule states from the printed text -/
def readsBack (r : Rule) : Bool := Ref.read T (renderRule r (padOf [])) == some (fieldsOf r)

def quals : List (Bool × Text) := [(false, []), (true, []), (false, S "deny"), (true, S "deny"), (false, S "allow")]

def mk (kind : String) (q : Bool × Text) (comment : Text) (flds : List Fld) : Rule :=
  { kind := kind, audit := q.1, accessType := q.2, comment := comment, flds := flds }

/-- every capability name; every printed qualifier with and without a comment (full product:
`C12Full`, thorough tier) -/
theorem C12_capability_read :
    (∀ n ∈ reqValues T "capability" "name", readsBack (mk "capability" (true, S "deny") (S " see #12, (x)") [.l [n]]) = true) ∧
    (∀ q ∈ quals, ∀ c ∈ [[], S " see #12, (x)"], readsBack (mk "capability" q c [.l [S "chown"]]) = true) := by
  constructor <;> decide +kernel

theorem C12_network_read :
    (∀ d ∈ reqValues T "network" "domains",
      readsBack (mk "network" (true, S "deny") (S " c") [.s [], .s [], .s [], .s d, .s (S "stream"), .s []]) = true) ∧
    (∀ t ∈ reqValues T "network" "type",
      readsBack (mk "network" (true, S "deny") (S " c") [.s [], .s [], .s [], .s (S "inet"), .s t, .s []]) = true) := by
  constructor <;> decide +kernel

theorem C12_signal_read :
    (∀ a ∈ reqValues T "signal" "access",
      readsBack (mk "signal" (false, []) [] [.l [a], .l [S "term"], .s (S "foo//bar")]) = true ∧
      readsBack (mk "signal" (true, S "deny") (S " c") [.l [a], .l [S "term"], .s []]) = true) ∧
    (∀ s ∈ reqValues T "signal" "set",
      readsBack (mk "signal" (false, []) [] [.l [S "send"], .l [s], .s (S "foo//bar")]) = true ∧
      readsBack (mk "signal" (true, S "deny") (S " c") [.l [S "send"], .l [s], .s []]) = true) := by
  constructor <;> decide +kernel

/-- every capability name of the regenerated table is a simple word (no blank, quote, parenthesis, `#`) -/
theorem capability_names_simple :
    ∀ n ∈ reqValues T "capability" "name", SimpleW n ∧ '#' ∉ n ∧ n.getLast? ≠ some ',' := by decide +kernel

/-- **Capability rules of any length** (symbolic, no enumeration): for every qualifier and EVERY list of
capability names drawn from the table — any length, any order, repetitions included — the reference
reader accepts the text the printer produces and reads the same capability set (in the canonical
order of the table, duplicates removed, which is how the library itself normalises the list). -/
theorem C12_capability_all_lists (audit deny : Bool) (names : List Text)
    (h : ∀ n ∈ names, n ∈ reqValues T "capability" "name") :
    Ref.read T (renderRule (capRule audit deny names) (padOf [])) =
      some (mkR "capability" { audit := audit, deny := deny, owner := false }
        [.l (mergeValues T "capability" "name" names [])]) :=
  read_capability T audit deny names (fun n hn => capability_names_simple n (h n hn))
    (fun n hn => by simpa using h n hn)

example : Ref.read T (renderRule (capRule true true [S "kill", S "chown", S "kill"]) (padOf []))
    = some (mkR "capability" { audit := true, deny := true, owner := false } [.l [S "chown", S "kill"]]) := by
  rw [C12_capability_all_lists true true _ (by decide +kernel)]
  decide +kernel

/-- **File rules, any path** (symbolic): for every qualifier, with or without `owner`, EVERY path word
(begins with `/` or `@`; no blank, quote, parenthesis or `#`; accepted as a path token, i.e. its
variable references are well formed and it holds no `,,`) and every non-empty permission string, the
reference reader finds in the printed text exactly that path as the subject, the same qualifier and
owner flag, and the permission string the rule states (read by `readMode`: letters of the access
table plus at most one exec transition). Paths with a blank are the known class `K_spaceUnquoted`. -/
theorem C12_file_all_paths (audit deny owner : Bool) (p : Text) (acc : List Text)
    (hp : PathHead p) (hps : SimpleW p ∧ '#' ∉ p ∧ p.getLast? ≠ some ',') (hpt : isPathTok p = true)
    (hm : SimpleW acc.flatten ∧ '#' ∉ acc.flatten ∧ acc.flatten.getLast? ≠ some ',') :
    Ref.read T (renderRule (fileRule audit deny owner p acc) (padOf [])) =
      (readMode T acc.flatten).map (fun a =>
        mkR "file" { audit := audit, deny := deny, owner := owner } [.b owner, .s p, .l a, .s []]) :=
  read_file T audit deny owner p acc hp hps hpt hm

example : Ref.read T (renderRule (fileRule false true true (S "@{user_config_dirs}/app{,.d}/[a-z]*.conf") [S "r", S "w", S "Px"]) (padOf []))
    = some (mkR "file" { deny := true, owner := true } [.b true, .s (S "@{user_config_dirs}/app{,.d}/[a-z]*.conf"), .l [S "r", S "w", S "Px"], .s []]) := by
  rw [C12_file_all_paths false true true (S "@{user_config_dirs}/app{,.d}/[a-z]*.conf") [S "r", S "w", S "Px"]
    ⟨'@', (S "{user_config_dirs}/app{,.d}/[a-z]*.conf"), by decide +kernel, Or.inr rfl⟩ (by decide +kernel) (by decide +kernel) (by decide +kernel)]
  decide +kernel

theorem network_tables_simple :
    (∀ d ∈ reqValues T "network" "domains", SimpleW d ∧ '#' ∉ d ∧ d.getLast? ≠ some ',') ∧
    (∀ t ∈ reqValues T "network" "type", SimpleW t ∧ '#' ∉ t ∧ t.getLast? ≠ some ',') := by
  constructor <;> decide +kernel

/-- **Network rules, the whole product** (symbolic: no enumeration of the 45 × 7 × 4 cases): every
qualifier, every domain of the table with every socket type of the table. -/
theorem C12_network_all (audit deny : Bool) (d t : Text)
    (hd : d ∈ reqValues T "network" "domains") (ht : t ∈ reqValues T "network" "type") :
    Ref.read T (renderRule (netRule audit deny d t) (padOf [])) =
      some (mkR "network" { audit := audit, deny := deny, owner := false } [.s [], .s [], .s [], .s d, .s t, .s []]) :=
  read_network T audit deny d t (network_tables_simple.1 d hd) (network_tables_simple.2 t ht)
    (by simpa using hd) (by simpa using ht)

theorem C12_ptrace_read :
    ∀ a ∈ reqValues T "ptrace" "access", ∀ q ∈ quals,
      readsBack (mk "ptrace" q (S " c") [.l [a], .s (S "\"@{p_systemd}\"")]) = true := by decide +kernel

/-- every exec transition, on a quoted path with a blank and on nested alternations, with owner,
target and padding-free layout -/
theorem C12_file_read :
    ∀ t ∈ reqValues T "file" "transition", ∀ p ∈ [S "\"@{HOME}/a b\"", S "@{bin}/{a,b{c,d}}[0-9]*"], ∀ o ∈ [true, false],
      readsBack (mk "file" (false, []) (S " c") [.b o, .s p, .l [S "r", t], .s (S "tgt")]) = true ∧
      readsBack (mk "file" (true, []) [] [.b o, .s p, .l [S "m", S "r", S "w", S "l", S "k"], .s []]) = true := by
  decide +kernel

/-- **One exec mode per rule** (for every text): the access list the library's parser builds from a
permission string never holds two exec transitions — a printed rule built from parsed text has
one mode. -/
theorem compact_sublist : ∀ l : List Text, (compact l).Sublist l
  | [] => by simp [compact]
  | [a] => by simp [compact]
  | a :: b :: l => by
    unfold compact
    split
    · exact (compact_sublist (b :: l)).cons a
    · exact (compact_sublist (b :: l)).cons_cons a

theorem filter_len_mergeValues_file (p : Text → Bool) (a : List Text) :
    ((mergeValues T "file" "access" a []).filter p).length ≤ (a.filter p).length := by
  unfold mergeValues
  simp only [List.append_nil, beq_self_eq_true, if_true]
  have h1 := (compact_sublist (sortBy (cmpFileAccess T) a)).filter p
  have h2 := (sortBy_perm (cmpFileAccess T) a).filter p
  exact Nat.le_trans h1.length_le (Nat.le_of_eq h2.length_eq)

/-- no access letter is an exec transition (instance fact on the regenerated tables) -/
theorem access_not_transition :
    ∀ a ∈ reqValues T "file" "access", (reqValues T "file" "transition").contains a = false := by decide +kernel

theorem C12_one_exec_mode (input : Text) (l : List Text) (h : Parse.toAccessFile T input = .ok l) :
    (l.filter (fun a => (reqValues T "file" "transition").contains a)).length ≤ 1 := by
  unfold Parse.toAccessFile at h
  simp only at h
  generalize hp : (fun a => (reqValues T "file" "transition").contains a) = p
  generalize hr : List.map (fun c => [c]) (List.filter (fun c => (reqValues T "file" "access").contains [c]) input) = res at h
  have hres : (res.filter p).length = 0 := by
    rw [List.length_eq_zero_iff, List.filter_eq_nil_iff]
    intro a ha
    subst hr hp
    simp only [List.mem_map, List.mem_filter] at ha
    obtain ⟨c, ⟨_, hc⟩, rfl⟩ := ha
    have := access_not_transition [c] (by simpa using hc)
    intro hmem
    have h2 : (reqValues T "file" "transition").contains [c] = true := by simpa using hmem
    rw [this] at h2
    cases h2
  split at h
  · cases h
    exact Nat.le_trans (filter_len_mergeValues_file p res) (by rw [hres]; exact Nat.zero_le 1)
  · split at h
    · cases h
      refine Nat.le_trans (filter_len_mergeValues_file p _) ?_
      rw [List.filter_append, List.length_append, hres, Nat.zero_add]
      simp only [List.filter_cons, List.filter_nil]
      split <;> simp
    · cases h

/-- merging is where two exec modes get fused: the merge model turns `/a r,` `/a rPx,` `/a ix,`
into one rule that prints as `/a rixPx,`, which the reference syntax does not accept -/
theorem C12_fused_exec_modes :
    let f (acc : List Text) : Rule := mk "file" (false, []) [] [.b false, .s (S "/a"), .l acc, .s []]
    (mergeRules T [some (f [S "r"]), some (f [S "r", S "Px"]), some (f [S "ix"])]).map (Option.map (fun r => renderRule r (padOf [])))
      = [some (S "/a rixPx,")] ∧ Ref.read T (S "/a rixPx,") = none := by decide +kernel

/-- a path with a blank printed without quotes is not accepted (what rules built from log
records print) -/
theorem C12_space_unquoted :
    renderRule (mk "file" (false, []) [] [.b false, .s (S "@{HOME}/a b.txt"), .l [S "r"], .s []]) (padOf []) = S "@{HOME}/a b.txt r," ∧
    Ref.read T (S "@{HOME}/a b.txt r,") = none ∧
    Ref.read T (S "\"@{HOME}/a b.txt\" r,") = some (mk "file" (false, []) [] [.b false, .s (S "\"@{HOME}/a b.txt\""), .l [S "r"], .s []]) := by
  decide +kernel

/-- the reader rejects what the reference parser rejects for a syntactic reason (the witnesses of
the other known classes, and damaged texts) -/
theorem C12_reader_rejects_example :
    Ref.read T (S "link /a ,") = none ∧ Ref.read T (S "capability chown") = none ∧
    Ref.read T (S "capability nonsense,") = none ∧ Ref.read T (S "/a rz,") = none ∧
    Ref.read T (S "signal send set=(nosuch),") = none ∧ Ref.read T (S "ptrace (read peer=a,") = none ∧
    Ref.read T (S "deny /a r -> ,") = none ∧ Ref.read T (S "network inet nosuchtype,") = none := by decide +kernel

/-! ## Ptrace rules, symbolically: a parenthesised list and a condition -/

/-- every ptrace access of the regenerated table is a keyword-like word -/
theorem ptrace_access_words : ∀ a ∈ reqValues T "ptrace" "access", Aa.Parse.CapW a := by decide +kernel

/-- **Ptrace rules, every access list and every peer word** (symbolic, no enumeration): for every qualifier, EVERY
non-empty list of ptrace accesses of the table (any length, order, repetition; printed bare when it has one element, as
`(a b …)` otherwise) and EVERY keyword-like peer word, the reference reader accepts the printed text - its own word
splitter keeps the group together, `listOf` opens it, `cond` reads the peer - and finds the access set in table order
and exactly that peer. -/
theorem C12_ptrace_all (audit deny : Bool) (accs : List Text) (p : Text) (ha : accs ≠ [])
    (h : ∀ a ∈ accs, a ∈ reqValues T "ptrace" "access") (hp : Aa.Parse.CapW p) :
    Ref.read T (renderRule (Aa.Parse.ptraceRule audit deny accs p) (padOf [])) =
      some (mkR "ptrace" { audit := audit, deny := deny, owner := false }
        [.l (mergeValues T "ptrace" "access" accs []), .s p]) :=
  read_ptrace T audit deny accs p ha (fun a hm => ⟨ptrace_access_words a (h a hm), by simpa using h a hm⟩) hp

example : Ref.read T (renderRule (Aa.Parse.ptraceRule false true [S "trace", S "read"] (S "foo//bar")) (padOf []))
    = some (mkR "ptrace" { audit := false, deny := true, owner := false } [.l [S "read", S "trace"], .s (S "foo//bar")]) := by
  rw [C12_ptrace_all false true _ _ (by simp) (by decide +kernel) (by decide)]
  decide +kernel

/-! ## Signal rules, symbolically: a condition whose value is a list -/

/-- every signal access and every signal of the regenerated tables is a keyword-like word -/
theorem signal_words :
    (∀ a ∈ reqValues T "signal" "access", Aa.Parse.CapW a) ∧ (∀ s ∈ reqValues T "signal" "set", Aa.Parse.CapW s) := by
  constructor <;> decide +kernel

/-- **Signal rules, every access list, every signal list, every peer word** (symbolic): for every qualifier, EVERY
non-empty list of signal accesses and EVERY non-empty list of signals of the tables (any length, order, repetition) and
EVERY keyword-like peer word, the reference reader accepts the printed text (`set=(hup int)` stays one word, `cond` cuts
the key off, `listOf` opens the group) and finds both sets in table order and exactly that peer. -/
theorem C12_signal_all (audit deny : Bool) (accs set : List Text) (p : Text) (ha : accs ≠ []) (hs : set ≠ [])
    (h : ∀ a ∈ accs, a ∈ reqValues T "signal" "access") (h' : ∀ s ∈ set, s ∈ reqValues T "signal" "set")
    (hp : Aa.Parse.CapW p) :
    Ref.read T (renderRule (Aa.Parse.signalRule audit deny accs set p) (padOf [])) =
      some (mkR "signal" { audit := audit, deny := deny, owner := false }
        [.l (mergeValues T "signal" "access" accs []), .l (mergeValues T "signal" "set" set []), .s p]) :=
  read_signal T audit deny accs set p ha hs
    (fun a hm => ⟨signal_words.1 a (h a hm), by simpa using h a hm⟩)
    (fun a hm => ⟨signal_words.2 a (h' a hm), by simpa using h' a hm⟩) hp

example : Ref.read T (renderRule (Aa.Parse.signalRule true false [S "receive", S "send"] [S "kill", S "hup"] (S "unconfined")) (padOf []))
    = some (mkR "signal" { audit := true, deny := false, owner := false }
        [.l (mergeValues T "signal" "access" [S "receive", S "send"] []), .l (mergeValues T "signal" "set" [S "kill", S "hup"] []),
         .s (S "unconfined")]) :=
  C12_signal_all true false _ _ _ (by simp) (by simp) (by decide +kernel) (by decide +kernel) (by decide)

/-! ## `set rlimit` rules, symbolically: every key of the table, every value the syntax accepts -/

theorem rlimit_key_words : ∀ k ∈ reqValues T "rlimit" "keys", Aa.Parse.CapW k := by decide +kernel

/-- **Every printed `set rlimit` rule**: for every key of the table and every value the reference syntax accepts
(`infinity`, or an optionally signed number with an optional alphabetic unit) the reader finds key, operator and value -/
theorem C12_rlimit_all (k v : Text) (hk : k ∈ reqValues T "rlimit" "keys") (hv : Ref.rlimitValueOk v = true) :
    Ref.read T (renderRule (Aa.Parse.rlimitRule k v) (padOf [])) = some (mkR "rlimit" {} [.s k, .s (S "<="), .s v]) :=
  read_rlimit T k v (rlimit_key_words k hk) (by simpa using hk) hv

example : Ref.read T (renderRule (Aa.Parse.rlimitRule (S "nofile") (S "65536")) (padOf []))
    = some (mkR "rlimit" {} [.s (S "nofile"), .s (S "<="), .s (S "65536")]) :=
  C12_rlimit_all _ _ (by decide +kernel) (by decide +kernel)

example : Ref.rlimitValueOk (S "infinity") = true ∧ Ref.rlimitValueOk (S "8MB") = true ∧ Ref.rlimitValueOk (S "-20") = true
    ∧ Ref.rlimitValueOk (S "MB") = false := by decide +kernel

/-! ## `change_profile` rules, symbolically -/

theorem cp_modes : (∀ m ∈ reqValues T "change_profile" "mode", Aa.Parse.CapW m) ∧
    (reqValues T "change_profile" "mode").all (fun m => !Ref.isPathTok m) = true := by
  constructor <;> decide +kernel

/-- **Every printed `change_profile` rule**: every qualifier, no mode or any mode of the table, every exec word the
reference syntax takes for a path (so it cannot be a mode keyword), every keyword-like target word: the reader finds
mode, exec and target -/
theorem C12_change_profile_all (audit deny : Bool) (m e t : Text)
    (hm : m = [] ∨ m ∈ reqValues T "change_profile" "mode") (he : Aa.Parse.CapW e) (hp : Ref.isPathTok e = true)
    (ht : Aa.Parse.CapW t) :
    Ref.read T (renderRule (Aa.Parse.cpRule audit deny m e t) (padOf [])) =
      some (mkR "change_profile" { audit := audit, deny := deny, owner := false } [.s m, .s e, .s t]) := by
  refine read_cp T audit deny m e t (hm.elim Or.inl (fun h => Or.inr ⟨cp_modes.1 m h, by simpa using h⟩)) he ?_ hp ht
  cases hc : (reqValues T "change_profile" "mode").contains e with
  | false => rfl
  | true =>
    have := List.all_eq_true.mp cp_modes.2 e (by simpa using hc)
    simp [hp] at this

example : Ref.read T (renderRule (Aa.Parse.cpRule false true (S "safe") (S "/usr/bin/foo") (S "foo//bar")) (padOf []))
    = some (mkR "change_profile" { audit := false, deny := true, owner := false } [.s (S "safe"), .s (S "/usr/bin/foo"), .s (S "foo//bar")]) :=
  C12_change_profile_all false true _ _ _ (Or.inr (by decide +kernel)) (by decide +kernel) (by decide +kernel) (by decide +kernel)

/-! ## Link rules, symbolically -/

/-- **Every printed link rule with a target**: every qualifier, owner and subset flag, every keyword-like word the
reference syntax takes for a path, as the link and as its target: the reader finds both flags and both paths
(a link rule without a target is the known finding `K_linkNoTarget`) -/
theorem C12_link_all (audit deny owner subset : Bool) (a b : Text)
    (hca : Aa.Parse.CapW a) (ha : Ref.isPathTok a = true) (hcb : Aa.Parse.CapW b) (hb : Ref.isPathTok b = true) :
    Ref.read T (renderRule (Aa.Parse.linkRule audit deny owner subset a b) (padOf [])) =
      some (mkR "link" { audit := audit, deny := deny, owner := owner } [.b owner, .b subset, .s a, .s b]) := by
  refine read_link T audit deny owner subset a b hca ha ?_ hcb hb
  cases hc : a == S "subset" with
  | false => rfl
  | true =>
    have e : a = S "subset" := by simpa using hc
    rw [e] at ha
    exact absurd ha (by decide)

example : Ref.read T (renderRule (Aa.Parse.linkRule false false true true (S "/etc/a*") (S "/var/lib/b")) (padOf []))
    = some (mkR "link" { audit := false, deny := false, owner := true } [.b true, .b true, .s (S "/etc/a*"), .s (S "/var/lib/b")]) :=
  C12_link_all false false true true _ _ (by decide +kernel) (by decide +kernel) (by decide +kernel) (by decide +kernel)

/-! ## The two readers agree

The library's own parser (`parseCommaRules` + `newRules`, the model tied to `aa.ParseRules`) and the reference reader written
from apparmor.d(5) are independent programs; on the printed text of these rule families they read the same rule. -/

/-- link rules: one rule `r` is what the library reads back and what the reference reader finds -/
theorem C12_readers_agree_link (audit deny owner subset : Bool) (a b : Text)
    (hca : Aa.Parse.CapW a) (ha : Ref.isPathTok a = true) (hp : Aa.Parse.PathHead a)
    (hcb : Aa.Parse.CapW b) (hb : Ref.isPathTok b = true) :
    ∃ r, (Aa.Parse.parseCommaRules false (renderRule (Aa.Parse.linkRule audit deny owner subset a b) (padOf []) ++ S "\n")).bind
          (Aa.Parse.newRules T) = .ok [r] ∧
        Ref.read T (renderRule (Aa.Parse.linkRule audit deny owner subset a b) (padOf [])) = some r ∧
        r = Aa.Parse.linkRule audit deny owner subset a b :=
  ⟨_, Aa.Parse.parse_link T audit deny owner subset a b hca hp hcb,
    (C12_link_all audit deny owner subset a b hca ha hcb hb).trans (by cases deny <;> rfl), by cases deny <;> rfl⟩

/-- change_profile rules -/
theorem C12_readers_agree_change_profile (audit deny : Bool) (m e t : Text)
    (hm : m = [] ∨ m ∈ reqValues T "change_profile" "mode") (he : Aa.Parse.CapW e) (hp : Ref.isPathTok e = true)
    (harrow : e ≠ S "->") (ht : Aa.Parse.CapW t) :
    ∃ r, (Aa.Parse.parseCommaRules false (renderRule (Aa.Parse.cpRule audit deny m e t) (padOf []) ++ S "\n")).bind
          (Aa.Parse.newRules T) = .ok [r] ∧
        Ref.read T (renderRule (Aa.Parse.cpRule audit deny m e t) (padOf [])) = some r ∧
        r = Aa.Parse.cpRule audit deny m e t := by
  have hne : (reqValues T "change_profile" "mode").contains e = false := by
    cases hc : (reqValues T "change_profile" "mode").contains e with
    | false => rfl
    | true =>
      have := List.all_eq_true.mp cp_modes.2 e (by simpa using hc)
      simp [hp] at this
  exact ⟨_, Aa.Parse.parse_cp T audit deny m e t
      (hm.elim Or.inl (fun h => Or.inr ⟨cp_modes.1 m h, by simpa using h⟩)) he hne harrow ht,
    (C12_change_profile_all audit deny m e t hm he hp ht).trans (by cases deny <;> rfl), by cases deny <;> rfl⟩

/-- rlimit rules -/
theorem C12_readers_agree_rlimit (k v : Text) (hk : k ∈ reqValues T "rlimit" "keys") (hv : Ref.rlimitValueOk v = true) :
    ∃ r, (Aa.Parse.parseCommaRules false (renderRule (Aa.Parse.rlimitRule k v) (padOf []) ++ S "\n")).bind
          (Aa.Parse.newRules T) = .ok [r] ∧
        Ref.read T (renderRule (Aa.Parse.rlimitRule k v) (padOf [])) = some r ∧ r = Aa.Parse.rlimitRule k v :=
  ⟨_, Aa.Parse.parse_rlimit T k v (rlimit_key_words k hk) (Ref.rlimitValueOk_capW v hv), C12_rlimit_all k v hk hv, rfl⟩

/-- the table facts the library-parser theorems ask for (the same facts `Props/C09` proves for its own copy of the tables) -/
theorem agree_table_facts :
    (∀ n ∈ reqValues T "capability" "name", Aa.Parse.CapW n) ∧ Aa.Parse.hasReq T "capability" "name" = true ∧
    (∀ a ∈ reqValues T "ptrace" "access", a ≠ S "peer") ∧ Aa.Parse.hasReq T "ptrace" "access" = true ∧
    (∀ a ∈ reqValues T "signal" "access", a ≠ S "peer" ∧ a ≠ S "set") ∧
    Aa.Parse.hasReq T "signal" "access" = true ∧ Aa.Parse.hasReq T "signal" "set" = true := by
  refine ⟨?_, ?_, ?_, ?_, ?_, ?_, ?_⟩ <;> decide +kernel

/-- capability rules, every qualifier and every list of names: both readers give the rule with the names in table order -/
theorem C12_readers_agree_capability (audit deny : Bool) (names : List Text)
    (h : ∀ n ∈ names, n ∈ reqValues T "capability" "name") :
    ∃ r, (Aa.Parse.parseCommaRules false (renderRule (capRule audit deny names) (padOf []) ++ S "\n")).bind
          (Aa.Parse.newRules T) = .ok [r] ∧
        Ref.read T (renderRule (capRule audit deny names) (padOf [])) = some r :=
  ⟨_, Aa.Parse.parse_capability T audit deny names agree_table_facts.2.1
      (fun n hn => ⟨agree_table_facts.1 n (h n hn), by simpa using h n hn⟩),
    (C12_capability_all_lists audit deny names h).trans (by cases deny <;> rfl)⟩

/-- ptrace rules, every qualifier, access list and keyword-like peer word -/
theorem C12_readers_agree_ptrace (audit deny : Bool) (accs : List Text) (p : Text) (ha : accs ≠ [])
    (h : ∀ a ∈ accs, a ∈ reqValues T "ptrace" "access") (hp : Aa.Parse.CapW p) :
    ∃ r, (Aa.Parse.parseCommaRules false (renderRule (Aa.Parse.ptraceRule audit deny accs p) (padOf []) ++ S "\n")).bind
          (Aa.Parse.newRules T) = .ok [r] ∧
        Ref.read T (renderRule (Aa.Parse.ptraceRule audit deny accs p) (padOf [])) = some r :=
  ⟨_, Aa.Parse.parse_ptrace T audit deny accs p ha agree_table_facts.2.2.2.1
      (fun a hm => ⟨ptrace_access_words a (h a hm), by simpa using h a hm⟩)
      (fun a hm => agree_table_facts.2.2.1 a (h a hm)) (Aa.Parse.capW_peerW hp),
    (C12_ptrace_all audit deny accs p ha h hp).trans (by cases deny <;> rfl)⟩

/-- signal rules, every qualifier, access list, signal list and keyword-like peer word -/
theorem C12_readers_agree_signal (audit deny : Bool) (accs set : List Text) (p : Text) (ha : accs ≠ []) (hs : set ≠ [])
    (h : ∀ a ∈ accs, a ∈ reqValues T "signal" "access") (h' : ∀ s ∈ set, s ∈ reqValues T "signal" "set")
    (hp : Aa.Parse.CapW p) :
    ∃ r, (Aa.Parse.parseCommaRules false (renderRule (Aa.Parse.signalRule audit deny accs set p) (padOf []) ++ S "\n")).bind
          (Aa.Parse.newRules T) = .ok [r] ∧
        Ref.read T (renderRule (Aa.Parse.signalRule audit deny accs set p) (padOf [])) = some r :=
  ⟨_, Aa.Parse.parse_signal T audit deny accs set p ha hs agree_table_facts.2.2.2.2.2.1 agree_table_facts.2.2.2.2.2.2
      (fun a hm => ⟨signal_words.1 a (h a hm), by simpa using h a hm⟩)
      (fun a hm => ⟨signal_words.2 a (h' a hm), by simpa using h' a hm⟩)
      (fun a hm => (agree_table_facts.2.2.2.2.1 a (h a hm)).1) (fun a hm => (agree_table_facts.2.2.2.2.1 a (h a hm)).2)
      (Aa.Parse.capW_peerW hp),
    (C12_signal_all audit deny accs set p ha hs h h' hp).trans (by cases deny <;> rfl)⟩

end C12
