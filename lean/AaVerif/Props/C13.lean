import AaVerif.Aa.ResolveLemmas
import AaVerif.Aa.ResolveCycle
/-!
# C13 — variable resolution is plain substitution and keeps the rest of the preamble

`Aa.resolve` is the model of `AppArmorProfileFile.Resolve` (the `+=` folding loop, the
recursive `resolveValues`, the attachments); it is run against the real code on generated
preambles.  The substitution semantics itself (all combinations of the referenced values) is
checked on the real code against an independent expander; the theorems below cover what is
kept, what is an error, and termination.
-/
namespace C13
open Aa

def notVar (r : Rule) : Bool := !isVar r

theorem isVar_setFld (r : Rule) (i : Nat) (f : Fld) : isVar (r.setFld i f) = isVar r := rfl

theorem appendTo_others (n : List Char) (v : List (List Char)) :
    ∀ l : List Rule, (appendTo n v l).filter notVar = l.filter notVar
  | [] => rfl
  | r :: rs => by
    simp only [appendTo]
    split
    · rename_i h
      simp only [Bool.and_eq_true] at h
      have h1 : notVar r = false := by simp [notVar, h.1.1]
      have h2 : notVar (r.setFld 1 (.l (vValues r ++ v))) = false := by simp [notVar, isVar_setFld, h.1.1]
      simp [List.filter_cons, h1, h2]
    · simp only [List.filter_cons, appendTo_others n v rs]

/-- **No other preamble rule is lost or altered.** Whatever the interleaving of comments, abi,
includes, aliases, definitions and `+=` appends, the rules that are not variables come out of
the folding loop unchanged and in their original order. -/
theorem C13_preamble_kept : ∀ (pre : List Rule) (seen : List (List Char)) (out res : List Rule),
    foldAppends pre seen out = .ok res → res.filter notVar = out.filter notVar ++ pre.filter notVar
  | [], _, out, res, h => by simp only [foldAppends, Except.ok.injEq] at h; subst h; simp
  | r :: rs, seen, out, res, h => by
    simp only [foldAppends] at h
    by_cases hv : isVar r = true
    · have hn : notVar r = false := by simp [notVar, hv]
      simp only [hv, if_true] at h
      by_cases hs : seen.contains (vName r) = true
      · simp only [hs, if_true] at h
        by_cases hd : vDefine r = true
        · simp [hd] at h
        · simp only [hd, Bool.false_eq_true, if_false] at h
          have := C13_preamble_kept rs seen _ res h
          rw [this, appendTo_others]
          simp [List.filter_cons, hn]
      · simp only [hs, Bool.false_eq_true, if_false] at h
        by_cases hd : vDefine r = true
        · simp only [hd, if_true] at h
          have := C13_preamble_kept rs _ _ res h
          rw [this]; simp [List.filter_append, List.filter_cons, hn]
        · simp only [hd, Bool.false_eq_true, if_false] at h
          have := C13_preamble_kept rs _ _ res h
          rw [this]; simp [List.filter_append, List.filter_cons, hn]
    · have hv' : isVar r = false := by simpa using hv
      have hn : notVar r = true := by simp [notVar, hv']
      simp only [hv', Bool.false_eq_true, if_false] at h
      have := C13_preamble_kept rs _ _ res h
      rw [this]; simp [List.filter_append, List.filter_cons, hn]

/-- **Every variable reference is replaced.** For every preamble (of well-shaped rules), every
attachment list and every amount of fuel: when `Resolve` succeeds, no `@{` is left in the value of
any variable of the resolved preamble nor in any resolved attachment. (A successful run on a value
with a dangling `@{` that is not a reference is impossible: that is `invalidReference`.) -/
theorem C13_no_reference_left (fuel : Nat) (pre : List Rule) (att : List (List Char)) (pre' : List Rule)
    (att' : List (List Char)) (hs : ∀ r ∈ pre, VarShaped r) (h : resolve fuel pre att = .ok (pre', att')) :
    (∀ r ∈ pre', isVar r = true → ∀ v ∈ vValues r, isInfixB tokOpen v = false) ∧
    (∀ a ∈ att', isInfixB tokOpen a = false) :=
  resolve_noRef fuel pre att pre' att' hs h

/-- … and for a single value, whatever the variable table -/
theorem C13_value_fully_expanded (vars : List Rule) (fuel : Nat) (input : List Char) (out : List (List Char))
    (h : resolveValues vars fuel input = .ok out) : ∀ o ∈ out, isInfixB tokOpen o = false :=
  resolveValues_noRef vars fuel input out h

/-- **The fuel of the model is not part of the answer**: once `Resolve` succeeds with some amount, it
gives the same preamble and attachments with any larger amount (the Go function recurses without a
bound; the bound only exists so that the model is total). -/
theorem C13_answer_independent_of_fuel (n m : Nat) (hnm : n ≤ m) (pre : List Rule) (att : List (List Char))
    (res : List Rule × List (List Char)) (h : resolve n pre att = .ok res) : resolve m pre att = .ok res := by
  induction hnm with
  | refl => exact h
  | step _ ih => exact resolve_fuel_mono _ pre att res ih

/-- a second `=` definition of a variable is reported, not silently merged -/
theorem C13_second_definition_is_error (r : Rule) (rs : List Rule) (seen : List (List Char)) (out : List Rule)
    (hv : isVar r = true) (hs : seen.contains (vName r) = true) (hd : vDefine r = true) :
    foldAppends (r :: rs) seen out = .error .alreadyDefined := by
  have hs' : vName r ∈ seen := by simpa using hs
  simp [foldAppends, hv, hs', hd]

/-- a value without any reference is returned as it is -/
theorem C13_plain_value (vars : List Rule) (fuel : Nat) (input : List Char) (h : isInfixB tokOpen input = false) :
    resolveValues vars (fuel + 1) input = .ok [input] := by
  simp [resolveValues, h]

/-- a reference to a variable that no preamble rule defines is an error -/
theorem C13_undefined_is_error (vars : List Rule) (fuel : Nat) (input nm : List Char)
    (h : isInfixB tokOpen input = true) (hr : firstRef input = some nm)
    (hd : (vars.filter (fun v => isVar v && vName v == nm)).isEmpty = true) :
    resolveValues vars (fuel + 1) input = .error .notDefined := by
  simp [resolveValues, h, hr, hd]

def errOf {ε α : Type} : Except ε α → Option ε
  | .error e => some e
  | .ok _ => none

def var (n : String) (vals : List String) (define : Bool := true) : Rule :=
  { kind := "variable", flds := [.s n.toList, .l (vals.map String.toList), .b define] }

/-- a directly self-referential value is reported -/
theorem C13_self_reference_is_error :
    errOf (resolveValues [var "a" ["@{a}/x"]] 10 "@{a}".toList) = some .recursive := by decide +kernel

/-- an indirect cycle is reported as well (since the fix commit: `Resolve` looks for a variable that reaches itself
through its references before it expands anything); without that test the expansion never ends - the core of the model
runs out of any fuel, the Go code of the pinned tree ran out of memory (the former known finding K_indirectCycle) -/
theorem C13_indirect_cycle_is_error :
    errOf (resolve 60 [var "a" ["@{b}/x"], var "b" ["@{a}/y"]] ["@{a}".toList]) = some .recursive ∧
    errOf (resolve 60 [var "a" ["@{b}/x"], var "b" ["@{c}"], var "c" ["/y@{a}"]] []) = some .recursive ∧
    errOf (resolveValues [var "a" ["@{b}/x"], var "b" ["@{a}/y"]] 60 "@{a}".toList) = some .outOfFuel := by
  refine ⟨?_, ?_, ?_⟩ <;> decide +kernel

/-- **The cycle test misses no cycle**: whenever a variable rule `v` refers to a name from which a chain of direct
references leads back to the name of `v` (chains up to the number of rules: a cycle that visits no name twice is never
longer), `Resolve` reports an error - it does not start the expansion that would never end. -/
theorem C13_cycle_is_reported (fuel : Nat) (pre : List Rule) (att : List (List Char)) (folded : List Rule)
    (hf : foldAppends pre [] [] = .ok folded) (v : Rule) (hv : v ∈ folded) (hvar : isVar v = true)
    (y : List Char) (chain : List (List Char)) (hy : y ∈ refsOf folded (vName v)) (hc : Chain folded y chain)
    (hend : (y :: chain).getLast? = some (vName v)) (hlen : chain.length ≤ folded.length) :
    resolve fuel pre att = .error .recursive := by
  unfold resolve
  rw [hf]
  simp only [hasCycle_of_chain folded v hv hvar y chain hy hc hend hlen, if_true]

/-- … and it reports nothing else: when the test says yes, some variable rule refers to a name from which a chain of direct
references leads back to the rule's own name - a preamble without such a chain is never rejected by the test. -/
theorem C13_cycle_test_sound (vars : List Rule) (h : hasCycle vars = true) :
    ∃ v ∈ vars, isVar v = true ∧ ∃ y ∈ refsOf vars (vName v), ∃ chain, Chain vars y chain ∧
      (y :: chain).getLast? = some (vName v) := chain_of_hasCycle vars h

/-- the hypotheses are met by the three-variable cycle: `a` refers to `b`, the chain `b → c → a` closes it -/
example : resolve 10 [var "a" ["@{b}/x"], var "b" ["@{c}"], var "c" ["/y@{a}"]] [] = .error .recursive :=
  C13_cycle_is_reported 10 _ [] [var "a" ["@{b}/x"], var "b" ["@{c}"], var "c" ["/y@{a}"]] rfl
    (var "a" ["@{b}/x"]) (by simp) (by decide) "b".toList ["c".toList, "a".toList] (by decide +kernel)
    ⟨by decide +kernel, by decide +kernel, trivial⟩ (by decide) (by decide)

/-- the cycle test does not reject a preamble without one: diamonds and repeated references are fine -/
example : hasCycle [var "a" ["@{b}@{c}"], var "b" ["@{d}/x", "@{d}"], var "c" ["@{d}"], var "d" ["/y"]] = false := by
  decide +kernel

/-- non-vacuity: definitions, an append placed after a comment and an include, nested references -/
example : (resolve 50
    [{ kind := "comment", comment := " c".toList }, { kind := "include", flds := [.b false, .s "tunables/global".toList, .b true] },
     var "bin" ["/{,usr/}bin"], var "exec_path" ["@{bin}/a"], var "exec_path" ["@{bin}/b//c"] false]
    ["@{exec_path}".toList]).toOption
  = some ([{ kind := "comment", comment := " c".toList }, { kind := "include", flds := [.b false, .s "tunables/global".toList, .b true] },
          var "bin" ["/{,usr/}bin"], var "exec_path" ["/{,usr/}bin/a", "/{,usr/}bin/b/c"]],
         ["/{,usr/}bin/a".toList, "/{,usr/}bin/b/c".toList]) := by decide +kernel

end C13
