import AaVerif.Logs
/-!
# C14 — aa-log shows every matching AppArmor event exactly once, and only those

`Logs.getLogs isLog clean lines` is the model of `GetApparmorLogs` (scanner lines → record test →
hex decoding and cleaning → `RemoveDuplicate`).  The theorems hold for **every** record test and
**every** cleaning function, hence for every regex list the Go code may hold; the driver
instantiates them with the regenerated lists and is run against the real code.
-/
namespace C14
open Logs

variable (isLog : List Char → Bool) (clean : List Char → List Char)

/-- nothing is reported that is not a (cleaned) matching record of the input -/
theorem C14_nothing_invented (lines : List (List Char)) :
    ∀ x ∈ getLogs isLog clean lines, ∃ l ∈ lines, isLog l = true ∧ clean l = x := by
  intro x hx
  have := (mem_removeDup [] x _ []).mp hx
  obtain ⟨l, hl, rfl⟩ := List.mem_map.mp this.1
  have := List.mem_filter.mp hl
  exact ⟨l, this.1, this.2, rfl⟩

/-- every matching record whose cleaned form is not empty (i.e. not documented noise) is reported -/
theorem C14_complete (lines : List (List Char)) (l : List Char) (hl : l ∈ lines) (hm : isLog l = true)
    (hn : clean l ≠ []) : clean l ∈ getLogs isLog clean lines := by
  apply (mem_removeDup [] (clean l) _ []).mpr
  exact ⟨List.mem_map.mpr ⟨l, List.mem_filter.mpr ⟨hl, hm⟩, rfl⟩, hn, by simp⟩

/-- … exactly once -/
theorem C14_no_duplicates (lines : List (List Char)) : (getLogs isLog clean lines).Nodup :=
  nodup_removeDup [] _ []

/-- … in input order -/
theorem C14_input_order (lines : List (List Char)) :
    List.Sublist (getLogs isLog clean lines) ((lines.filter isLog).map clean) :=
  sublist_removeDup [] _ []

/-- **Exact duplicate rule, and no early stop.** Reading one more line adds its cleaned form to
the report iff the line matches, is not noise, and no earlier matching line has the same cleaned
form; otherwise the report is unchanged.  Whatever the earlier lines were (garbled, very long,
unrelated), later lines are still processed. -/
theorem C14_dedup_exact (lines : List (List Char)) (l : List Char) :
    getLogs isLog clean (lines ++ [l]) =
      if isLog l = true ∧ clean l ≠ [] ∧ clean l ∉ (lines.filter isLog).map clean
      then getLogs isLog clean lines ++ [clean l] else getLogs isLog clean lines := by
  unfold getLogs removeDuplicate
  by_cases hm : isLog l = true
  · have e1 : (lines ++ [l]).filter isLog = lines.filter isLog ++ [l] := by
      simp [List.filter_append, hm]
    rw [e1, List.map_append, List.map_cons, List.map_nil, removeDup_snoc]
    by_cases h : clean l = [] ∨ clean l ∈ ([] : List (List Char)) ∨ clean l ∈ (lines.filter isLog).map clean
    · have h2 : ¬ (isLog l = true ∧ clean l ≠ [] ∧ clean l ∉ (lines.filter isLog).map clean) := by
        intro hh
        rcases h with h | h | h
        · exact hh.2.1 h
        · cases h
        · exact hh.2.2 h
      rw [if_pos h, if_neg h2]
    · have h2 : isLog l = true ∧ clean l ≠ [] ∧ clean l ∉ (lines.filter isLog).map clean := by
        simp only [not_or] at h
        exact ⟨hm, h.1, h.2.2⟩
      rw [if_neg h, if_pos h2]
  · have e1 : (lines ++ [l]).filter isLog = lines.filter isLog := by
      simp [List.filter_append, hm]
    have h2 : ¬ (isLog l = true ∧ clean l ≠ [] ∧ clean l ∉ (lines.filter isLog).map clean) := fun hh => hm hh.1
    rw [e1, if_neg h2]

/-- non-vacuity: a three-line log with a repeat -/
example : getLogs (fun l => l.length > 1) (fun l => l.drop 1) ["xab".toList, "y".toList, "zab".toList, "qcd".toList]
    = ["ab".toList, "cd".toList] := by decide +kernel

end C14
