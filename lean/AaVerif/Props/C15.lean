import AaVerif.Logs
/-!
# C15 — aa-log reports each record's own field values, faithfully decoded

`Logs.parseRecord` is the model of the per-record part of `logs.New` (two nested
`strings.FieldsFunc` calls that share one `quoted` toggle), `Logs.decodeKey` / `decodePairs` of
`util.DecodeHexInString`; both are run against the real code on generated records.
-/
namespace C15
open Logs

/-- **Quoted values are kept whole**: `key="value"` is split into exactly the key and the quoted
value whatever the value holds besides `"` — spaces, `=`, `#`, `,`, non-ASCII bytes — and the
toggle is back to "outside quotes" afterwards, so nothing carries over to the next field. -/
theorem C15_quoted_value_whole (k v : List Char) (hk1 : ∀ c ∈ k, c ≠ '"') (hk2 : ∀ c ∈ k, c ≠ '=')
    (hkne : k ≠ []) (hv : ∀ c ∈ v, c ≠ '"') :
    fieldsQ '=' false [] (k ++ '=' :: '"' :: (v ++ ['"'])) [] = (false, [k, '"' :: (v ++ ['"'])]) :=
  fieldsQ_kv k v hk1 hk2 hkne hv

/-- … and the reported value is the text between the quotes -/
theorem C15_value_unquoted (v : List Char) (hv : ∀ c ∈ v, c ≠ '"') :
    trimQuotes ('"' :: (v ++ ['"'])) = v := trimQuotes_quoted v hv

/-- **Hex-encoded values are decoded to the original bytes**, for every byte string. -/
theorem C15_hex_roundtrip (bs : List Char) (h : ∀ c ∈ bs, c.toNat < 256) :
    decodePairs (hexEncode bs) = bs := decode_encode bs h

/-- a field run outside quotes does not disturb the toggle either -/
theorem C15_plain_run (sep : Char) (q : Bool) (s cur rest : List Char) (acc : List (List Char))
    (h1 : ∀ c ∈ s, c ≠ '"') (h2 : q = false → ∀ c ∈ s, c ≠ sep) :
    fieldsQ sep q cur (s ++ rest) acc = fieldsQ sep q (s.reverse ++ cur) rest acc :=
  fieldsQ_run sep q s cur rest acc h1 h2

/-- A value that holds a double quote breaks the splitting (the kernel hex-encodes such names,
so well-formed records never do): the hypothesis is necessary. -/
theorem C15_quote_in_value_breaks :
    (parseRecord id "a=\"x\"y z\" b=\"1\"".toList).2 ≠ [("a".toList, "x\"y z".toList), ("b".toList, "1".toList)] := by
  decide +kernel

/-- non-vacuity: a whole record, evaluated -/
example : (parseRecord id "apparmor=\"DENIED\" name=\"/a b=c#d\" pid=12 comm=\"x y\"".toList)
    = (false, [("apparmor".toList, "DENIED".toList), ("name".toList, "/a b=c#d".toList),
               ("pid".toList, "12".toList), ("comm".toList, "x y".toList)]) := by decide +kernel

end C15
