import AaVerif.LogsRecord
/-!
# C15 — aa-log reports each record's own field values, faithfully decoded

`Logs.parseRecord` is the model of the per-record part of `logs.New` (two nested
`strings.FieldsFunc` calls that share one `quoted` toggle), `Logs.decodeKey` / `decodePairs` of
`util.DecodeHexInString`; both are run against the real code on generated records.
-/
namespace C15
open Logs

/-- **Quoted values are kept whole**: `key="value"` is split into exactly the key and the quoted
value whatever the value holds besides `"` — spaces, `=`, `#`, `,`, non-ASCII bytes — and the
toggle is back to "outside quotes" afterwards, so nothing carries over to the next field. -/
theorem C15_quoted_value_whole (k v : List Char) (hk1 : ∀ c ∈ k, c ≠ '"') (hk2 : ∀ c ∈ k, c ≠ '=')
    (hkne : k ≠ []) (hv : ∀ c ∈ v, c ≠ '"') :
    fieldsQ '=' false [] (k ++ '=' :: '"' :: (v ++ ['"'])) [] = (false, [k, '"' :: (v ++ ['"'])]) :=
  fieldsQ_kv k v hk1 hk2 hkne hv

/-- … and the reported value is the text between the quotes -/
theorem C15_value_unquoted (v : List Char) (hv : ∀ c ∈ v, c ≠ '"') :
    trimQuotes ('"' :: (v ++ ['"'])) = v := trimQuotes_quoted v hv

/-- **Hex-encoded values are decoded to the original bytes**, for every byte string. -/
theorem C15_hex_roundtrip (bs : List Char) (h : ∀ c ∈ bs, c.toNat < 256) :
    decodePairs (hexEncode bs) = bs := decode_encode bs h

/-- a field run outside quotes does not disturb the toggle either -/
theorem C15_plain_run (sep : Char) (q : Bool) (s cur rest : List Char) (acc : List (List Char))
    (h1 : ∀ c ∈ s, c ≠ '"') (h2 : q = false → ∀ c ∈ s, c ≠ sep) :
    fieldsQ sep q cur (s ++ rest) acc = fieldsQ sep q (s.reverse ++ cur) rest acc :=
  fieldsQ_run sep q s cur rest acc h1 h2

/-- **Every field of a well-formed record, and only those.** For EVERY list of fields `key=value` with
pairwise different keys — values quoted (anything but a double quote inside: blanks, `=`, `#`, `,`, any
byte) or bare (no quote, blank or `=`) — joined by single blanks, the reported event is exactly the
association list of the record: each key with the value of its own field; the quote toggle is
outside quotes at the end, so nothing carries over into the next record. The only rewriting is
`resolve` (the path generalisation), applied to `profile`, `name` and `target` and to nothing else. -/
theorem C15_fields (resolve : List Char → List Char) (fs : List (List Char × Val)) (hne : fs ≠ [])
    (hs : ∀ f ∈ fs, KeyOk f.1 ∧ f.2.ok) (hnd : (fs.map (·.1)).Nodup) :
    parseRecord resolve (joinSpc (fs.map fieldText)) = (false, fs.map (fieldValue resolve)) :=
  parseRecord_fields resolve fs hne hs hnd

/-- a quoted value of a key that is not generalised is reported verbatim -/
theorem C15_quoted_verbatim (resolve : List Char → List Char) (k v : List Char) (hk : toClean.contains k = false)
    (hv : ∀ c ∈ v, c ≠ '"') : fieldValue resolve (k, .quoted v) = (k, v) := by
  unfold fieldValue
  simp only [hk, Bool.false_eq_true, if_false, Val.enc, trimQuotes_quoted v hv]

/-- … and a bare value too -/
theorem C15_bare_verbatim (resolve : List Char → List Char) (k v : List Char) (hk : toClean.contains k = false)
    (hv : ∀ c ∈ v, c ≠ '"') : fieldValue resolve (k, .bare v) = (k, v) := by
  have : trimQuotes v = v := by
    unfold trimQuotes
    cases v with
    | nil => rfl
    | cons c cs =>
      have hc : c ≠ '"' := hv c (by simp)
      have h1 : (c :: cs).dropWhile (· == '"') = c :: cs := by simp [hc]
      rw [h1]
      cases hr : (c :: cs).reverse with
      | nil => simp at hr
      | cons d ds =>
        have hd : d ∈ c :: cs := by
          have : d ∈ (c :: cs).reverse := by rw [hr]; simp
          exact List.mem_reverse.mp this
        have : (d :: ds).dropWhile (· == '"') = d :: ds := by simp [hv d hd]
        rw [this, ← hr]; simp
  unfold fieldValue
  simp only [hk, Bool.false_eq_true, if_false, Val.enc, this]

/-- the hypotheses of `C15_fields` on a record with quoted and bare values -/
example : (∀ f ∈ [("apparmor".toList, Val.quoted "DENIED".toList), ("name".toList, Val.quoted "/a b=c#d".toList),
      ("pid".toList, Val.bare "12".toList)], KeyOk f.1 ∧ f.2.ok) := by
  intro f hf
  simp only [List.mem_cons, List.not_mem_nil, or_false] at hf
  rcases hf with rfl | rfl | rfl <;> refine ⟨⟨by decide, by decide⟩, ?_⟩ <;> simp [Val.ok] <;> decide

/-- A value that holds a double quote breaks the splitting (the kernel hex-encodes such names,
so well-formed records never do): the hypothesis is necessary. -/
theorem C15_quote_in_value_breaks :
    (parseRecord id "a=\"x\"y z\" b=\"1\"".toList).2 ≠ [("a".toList, "x\"y z".toList), ("b".toList, "1".toList)] := by
  decide +kernel

/-- non-vacuity: a whole record, evaluated -/
example : (parseRecord id "apparmor=\"DENIED\" name=\"/a b=c#d\" pid=12 comm=\"x y\"".toList)
    = (false, [("apparmor".toList, "DENIED".toList), ("name".toList, "/a b=c#d".toList),
               ("pid".toList, "12".toList), ("comm".toList, "x y".toList)]) := by decide +kernel

end C15
