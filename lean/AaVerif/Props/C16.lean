import AaVerif.Aa.FromLog
import AaVerif.Aa.Meaning
import AaVerif.Generated.AaTables
/-!
# C16 — rules generated from logs cover the logged access

`Aa.addRule` is the model of `Profile.AddRule` and of every `new<Kind>FromLog`; it is run against
the real code on generated records of every class.  The theorems are the per-class coverage
statements; that the (generalised) path pattern still matches the logged name is decided on the
real pipeline with an AARE matcher over the variables the reference parser reads from the shipped
tunables.
-/
namespace C16
open Aa

abbrev T := Generated.aaTables
abbrev m2a := Generated.maskToAccess

/-- the access letter that grants one letter of a requested mask -/
def grant (acc : List (List Char)) (m2a : List (List Char × List Char)) (c : Char) : Option (List Char) :=
  if acc.contains [c] then some [c]
  else match m2a.find? (fun p => p.1 == [c]) with
    | some (_, v) => if v.isEmpty then none else some v
    | none => none

theorem mem_filterMap_of_all {α β : Type} (f : α → Option β) (l : List α) (h : (l.map f).all Option.isSome = true)
    (a : α) (ha : a ∈ l) : ∃ b, f a = some b ∧ b ∈ (l.map f).filterMap id := by
  have h1 := List.all_eq_true.mp h (f a) (List.mem_map.mpr ⟨a, ha, rfl⟩)
  cases hf : f a with
  | none => rw [hf] at h1; cases h1
  | some b =>
    refine ⟨b, rfl, ?_⟩
    rw [List.mem_filterMap]
    exact ⟨some b, List.mem_map.mpr ⟨a, ha, hf⟩, rfl⟩

/-- **The access letters cover the requested mask**: every letter of the mask is granted by a
letter of the generated rule (for any tables). -/
theorem C16_mask_covered (T : Tables) (m2a : List (List Char × List Char)) (mask : List Char)
    (acc : List (List Char)) (h : toAccessFileLog T m2a mask = some acc) :
    ∀ c ∈ mask, ∃ g, grant (reqValues T "file" "access") m2a c = some g ∧ g ∈ acc := by
  intro c hc
  unfold toAccessFileLog at h
  simp only at h
  split at h
  · rename_i hall
    cases h
    obtain ⟨b, hb, hmem⟩ := mem_filterMap_of_all _ mask hall c hc
    refine ⟨b, ?_, ?_⟩
    · unfold grant; exact hb
    · rw [mem_compact, mem_sortBy]; exact hmem
  · cases h

/-- on the regenerated tables: append, create and delete are granted by `w`, exec by `ix` -/
theorem C16_mask_table :
    grant (reqValues T "file" "access") m2a 'a' = some ['w'] ∧ grant (reqValues T "file" "access") m2a 'c' = some ['w'] ∧
    grant (reqValues T "file" "access") m2a 'd' = some ['w'] ∧ grant (reqValues T "file" "access") m2a 'x' = some ['i', 'x'] ∧
    grant (reqValues T "file" "access") m2a 'r' = some ['r'] ∧ grant (reqValues T "file" "access") m2a 'w' = some ['w'] ∧
    grant (reqValues T "file" "access") m2a 'm' = some ['m'] ∧ grant (reqValues T "file" "access") m2a 'k' = some ['k'] := by
  decide +kernel

/-- **`owner` is set only when the record's fsuid equals its ouid** -/
theorem C16_owner_only_if_same_uid (l : Log) (h : isOwner l = true) : l.get "fsuid" = l.get "ouid" := by
  unfold isOwner at h
  simp only [Bool.and_eq_true, beq_iff_eq] at h
  exact h.1.1.2

theorem C16_file_rule_fields (T : Tables) (m2a : List (List Char × List Char)) (l : Log) (r : Rule)
    (h : fileFromLog T m2a l = some r) :
    (r.kind = "file" ∧ r.fld 0 = .b (isOwner l) ∧ r.fld 1 = .s (l.get "name") ∧ r.fld 3 = .s (l.get "target")) ∨
    (r.kind = "link" ∧ r.fld 0 = .b (isOwner l) ∧ r.fld 2 = .s (l.get "name") ∧ r.fld 3 = .s (l.get "target")) := by
  unfold fileFromLog at h
  split at h
  · cases h
  · split at h
    · cases h; exact Or.inr ⟨rfl, rfl, rfl, rfl⟩
    · cases h; exact Or.inl ⟨rfl, rfl, rfl, rfl⟩

/-- **Qualifier**: a generated rule is an audit rule exactly for AUDIT records, and never a deny rule -/
theorem C16_qualifier (kind : String) (l : Log) (flds : List Fld) :
    (mkRule kind l flds).audit = (l.get "apparmor" == "AUDIT".toList) ∧ (mkRule kind l flds).accessType = [] :=
  ⟨rfl, rfl⟩

/-- **Signal records**: the signal and the peer appear in the rule -/
theorem C16_signal_fields (l : Log) (r : Rule) (h : signalFromLog T l = some r) :
    r.kind = "signal" ∧ r.fld 1 = .l [l.get "signal"] ∧ r.fld 2 = .s (l.get "peer") ∧
    ∃ a, accOf T l "signal" "requested_mask" = some a ∧ r.fld 0 = .l a := by
  unfold signalFromLog at h
  cases ha : accOf T l "signal" "requested_mask" with
  | none => simp [ha] at h
  | some a => simp [ha] at h; subst h; exact ⟨rfl, rfl, rfl, a, rfl, rfl⟩

/-- **Capability records**: the recorded capability is the rule's capability -/
theorem C16_capability_fields (l : Log) (r : Rule) (h : capabilityFromLog T l = some r) :
    r.kind = "capability" ∧ ∃ n, toValues T "capability" "name" (l.get "capname") = some n ∧ r.fld 0 = .l n := by
  unfold capabilityFromLog at h
  cases hv : toValues T "capability" "name" (l.get "capname") with
  | none => simp [hv] at h
  | some n => simp [hv] at h; subst h; exact ⟨rfl, n, rfl, rfl⟩

/-- **Network records**: family, type, protocol and addresses appear in the rule -/
theorem C16_network_fields (l : Log) :
    (networkFromLog l).kind = "network" ∧ (networkFromLog l).fld 3 = .s (l.get "family") ∧
    (networkFromLog l).fld 4 = .s (l.get "sock_type") ∧ (networkFromLog l).fld 5 = .s (l.get "protocol") ∧
    (networkFromLog l).fld 0 = .s (l.get "laddr") ∧ (networkFromLog l).fld 1 = .s (l.get "faddr") :=
  ⟨rfl, rfl, rfl, rfl, rfl, rfl⟩

/-- **Ptrace / unix records**: peer and socket address appear in the rule -/
theorem C16_ptrace_unix_fields (l : Log) (r : Rule) :
    (ptraceFromLog T l = some r → r.kind = "ptrace" ∧ r.fld 1 = .s (l.get "peer")) ∧
    (unixFromLog T l = some r → r.kind = "unix" ∧ r.fld 3 = .s (l.get "addr") ∧ r.fld 7 = .s (l.get "peer") ∧
      r.fld 8 = .s (l.get "peer_addr") ∧ r.fld 1 = .s (l.get "sock_type")) := by
  constructor
  · intro h
    unfold ptraceFromLog at h
    cases ha : accOf T l "ptrace" "requested_mask" with
    | none => simp [ha] at h
    | some a => simp [ha] at h; subst h; exact ⟨rfl, rfl⟩
  · intro h
    unfold unixFromLog at h
    cases ha : accOf T l "unix" "requested_mask" with
    | none => simp [ha] at h
    | some a => simp [ha] at h; subst h; exact ⟨rfl, rfl, rfl, rfl, rfl⟩

/-- **D-Bus records**: bus, path, interface, member and the peer (or bound) name appear in the rule -/
theorem C16_dbus_fields (l : Log) :
    (dbusFromLog l).kind = "dbus" ∧ (dbusFromLog l).fld 1 = .s (l.get "bus") ∧ (dbusFromLog l).fld 3 = .s (l.get "path") ∧
    (dbusFromLog l).fld 4 = .s (l.get "interface") ∧ (dbusFromLog l).fld 5 = .s (l.get "member") ∧
    (dbusFromLog l).fld 0 = .l [l.get "mask"] ∧
    ((dbusFromLog l).fld 2 = .s (l.get "name") ∨ (dbusFromLog l).fld 6 = .s (l.get "name")) := by
  refine ⟨rfl, rfl, rfl, rfl, rfl, rfl, ?_⟩
  by_cases hb : l.get "mask" = ['b', 'i', 'n', 'd']
  · left
    simp [dbusFromLog, mkRule, Rule.fld]
    intro hn; exact absurd hb hn
  · right
    simp [dbusFromLog, mkRule, Rule.fld]
    intro hn; exact absurd hn hb

/-- **Mount records**: source, mount point and file system type appear in the rule -/
theorem C16_mount_fields (l : Log) (mc : List Fld) (hm : mountConds T l = some mc) :
    mc.head? = some (.s (l.get "fstype")) := by
  unfold mountConds at hm
  split at hm
  · cases hv : toValues T "mount" "flags" (l.get "flags") with
    | none => simp [hv] at hm
    | some o => simp [hv] at hm; subst hm; rfl
  · cases hm; rfl

/-- non-vacuity: a file record -/
example : addRule T m2a [("apparmor".toList, "DENIED".toList), ("operation".toList, "open".toList), ("class".toList, "file".toList),
    ("name".toList, "/etc/x".toList), ("requested_mask".toList, "rwc".toList), ("fsuid".toList, "1000".toList), ("ouid".toList, "1000".toList)]
  = some [{ kind := "file", flds := [.b true, .s "/etc/x".toList, .l [['r'], ['w']], .s []] }] := by decide +kernel

/-- **A covered access is not discarded by the merge** (aa-log merges, sorts and formats the rules of a
profile before printing them): whatever (kind, qualifier, subject, permission) fact one of the rules
built from the records grants, the merged list still grants it — and grants nothing that no rule
granted. For every list of rules over `Dom10` (rules built from kernel records name their permissions
and hold the record's strings; records with upper-case letters or blanks in a name fall in C10's known
classes). -/
theorem C16_merge_keeps_coverage (l : List (Option Rule))
    (hdom : ∀ o ∈ l, DomO (Dom10 T.stringAlphabet) o) (r : Rule) (hr : some r ∈ l) (f : Fact) (hf : den r f) :
    ∃ r' , some r' ∈ mergeRules T l ∧ den r' f := by
  have hal : ∀ c ∈ T.stringAlphabet, lowerC c = c := by decide +kernel
  have := (mergeRules_meaning T hal l hdom f).mpr ⟨some r, hr, hf⟩
  obtain ⟨o, ho, hd⟩ := this
  cases o with
  | none => exact absurd hd (by simp [denO])
  | some r' => exact ⟨r', ho, hd⟩

end C16
